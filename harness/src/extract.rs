//! C07 — typed path, query and body extraction delivers exact values or stops the handler.
//!
//! Scenario (vocabulary of specs/Extract.tla):
//!   {"fam", "route":["S"|"P"..], "mount":k, "style":"none"|"bare"|"tuple", "ptys":[param types], "items":[{"x","opt","ty"}..],
//!    "segs":[[segment tokens]..] (one per "P" of the route), "rq":{"q","ct":{"mime","var"},"body":{"fmt","pl"},"auth","mf","ck"}, "seed"}
//! The handler signature is looked up in a compiled catalogue (`catalogue!` below, mirror of ParamSigs / ItemSigs of the spec), the
//! application is assembled through `ohkami::__verif` (flat, or split over a nested `By` mount), the request is written as raw bytes
//! (concretisation tables below, representative chosen by the seed) and goes through the real `Request::read`, the real router and
//! the real `Response::send`.  The handler records the typed values it received in a thread-local log; the observation is that log
//! projected back onto the abstract vocabulary, plus the status.  Nothing is judged here: specs/Trace_Extract.tla decides.
use crate::util::{self, arr, s, Rng};
use ohkami::__verif as v;
use ohkami::format::{Multipart, Query, Text, URLEncoded, JSON};
use ohkami::handler::IntoHandler;
use ohkami::prelude::*;
use ohkami::typed::header as th;
use ohkami::{FromParam, FromRequest};
use serde_json::{json, Value};
use std::borrow::Cow;
use std::cell::RefCell;

// ------------------------------------------------------------------------------------------------ what a handler received
#[derive(Clone, Debug, PartialEq)]
pub enum Got { Int(String), Str(String), AN(String, u32), AS(String, String), AO(String, Option<u32>), OO(Option<String>, Option<u32>), Text(String), Hdr(String), Num(u32), Absent, Present(Box<Got>) }
thread_local! { static LOG: RefCell<Vec<Vec<Got>>> = const { RefCell::new(Vec::new()) }; }
fn record(g: Vec<Got>) { LOG.with(|l| l.borrow_mut().push(g)) }

#[derive(Deserialize, ohkami::openapi::Schema)] pub struct AN { a: String, n: u32 }
#[derive(Deserialize, ohkami::openapi::Schema)] pub struct AO { a: String, n: Option<u32> }
#[derive(Deserialize, ohkami::openapi::Schema)] pub struct OO { a: Option<String>, n: Option<u32> }
#[derive(Deserialize, ohkami::openapi::Schema)] pub struct AS { a: String, n: String }
/// a fallible typed header value of the harness (std `u32::from_str`), so that "present but invalid" exists for headers
pub struct HNum(u32);
impl ohkami::openapi::Schema for HNum { fn schema() -> impl Into<ohkami::openapi::schema::SchemaRef> { ohkami::openapi::integer() } }
impl<'r> th::FromHeader<'r> for HNum {
    type Error = Response;
    fn from_header(raw: &'r str) -> Result<Self, Response> { raw.parse::<u32>().map(HNum).map_err(|_| Response::BadRequest()) }
}

pub trait EchoP: FromParam<'static> + Send + 'static { fn echo(&self) -> Got; }
macro_rules! echo_int { ($($t:ty),*) => { $( impl EchoP for $t { fn echo(&self) -> Got { Got::Int(self.to_string()) } } )* } }
echo_int!(u8, u16, u32, u64, usize, i8, i16, i32, i64, isize);
impl EchoP for String { fn echo(&self) -> Got { Got::Str(self.clone()) } }
impl EchoP for &'static str { fn echo(&self) -> Got { Got::Str(self.to_string()) } }
impl EchoP for Cow<'static, str> { fn echo(&self) -> Got { Got::Str(self.to_string()) } }

pub trait Canon { fn canon(&self) -> Got; }
impl Canon for AN { fn canon(&self) -> Got { Got::AN(self.a.clone(), self.n) } }
impl Canon for AS { fn canon(&self) -> Got { Got::AS(self.a.clone(), self.n.clone()) } }
impl Canon for AO { fn canon(&self) -> Got { Got::AO(self.a.clone(), self.n) } }
impl Canon for OO { fn canon(&self) -> Got { Got::OO(self.a.clone(), self.n) } }
pub trait EchoI: FromRequest<'static> + Send + 'static { fn echo(&self) -> Got; }
impl<T: Canon + ohkami::openapi::Schema + Send + 'static> EchoI for Query<T> where Query<T>: FromRequest<'static> { fn echo(&self) -> Got { self.0.canon() } }
impl<T: Canon + ohkami::openapi::Schema + Send + 'static> EchoI for JSON<T> where JSON<T>: FromRequest<'static> { fn echo(&self) -> Got { self.0.canon() } }
impl<T: Canon + ohkami::openapi::Schema + Send + 'static> EchoI for URLEncoded<T> where URLEncoded<T>: FromRequest<'static> { fn echo(&self) -> Got { self.0.canon() } }
impl<T: Canon + ohkami::openapi::Schema + Send + 'static> EchoI for Multipart<T> where Multipart<T>: FromRequest<'static> { fn echo(&self) -> Got { self.0.canon() } }
impl<T: Canon + ohkami::openapi::Schema + Send + 'static> EchoI for th::Cookie<T> where th::Cookie<T>: FromRequest<'static> { fn echo(&self) -> Got { self.0.canon() } }
impl EchoI for Text<String> { fn echo(&self) -> Got { Got::Text(self.0.clone()) } }
impl EchoI for th::Authorization<String> { fn echo(&self) -> Got { Got::Hdr(self.0.clone()) } }
impl EchoI for th::MaxForwards<HNum> { fn echo(&self) -> Got { Got::Num((self.0).0) } }
impl<I: EchoI> EchoI for Option<I> where Option<I>: FromRequest<'static> {
    fn echo(&self) -> Got { match self { None => Got::Absent, Some(i) => Got::Present(Box::new(i.echo())) } }
}

// ------------------------------------------------------------------------------------------------ handler shapes (one per IntoHandler impl)
fn reg<T, H: IntoHandler<T>>(hs: v::HandlerSet, m: &str, h: H) -> v::HandlerSet {
    match m { "POST" => hs.POST(h), "PUT" => hs.PUT(h), "PATCH" => hs.PATCH(h), "DELETE" => hs.DELETE(h), _ => hs.GET(h) }
}
macro_rules! hfn {
    ($name:ident <$($G:ident : $B:ident),*> marker($m:ty) args($($a:pat => $t:ty),*) echo($($e:expr),*)) => {
        fn $name<$($G: $B),*>(hs: v::HandlerSet, m: &str) -> v::HandlerSet {
            reg::<$m, _>(hs, m, |$($a: $t),*| async move { record(vec![$($e),*]); String::from("ran") })
        }
    };
}
hfn!(h_n_i0<> marker(fn() -> String) args() echo());
hfn!(h_n_i1<I1: EchoI> marker(fn(I1) -> String) args(i1 => I1) echo(i1.echo()));
hfn!(h_n_i2<I1: EchoI, I2: EchoI> marker(fn(I1, I2) -> String) args(i1 => I1, i2 => I2) echo(i1.echo(), i2.echo()));
hfn!(h_n_i3<I1: EchoI, I2: EchoI, I3: EchoI> marker(fn(I1, I2, I3) -> String) args(i1 => I1, i2 => I2, i3 => I3) echo(i1.echo(), i2.echo(), i3.echo()));
hfn!(h_n_i4<I1: EchoI, I2: EchoI, I3: EchoI, I4: EchoI> marker(fn(I1, I2, I3, I4) -> String) args(i1 => I1, i2 => I2, i3 => I3, i4 => I4) echo(i1.echo(), i2.echo(), i3.echo(), i4.echo()));
hfn!(h_b_i0<P: EchoP> marker(fn((P,)) -> String) args(p => P) echo(p.echo()));
hfn!(h_b_i1<P: EchoP, I1: EchoI> marker(fn(((P,),), I1) -> String) args(p => P, i1 => I1) echo(p.echo(), i1.echo()));
hfn!(h_b_i2<P: EchoP, I1: EchoI, I2: EchoI> marker(fn(((P,),), I1, I2) -> String) args(p => P, i1 => I1, i2 => I2) echo(p.echo(), i1.echo(), i2.echo()));
hfn!(h_b_i3<P: EchoP, I1: EchoI, I2: EchoI, I3: EchoI> marker(fn(((P,),), I1, I2, I3) -> String) args(p => P, i1 => I1, i2 => I2, i3 => I3) echo(p.echo(), i1.echo(), i2.echo(), i3.echo()));
hfn!(h_b_i4<P: EchoP, I1: EchoI, I2: EchoI, I3: EchoI, I4: EchoI> marker(fn(((P,),), I1, I2, I3, I4) -> String) args(p => P, i1 => I1, i2 => I2, i3 => I3, i4 => I4) echo(p.echo(), i1.echo(), i2.echo(), i3.echo(), i4.echo()));
hfn!(h_t1_i0<P: EchoP> marker(fn(((P,),)) -> String) args((p,) => (P,)) echo(p.echo()));
hfn!(h_t1_i1<P: EchoP, I1: EchoI> marker(fn((P,), I1) -> String) args((p,) => (P,), i1 => I1) echo(p.echo(), i1.echo()));
hfn!(h_t1_i2<P: EchoP, I1: EchoI, I2: EchoI> marker(fn((P,), I1, I2) -> String) args((p,) => (P,), i1 => I1, i2 => I2) echo(p.echo(), i1.echo(), i2.echo()));
hfn!(h_t1_i3<P: EchoP, I1: EchoI, I2: EchoI, I3: EchoI> marker(fn((P,), I1, I2, I3) -> String) args((p,) => (P,), i1 => I1, i2 => I2, i3 => I3) echo(p.echo(), i1.echo(), i2.echo(), i3.echo()));
hfn!(h_t1_i4<P: EchoP, I1: EchoI, I2: EchoI, I3: EchoI, I4: EchoI> marker(fn((P,), I1, I2, I3, I4) -> String) args((p,) => (P,), i1 => I1, i2 => I2, i3 => I3, i4 => I4) echo(p.echo(), i1.echo(), i2.echo(), i3.echo(), i4.echo()));
hfn!(h_t2_i0<P: EchoP, R: EchoP> marker(fn(((P, R),)) -> String) args((p, r) => (P, R)) echo(p.echo(), r.echo()));
hfn!(h_t2_i1<P: EchoP, R: EchoP, I1: EchoI> marker(fn((P, R), I1) -> String) args((p, r) => (P, R), i1 => I1) echo(p.echo(), r.echo(), i1.echo()));
hfn!(h_t2_i2<P: EchoP, R: EchoP, I1: EchoI, I2: EchoI> marker(fn((P, R), I1, I2) -> String) args((p, r) => (P, R), i1 => I1, i2 => I2) echo(p.echo(), r.echo(), i1.echo(), i2.echo()));
hfn!(h_t2_i3<P: EchoP, R: EchoP, I1: EchoI, I2: EchoI, I3: EchoI> marker(fn((P, R), I1, I2, I3) -> String) args((p, r) => (P, R), i1 => I1, i2 => I2, i3 => I3) echo(p.echo(), r.echo(), i1.echo(), i2.echo(), i3.echo()));
hfn!(h_t2_i4<P: EchoP, R: EchoP, I1: EchoI, I2: EchoI, I3: EchoI, I4: EchoI> marker(fn((P, R), I1, I2, I3, I4) -> String) args((p, r) => (P, R), i1 => I1, i2 => I2, i3 => I3, i4 => I4) echo(p.echo(), r.echo(), i1.echo(), i2.echo(), i3.echo(), i4.echo()));

// ------------------------------------------------------------------------------------------------ the catalogue (mirror of Extract.tla ParamSigs \cup ItemSigs)
macro_rules! catalogue {
    ($( $tag:literal => $f:ident :: < $($t:ty),* > ; )*) => {
        pub const TAGS: &[&str] = &[$($tag),*];
        fn build(tag: &str, hs: v::HandlerSet, m: &str) -> Option<v::HandlerSet> {
            Some(match tag { $( $tag => $f::<$($t),*>(hs, m), )* _ => return None })
        }
    };
}
catalogue! {
    "none()" => h_n_i0::<>;
    "bare(u8)" => h_b_i0::<u8>;
    "bare(u16)" => h_b_i0::<u16>;
    "bare(u32)" => h_b_i0::<u32>;
    "bare(u64)" => h_b_i0::<u64>;
    "bare(usize)" => h_b_i0::<usize>;
    "bare(i8)" => h_b_i0::<i8>;
    "bare(i16)" => h_b_i0::<i16>;
    "bare(i32)" => h_b_i0::<i32>;
    "bare(i64)" => h_b_i0::<i64>;
    "bare(isize)" => h_b_i0::<isize>;
    "bare(String)" => h_b_i0::<String>;
    "bare(Cow)" => h_b_i0::<Cow<'static, str>>;
    "bare(str)" => h_b_i0::<&'static str>;
    "tuple(u8)" => h_t1_i0::<u8>;
    "tuple(u16)" => h_t1_i0::<u16>;
    "tuple(u32)" => h_t1_i0::<u32>;
    "tuple(u64)" => h_t1_i0::<u64>;
    "tuple(usize)" => h_t1_i0::<usize>;
    "tuple(i8)" => h_t1_i0::<i8>;
    "tuple(i16)" => h_t1_i0::<i16>;
    "tuple(i32)" => h_t1_i0::<i32>;
    "tuple(i64)" => h_t1_i0::<i64>;
    "tuple(isize)" => h_t1_i0::<isize>;
    "tuple(String)" => h_t1_i0::<String>;
    "tuple(Cow)" => h_t1_i0::<Cow<'static, str>>;
    "tuple(str)" => h_t1_i0::<&'static str>;
    "tuple(String,String)" => h_t2_i0::<String, String>;
    "tuple(String,u32)" => h_t2_i0::<String, u32>;
    "tuple(u32,String)" => h_t2_i0::<u32, String>;
    "tuple(str,u64)" => h_t2_i0::<&'static str, u64>;
    "tuple(Cow,i64)" => h_t2_i0::<Cow<'static, str>, i64>;
    "tuple(i8,u8)" => h_t2_i0::<i8, u8>;
    "tuple(u16,i16)" => h_t2_i0::<u16, i16>;
    "tuple(i32,str)" => h_t2_i0::<i32, &'static str>;
    "tuple(usize,isize)" => h_t2_i0::<usize, isize>;
    "tuple(u64,Cow)" => h_t2_i0::<u64, Cow<'static, str>>;
    "tuple(isize,usize)" => h_t2_i0::<isize, usize>;
    "tuple(i64,i32)" => h_t2_i0::<i64, i32>;
    "tuple(u8,i8)" => h_t2_i0::<u8, i8>;
    "tuple(i16,u16)" => h_t2_i0::<i16, u16>;
    "none()|Query<AN>" => h_n_i1::<Query<AN>>;
    "none()|?Query<AN>" => h_n_i1::<Option<Query<AN>>>;
    "none()|Query<AO>" => h_n_i1::<Query<AO>>;
    "none()|Query<OO>" => h_n_i1::<Query<OO>>;
    "none()|JSON<AN>" => h_n_i1::<JSON<AN>>;
    "none()|?JSON<AN>" => h_n_i1::<Option<JSON<AN>>>;
    "none()|JSON<AO>" => h_n_i1::<JSON<AO>>;
    "none()|?JSON<AO>" => h_n_i1::<Option<JSON<AO>>>;
    "none()|URLEncoded<AN>" => h_n_i1::<URLEncoded<AN>>;
    "none()|?URLEncoded<AN>" => h_n_i1::<Option<URLEncoded<AN>>>;
    "none()|Multipart<AS>" => h_n_i1::<Multipart<AS>>;
    "none()|?Multipart<AS>" => h_n_i1::<Option<Multipart<AS>>>;
    "none()|Text<S>" => h_n_i1::<Text<String>>;
    "none()|?Text<S>" => h_n_i1::<Option<Text<String>>>;
    "none()|Auth<S>" => h_n_i1::<th::Authorization<String>>;
    "none()|?Auth<S>" => h_n_i1::<Option<th::Authorization<String>>>;
    "none()|MaxFwd<N>" => h_n_i1::<th::MaxForwards<HNum>>;
    "none()|?MaxFwd<N>" => h_n_i1::<Option<th::MaxForwards<HNum>>>;
    "none()|Cookie<AN>" => h_n_i1::<th::Cookie<AN>>;
    "none()|?Cookie<AN>" => h_n_i1::<Option<th::Cookie<AN>>>;
    "none()|Query<AN>|JSON<AN>" => h_n_i2::<Query<AN>, JSON<AN>>;
    "none()|?Query<AN>|?JSON<AN>" => h_n_i2::<Option<Query<AN>>, Option<JSON<AN>>>;
    "none()|Query<AN>|?Text<S>" => h_n_i2::<Query<AN>, Option<Text<String>>>;
    "none()|Auth<S>|JSON<AN>" => h_n_i2::<th::Authorization<String>, JSON<AN>>;
    "none()|?Auth<S>|?Cookie<AN>" => h_n_i2::<Option<th::Authorization<String>>, Option<th::Cookie<AN>>>;
    "none()|Cookie<AN>|URLEncoded<AN>" => h_n_i2::<th::Cookie<AN>, URLEncoded<AN>>;
    "none()|?JSON<AN>|?Text<S>" => h_n_i2::<Option<JSON<AN>>, Option<Text<String>>>;
    "none()|MaxFwd<N>|?Multipart<AS>" => h_n_i2::<th::MaxForwards<HNum>, Option<Multipart<AS>>>;
    "none()|?MaxFwd<N>|Query<AN>" => h_n_i2::<Option<th::MaxForwards<HNum>>, Query<AN>>;
    "none()|Query<AN>|Auth<S>|JSON<AN>" => h_n_i3::<Query<AN>, th::Authorization<String>, JSON<AN>>;
    "none()|?Query<AN>|?Auth<S>|?URLEncoded<AN>" => h_n_i3::<Option<Query<AN>>, Option<th::Authorization<String>>, Option<URLEncoded<AN>>>;
    "none()|Query<AN>|Auth<S>|Cookie<AN>|JSON<AN>" => h_n_i4::<Query<AN>, th::Authorization<String>, th::Cookie<AN>, JSON<AN>>;
    "none()|?Query<AN>|?MaxFwd<N>|?Cookie<AN>|?Text<S>" => h_n_i4::<Option<Query<AN>>, Option<th::MaxForwards<HNum>>, Option<th::Cookie<AN>>, Option<Text<String>>>;
    "bare(u32)|Query<AN>" => h_b_i1::<u32, Query<AN>>;
    "bare(String)|JSON<AN>" => h_b_i1::<String, JSON<AN>>;
    "bare(i64)|?Query<AN>|?JSON<AN>" => h_b_i2::<i64, Option<Query<AN>>, Option<JSON<AN>>>;
    "bare(u8)|Auth<S>|Text<S>" => h_b_i2::<u8, th::Authorization<String>, Text<String>>;
    "bare(u16)|?Query<AN>|Auth<S>|JSON<AN>" => h_b_i3::<u16, Option<Query<AN>>, th::Authorization<String>, JSON<AN>>;
    "bare(isize)|Query<AN>|?Auth<S>|?MaxFwd<N>|?URLEncoded<AN>" => h_b_i4::<isize, Query<AN>, Option<th::Authorization<String>>, Option<th::MaxForwards<HNum>>, Option<URLEncoded<AN>>>;
    "tuple(u32)|Query<AN>" => h_t1_i1::<u32, Query<AN>>;
    "tuple(u32)|Query<AN>|JSON<AN>" => h_t1_i2::<u32, Query<AN>, JSON<AN>>;
    "tuple(String)|?JSON<AN>" => h_t1_i1::<String, Option<JSON<AN>>>;
    "tuple(i8)|?Auth<S>|?Cookie<AN>|URLEncoded<AN>" => h_t1_i3::<i8, Option<th::Authorization<String>>, Option<th::Cookie<AN>>, URLEncoded<AN>>;
    "tuple(str)|Query<AN>|Auth<S>|Cookie<AN>|JSON<AN>" => h_t1_i4::<&'static str, Query<AN>, th::Authorization<String>, th::Cookie<AN>, JSON<AN>>;
    "tuple(u32,String)|Query<AN>" => h_t2_i1::<u32, String, Query<AN>>;
    "tuple(String,i8)|JSON<AN>" => h_t2_i1::<String, i8, JSON<AN>>;
    "tuple(u32,String)|Query<AN>|JSON<AN>" => h_t2_i2::<u32, String, Query<AN>, JSON<AN>>;
    "tuple(String,String)|?Auth<S>|?URLEncoded<AN>" => h_t2_i2::<String, String, Option<th::Authorization<String>>, Option<URLEncoded<AN>>>;
    "tuple(u64,u16)|?Query<AN>|MaxFwd<N>|?Text<S>" => h_t2_i3::<u64, u16, Option<Query<AN>>, th::MaxForwards<HNum>, Option<Text<String>>>;
    "tuple(i32,Cow)|Query<AN>|Auth<S>|Cookie<AN>|?JSON<AN>" => h_t2_i4::<i32, Cow<'static, str>, Query<AN>, th::Authorization<String>, th::Cookie<AN>, Option<JSON<AN>>>;
}

fn tag_of(scn: &Value) -> String {
    let mut t = format!("{}({})", s(&scn["style"]), arr(&scn["ptys"]).iter().map(s).collect::<Vec<_>>().join(","));
    for it in arr(&scn["items"]) {
        t.push('|'); if it["opt"].as_bool().unwrap_or(false) { t.push('?') }
        t.push_str(s(&it["x"])); t.push('<'); t.push_str(s(&it["ty"])); t.push('>');
    }
    t
}

// ------------------------------------------------------------------------------------------------ concretisation tables (trusted base)
const LETTERS: [char; 4] = ['a', 'x', 'q', '_'];
const ELETTERS: [(&str, char); 3] = [("%41", 'A'), ("%5A", 'Z'), ("%4d", 'M')];
const MBS: [(&str, char); 4] = [("%C3%BC", 'ü'), ("%E3%81%82", 'あ'), ("%F0%9F%98%80", '😀'), ("%c3%bc", 'ü')];
const BADFF: [&str; 3] = ["%FF", "%FE", "%ff"];
const BADC3: [&str; 3] = ["%C3", "%E3", "%F0"];
const STATICS: [&str; 4] = ["x", "api", "t", "users"];

/// decimal text of a bound literal (independent of the table in Extract.tla: computed with i128)
fn literal(tok: &str) -> Option<String> {
    let bits = |w: &str| -> Option<(bool, u32)> { let (sg, b) = w.split_at(1); Some((sg == "i", b.parse().ok()?)) };
    let (kind, w) = tok.split_once(':').unwrap_or((tok, ""));
    let max = |w: &str| bits(w).map(|(sg, b)| if sg { (1i128 << (b - 1)) - 1 } else { (1i128 << b) - 1 });
    let min = |w: &str| bits(w).map(|(sg, b)| if sg { -(1i128 << (b - 1)) } else { 0 });
    Some(match kind {
        "MAX" => max(w)?, "MAX1" => max(w)? + 1, "MIN" => min(w)?, "MIN1" => min(w)? - 1,
        "P2W1" => (1i128 << w.parse::<u32>().ok()?) + 1,
        "NEG1" => -1, "W64M128" => (1i128 << 64) - 128, "W64P255" => (1i128 << 64) + 255,
        "E20" => 10i128.pow(20), "NE20" => -(10i128.pow(20)), "W65" => 1i128 << 65,
        _ => return None,
    }.to_string())
}

pub struct Tab { letter: char, eletter: (&'static str, char), mb: (&'static str, char), ff: &'static str, c3: &'static str, lower: bool }
impl Tab {
    fn new(seed: u64) -> Self {
        let mut r = Rng::new(seed ^ 0x7e57);
        Tab { letter: *r.pick(&LETTERS), eletter: *r.pick(&ELETTERS), mb: *r.pick(&MBS), ff: *r.pick(&BADFF), c3: *r.pick(&BADC3), lower: r.chance(1, 3) }
    }
    /// concrete spelling of one segment token as it is written into the request target
    fn spell(&self, tok: &str) -> Option<String> {
        let hx = |x: &str| if self.lower { x.to_lowercase() } else { x.to_string() };
        Some(match tok {
            "0" | "1" | "7" | "9" | "-" | "+" => tok.to_string(),
            "L" => self.letter.to_string(),
            "e0" => "%30".into(), "e7" => "%37".into(), "eL" => self.eletter.0.into(), "sp" => "%20".into(),
            "mb" => self.mb.0.into(), "sl" => hx("%2F"), "pc" => "%25".into(), "ff" => self.ff.into(), "c3" => self.c3.into(), "bz" => "%GG".into(),
            _ => return literal(tok),
        })
    }
}
/// abstract character of a received character ("?" = not an image of any token)
fn unchar(c: char) -> &'static str {
    match c {
        '0' => "0", '1' => "1", '2' => "2", '3' => "3", '4' => "4", '5' => "5", '6' => "6", '7' => "7", '8' => "8", '9' => "9",
        '-' => "-", '+' => "+", ' ' => " ", '/' => "/", '%' => "%", 'G' => "G", '\u{FFFD}' => "R",
        c if LETTERS.contains(&c) => "L",
        c if ELETTERS.iter().any(|e| e.1 == c) => "E",
        c if MBS.iter().any(|e| e.1 == c) => "U",
        _ => "?",
    }
}
fn chars_json(t: &str) -> Value { json!(t.chars().map(|c| c.to_string()).collect::<Vec<_>>()) }

struct Vals { a1: &'static str, n1: u32, a2: &'static str, a2enc: &'static str, n2: u32, h1: &'static str, h2: &'static str, t1: &'static str, t2: &'static str, bnd: &'static str }
fn vals(seed: u64) -> Vals {
    let mut r = Rng::new(seed ^ 0xa11);
    let (a2, a2enc) = *r.pick(&[("yz", "yz"), ("w\u{f6}rld", "w%C3%B6rld"), ("B2", "B2")]);
    Vals { a1: *r.pick(&["x", "hello", "A1"]), n1: *r.pick(&[7u32, 0, 42]), a2, a2enc, n2: *r.pick(&[4294967295u32, 65536, 19]),
           h1: *r.pick(&["Bearer abc.def", "tok"]), h2: *r.pick(&["Basic dXNlcjpwdw==", "Bearer zz"]),
           t1: *r.pick(&["hello", "a=x&n=7", "{}"]), t2: *r.pick(&["w\u{f6}rld \u{2713}", "line1\nline2"]), bnd: *r.pick(&["----b0undary", "X", "AaB03x"]) }
}

/// body / query / cookie text of a payload class in a format
fn payload(fmt: &str, pl: &str, vs: &Vals, r: &mut Rng, ascii_only: bool) -> Vec<u8> {
    let (a, aenc, n) = match pl { "v2" => (if ascii_only { "yz" } else { vs.a2 }, if ascii_only { "yz" } else { vs.a2enc }, vs.n2), _ => (vs.a1, vs.a1, vs.n1) };
    let swap = r.chance(1, 2);
    let badn = *r.pick(&BADN);
    match fmt {
        "JSON" => {
            let (fa, fnn) = (format!("\"a\":\"{a}\""), format!("\"n\":{n}"));
            let pair = |x: &str, y: &str| if swap { format!("{{{y},{x}}}") } else if r_ws(n) { format!("{{ {x} , {y} }}") } else { format!("{{{x},{y}}}") };
            match pl {
                "v1" | "v2" => pair(&fa, &fnn),
                "extra" => if swap { format!("{{\"zz\":true,{fa},{fnn}}}") } else { format!("{{{fa},{fnn},\"zz\":[1]}}") },
                "syntax" => r.pick(&[format!("{{{fa},{fnn}"), format!("{{{fa},,{fnn}}}"), format!("{{{fa},{fnn}}}}}"), format!("{{{fa} {fnn}}}")]).clone(),
                "wrongtype" => r.pick(&[format!("{{{fa},\"n\":\"{n}\"}}"), format!("{{{fa},\"n\":-1}}"), format!("{{{fa},\"n\":4294967296}}"), format!("{{{fa},\"n\":7.5}}"), format!("{{\"a\":5,{fnn}}}")]).clone(),
                "missing" => format!("{{{fa}}}"),
                _ => String::new(),
            }.into_bytes()
        }
        "URLEncoded" | "Query" | "Cookie" => {
            let sep = if fmt == "Cookie" { "; " } else { "&" };
            // (in a query or a form a field name may be written with percent-escapes as well: the name it denotes is the decoded one)
            let (ka, kn) = if fmt != "Cookie" && r.chance(1, 3) { (*r.pick(&["%61", "a"]), *r.pick(&["%6e", "%6E"])) } else { ("a", "n") };
            let (fa, fnn) = (format!("{ka}={aenc}"), format!("{kn}={n}"));
            match pl {
                "v1" | "v2" => if swap { format!("{fnn}{sep}{fa}") } else { format!("{fa}{sep}{fnn}") },
                "extra" => if swap { format!("zz=1{sep}{fa}{sep}{fnn}") } else { format!("{fa}{sep}{fnn}{sep}zz=1") },
                "syntax" => format!("{fa}{sep}{kn}"),
                "wrongtype" => if swap { format!("{kn}={badn}{sep}{fa}") } else { format!("{fa}{sep}{kn}={badn}") },
                "missing" => fa,
                _ => String::new(),
            }.into_bytes()
        }
        "Multipart" => {
            let b = vs.bnd;
            let part = |name: &str, val: &str| format!("--{b}\r\nContent-Disposition: form-data; name=\"{name}\"\r\n\r\n{val}\r\n");
            let (pa, pn) = (part("a", a), part("n", &n.to_string()));
            match pl {
                "v1" | "v2" => if swap { format!("{pn}{pa}--{b}--\r\n") } else { format!("{pa}{pn}--{b}--\r\n") },
                "extra" => format!("{pa}{}{pn}--{b}--\r\n", part("zz", "1")),
                "syntax" => r.pick(&[format!("garbage without any boundary"), format!("--{b}\r\nContent-Disposition: form-data\r\n\r\nq\r\n--{b}--\r\n")]).clone(),
                "wrongtype" => format!("{pa}{}--{b}--\r\n", part("n", badn)),
                "missing" => format!("{pa}--{b}--\r\n"),
                _ => String::new(),
            }.into_bytes()
        }
        _ /* Text */ => match pl {
            "v1" => vs.t1.as_bytes().to_vec(),
            "v2" => vs.t2.as_bytes().to_vec(),
            "nonutf8" => r.pick(&[vec![0x66u8, 0xFF, 0x6f], vec![0xC3, 0x28], vec![0x61, 0x80]]).clone(),
            _ => vec![],
        },
    }
}
const BADN: [&str; 4] = ["abc", "-1", "4294967296", "7x"];
fn r_ws(n: u32) -> bool { n % 2 == 0 }

fn content_type(mime: &str, var: &str, vs: &Vals, r: &mut Rng) -> Option<String> {
    let base = match mime { "JSON" => "application/json", "URLEncoded" => "application/x-www-form-urlencoded", "Multipart" => "multipart/form-data",
                            "Text" => "text/plain", // "another type": unrelated types, and strict prefixes of the types the extractors expect (a truncated type is not that type)
                            "XML" => *r.pick(&["application/xml", "image/png", "application/octet-stream", "text/html",
                                               "text", "text/", "text/plai", "application", "application/js", "application/x-www-form", "multipart/form-da", "multipart"]), _ => return None };
    let bnd = if mime == "Multipart" { format!("; boundary={}", vs.bnd) } else { String::new() };
    Some(match var {
        "params" => if mime == "Multipart" { format!("{base}; charset=utf-8{bnd}") } else { format!("{base}{}", *r.pick(&["; charset=utf-8", ";charset=UTF-8", "; charset=utf-8; x=y"])) },
        "case" => format!("{}{bnd}", match mime { "JSON" => "Application/JSON", "URLEncoded" => "Application/X-WWW-Form-Urlencoded", "Multipart" => "Multipart/Form-Data", _ => "Text/Plain" }),
        _ => format!("{base}{bnd}"),
    })
}

// ------------------------------------------------------------------------------------------------ projection of received values
fn project(g: &Got, vs: &Vals, body: &[u8]) -> (Value, &'static str) {
    // returns ([value names], kind)
    let name_an = |a: &str, n: Option<u32>| -> String {
        let is1 = a == vs.a1; let is2 = a == vs.a2 || a == "yz";
        match n { Some(n) if is1 && n == vs.n1 => "v1".into(), Some(n) if is2 && n == vs.n2 => "v2".into(),
                  None if is1 => "v1-n".into(), None if is2 => "v2-n".into(), _ => format!("other:{a}/{n:?}") }
    };
    match g {
        Got::Int(d) => (chars_json(d), "int"),
        Got::Str(t) => (json!(t.chars().map(unchar).collect::<Vec<_>>()), "str"),
        Got::AN(a, n) => (json!([name_an(a, Some(*n))]), "val"),
        Got::AO(a, o) => (json!([name_an(a, *o)]), "val"),
        Got::OO(a, o) => (json!([match a { Some(a) => name_an(a, *o), None if o.is_none() => "nothing".to_string(), None => format!("other:-/{o:?}") }]), "val"),
        Got::AS(a, n) => (json!([match n.parse::<u32>() { Ok(k) if *n == k.to_string() => name_an(a, Some(k)),
                                   _ if a == vs.a1 && BADN.contains(&n.as_str()) => "v1w".to_string(), _ => format!("other:{a}/{n}") }]), "val"),
        Got::Text(t) => (json!([if t.as_bytes() == body { "body".to_string() } else { format!("other:{}", util::clip(t, 40)) }]), "val"),
        Got::Hdr(h) => (json!([if h == vs.h1 { "h1".to_string() } else if h == vs.h2 { "h2".to_string() } else { format!("other:{h}") }]), "val"),
        Got::Num(n) => (json!([if *n == 5 { "n1".to_string() } else { format!("other:{n}") }]), "val"),
        Got::Absent => (json!([]), "none"),
        Got::Present(inner) => (project(inner, vs, body).0, "some"),
    }
}

// ------------------------------------------------------------------------------------------------ run
pub fn run(scn: &Value) -> Value {
    if usize::BITS != 64 { return json!({"kind": "tool-error", "what": "the spec assumes 64-bit usize/isize"}) }
    let seed = scn["seed"].as_u64().unwrap_or_else(|| scn["id"].as_u64().unwrap_or(0));
    let mut r = Rng::new(seed ^ 0xc07);
    let (tab, vs) = (Tab::new(seed), vals(seed));
    let tag = tag_of(scn);
    let route = arr(&scn["route"]);
    let segs = arr(&scn["segs"]);
    let rq = &scn["rq"];
    // ---- request
    let has_body_item = arr(&scn["items"]).iter().any(|it| matches!(s(&it["x"]), "JSON" | "URLEncoded" | "Multipart" | "Text"));
    let methods: &[&str] = if has_body_item || s(&rq["body"]["pl"]) != "empty" { &["POST", "PUT", "PATCH", "DELETE", "GET"] } else { &["GET", "HEAD", "POST", "PUT", "PATCH", "DELETE"] };
    let method = *r.pick(methods);
    let reg_method = if method == "HEAD" { "GET" } else { method };
    // ---- route literals and request path
    let statics: Vec<&str> = { let k = r.below(STATICS.len()); (0..route.len()).map(|i| STATICS[(k + i) % STATICS.len()]).collect() };
    let (mut lits, mut path, mut sent, mut np) = (vec![], String::new(), vec![], 0usize);
    for (i, sg) in route.iter().enumerate() {
        if s(sg) == "P" {
            lits.push(format!("/:p{}", np + 1));
            let mut text = String::new(); let mut spelled = vec![];
            for t in arr(&segs[np]) {
                let Some(sp) = tab.spell(s(t)) else { return json!({"kind": "tool-error", "what": format!("unknown segment token {t}")}) };
                spelled.push(chars_json(&sp)); text.push_str(&sp);
            }
            if text.is_empty() { return json!({"kind": "tool-error", "what": "empty segment"}) }
            path.push('/'); path.push_str(&text); sent.push(json!(spelled)); np += 1;
        } else { lits.push(format!("/{}", statics[i])); path.push('/'); path.push_str(statics[i]); }
    }
    let mount = scn["mount"].as_u64().unwrap_or(0) as usize;
    // ---- application
    let inner_lit: String = if lits[mount..].is_empty() { "/".into() } else { lits[mount..].concat() };
    let Some(hs) = build(&tag, v::handler_set(util::leak(inner_lit)), reg_method) else {
        return json!({"kind": "tool-error", "what": format!("signature {tag} is not in the compiled catalogue")})
    };
    let mut app = Ohkami::new(());
    v::apply_handlers(&mut app, hs);
    let app = if mount == 0 { app } else {
        let mut outer = Ohkami::new(());
        v::apply_by(&mut outer, v::by_another(util::leak(lits[..mount].concat()), app));
        outer
    };
    let router = v::finalize(app);
    // ---- request bytes
    let q = s(&rq["q"]);
    let query = if q == "absent" { None } else if q == "emptyq" { Some(vec![]) } else { Some(payload("Query", q, &vs, &mut r, false)) };
    let (bfmt, bpl) = (s(&rq["body"]["fmt"]), s(&rq["body"]["pl"]));
    let body = if bpl == "empty" { vec![] } else { payload(bfmt, bpl, &vs, &mut r, false) };
    let mut headers: Vec<String> = vec![];
    if let Some(ct) = content_type(s(&rq["ct"]["mime"]), s(&rq["ct"]["var"]), &vs, &mut r) { headers.push(format!("Content-Type: {ct}")) }
    match s(&rq["auth"]) { "h1" => headers.push(format!("Authorization: {}", vs.h1)), "h2" => headers.push(format!("Authorization: {}", vs.h2)), _ => {} }
    match s(&rq["mf"]) { "valid" => headers.push("Max-Forwards: 5".into()), "invalid" => headers.push(format!("Max-Forwards: {}", *r.pick(&["abc", "-1", "5x", "4294967296"]))), _ => {} }
    let ck = s(&rq["ck"]);
    if ck != "absent" { headers.push(format!("Cookie: {}", String::from_utf8_lossy(&payload("Cookie", ck, &vs, &mut r, true)))) }
    if !body.is_empty() || r.chance(1, 2) { headers.push(format!("Content-Length: {}", body.len())) }
    if headers.len() > 1 { let k = r.below(headers.len()); headers.rotate_left(k) }
    let mut raw = format!("{method} {path}").into_bytes();
    if let Some(qs) = &query { raw.push(b'?'); raw.extend_from_slice(qs) }
    raw.extend_from_slice(b" HTTP/1.1\r\nHost: localhost\r\n");
    for h in &headers { raw.extend_from_slice(h.as_bytes()); raw.extend_from_slice(b"\r\n") }
    raw.extend_from_slice(b"\r\n");
    raw.extend_from_slice(&body);
    if raw.len() >= 1024 || body.first() == Some(&0) { return json!({"kind": "tool-error", "what": "request outside the agreed envelope"}) }
    // ---- execute on the real code
    // executed twice: as the first request of a connection object, and as the request that follows one which carried a query, a body, a
    // Content-Type, cookies and credentials (none of which the request under test may see) -- what Session::manage does between requests.
    // The second execution is reported when it differs from the first.
    // ... and a third time with the request arriving in pieces: the head in one read, the body in up to three more
    let pieces: Vec<Vec<u8>> = { let hl = raw.len() - body.len(); let mut v = vec![raw[..hl].to_vec()];
        if !body.is_empty() { let (a, b) = (body.len() / 3, 2 * body.len() / 3 + 1); for part in [&body[..a], &body[a..b.min(body.len())], &body[b.min(body.len())..]] { if !part.is_empty() { v.push(part.to_vec()) } }
            // a pipelining client: the segment that brings the end of the body also brings the next request (none of whose bytes belong to this body)
            if v.len() > 1 { v.last_mut().unwrap().extend_from_slice(b"GET /zz/next?n=5 HTTP/1.1\r\nHost: next\r\nContent-Type: text/plain\r\n\r\n") } }
        v };
    let exec = |after: bool, in_pieces: bool| -> (Vec<u8>, &'static str, Vec<Vec<Got>>) {
        LOG.with(|l| l.borrow_mut().clear());
        let (out, how) = util::block_on(async {
            let mut req = v::VRequest::new();
            let mut rd = util::ScriptedReader::new(if in_pieces { pieces.clone() } else { vec![raw.clone()] });
            if after {
                let mut pre: &[u8] = b"POST /zz/prelude?a=stale&n=77 HTTP/1.1\r\nHost: prelude\r\nContent-Type: application/json\r\nCookie: a=stale; n=77\r\nAuthorization: Bearer stale\r\nMax-Forwards: 9\r\nContent-Length: 20\r\n\r\n{\"a\":\"stale\",\"n\":77}";
                if !matches!(req.read(&mut pre).await, Ok(Some(()))) { return (Vec::new(), "prelude-refused") }
                let _ = req.clear_keeping(0..0);
            }
            let read = if after { req.read_following(&mut rd, 0).await.map(|o| o.map(|_| ())) } else { req.read(&mut rd).await };
            let (res, how) = match read {
                Ok(Some(())) => (req.handle(&router).await, "handled"),
                Ok(None) => return (Vec::new(), "closed"),
                Err(e) => (e, "refused-by-parser"),
            };
            let mut out = Vec::new();
            v::send(res, &mut out).await;
            (out, how)
        });
        (out, how, LOG.with(|l| l.borrow().clone()))
    };
    let first = exec(false, false);
    let second = { let s2 = exec(true, false); let same = |x: &(Vec<u8>, &'static str, Vec<Vec<Got>>), y: &(Vec<u8>, &'static str, Vec<Vec<Got>>)| {
                       let strip = |o: &[u8]| -> Vec<u8> { String::from_utf8_lossy(o).lines().filter(|l| !l.to_ascii_lowercase().starts_with("date:")).collect::<Vec<_>>().join("\n").into_bytes() };
                       strip(&x.0) == strip(&y.0) && x.1 == y.1 && format!("{:?}", x.2) == format!("{:?}", y.2) };
                   if same(&first, &s2) && body.len() >= 2 { exec(false, true) } else { s2 } };
    let strip = |o: &[u8]| -> Vec<u8> { String::from_utf8_lossy(o).lines().filter(|l| !l.to_ascii_lowercase().starts_with("date:")).collect::<Vec<_>>().join("\n").into_bytes() };
    let differs = strip(&first.0) != strip(&second.0) || first.1 != second.1 || format!("{:?}", first.2) != format!("{:?}", second.2);
    let (out, how, log) = if differs { second } else { first };
    let p = util::parse_response(&out, method == "HEAD");
    let vals: Vec<Value> = log.first().map(|g| g.iter().map(|x| { let (v, k) = project(x, &vs, &body); json!({"k": k, "v": v}) }).collect()).unwrap_or_default();
    json!({"kind": "resp", "status": p.status, "ran": log.len(), "vals": vals, "wf": p.error.is_empty(), "how": how, "after": differs, "sent": sent,
           "tag": tag, "method": method, "rbody": util::clip(&String::from_utf8_lossy(&p.body), 160), "head": String::from_utf8_lossy(&raw[..raw.len() - body.len()]).to_string(), "body_hex": util::hex(&body)})
}

// ------------------------------------------------------------------------------------------------ random scenarios (same vocabulary, beyond TLC's bounds)
fn parse_tag(tag: &str) -> (String, Vec<String>, Vec<Value>) {
    let mut parts = tag.split('|');
    let head = parts.next().unwrap();
    let (style, rest) = head.split_once('(').unwrap();
    let ptys: Vec<String> = rest.trim_end_matches(')').split(',').filter(|x| !x.is_empty()).map(|x| x.to_string()).collect();
    let items = parts.map(|p| { let opt = p.starts_with('?'); let p = p.trim_start_matches('?'); let (x, ty) = p.split_once('<').unwrap();
                                json!({"x": x, "opt": opt, "ty": ty.trim_end_matches('>')}) }).collect();
    (style.to_string(), ptys, items)
}
const LITS: [&str; 34] = ["MAX:u8", "MAX1:u8", "MAX:u16", "MAX1:u16", "MAX:u32", "MAX1:u32", "MAX:u64", "MAX1:u64", "MAX:i8", "MAX1:i8", "MIN:i8", "MIN1:i8",
    "MAX:i16", "MAX1:i16", "MIN:i16", "MIN1:i16", "MAX:i32", "MAX1:i32", "MIN:i32", "MIN1:i32", "MAX:i64", "MAX1:i64", "MIN:i64", "MIN1:i64",
    "P2W1:8", "P2W1:16", "P2W1:32", "P2W1:64", "NEG1", "W64M128", "W64P255", "E20", "NE20", "W65"];
fn rand_seg(r: &mut Rng, int: bool) -> Vec<&'static str> {
    let digits = ["0", "1", "7", "9"];
    let mut out: Vec<&'static str> = vec![];
    match r.below(if int { 7 } else { 9 }) {
        0 => { for _ in 0..r.range(1, 22) { out.push(*r.pick(&digits)) } }                                         // long digit strings (up to 22 digits)
        1 => { out.push(*r.pick(&["-", "+"])); for _ in 0..r.range(0, 20) { out.push(*r.pick(&digits)) } }          // signed
        2 => { if r.chance(1, 3) { out.push(*r.pick(&["-", "+", "0"])) } out.push(*r.pick(&LITS)); if r.chance(1, 3) { out.push(*r.pick(&["L", "0", "sp", "e0", "7"])) } }
        3 => { for _ in 0..r.range(1, 6) { out.push(*r.pick(&digits)) } out.push(*r.pick(&["L", "sp", "eL", "-", "+", "mb", "sl", "pc", "bz"])); for _ in 0..r.below(3) { out.push(*r.pick(&digits)) } }
        4 => { for _ in 0..r.range(1, 8) { out.push(*r.pick(&["0", "e0", "e7", "7", "1"])) } }                      // escaped digits, leading zeros
        5 => { out.push(*r.pick(&["L", "sp", "eL", "ff", "c3"])); for _ in 0..r.below(4) { out.push(*r.pick(&digits)) } }
        6 => { for _ in 0..r.range(1, 10) { out.push(*r.pick(&["0", "1", "7", "9", "-", "+", "L", "sp", "e0", "e7", "eL"])) } }
        _ => { for _ in 0..r.range(1, 12) { out.push(*r.pick(&["L", "7", "-", "+", "eL", "sp", "mb", "sl", "pc", "ff", "c3", "bz", "L", "L", "mb"])) } }
    }
    out
}
pub fn gen(rng: &mut Rng, idx: usize) -> Value {
    let tag = TAGS[rng.below(TAGS.len())];
    let (style, ptys, items) = parse_tag(tag);
    let k = ptys.len();
    // route with n >= k params (sometimes more than declared), statics sprinkled in
    let n = if k == 2 { 2 } else if rng.chance(1, 5) { (k + 1).min(2) } else { k };
    let mut route: Vec<&str> = vec![];
    if n == 0 || rng.chance(1, 2) { route.push("S") }
    for i in 0..n { route.push("P"); if i + 1 < n && rng.chance(1, 2) { route.push("S") } }
    if n > 0 && rng.chance(1, 3) { route.push("S") }
    let mount = if route.len() > 1 && rng.chance(1, 3) { rng.range(1, route.len() - 1) } else { 0 };
    let segs: Vec<Vec<&str>> = (0..n).map(|i| {
        let int = ptys.get(i).map(|t| !matches!(t.as_str(), "String" | "Cow" | "str")).unwrap_or(rng.chance(1, 2));
        // with extractors present keep most segments valid so that the decision table is reached
        if !items.is_empty() && rng.chance(2, 3) { if int { vec!["7"] } else { vec!["L", "eL"] } } else { rand_seg(rng, int) }
    }).collect();
    let xs: Vec<&str> = items.iter().map(|it| s(&it["x"])).collect();
    let spl = ["v1", "v2", "extra", "syntax", "wrongtype", "missing"];
    let q = if xs.contains(&"Query") || rng.chance(1, 4) { if rng.chance(1, 5) { *rng.pick(&["absent", "absent", "emptyq"]) } else { *rng.pick(&spl) } } else { "absent" };
    let bodyx: Vec<&str> = xs.iter().copied().filter(|x| matches!(*x, "JSON" | "URLEncoded" | "Multipart" | "Text")).collect();
    let fmts = ["JSON", "URLEncoded", "Multipart", "Text"];
    let mime = if bodyx.is_empty() { if rng.chance(1, 4) { *rng.pick(&fmts) } else { "none" } }
               else { match rng.below(10) { 0 => "none", 1 => "XML", 2 => *rng.pick(&fmts), _ => *rng.pick(&bodyx) } };
    let var = if mime == "none" || mime == "XML" { "exact" } else { match rng.below(8) { 0 => "case", 1 | 2 | 3 => "params", _ => "exact" } };
    // the body is written in the announced format, or in a declared one; mismatching bytes only as the plain valid payload
    let fmt = if fmts.contains(&mime) && rng.chance(5, 6) { mime } else if !bodyx.is_empty() { *rng.pick(&bodyx) } else { "JSON" };
    let mismatch = fmts.contains(&mime) && fmt != mime;
    let pl = if rng.chance(1, 8) { "empty" } else if var == "case" || mismatch { "v1" }
             else if fmt == "Text" { *rng.pick(&["v1", "v2", "nonutf8"]) } else { *rng.pick(&spl) };
    // a multipart parser is only handed multipart bytes or the JSON payload (other mismatches are C08's business)
    let (fmt, pl) = if mismatch && mime != "Text" && !(fmt == "JSON" || (mime == "JSON" && fmt != "Multipart")) { (mime, "v1") } else { (fmt, pl) };
    let auth = if xs.contains(&"Auth") || rng.chance(1, 5) { *rng.pick(&["absent", "h1", "h2"]) } else { "absent" };
    let mf = if xs.contains(&"MaxFwd") || rng.chance(1, 6) { *rng.pick(&["absent", "valid", "invalid"]) } else { "absent" };
    let ck = if xs.contains(&"Cookie") || rng.chance(1, 6) { *rng.pick(&["absent", "v1", "v2", "wrongtype", "missing"]) } else { "absent" };
    let fam = if !items.is_empty() { "item" } else if n >= 2 || k < n || mount > 0 { "bind" } else if k == 1 && matches!(ptys[0].as_str(), "String" | "Cow" | "str") { "str" } else if k == 1 { "int" } else { "bind" };
    json!({"id": idx, "fam": fam, "route": route, "mount": mount, "style": style, "ptys": ptys, "items": items, "segs": segs,
           "rq": {"q": q, "ct": {"mime": mime, "var": var}, "body": {"fmt": fmt, "pl": pl}, "auth": auth, "mf": mf, "ck": ck},
           "seed": rng.next() % 1_000_000})
}
