//! vh — conformance harness binding the TLA+ specification in /verif/specs to the code in /repo.
//!
//! `vh run <sub> --in scenarios.ndjson --out observations.ndjson [--jobs N] [--fresh] [--timeout-ms T]`
//!     parent: feeds every scenario line to worker processes (`vh worker <sub>`), one line in, one line out;
//!     a worker that dies is an observation (`abort`), a worker that does not answer in time is `hang`.
//! `vh worker <sub>`  child: executes scenarios under catch_unwind, prints `{"id","scn","obs"}` per line.
//! `vh gen <sub> ...` random drivers that write scenario/trace files in the same vocabulary.

use serde_json::{json, Value};
use std::io::{BufRead, BufReader, Write};
use std::process::{Command, Stdio};
use std::sync::{mpsc, Arc, Mutex};
use std::time::Duration;

mod util;
mod sd;
mod router;
mod resp;
mod parse;
mod conn;
mod sse;
mod extract;
mod auth;
mod urlenc;
mod cookie;
mod multipart;
mod decoders;
mod fmt;
mod cors;
mod dirmount;
mod openapi;
mod schema;
mod server;
mod timers;

pub type RunFn = fn(&Value) -> Value;

fn subcommand(name: &str) -> Option<RunFn> {
    Some(match name {
        "sd" => sd::run,
        "router" => router::run,
        "resp" => resp::run,
        "parse" => parse::run,
        "conn" => conn::run,
        "sse" => sse::run,
        "extract" => extract::run,
        "auth" => auth::run,
        "urlenc" => urlenc::run,
        "cookie" => cookie::run,
        "multipart" => multipart::run,
        "decoders" => decoders::run,
        "fmt" => fmt::run,
        "cors" => cors::run,
        "dir" => dirmount::run,
        "openapi" => openapi::run,
        "schema" => schema::run,
        "server" => server::run,
        "timers" => timers::run,
        _ => return None,
    })
}

thread_local! { static LAST_PANIC: std::cell::RefCell<String> = const { std::cell::RefCell::new(String::new()) }; }

fn worker(sub: &str) {
    let f = subcommand(sub).unwrap_or_else(|| { eprintln!("unknown subcommand {sub}"); std::process::exit(2) });
    std::panic::set_hook(Box::new(|info| {
        let loc = info.location().map(|l| format!("{}:{}", l.file(), l.line())).unwrap_or_default();
        let msg = if let Some(s) = info.payload().downcast_ref::<&str>() { s.to_string() }
                  else if let Some(s) = info.payload().downcast_ref::<String>() { s.clone() } else { "?".into() };
        LAST_PANIC.with(|p| *p.borrow_mut() = format!("{loc}: {msg}"));
    }));
    let stdin = std::io::stdin();
    let stdout = std::io::stdout();
    for line in stdin.lock().lines() {
        let line = match line { Ok(l) => l, Err(_) => break };
        if line.trim().is_empty() { continue }
        let scn: Value = match serde_json::from_str(&line) { Ok(v) => v, Err(e) => { eprintln!("bad scenario json: {e}"); std::process::exit(2) } };
        let r = std::panic::catch_unwind(std::panic::AssertUnwindSafe(|| f(&scn)));
        let obs = match r {
            Ok(v) => v,
            Err(_) => {
                let m = LAST_PANIC.with(|p| p.borrow().clone());
                json!({"kind": "panic", "where": util::panic_site(&m), "msg": util::clip(&m, 200)})
            }
        };
        let out = json!({"id": scn.get("id").cloned().unwrap_or(json!(0)), "scn": scn, "obs": obs});
        let mut o = stdout.lock();
        let _ = writeln!(o, "{}", out);
        let _ = o.flush();
    }
}

struct Child { proc: std::process::Child, tx: std::process::ChildStdin, rx: mpsc::Receiver<Option<String>> }

fn spawn_child(sub: &str) -> Child {
    let exe = std::env::current_exe().unwrap();
    let mut proc = Command::new(exe).arg("worker").arg(sub)
        .stdin(Stdio::piped()).stdout(Stdio::piped())
        .stderr(if std::env::var("VH_STDERR").is_ok() { Stdio::inherit() } else { Stdio::null() })
        .spawn().expect("spawn worker");
    let tx = proc.stdin.take().unwrap();
    let out = proc.stdout.take().unwrap();
    let (s, rx) = mpsc::channel();
    std::thread::spawn(move || {
        let mut rd = BufReader::new(out);
        loop {
            // bytes, not read_line: a panic message of the code under test may quote a string that is not UTF-8
            let mut raw = Vec::new();
            match rd.read_until(b'\n', &mut raw) { Ok(0) | Err(_) => { let _ = s.send(None); break }
                Ok(_) => { if s.send(Some(String::from_utf8_lossy(&raw).into_owned())).is_err() { break } } }
        }
    });
    Child { proc, tx, rx }
}

fn parent(sub: &str, inp: &str, outp: &str, jobs: usize, fresh: bool, timeout_ms: u64) {
    if subcommand(sub).is_none() { eprintln!("unknown subcommand {sub}"); std::process::exit(2) }
    let lines: Vec<String> = BufReader::new(std::fs::File::open(inp).expect("open --in")).lines().map(|l| l.unwrap()).filter(|l| !l.trim().is_empty()).collect();
    let n = lines.len();
    let lines = Arc::new(lines);
    let next = Arc::new(Mutex::new(0usize));
    let results: Arc<Mutex<Vec<Option<String>>>> = Arc::new(Mutex::new(vec![None; n]));
    // once two dozen scenarios of a run have hung (the run is lost anyway: every hang is outside every property), later scenarios get a shorter
    // leash, so that a change which makes a decoder loop on a whole family of inputs costs minutes, not an hour of watchdog time
    let hangs = Arc::new(std::sync::atomic::AtomicUsize::new(0));
    let mut hs = vec![];
    for _ in 0..jobs.max(1) {
        let (lines, next, results, sub, hangs) = (lines.clone(), next.clone(), results.clone(), sub.to_string(), hangs.clone());
        hs.push(std::thread::spawn(move || {
            let mut child: Option<Child> = None;
            loop {
                let i = { let mut g = next.lock().unwrap(); let i = *g; *g += 1; i };
                if i >= lines.len() { break }
                if child.is_none() { child = Some(spawn_child(&sub)) }
                let c = child.as_mut().unwrap();
                let line = &lines[i];
                let wrote = writeln!(c.tx, "{}", line).and_then(|_| c.tx.flush()).is_ok();
                let leash = if timeout_ms <= 10000 && hangs.load(std::sync::atomic::Ordering::Relaxed) >= 24 { timeout_ms.min(2500) } else { timeout_ms };
                let got = if wrote { c.rx.recv_timeout(Duration::from_millis(leash)) } else { Ok(None) };
                let scn: Value = serde_json::from_str(line).unwrap_or(json!({}));
                let mk = |obs: Value| json!({"id": scn.get("id").cloned().unwrap_or(json!(0)), "scn": scn, "obs": obs}).to_string();
                let res = match got {
                    Ok(Some(l)) => l.trim_end().to_string(),
                    Ok(None) => {
                        let _ = c.proc.kill();
                        let st = c.proc.wait().ok();
                        let how = st.map(|s| { use std::os::unix::process::ExitStatusExt; match s.signal() { Some(sig) => format!("signal {sig}"), None => format!("exit {}", s.code().unwrap_or(-1)) } }).unwrap_or_default();
                        child = None;
                        mk(json!({"kind": "abort", "where": how}))
                    }
                    Err(_) => {
                        let _ = c.proc.kill(); let _ = c.proc.wait();
                        child = None;
                        hangs.fetch_add(1, std::sync::atomic::Ordering::Relaxed);
                        mk(json!({"kind": "hang", "where": "watchdog"}))
                    }
                };
                results.lock().unwrap()[i] = Some(res);
                if fresh { if let Some(mut c) = child.take() { drop(c.tx); let _ = c.proc.wait(); } }
            }
            if let Some(mut c) = child.take() { drop(c.tx); let _ = c.proc.wait(); }
        }));
    }
    for h in hs { h.join().unwrap() }
    let mut f = std::io::BufWriter::new(std::fs::File::create(outp).expect("create --out"));
    for r in results.lock().unwrap().iter() { writeln!(f, "{}", r.as_ref().unwrap()).unwrap() }
}

fn arg(args: &[String], name: &str) -> Option<String> {
    args.iter().position(|a| a == name).and_then(|i| args.get(i + 1).cloned())
}

fn main() {
    let args: Vec<String> = std::env::args().collect();
    match args.get(1).map(|s| s.as_str()) {
        Some("worker") => worker(&args[2]),
        Some("run") => {
            let sub = &args[2];
            let jobs = arg(&args, "--jobs").and_then(|s| s.parse().ok()).unwrap_or(8);
            let t = arg(&args, "--timeout-ms").and_then(|s| s.parse().ok()).unwrap_or(10_000);
            parent(sub, &arg(&args, "--in").expect("--in"), &arg(&args, "--out").expect("--out"), jobs, args.iter().any(|a| a == "--fresh"), t);
        }
        Some("gen") => {
            let sub = args[2].as_str();
            let seed: u64 = arg(&args, "--seed").and_then(|s| s.parse().ok()).unwrap_or(0);
            let n: usize = arg(&args, "--n").and_then(|s| s.parse().ok()).unwrap_or(100);
            let out = arg(&args, "--out").expect("--out");
            let mut f = std::io::BufWriter::new(std::fs::File::create(out).expect("create --out"));
            let mut rng = util::Rng::new(seed);
            let g: fn(&mut util::Rng, usize) -> Value = match sub {
                "router" => router::gen,
                "resp" => resp::gen,
                "parse" => parse::gen,
                "conn" => conn::gen,
                "sse" => sse::gen,
                "extract" => extract::gen,
                "auth" => auth::gen,
                "urlenc" => urlenc::gen,
                "cookie" => cookie::gen,
                "multipart" => multipart::gen,
                "decoders" => decoders::gen,
                "openapi" => openapi::gen,
                "schema" => schema::gen,
                "server" => server::gen,
                "timers" => timers::gen,
                "sd" => sd::gen,
                "fmt" => fmt::gen,
                "cors" => cors::gen,
                "dir" => dirmount::gen,
                _ => { eprintln!("no generator for {sub}"); std::process::exit(2) }
            };
            for i in 0..n { writeln!(f, "{}", g(&mut rng, i)).unwrap() }
        }
        _ => { eprintln!("usage: vh run|worker|gen <sub> ..."); std::process::exit(2) }
    }
}
