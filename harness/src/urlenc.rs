//! C09 — URL-encoded serialization round trip and percent-decoding (spec: specs/UrlEnc.tla).
//!
//! The harness only (1) concretises the abstract scenario (class tokens -> code points, "#symbols" -> boundary
//! numbers / variants, spellings -> raw or %XX bytes), (2) runs the REAL `ohkami_lib::serde_urlencoded::{to_string,
//! from_bytes}` / a real `Request` (`query.parse`, `query.iter`), (3) projects typed values onto canonical strings
//! (as code-point arrays).  Every comparison is made by TLC in specs/Trace_UrlEnc.tla.
use crate::util::{self, Rng};
use ohkami_lib::serde_urlencoded;
use serde::{de::DeserializeOwned, Deserialize, Serialize};
use serde_json::{json, Value};
use std::collections::BTreeMap;

// ------------------------------------------------------------------ concretisation table (trusted base)
pub fn reps(class: &str) -> &'static [char] {
    match class {
        "al" => &['a', 'Z', '7', 'k', 'Q', '0'],
        "sp" => &[' '],
        "amp" => &['&'],
        "eq" => &['='],
        "pct" => &['%'],
        "plus" => &['+'],
        "comma" => &[','],
        "slash" => &['/'],
        "unres" => &['-', '.', '_', '~'],
        "res" => &['!', '$', '\'', '(', ')', '*', ':', ';', '?', '@'],
        "punct" => &['"', '#', '<', '>', '[', '\\', ']', '^', '`', '{', '|', '}'],
        "ctl" => &['\t', '\n', '\r', '\u{1}', '\u{7f}', '\u{1f}'],
        "nul" => &['\0'],
        "u2" => &['é', 'ß', 'Ω', '\u{80}', '\u{7ff}'],
        "u3" => &['狼', '€', '\u{800}', '\u{ffff}', '\u{d7ff}', '\u{e000}', '\u{fffd}'],
        "u4" => &['😀', '\u{10000}', '\u{10ffff}', '𝄞'],
        _ => &[],
    }
}
pub const CLASSES: [&str; 16] = ["al", "sp", "amp", "eq", "pct", "plus", "comma", "slash", "unres", "res", "punct", "ctl", "nul", "u2", "u3", "u4"];

pub struct Cz { seed: u64, pos: u64 }
impl Cz {
    pub fn new(scn: &Value) -> Self {
        let id = scn.get("id").and_then(|v| v.as_u64()).unwrap_or(0);
        let seed = scn.get("seed").and_then(|v| v.as_u64()).unwrap_or(0);
        Cz { seed: id.wrapping_mul(7).wrapping_add(seed.wrapping_mul(13)), pos: 0 }
    }
    /// representative of a class: consecutive positions of one scenario get different representatives
    pub fn pick(&mut self, class: &str) -> Result<char, String> { self.pick_in(class, reps(class)) }
    pub fn pick_in(&mut self, class: &str, r: &[char]) -> Result<char, String> {
        if r.is_empty() { return Err(format!("unknown class token {class:?}")) }
        let c = r[((self.seed + self.pos) % r.len() as u64) as usize];
        self.pos += 1;
        Ok(c)
    }
}

pub fn cps(s: &str) -> Value { Value::Array(s.chars().map(|c| json!(c as u32)).collect()) }
pub fn bytes_json(b: &[u8]) -> Value { Value::Array(b.iter().map(|x| json!(*x)).collect()) }

fn esc(out: &mut Vec<u8>, c: char, upper: bool) {
    let mut buf = [0u8; 4];
    for b in c.encode_utf8(&mut buf).bytes() {
        out.extend_from_slice(if upper { format!("%{:02X}", b) } else { format!("%{:02x}", b) }.as_bytes());
    }
}
/// spelling of a character sequence: "r" raw, "U" %XX, "L" %xx, "M" alternating (odd positions escaped, upper)
pub fn spell(out: &mut Vec<u8>, s: &str, e: &str) {
    for (i, c) in s.chars().enumerate() {
        let escaped = match e { "r" => false, "U" | "L" => true, "M" => i % 2 == 0, _ => false };
        if escaped { esc(out, c, e != "L") } else { let mut b = [0u8; 4]; out.extend_from_slice(c.encode_utf8(&mut b).as_bytes()) }
    }
}

// ------------------------------------------------------------------ symbols (boundary numbers etc.)
macro_rules! int_sym { ($t:ty, $s:expr) => {{
    let s: &str = $s;
    match s { "0" => Ok(0 as $t), "1" => Ok(1 as $t), "7" => Ok(7 as $t), "min" => Ok(<$t>::MIN), "max" => Ok(<$t>::MAX),
              _ => s.strip_prefix('=').unwrap_or(s).parse::<$t>().map_err(|_| format!("bad {} symbol {s:?}", stringify!($t))) }
}}}
fn f64_sym(s: &str) -> Result<f64, String> {
    Ok(match s { "0" => 0.0, "-0" => -0.0, "1.5" => 1.5, "-2.5e-3" => -2.5e-3, "max" => f64::MAX, "minpos" => f64::MIN_POSITIVE,
                 "nan" => f64::NAN, "inf" => f64::INFINITY, "-inf" => f64::NEG_INFINITY,
                 _ => s.strip_prefix('=').unwrap_or(s).parse::<f64>().map_err(|_| format!("bad f64 symbol {s:?}"))? })
}
fn f32_sym(s: &str) -> Result<f32, String> {
    Ok(match s { "0" => 0.0, "-0" => -0.0, "1.5" => 1.5, "-2.5e-3" => -2.5e-3, "max" => f32::MAX, "minpos" => f32::MIN_POSITIVE,
                 "nan" => f32::NAN, "inf" => f32::INFINITY, "-inf" => f32::NEG_INFINITY,
                 _ => s.strip_prefix('=').unwrap_or(s).parse::<f32>().map_err(|_| format!("bad f32 symbol {s:?}"))? })
}
/// Display of a float is the shortest text that parses back to the same float: injective on non-NaN values (-0 -> "-0")
fn pf32(x: f32) -> String { x.to_string() }
fn pf64(x: f64) -> String { x.to_string() }
/// literal text of a "kind:sym" symbol used inside wire texts
pub fn literal(sym: &str) -> Result<String, String> {
    let (k, s) = sym.split_once(':').ok_or_else(|| format!("bad symbol {sym:?}"))?;
    Ok(match k {
        "name" | "lit" | "enum" | "bool" => s.to_string(),
        "i8" => int_sym!(i8, s)?.to_string(), "i16" => int_sym!(i16, s)?.to_string(), "i32" => int_sym!(i32, s)?.to_string(),
        "i64" => int_sym!(i64, s)?.to_string(), "isize" => int_sym!(isize, s)?.to_string(),
        "u8" => int_sym!(u8, s)?.to_string(), "u16" => int_sym!(u16, s)?.to_string(), "u32" => int_sym!(u32, s)?.to_string(),
        "u64" => int_sym!(u64, s)?.to_string(), "usize" => int_sym!(usize, s)?.to_string(),
        // ("=<text>": the decimal text itself goes on the wire, not the shortest rendering of the float it denotes)
        "f32" => if let Some(t) = s.strip_prefix('=') { f32_sym(s)?; t.to_string() } else { f32_sym(s)?.to_string() },
        "f64" => if let Some(t) = s.strip_prefix('=') { f64_sym(s)?; t.to_string() } else { f64_sym(s)?.to_string() },
        _ => return Err(format!("bad symbol kind {sym:?}")),
    })
}

// ------------------------------------------------------------------ catalogue of target types (mirrors UrlEnc!Catalogue)
#[derive(Serialize, Deserialize, Debug, PartialEq)] struct Ints { a: i8, b: i16, c: i32, d: i64, e: u8, f: u16, g: u32, h: u64, i: isize, j: usize }
#[derive(Serialize, Deserialize, Debug, PartialEq)] struct Floats { x: f32, y: f64 }
#[derive(Serialize, Deserialize, Debug, PartialEq)] struct Scal { b: bool, s: String, u_n: i32 }
#[derive(Serialize, Deserialize, Debug, PartialEq)] struct Str1 { s: String }
#[derive(Serialize, Deserialize, Debug, PartialEq)] struct Str2 { s: String, t: String }
#[derive(Serialize, Deserialize, Debug, PartialEq)] struct Ch { c: char, z: u8 }
#[derive(Serialize, Deserialize, Debug, PartialEq)] struct Opt { o: Option<String>, p: Option<u32>, z: u8 }
#[derive(Serialize, Deserialize, Debug, PartialEq)] struct OptEnd { z: u8, o: Option<String> }
#[derive(Serialize, Deserialize, Debug, PartialEq, Clone, Copy)] enum Color { A, Bee, #[serde(rename = "dark_red")] DarkRed }
#[derive(Serialize, Deserialize, Debug, PartialEq)] struct En { e: Color, s: String }
#[derive(Serialize, Deserialize, Debug, PartialEq)] struct Id(u32);
#[derive(Serialize, Deserialize, Debug, PartialEq)] struct Name(String);
#[derive(Serialize, Deserialize, Debug, PartialEq)] struct Nt { id: Id, name: Name }
#[derive(Serialize, Deserialize, Debug, PartialEq)] struct SeqS { v: Vec<String>, z: u8 }
#[derive(Serialize, Deserialize, Debug, PartialEq)] struct SeqN { w: Vec<u32> }
#[derive(Serialize, Deserialize, Debug, PartialEq)] struct Seq2 { v: Vec<String>, w: Vec<u32> }
#[derive(Serialize, Deserialize, Debug, PartialEq)] struct TupSeq { t: (u32, u32), w: Vec<u32> }
// the same wire shape through serde's tuple-STRUCT entry points (serialize_tuple_struct / deserialize_tuple_struct)
#[derive(Serialize, Deserialize, Debug, PartialEq)] struct P2(u32, u32);
#[derive(Serialize, Deserialize, Debug, PartialEq)] struct TsSeq { t: P2, w: Vec<u32> }
type Map = BTreeMap<String, String>;
/// a string map that keeps the order in which its entries were inserted (what `indexmap`, a `HashMap` or a flattened map give the
/// serializer: entries in an order that is not the order of the keys)
#[derive(Debug, PartialEq)] struct OMap(Vec<(String, String)>);
impl Serialize for OMap {
    fn serialize<S: serde::Serializer>(&self, s: S) -> Result<S::Ok, S::Error> {
        use serde::ser::SerializeMap;
        let mut m = s.serialize_map(Some(self.0.len()))?;
        for (k, v) in &self.0 { m.serialize_entry(k, v)? }
        m.end()
    }
}
impl<'de> Deserialize<'de> for OMap {
    fn deserialize<D: serde::Deserializer<'de>>(d: D) -> Result<Self, D::Error> {
        struct V;
        impl<'de> serde::de::Visitor<'de> for V {
            type Value = OMap;
            fn expecting(&self, f: &mut std::fmt::Formatter) -> std::fmt::Result { f.write_str("a map") }
            fn visit_map<A: serde::de::MapAccess<'de>>(self, mut a: A) -> Result<OMap, A::Error> {
                let mut out = vec![];
                while let Some((k, v)) = a.next_entry::<String, String>()? { out.push((k, v)) }
                Ok(OMap(out))
            }
        }
        d.deserialize_map(V)
    }
}

/// a concretised field of a round-trip scenario: elements are strings (class tokens made concrete) or "#symbols"
pub struct FieldIn { pub name: String, pub key: String, pub elems: Vec<String> }
type Proj = Vec<(String, Vec<String>)>;
struct In<'a>(&'a [FieldIn]);
impl In<'_> {
    fn f(&self, n: &str) -> Result<&FieldIn, String> { self.0.iter().find(|f| f.name == n).ok_or_else(|| format!("scenario lacks field {n}")) }
    fn one(&self, n: &str) -> Result<&str, String> { let f = self.f(n)?; if f.elems.len() == 1 { Ok(&f.elems[0]) } else { Err(format!("field {n}: expected one element")) } }
    fn sym(&self, n: &str) -> Result<&str, String> { self.one(n)?.strip_prefix('#').ok_or_else(|| format!("field {n}: expected a #symbol")) }
    fn string(&self, n: &str) -> Result<String, String> { Ok(self.one(n)?.to_string()) }
    fn opt(&self, n: &str) -> Result<Option<&str>, String> { let f = self.f(n)?; match f.elems.len() { 0 => Ok(None), 1 => Ok(Some(&f.elems[0])), _ => Err("option with >1 element".into()) } }
}
fn color(s: &str) -> Result<Color, String> { match s { "A" => Ok(Color::A), "Bee" => Ok(Color::Bee), "dark_red" => Ok(Color::DarkRed), _ => Err(format!("bad enum symbol {s}")) } }
fn color_name(c: Color) -> &'static str { match c { Color::A => "A", Color::Bee => "Bee", Color::DarkRed => "dark_red" } }

trait Cat: Serialize + DeserializeOwned {
    fn build(i: &In) -> Result<Self, String>;
    fn project(&self) -> Proj;
}
fn p1(n: &str, v: String) -> (String, Vec<String>) { (n.to_string(), vec![v]) }
impl Cat for Ints {
    fn build(i: &In) -> Result<Self, String> { Ok(Ints { a: int_sym!(i8, i.sym("a")?)?, b: int_sym!(i16, i.sym("b")?)?, c: int_sym!(i32, i.sym("c")?)?, d: int_sym!(i64, i.sym("d")?)?,
        e: int_sym!(u8, i.sym("e")?)?, f: int_sym!(u16, i.sym("f")?)?, g: int_sym!(u32, i.sym("g")?)?, h: int_sym!(u64, i.sym("h")?)?, i: int_sym!(isize, i.sym("i")?)?, j: int_sym!(usize, i.sym("j")?)? }) }
    fn project(&self) -> Proj { vec![p1("a", self.a.to_string()), p1("b", self.b.to_string()), p1("c", self.c.to_string()), p1("d", self.d.to_string()), p1("e", self.e.to_string()),
        p1("f", self.f.to_string()), p1("g", self.g.to_string()), p1("h", self.h.to_string()), p1("i", self.i.to_string()), p1("j", self.j.to_string())] }
}
impl Cat for Floats {
    fn build(i: &In) -> Result<Self, String> { Ok(Floats { x: f32_sym(i.sym("x")?)?, y: f64_sym(i.sym("y")?)? }) }
    fn project(&self) -> Proj { vec![p1("x", pf32(self.x)), p1("y", pf64(self.y))] }
}
impl Cat for Scal {
    fn build(i: &In) -> Result<Self, String> { Ok(Scal { b: i.sym("b")? == "true", s: i.string("s")?, u_n: int_sym!(i32, i.sym("u_n")?)? }) }
    fn project(&self) -> Proj { vec![p1("b", self.b.to_string()), p1("s", self.s.clone()), p1("u_n", self.u_n.to_string())] }
}
impl Cat for Str1 {
    fn build(i: &In) -> Result<Self, String> { Ok(Str1 { s: i.string("s")? }) }
    fn project(&self) -> Proj { vec![p1("s", self.s.clone())] }
}
impl Cat for Str2 {
    fn build(i: &In) -> Result<Self, String> { Ok(Str2 { s: i.string("s")?, t: i.string("t")? }) }
    fn project(&self) -> Proj { vec![p1("s", self.s.clone()), p1("t", self.t.clone())] }
}
fn one_char(s: &str) -> Result<char, String> { let mut c = s.chars(); match (c.next(), c.next()) { (Some(x), None) => Ok(x), _ => Err(format!("char field needs exactly one token, got {s:?}")) } }
impl Cat for Ch {
    fn build(i: &In) -> Result<Self, String> { Ok(Ch { c: one_char(i.one("c")?)?, z: int_sym!(u8, i.sym("z")?)? }) }
    fn project(&self) -> Proj { vec![p1("c", self.c.to_string()), p1("z", self.z.to_string())] }
}
fn popt<T: ToString>(n: &str, o: &Option<T>) -> (String, Vec<String>) { (n.to_string(), o.iter().map(|x| x.to_string()).collect()) }
impl Cat for Opt {
    fn build(i: &In) -> Result<Self, String> {
        let p = match i.opt("p")? { None => None, Some(s) => Some(int_sym!(u32, s.strip_prefix('#').unwrap_or(s))?) };
        Ok(Opt { o: i.opt("o")?.map(|s| s.to_string()), p, z: int_sym!(u8, i.sym("z")?)? })
    }
    fn project(&self) -> Proj { vec![popt("o", &self.o), popt("p", &self.p), p1("z", self.z.to_string())] }
}
impl Cat for OptEnd {
    fn build(i: &In) -> Result<Self, String> { Ok(OptEnd { z: int_sym!(u8, i.sym("z")?)?, o: i.opt("o")?.map(|s| s.to_string()) }) }
    fn project(&self) -> Proj { vec![p1("z", self.z.to_string()), popt("o", &self.o)] }
}
impl Cat for En {
    fn build(i: &In) -> Result<Self, String> { Ok(En { e: color(i.sym("e")?)?, s: i.string("s")? }) }
    fn project(&self) -> Proj { vec![p1("e", color_name(self.e).to_string()), p1("s", self.s.clone())] }
}
impl Cat for Nt {
    fn build(i: &In) -> Result<Self, String> { Ok(Nt { id: Id(int_sym!(u32, i.sym("id")?)?), name: Name(i.string("name")?) }) }
    fn project(&self) -> Proj { vec![p1("id", self.id.0.to_string()), p1("name", self.name.0.clone())] }
}
impl Cat for SeqS {
    fn build(i: &In) -> Result<Self, String> { Ok(SeqS { v: i.f("v")?.elems.clone(), z: int_sym!(u8, i.sym("z")?)? }) }
    fn project(&self) -> Proj { vec![("v".into(), self.v.clone()), p1("z", self.z.to_string())] }
}
impl Cat for SeqN {
    fn build(i: &In) -> Result<Self, String> {
        let mut w = vec![]; for e in &i.f("w")?.elems { w.push(int_sym!(u32, e.strip_prefix('#').unwrap_or(e))?) }
        Ok(SeqN { w })
    }
    fn project(&self) -> Proj { vec![("w".into(), self.w.iter().map(|x| x.to_string()).collect())] }
}
fn u32s(i: &In, f: &str) -> Result<Vec<u32>, String> { let mut w = vec![]; for e in &i.f(f)?.elems { w.push(int_sym!(u32, e.strip_prefix('#').unwrap_or(e))?) } Ok(w) }
impl Cat for Seq2 {
    fn build(i: &In) -> Result<Self, String> { Ok(Seq2 { v: i.f("v")?.elems.clone(), w: u32s(i, "w")? }) }
    fn project(&self) -> Proj { vec![("v".into(), self.v.clone()), ("w".into(), self.w.iter().map(|x| x.to_string()).collect())] }
}
impl Cat for TupSeq {
    fn build(i: &In) -> Result<Self, String> { let t = u32s(i, "t")?; if t.len() != 2 { return Err("a tuple of two".into()) } Ok(TupSeq { t: (t[0], t[1]), w: u32s(i, "w")? }) }
    fn project(&self) -> Proj { vec![("t".into(), vec![self.t.0.to_string(), self.t.1.to_string()]), ("w".into(), self.w.iter().map(|x| x.to_string()).collect())] }
}
impl Cat for TsSeq {
    fn build(i: &In) -> Result<Self, String> { let t = u32s(i, "t")?; if t.len() != 2 { return Err("a tuple of two".into()) } Ok(TsSeq { t: P2(t[0], t[1]), w: u32s(i, "w")? }) }
    fn project(&self) -> Proj { vec![("t".into(), vec![self.t.0.to_string(), self.t.1.to_string()]), ("w".into(), self.w.iter().map(|x| x.to_string()).collect())] }
}
impl Cat for Map {
    fn build(i: &In) -> Result<Self, String> {
        let mut m = Map::new();
        for f in i.0 { if m.insert(f.key.clone(), f.elems.first().cloned().unwrap_or_default()).is_some() { return Err("dup".into()) } }
        Ok(m)
    }
    fn project(&self) -> Proj { self.iter().map(|(k, v)| (k.clone(), vec![v.clone()])).collect() }
}

impl Cat for OMap {
    fn build(i: &In) -> Result<Self, String> {
        let mut m: Vec<(String, String)> = vec![];
        for f in i.0 { if m.iter().any(|(k, _)| *k == f.key) { return Err("dup".into()) } m.push((f.key.clone(), f.elems.first().cloned().unwrap_or_default())) }
        Ok(OMap(m))
    }
    fn project(&self) -> Proj { self.0.iter().map(|(k, v)| (k.clone(), vec![v.clone()])).collect() }
}

fn proj_json(p: &Proj) -> Value {
    Value::Array(p.iter().map(|(n, es)| json!({"n": cps(n), "v": es.iter().map(|e| cps(e)).collect::<Vec<_>>()})).collect())
}
/// coarse class of the real code's error message (an outcome class for signatures; never used to decide)
fn errc(e: &str) -> &'static str {
    for (pat, c) in [("Expected an integer", "expected-integer"), ("Expected a number", "expected-number"), ("Expected `true` or `false`", "expected-bool"),
                     ("unknown variant", "unknown-variant"), ("missing ,", "missing-comma"), ("invalid type: byte array", "type-bytes"),
                     ("Expected a single charactor", "single-char"), ("missing `&`", "missing-amp"), ("empty key", "empty-key"), ("missing `=`", "missing-eq"),
                     ("unexpected end of input", "eof"), ("missing field", "missing-field"), ("duplicate field", "dup-field"), ("Unexpected trailing", "trailing"),
                     ("Expected to be decoded to an UTF-8", "not-utf8"), ("Expected an empty value", "expected-empty")] {
        if e.contains(pat) { return c }
    }
    if e.is_empty() { "" } else { "other" }
}
fn lossy(b: &[u8]) -> String { util::clip(&String::from_utf8_lossy(b), 300) }
fn tool(msg: impl Into<String>) -> Value { json!({"kind": "tool-error", "msg": msg.into()}) }

macro_rules! dispatch { ($ty:expr, $f:ident ( $($a:expr),* )) => { match $ty {
    "Ints" => $f::<Ints>($($a),*), "Floats" => $f::<Floats>($($a),*), "Scal" => $f::<Scal>($($a),*), "Str1" => $f::<Str1>($($a),*),
    "Str2" => $f::<Str2>($($a),*), "Ch" => $f::<Ch>($($a),*), "Opt" => $f::<Opt>($($a),*), "OptEnd" => $f::<OptEnd>($($a),*),
    "En" => $f::<En>($($a),*), "Nt" => $f::<Nt>($($a),*), "SeqS" => $f::<SeqS>($($a),*), "SeqN" => $f::<SeqN>($($a),*), "Seq2" => $f::<Seq2>($($a),*), "TupSeq" => $f::<TupSeq>($($a),*), "TsSeq" => $f::<TsSeq>($($a),*), "Map" => $f::<Map>($($a),*), "OMap" => $f::<OMap>($($a),*),
    other => tool(format!("unknown type tag {other}")) } } }

// ------------------------------------------------------------------ mode rt
fn concretise_tokens(toks: &[Value], cz: &mut Cz) -> Result<String, String> {
    // one "#symbol" (kept as is), or class tokens
    if toks.len() == 1 { if let Some(s) = toks[0].as_str() { if s.starts_with('#') { return Ok(s.to_string()) } } }
    let mut out = String::new();
    for t in toks { out.push(cz.pick(t.as_str().ok_or("token is not a string")?)?) }
    Ok(out)
}
fn fields_in(scn: &Value, cz: &mut Cz) -> Result<Vec<FieldIn>, String> {
    let mut out = vec![];
    for f in util::arr(&scn["val"]) {
        let key = concretise_tokens(util::arr(&f["key"]), cz)?;
        let mut elems = vec![];
        for e in util::arr(&f["v"]) { elems.push(concretise_tokens(util::arr(e), cz)?) }
        out.push(FieldIn { name: util::s(&f["f"]).to_string(), key, elems });
    }
    Ok(out)
}
fn rt<T: Cat>(fields: &[FieldIn]) -> Value {
    let v = match T::build(&In(fields)) {
        Ok(v) => v,
        Err(e) if e == "dup" => return json!({"kind": "urlenc", "mode": "rt", "ser": "skip", "text": [], "texts": "", "de": "skip", "err": "duplicate map key after concretisation", "errc": "", "vin": [], "vout": []}),
        Err(e) => return tool(e),
    };
    let vin = proj_json(&v.project());
    match serde_urlencoded::to_string(&v) {
        Err(e) => json!({"kind": "urlenc", "mode": "rt", "ser": "err", "text": [], "texts": "", "de": "skip", "err": util::clip(&e.to_string(), 200), "errc": "ser", "vin": vin, "vout": []}),
        Ok(text) => {
            let (de, err, vout) = match serde_urlencoded::from_bytes::<T>(text.as_bytes()) {
                Ok(v2) => ("ok", String::new(), proj_json(&v2.project())),
                Err(e) => ("err", util::clip(&e.to_string(), 200), json!([])),
            };
            json!({"kind": "urlenc", "mode": "rt", "ser": "ok", "text": bytes_json(text.as_bytes()), "texts": lossy(text.as_bytes()), "de": de, "errc": errc(&err), "err": err, "vin": vin, "vout": vout})
        }
    }
}

// ------------------------------------------------------------------ modes dec / iter
fn wire(toks: &[Value], cz: &mut Cz, out: &mut Vec<u8>) -> Result<(), String> {
    for t in toks {
        let (c, e) = (util::s(&t["c"]), util::s(&t["e"]));
        if c == "sym" { spell(out, &literal(util::s(&t["s"]))?, e) } else { spell(out, &cz.pick(c)?.to_string(), e) }
    }
    Ok(())
}
pub fn text_of(scn: &Value, cz: &mut Cz) -> Result<Vec<u8>, String> {
    let mut out = vec![];
    for (i, p) in util::arr(&scn["pairs"]).iter().enumerate() {
        if i > 0 { out.push(b'&') }
        wire(util::arr(&p["k"]), cz, &mut out)?;
        out.push(b'=');
        wire(util::arr(&p["v"]), cz, &mut out)?;
    }
    Ok(out)
}
/// a real Request read from raw bytes whose request line carries `text` as its query
/// The request object is one that has already served another request with a query of its own, as the request object of a keep-alive
/// session has (what Session::manage does between two requests: clear_keeping, read_following).  An empty text is sent as a target without `?`.
fn request_with_query(text: &[u8]) -> Result<ohkami::__verif::VRequest, String> {
    let mut raw = if text.is_empty() { b"GET /q".to_vec() } else { b"GET /q?".to_vec() };
    raw.extend_from_slice(text);
    raw.extend_from_slice(b" HTTP/1.1\r\nHost: verif\r\nCookie: q=x&lang=y\r\n\r\n");
    if raw.len() > 1000 { return Err("query too long for one request buffer".into()) }
    let mut req = ohkami::__verif::VRequest::new();
    let mut pre: &[u8] = b"GET /earlier/request?zz=stale&k=old&q=1 HTTP/1.1\r\nHost: earlier\r\n\r\n";
    match util::block_on(req.read(&mut pre)) { Ok(Some(())) => {} _ => return Err("earlier request not read".into()) }
    let _ = req.get().query.iter().count();
    let carried = req.clear_keeping(0..0);
    let mut rd: &[u8] = &raw;
    match util::block_on(req.read_following(&mut rd, carried)) {
        Ok(Some(_)) => Ok(req),
        Ok(None) => Err("request not read".into()),
        Err(res) => Err(format!("request rejected with status {}", res.status.code())),
    }
}
fn dec<T: Cat>(text: &[u8], ctx: &str) -> Value {
    let res: Result<Proj, String> = if ctx == "query" {
        let req = match request_with_query(text) { Ok(r) => r, Err(e) => return json!({"kind": "urlenc", "mode": "dec", "text": bytes_json(text), "texts": lossy(text), "de": "noreq", "err": e, "errc": "", "vout": []}) };
        let r = req.get().query.parse::<T>().map(|v| v.project()).map_err(|e| e.to_string());
        r
    } else {
        serde_urlencoded::from_bytes::<T>(text).map(|v| v.project()).map_err(|e| e.to_string())
    };
    let (de, err, vout) = match res { Ok(p) => ("ok", String::new(), proj_json(&p)), Err(e) => ("err", util::clip(&e, 200), json!([])) };
    json!({"kind": "urlenc", "mode": "dec", "text": bytes_json(text), "texts": lossy(text), "de": de, "errc": errc(&err), "err": err, "vout": vout})
}
fn iter(text: &[u8]) -> Value {
    let req = match request_with_query(text) { Ok(r) => r, Err(e) => return json!({"kind": "urlenc", "mode": "iter", "text": bytes_json(text), "texts": lossy(text), "de": "noreq", "err": e, "errc": "", "pairs": []}) };
    let pairs: Vec<Value> = req.get().query.iter().map(|(k, v)| json!({"k": cps(&k), "v": cps(&v)})).collect();
    json!({"kind": "urlenc", "mode": "iter", "text": bytes_json(text), "texts": lossy(text), "de": "ok", "err": "", "errc": "", "pairs": pairs})
}

pub fn run(scn: &Value) -> Value {
    let mut cz = Cz::new(scn);
    let ty = util::s(&scn["ty"]);
    match util::s(&scn["mode"]) {
        "rt" => {
            let fields = match fields_in(scn, &mut cz) { Ok(f) => f, Err(e) => return tool(e) };
            dispatch!(ty, rt(&fields))
        }
        "dec" => {
            let text = match text_of(scn, &mut cz) { Ok(t) => t, Err(e) => return tool(e) };
            let mut obs: Value = dispatch!(ty, dec(&text, util::s(&scn["ctx"])));
            // a float given as a long decimal text ("f32:=<text>"): the canonical rendering of the decoded float is reported as that text exactly
            // when the decoded float is the one nearest to the text (`str::parse` of the standard library rounds correctly)
            for pr in util::arr(&scn["pairs"]) {
                let (k, v) = (util::arr(&pr["k"]), util::arr(&pr["v"]));
                if k.len() != 1 || v.len() != 1 { continue }
                let (Some(name), Some((kind, sym))) = (util::s(&k[0]["s"]).strip_prefix("name:"), util::s(&v[0]["s"]).split_once(":=")) else { continue };
                let want = match kind { "f32" => sym.parse::<f32>().ok().map(pf32), "f64" => sym.parse::<f64>().ok().map(pf64), _ => None };
                let Some(want) = want else { continue };
                if let Some(vs) = obs["vout"].as_array_mut() {
                    for e in vs.iter_mut() { if e["n"] == cps(name) && e["v"] == json!([cps(&want)]) { e["v"] = json!([cps(sym)]) } }
                }
            }
            obs
        }
        "iter" => {
            let text = match text_of(scn, &mut cz) { Ok(t) => t, Err(e) => return tool(e) };
            iter(&text)
        }
        m => tool(format!("unknown mode {m}")),
    }
}

// ------------------------------------------------------------------ seeded random scenarios (same vocabulary, beyond TLC's bounds)
const KINDS: &[(&str, &[(&str, &str)])] = &[
    ("Ints", &[("a", "i8"), ("b", "i16"), ("c", "i32"), ("d", "i64"), ("e", "u8"), ("f", "u16"), ("g", "u32"), ("h", "u64"), ("i", "isize"), ("j", "usize")]),
    ("Floats", &[("x", "f32"), ("y", "f64")]),
    ("Scal", &[("b", "bool"), ("s", "str"), ("u_n", "i32")]),
    ("Str1", &[("s", "str")]),
    ("Str2", &[("s", "str"), ("t", "str")]),
    ("Ch", &[("c", "char"), ("z", "u8")]),
    ("Opt", &[("o", "optstr"), ("p", "optu32"), ("z", "u8")]),
    ("OptEnd", &[("z", "u8"), ("o", "optstr")]),
    ("En", &[("e", "enum"), ("s", "str")]),
    ("Nt", &[("id", "ntu32"), ("name", "ntstr")]),
    ("SeqS", &[("v", "vecstr"), ("z", "u8")]),
    ("SeqN", &[("w", "vecu32")]),
    ("Seq2", &[("v", "vecstr"), ("w", "vecu32")]),
    ("TupSeq", &[("t", "tup2u32"), ("w", "vecu32")]),
    ("TsSeq", &[("t", "tup2u32"), ("w", "vecu32")]),
];
fn rnd_int(rng: &mut Rng, kind: &str) -> String {
    let k = match kind { "ntu32" | "optu32" | "vecu32" | "tup2u32" => "u32", k => k };
    if rng.chance(1, 3) { return (*rng.pick(&["0", "1", "min", "max"])).to_string() }
    let r = rng.next();
    format!("={}", match k {
        "i8" => (r as i8).to_string(), "i16" => (r as i16).to_string(), "i32" => (r as i32).to_string(), "i64" | "isize" => (r as i64).to_string(),
        "u8" => (r as u8).to_string(), "u16" => (r as u16).to_string(), "u32" => (r as u32).to_string(), _ => r.to_string() })
}
fn rnd_float(rng: &mut Rng, kind: &str) -> String {
    if rng.chance(1, 3) { return (*rng.pick(&["0", "-0", "1.5", "-2.5e-3", "max", "minpos", "nan", "inf", "-inf"])).to_string() }
    let bits = rng.next();
    if kind == "f32" { let x = f32::from_bits(bits as u32); if x.is_nan() { "nan".into() } else { format!("={}", x) } }
    else { let x = f64::from_bits(bits); if x.is_nan() { "nan".into() } else { format!("={}", x) } }
}
fn rnd_sym(rng: &mut Rng, kind: &str) -> String {
    match kind {
        "bool" => (*rng.pick(&["true", "false"])).to_string(),
        "enum" => (*rng.pick(&["A", "Bee", "dark_red"])).to_string(),
        "f32" | "f64" => rnd_float(rng, kind),
        _ => rnd_int(rng, kind),
    }
}
fn rnd_class(rng: &mut Rng) -> &'static str { if rng.chance(1, 3) { "al" } else { CLASSES[rng.below(CLASSES.len())] } }
fn rnd_toks(rng: &mut Rng, max: usize) -> Vec<Value> { (0..rng.below(max + 1)).map(|_| json!(rnd_class(rng))).collect() }
fn raw_ok(c: &str, ctx: &str) -> bool { !matches!(c, "amp" | "eq" | "pct") && (ctx != "query" || matches!(c, "al" | "plus" | "comma" | "slash" | "unres" | "res")) }
fn rnd_wire(rng: &mut Rng, ctx: &str, min: usize, max: usize) -> Vec<Value> {
    (0..rng.range(min, max)).map(|_| { let c = rnd_class(rng); let e = if raw_ok(c, ctx) && rng.chance(1, 2) { "r" } else if rng.chance(1, 2) { "U" } else { "L" }; json!({"c": c, "e": e, "s": ""}) }).collect()
}
fn sym_kind<'a>(kind: &'a str) -> &'a str { match kind { "ntu32" | "optu32" => "u32", k => k } }
pub fn gen(rng: &mut Rng, _i: usize) -> Value {
    match rng.below(10) {
        0..=3 => { // round trip
            if rng.chance(1, 8) {
                let n = rng.below(5);
                let val: Vec<Value> = (0..n).map(|_| json!({"f": "", "k": "entry", "key": rnd_toks(rng, 6), "v": [rnd_toks(rng, 6)]})).collect();
                return json!({"mode": "rt", "ty": if rng.chance(1, 2) { "Map" } else { "OMap" }, "val": val});
            }
            let (ty, fs) = KINDS[rng.below(KINDS.len())];
            let val: Vec<Value> = fs.iter().map(|(f, k)| {
                let v: Vec<Value> = match *k {
                    "str" | "ntstr" => vec![json!(rnd_toks(rng, 10))],
                    "char" => vec![json!([rnd_class(rng)])],
                    "optstr" => if rng.chance(1, 3) { vec![] } else { vec![json!(rnd_toks(rng, 6))] },
                    "optu32" => if rng.chance(1, 3) { vec![] } else { vec![json!([format!("#{}", rnd_int(rng, k))])] },
                    "vecstr" => (0..rng.below(5)).map(|_| json!(rnd_toks(rng, 4))).collect(),
                    "vecu32" => (0..rng.below(5)).map(|_| json!([format!("#{}", rnd_int(rng, k))])).collect(),
                    "tup2u32" => (0..2).map(|_| json!([format!("#{}", rnd_int(rng, k))])).collect(),
                    k => vec![json!([format!("#{}", rnd_sym(rng, k))])],
                };
                json!({"f": f, "k": k, "key": [], "v": v})
            }).collect();
            json!({"mode": "rt", "ty": ty, "val": val})
        }
        4..=7 => { // decode into a typed target: permuted fields, random spellings, unknown extra pairs
            let ctx = if rng.chance(1, 2) { "body" } else { "query" };
            if rng.chance(1, 8) {
                let n = rng.range(1, 4);
                let pairs: Vec<Value> = (0..n).map(|_| json!({"k": rnd_wire(rng, ctx, 1, 5), "v": rnd_wire(rng, ctx, 0, 6)})).collect();
                return json!({"mode": "dec", "ctx": ctx, "ty": "Map", "pairs": pairs});
            }
            let (ty, fs) = KINDS[rng.below(10)];
            let mut pairs: Vec<Value> = vec![];
            for (f, k) in fs.iter() {
                if k.starts_with("opt") && rng.chance(1, 3) { continue }
                let ke = *rng.pick(&["r", "r", "U", "L", "M"]);
                let v: Vec<Value> = match *k {
                    "str" | "ntstr" | "optstr" => rnd_wire(rng, ctx, 0, 8),
                    "char" => rnd_wire(rng, ctx, 1, 1),
                    k => vec![json!({"c": "sym", "e": *rng.pick(&["r", "r", "U", "L", "M"]), "s": format!("{}:{}", sym_kind(k), rnd_sym(rng, k))})],
                };
                pairs.push(json!({"k": [{"c": "sym", "e": ke, "s": format!("name:{f}")}], "v": v}));
            }
            for j in (1..pairs.len()).rev() { let k = rng.below(j + 1); pairs.swap(j, k) }
            for _ in 0..rng.below(3) {
                let at = rng.below(pairs.len() + 1);
                let name = *rng.pick(&["zz", "q9", "k0", "extra_1"]);
                pairs.insert(at, json!({"k": [{"c": "sym", "e": *rng.pick(&["r", "U"]), "s": format!("name:{name}")}], "v": rnd_wire(rng, ctx, 0, 5)}));
            }
            json!({"mode": "dec", "ctx": ctx, "ty": ty, "pairs": pairs})
        }
        _ => { // query iterator
            let n = rng.range(1, 6);
            let pairs: Vec<Value> = (0..n).map(|_| json!({"k": rnd_wire(rng, "query", 1, 5), "v": rnd_wire(rng, "query", 0, 8)})).collect();
            json!({"mode": "iter", "ctx": "query", "ty": "Iter", "pairs": pairs})
        }
    }
}
