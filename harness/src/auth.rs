//! C12 (JWT fang) and C13 (BasicAuth fang): one abstract scenario row (specs/Auth.tla vocabulary) is concretised
//! into real bytes, sent through the REAL fang (`ohkami::fang::{JWT, BasicAuth}`) in front of an identity-echoing
//! handler, and the outcome is projected back onto the abstract vocabulary. Nothing here decides: the verdict is
//! computed by specs/Trace_Auth.tla from `scn` + `obs`.
//!
//! Trusted base of this module: the token -> character table (`basic_char`), the key / payload / header / claim
//! tables (`jwt_*`), the own HMAC-SHA2 + base64 code path (`mac`, crates hmac/sha2/base64 called directly, checked
//! against Python's hmac/hashlib by the driver through `mod = "selfcheck"`), the mutation expanders, and the
//! projection (`ran` = the handler's counter moved; payload = what the handler read through `Context<Payload>`).
use crate::util::{self, arr, block_on, s, Rng};
use base64::engine::general_purpose::{STANDARD, STANDARD_NO_PAD, URL_SAFE_NO_PAD};
use base64::Engine as _;
use hmac::{Hmac, Mac};
use ohkami::__verif::{finalize, send, VRequest, VRouter};
use ohkami::fang::{BasicAuth, Context, JWT};
use ohkami::{Ohkami, Route};
use serde_json::{json, Value};
use sha2::{Sha256, Sha384, Sha512};
use std::cell::{Cell, RefCell};

// ------------------------------------------------------------------------------------------------ handlers
thread_local! {
    static RAN: Cell<u32> = const { Cell::new(0) };
    static SEEN: RefCell<Option<String>> = const { RefCell::new(None) };
}
fn mark(seen: Option<String>) { RAN.with(|r| r.set(r.get() + 1)); SEEN.with(|x| *x.borrow_mut() = seen); }

async fn h_plain() -> &'static str { mark(None); "ran" }
async fn h_value(Context(p): Context<'_, Value>) -> String { let t = p.to_string(); mark(Some(t.clone())); t }

#[derive(serde::Serialize, serde::Deserialize, Clone, Debug)]
struct Claims {
    // declaration order = sorted key order, so that serde writes the same text as `jwt_payload`
    #[serde(default, skip_serializing_if = "Option::is_none")] exp: Option<u64>,
    #[serde(default, skip_serializing_if = "Option::is_none")] iat: Option<u64>,
    n: u64,
    #[serde(default, skip_serializing_if = "Option::is_none")] nbf: Option<u64>,
    sub: String,
}
async fn h_typed(Context(p): Context<'_, Claims>) -> String { let t = serde_json::to_string(p).unwrap(); mark(Some(t.clone())); t }

// ------------------------------------------------------------------------------------------------ one exchange
struct Out { panicked: bool, ran: bool, seen: Option<String>, status: u16, headers: Vec<(String, String)>, perr: String, stage: &'static str }

/// request bytes -> real Request::read -> real Router::handle (fang + handler) -> real Response::send -> independent parser
fn exchange(router: &VRouter, bytes: &[u8], head: bool) -> Out {
    RAN.with(|r| r.set(0)); SEEN.with(|x| *x.borrow_mut() = None);
    let r = std::panic::catch_unwind(std::panic::AssertUnwindSafe(|| block_on(async {
        let mut rq = VRequest::new();
        let mut rd = bytes;
        let (res, stage) = match rq.read(&mut rd).await {
            Ok(Some(())) => (rq.handle(router).await, "handle"),
            Ok(None) => return (Vec::new(), "closed"),
            Err(res) => (res, "read"),
        };
        let mut out = Vec::new();
        send(res, &mut out).await;
        (out, stage)
    })));
    let ran = RAN.with(|r| r.get()) > 0;
    let seen = SEEN.with(|x| x.borrow_mut().take());
    match r {
        Err(_) => Out { panicked: true, ran, seen, status: 0, headers: vec![], perr: "panic".into(), stage: "panic" },
        Ok((out, stage)) => {
            let p = util::parse_response(&out, head);
            Out { panicked: false, ran, seen, status: p.status, headers: p.headers, perr: p.error, stage }
        }
    }
}

fn request_bytes(method: &str, path: &str, auth: &[(String, Vec<u8>)]) -> Vec<u8> {
    let mut b = format!("{method} {path} HTTP/1.1\r\nHost: v.test\r\n").into_bytes();
    for (k, v) in auth { b.extend_from_slice(k.as_bytes()); b.extend_from_slice(b": "); b.extend_from_slice(v); b.extend_from_slice(b"\r\n"); }
    b.extend_from_slice(b"\r\n");
    b
}

fn show(b: &[u8]) -> String { match std::str::from_utf8(b) { Ok(t) => util::clip(t, 700), Err(_) => format!("hex:{}", util::hex(&b[..b.len().min(350)])) } }

// ================================================================================================ C13 BasicAuth
/// token -> character; injective for every seed (the representative sets are pairwise disjoint; "A" is the upper
/// case of the representative chosen for "a"); byte lengths are fixed per token (Auth!ByteLen1 relies on it).
fn basic_char(tok: &str, cs: u64) -> char {
    let v = (cs % 3) as usize;
    match tok {
        "a" => ['a', 'k', 'z'][v], "A" => ['A', 'K', 'Z'][v], "b" => ['b', 'm', '7'][v], "d" => ['d', 'p', '~'][v],
        ":" => ':', "sp" => ' ', "ct" => ['\t', '\u{7f}', '\u{1}'][v],
        "c2" => ['é', 'ß', 'ж'][v], "c3" => ['日', '€', '\u{FFFD}'][v], "c4" => ['😀', '𝄞', '🦀'][v],
        _ => '?',
    }
}
fn basic_str(toks: &Value, cs: u64) -> String { arr(toks).iter().map(|t| basic_char(s(t), cs)).collect() }

fn basic_router(scn: &Value, cs: u64) -> Result<(VRouter, &'static str), String> {
    let pairs: Vec<(String, String)> = arr(&scn["pairs"]).iter().map(|p| (basic_str(&p["u"], cs), basic_str(&p["p"], cs))).collect();
    let ba = |i: usize| BasicAuth { username: pairs[i].0.clone(), password: pairs[i].1.clone() };
    let nested = s(&scn["mount"]) == "nested";
    macro_rules! app { ($fang:expr) => {{
        let inner = Ohkami::new(($fang, "/p".GET(h_plain).POST(h_plain)));
        if nested { finalize(Ohkami::new(("/n".By(inner),))) } else { finalize(inner) }
    }}; }
    let r = match (s(&scn["form"]), pairs.len()) {
        ("single", 1) => app!(ba(0)),
        ("array", 1) => app!([ba(0)]),
        ("array", 2) => app!([ba(0), ba(1)]),
        ("array", 3) => app!([ba(0), ba(1), ba(2)]),
        ("array", 4) => app!([ba(0), ba(1), ba(2), ba(3)]),
        ("array", 5) => app!([ba(0), ba(1), ba(2), ba(3), ba(4)]),
        ("array", 6) => app!([ba(0), ba(1), ba(2), ba(3), ba(4), ba(5)]),
        (f, n) => return Err(format!("unsupported BasicAuth form {f}/{n}")),
    };
    Ok((r, if nested { "/n/p" } else { "/p" }))
}

/// the Authorization header value (None = no header) for a header record {kind, cred}
fn basic_header(h: &Value, cs: u64) -> Option<Vec<u8>> {
    let cred = basic_str(&h["cred"], cs).into_bytes();
    let b64 = STANDARD.encode(&cred);
    let with = |scheme: &str, x: &str| Some(format!("{scheme}{x}").into_bytes());
    let pick = |n: usize| ((cs / 7) as usize) % n.max(1);
    match s(&h["kind"]) {
        "basic" => with("Basic ", &b64),
        "nopad" => with("Basic ", &STANDARD_NO_PAD.encode(&cred)),
        "noncanon" => {
            // same bytes for a lenient decoder, different trailing (unused) bits in the last symbol; identity when there are none
            const A: &[u8] = b"ABCDEFGHIJKLMNOPQRSTUVWXYZabcdefghijklmnopqrstuvwxyz0123456789+/";
            let mut e = b64.clone().into_bytes();
            if cred.len() % 3 != 0 {
                let i = e.iter().rposition(|c| *c != b'=').unwrap();
                let v = A.iter().position(|c| *c == e[i]).unwrap();
                e[i] = A[v | 1];
                if e[i] == b64.as_bytes()[i] { e[i] = A[v | 2] }
            }
            with("Basic ", std::str::from_utf8(&e).unwrap())
        }
        "lower" => with("basic ", &b64),
        "upper" => with("BASIC ", &b64),
        "twospace" => with("Basic  ", &b64),
        "nospace" => with("Basic", &b64),
        "tab" => with("Basic\t", &b64),
        "bearer" => with("Bearer ", &b64),
        "digest" => with("Digest ", &b64),
        "schemeonly" => with("Basic", ""),
        "missing" => None,
        "badchar" => {
            let bad = ['!', '*', '-', '_', ' ', '.', '%'][pick(7)];
            let mut e: Vec<char> = b64.chars().collect();
            if e.is_empty() { e.push(bad) } else { let i = ((cs / 53) as usize) % e.len(); e[i] = bad }
            with("Basic ", &e.into_iter().collect::<String>())
        }
        "trailing" => with("Basic ", &format!("{b64}A")),
        "twice" => with("Basic ", &b64),      // (run_basic sends the line twice)
        "lead" => with("Basic ", &format!("A{b64}")),
        "midpad" => {
            if cred.len() >= 2 { with("Basic ", &format!("{}{}", STANDARD.encode(&cred[..1]), STANDARD.encode(&cred[1..]))) }
            else { with("Basic ", &format!("{b64}=")) }
        }
        "nonutf8_last" => { let mut c = cred.clone(); c.push([0xFF, 0x80, 0xC0][pick(3)]); with("Basic ", &STANDARD.encode(&c)) }
        "nonutf8_trunc" => { let mut c = cred.clone(); c.extend_from_slice([&[0xC3u8][..], &[0xE2, 0x82], &[0xF0, 0x9F, 0x98]][pick(3)]); with("Basic ", &STANDARD.encode(&c)) }
        "nonutf8_mid" => {
            // an invalid byte that is NOT the last byte: inserted at a character boundary before the end, or followed by an ASCII byte
            let t = String::from_utf8(cred.clone()).unwrap();
            let bounds: Vec<usize> = t.char_indices().map(|(i, _)| i).collect();
            let mut c = cred.clone();
            if bounds.is_empty() { c.extend_from_slice(&[0xFF, b'a']) } else { c.insert(bounds[((cs / 53) as usize) % bounds.len()], 0xFF) }
            with("Basic ", &STANDARD.encode(&c))
        }
        "nonutf8_repl" => {
            // every three-byte character replaced by one invalid byte (a lossy decoder turns each into U+FFFD, which is one of the
            // representatives of that character class); an invalid byte is appended when there is none to replace
            let mut c: Vec<u8> = vec![]; let mut any = false;
            for t in arr(&h["cred"]) { if s(t) == "c3" { c.push(0xFF); any = true } else { let mut b = [0u8; 4]; c.extend_from_slice(basic_char(s(t), cs).encode_utf8(&mut b).as_bytes()) } }
            if !any { c.push(0xFF) }
            with("Basic ", &STANDARD.encode(&c))
        }
        "rawff" => { let mut v = format!("Basic {b64}").into_bytes(); v.push(0xFF); Some(v) }
        _ => with("Unknown ", &b64),
    }
}

fn run_basic(scn: &Value) -> Value {
    let cs = scn["cs"].as_u64().unwrap_or(0);
    let (router, path) = match basic_router(scn, cs) { Ok(x) => x, Err(e) => return json!({"kind": "tool-error", "msg": e}) };
    let hv = basic_header(&scn["hdr"], cs);
    let mut auth: Vec<(String, Vec<u8>)> = hv.iter().map(|v| ("Authorization".to_string(), v.clone())).collect();
    if s(&scn["hdr"]["kind"]) == "twice" { let again = auth[0].1.clone(); auth.push((if cs % 2 == 0 { "Authorization" } else { "authorization" }.to_string(), again)) }
    let method = match s(&scn["method"]) { "" => "GET", m => m };
    let bytes = request_bytes(method, path, &auth);
    // C13 rows are single-variant: a panic is left to the worker framework (it records file:line)
    RAN.with(|r| r.set(0));
    let o = {
        let r = block_on(async {
            let mut rq = VRequest::new();
            let mut rd = &bytes[..];
            let (res, stage) = match rq.read(&mut rd).await {
                Ok(Some(())) => (rq.handle(&router).await, "handle"),
                Ok(None) => return (Vec::new(), "closed"),
                Err(res) => (res, "read"),
            };
            let mut out = Vec::new();
            send(res, &mut out).await;
            (out, stage)
        });
        let p = util::parse_response(&r.0, method == "HEAD");
        (p, r.1)
    };
    let ran = RAN.with(|r| r.get()) > 0;
    let chal: Vec<&String> = o.0.headers.iter().filter(|(k, _)| k.eq_ignore_ascii_case("WWW-Authenticate")).map(|(_, v)| v).collect();
    let chal_class = if chal.is_empty() { "none" } else if chal.iter().all(|v| v.starts_with("Basic")) { "basic" } else { "other" };
    json!({"kind": "basic", "ran": ran, "status": o.0.status, "chal": chal_class, "stage": o.1, "perr": o.0.error,
           "value": hv.as_deref().map(show).unwrap_or_else(|| "(no header)".into()),
           "pairs": arr(&scn["pairs"]).iter().map(|p| json!([basic_str(&p["u"], cs), basic_str(&p["p"], cs)])).collect::<Vec<_>>()})
}

// ================================================================================================ C12 JWT
pub fn mac(alg: &str, key: &[u8], msg: &[u8]) -> Vec<u8> {
    match alg {
        "HS256" => { let mut m = Hmac::<Sha256>::new_from_slice(key).unwrap(); m.update(msg); m.finalize().into_bytes().to_vec() }
        "HS384" => { let mut m = Hmac::<Sha384>::new_from_slice(key).unwrap(); m.update(msg); m.finalize().into_bytes().to_vec() }
        _ => { let mut m = Hmac::<Sha512>::new_from_slice(key).unwrap(); m.update(msg); m.finalize().into_bytes().to_vec() }
    }
}
fn b64u(b: &[u8]) -> String { URL_SAFE_NO_PAD.encode(b) }
const B64U: &[u8] = b"ABCDEFGHIJKLMNOPQRSTUVWXYZabcdefghijklmnopqrstuvwxyz0123456789-_";

fn jwt_key(id: &str, cs: u64) -> String {
    let v = (cs % 2) as usize;
    match id {
        "k1" => ["s3cr3t", "K9"][v].to_string(),
        "k2" => [format!("{}x", "L".repeat(150)), (0..211).map(|i| (b'a' + (i % 26) as u8) as char).collect::<String>()][v].clone(),
        "k3" => ["ключ-秘密-🔑", "pässwörd ñ"][v].to_string(),
        "k4" => ["  our jwt secret \n", "\tsecret-from-a-file\r\n"][v].to_string(),
        _ => "OUR_JWT_SECRET_KEY".to_string(),
    }
}
/// keys a token may have been signed with, by relation to the configured key (never HMAC-equivalent to it:
/// no trailing-NUL variants, never the hash of a long key)
fn jwt_signing_keys(rel: &str, cfg_key: &str) -> Vec<String> {
    match rel {
        "same" => vec![cfg_key.to_string()],
        "other" => vec!["an-unrelated-key".to_string()],
        // the key of the outer fang of a stacked configuration (there the very same token is presented to both fangs: valid for the outer one)
        "outer" => vec![outer_secret(cfg_key)],
        "empty" => vec![String::new()],
        "near" => {
            let cs: Vec<char> = cfg_key.chars().collect();
            let mut v = vec![format!("{cfg_key}x"), format!("x{cfg_key}")];
            if cfg_key.trim() != cfg_key && !cfg_key.trim().is_empty() { v.push(cfg_key.trim().to_string()); v.push(cfg_key.trim_end().to_string()) }
            if cs.len() > 1 { v.push(cs[..cs.len() - 1].iter().collect()); }
            let mut c2 = cs.clone(); let l = c2.len() - 1; c2[l] = if c2[l] == 'y' { 'w' } else { 'y' }; v.push(c2.into_iter().collect());
            let mut c3 = cs.clone(); c3[0] = if c3[0].is_ascii_lowercase() { c3[0].to_ascii_uppercase() } else if c3[0].is_ascii_uppercase() { c3[0].to_ascii_lowercase() } else { 'q' }; v.push(c3.into_iter().collect());
            v
        }
        _ => vec!["?".to_string()],
    }
}

fn now() -> u64 { std::time::SystemTime::now().duration_since(std::time::UNIX_EPOCH).unwrap().as_secs() }

/// JSON text of a time claim by kind (None = claim absent). Never within one hour of the real clock.
fn jwt_claim(kind: &str, cs: u64, salt: u64) -> Option<String> {
    let n = now();
    let v = ((cs / 3 + salt) % 4) as usize;
    Some(match kind {
        "absent" => return None,
        "past" => [n - 3600, n - 86400 * 400, 1, 0][v].to_string(),
        "lapsed" => (n + 1).to_string(),       // (run_jwt idles before it presents the token)
        "future" => [n + 3600, n + 86400 * 3650, 4102444800, u64::MAX][v].to_string(),
        "pastf" => [format!("{}.5", n - 3600), "1.0e9".to_string(), "100000.25".to_string(), format!("{}.0", n - 86400)][v].clone(),
        "futuref" => [format!("{}.5", n + 3600), "4.0e9".to_string(), "9.9e12".to_string(), format!("{}.0", n + 86400)][v].clone(),
        "neg" => ["-5", "-1700000000", "-1", "-3600"][v].to_string(),
        "big" => ["18446744073709551616", "1e30", "99999999999999999999999", "36893488147419103232"][v].to_string(),
        "str" => [format!("\"{}\"", n + 3600), "\"never\"".to_string(), format!("\"{}\"", n - 3600), "\"\"".to_string()][v].clone(),
        "null" => "null".to_string(),
        "junk" => ["true", "false", "[]", "{}"][v].to_string(),
        _ => "\"?\"".to_string(),
    })
}

/// payload JSON text (compact, keys in sorted order: what serde_json writes for the same value)
fn jwt_payload(tok: &Value, cs: u64, nonce: u64) -> Vec<u8> {
    let c = |name: &str, salt: u64| jwt_claim(s(&tok[name]), cs, salt).map(|v| format!("\"{name}\":{v},")).unwrap_or_default();
    let sub = ["u-1", "alice", "böb", "x y"][((cs / 5) % 4) as usize];
    match s(&tok["pay"]) {
        "obj" => format!("{{{}{}\"n\":{},{}\"sub\":\"{}\"}}", c("exp", 0), c("iat", 1), nonce, c("nbf", 2), sub),
        "nested" => format!("{{\"a\":{{\"b\":[1,2,{{\"c\":null}}]}},{}{}\"n\":{},{}\"sub\":\"{}\",\"z\":true}}", c("exp", 0), c("iat", 1), nonce, c("nbf", 2), sub),
        "arr" => format!("[{nonce},\"two\",{{\"k\":3}}]"),
        "str" => format!("\"just a string {nonce}\""),
        "num" => format!("{}", 42 + nonce),
        "notjson" => format!("{{\"n\":{nonce},\"sub\":"),
        "empty" => String::new(),
        _ => "{}".to_string(),
    }.into_bytes()
}

fn jwt_header(cfg_alg: &str, tok: &Value, cs: u64) -> String {
    let v = ((cs / 11) % 3) as usize;
    let typ = match s(&tok["typ"]) { "JWT" => Some("\"JWT\"".to_string()), "jwt" => Some(["\"jwt\"", "\"Jwt\"", "\"jWT\""][v].to_string()),
        "other" => Some(["\"JWS\"", "\"at+jwt\"", "\"\""][v].to_string()), "num" => Some("1".to_string()), _ => None };
    let cty = match s(&tok["cty"]) { "JWT" => Some("\"JWT\"".to_string()), "other" => Some(["\"json\"", "\"text/plain\"", "7"][v].to_string()), _ => None };
    let alg = match s(&tok["halg"]) {
        "absent" => None,
        "none" => Some(["\"none\"", "\"None\"", "\"NONE\""][v].to_string()),
        "lower" => Some(format!("\"{}\"", cfg_alg.to_ascii_lowercase())),
        "space" => Some([format!("\"{cfg_alg} \""), format!("\" {cfg_alg}\""), format!("\"{cfg_alg}\\u0000\"")][v].clone()),
        "num" => Some(cfg_alg[2..].to_string()),
        "null" => Some("null".to_string()),
        "arr" => Some(format!("[\"{cfg_alg}\"]")),
        a => Some(format!("\"{a}\"")),
    };
    let f = |k: &str, v: &Option<String>, sep: &str| v.as_ref().map(|v| format!("\"{k}\"{sep}{v}"));
    let shape = s(&tok["hshape"]);
    let sep = if shape == "ws" { " : " } else { ":" };
    let mut fields: Vec<String> = match shape {
        "algfirst" => vec![f("alg", &alg, sep), f("typ", &typ, sep), f("cty", &cty, sep)],
        _ => vec![f("typ", &typ, sep), f("alg", &alg, sep), f("cty", &cty, sep)],
    }.into_iter().flatten().collect();
    if shape == "extra" { fields.push("\"kid\":\"k-1\"".to_string()) }
    if shape == "ws" { format!("{{ {} }}", fields.join(" , ")) } else { format!("{{{}}}", fields.join(",")) }
}

fn other_char(c: u8, k: u64) -> u8 {
    let i = B64U.iter().position(|x| *x == c).unwrap_or(0);
    B64U[(i + 1 + (k % 63) as usize) % 64]
}

/// every concrete token string of a row: `mut` applied to header.payload.signature
fn jwt_mutants(m: &str, h: &str, p: &str, sg: &str, macb: &[u8], cs: u64, reps: u64) -> Vec<String> {
    let t = format!("{h}.{p}.{sg}");
    let parts = [h, p, sg];
    let join = |x: &[String]| format!("{}.{}.{}", x[0], x[1], x[2]);
    let part_of = |m: &str| (m.as_bytes()[m.len() - 1] - b'1') as usize;
    let mut out = vec![];
    match m {
        "none" => out.push(t.clone()),
        "flip1" | "flip2" | "flip3" | "flipall1" | "flipall2" | "flipall3" => {
            let k = part_of(m);
            let all = m.starts_with("flipall");
            if all {   // bytes outside the base64url alphabet, at every position
                for i in 0..parts[k].len() { for c in [b'=', b'+', b'/', b'.', b' ', b'*', b'~'] {
                    let mut x: Vec<String> = parts.iter().map(|s| s.to_string()).collect();
                    let mut b = x[k].clone().into_bytes(); if b[i] == c { continue } b[i] = c; x[k] = String::from_utf8(b).unwrap();
                    out.push(join(&x));
                } }
            }
            let reps = if all { 63 } else { reps };   // 63 = every other symbol of the alphabet (13 is coprime to 63)
            for i in 0..parts[k].len() { for r in 0..reps {
                let mut x: Vec<String> = parts.iter().map(|s| s.to_string()).collect();
                let mut b = x[k].clone().into_bytes(); b[i] = other_char(b[i], cs.wrapping_mul(31).wrapping_add(i as u64 * 7 + r * 13)); x[k] = String::from_utf8(b).unwrap();
                out.push(join(&x));
            } }
        }
        "del1" | "del2" | "del3" => {
            let k = part_of(m);
            for i in 0..parts[k].len() {
                let mut x: Vec<String> = parts.iter().map(|s| s.to_string()).collect();
                x[k].remove(i); out.push(join(&x));
            }
        }
        "ins1" | "ins2" | "ins3" => {
            let k = part_of(m);
            for i in 0..=parts[k].len() { for r in 0..reps {
                let mut x: Vec<String> = parts.iter().map(|s| s.to_string()).collect();
                x[k].insert(i, B64U[((cs + i as u64 * 5 + r * 17) % 64) as usize] as char); out.push(join(&x));
            } }
        }
        "trunc" => for n in 0..t.len() { out.push(t[..n].to_string()) },
        "extra" => for e in [".x".to_string(), ".".to_string(), format!(".{sg}"), ".AAAA".to_string(), format!(".{h}"), "..".to_string(), ".x.y".to_string()] { out.push(format!("{t}{e}")) },
        "siglen" => {
            let l = macb.len();
            for s2 in [b64u(&macb[..16]), b64u(&macb[..l - 1]), b64u(&[macb, &[0u8][..]].concat()), b64u(&[macb, macb].concat()), String::new(), b64u(&macb[1..]), b64u(&macb[..l / 2])] { out.push(format!("{h}.{p}.{s2}")) }
        }
        "sigstd" => out.push(format!("{h}.{p}.{}", sg.replace('-', "+").replace('_', "/"))),
        "sigpad" => { out.push(format!("{t}=")); out.push(format!("{t}==")); out.push(format!("{h}.{p}.{}", STANDARD.encode(macb))) }
        "sigbits" => {
            let unused = (sg.len() * 6) % 8; // bits of the last symbol that carry no data
            let mut b = sg.as_bytes().to_vec(); let l = b.len() - 1;
            let i = B64U.iter().position(|x| *x == b[l]).unwrap();
            if unused > 0 { for d in 1..(1usize << unused) { let mut c = b.clone(); c[l] = B64U[i ^ d]; out.push(format!("{h}.{p}.{}", String::from_utf8(c).unwrap())) } }
            else { b[l] = other_char(b[l], cs); out.push(format!("{h}.{p}.{}", String::from_utf8(b).unwrap())) }
        }
        "parts" => for x in [format!("{h}.{sg}"), format!("{p}.{sg}"), format!(".{p}.{sg}"), format!("{h}..{sg}"), format!("{p}.{h}.{sg}"), format!("{sg}.{p}.{h}"),
                             format!("{h}.{p}{sg}"), format!("{h}{p}.{sg}"), format!("{h}.{h}.{sg}"), format!("{h}.{p}.{p}"), format!("{h}.{p}.{h}")] { out.push(x) },
        "garbage" => {
            let mut r = Rng::new(cs ^ 0xA5A5);
            for x in ["", ".", "..", "...", "a.b.c", "null", "undefined", "e30.e30.", "e30.e30.e30"] { out.push(x.to_string()) }
            out.push(h.to_string()); out.push(format!("{h}.")); out.push(sg.to_string());
            for _ in 0..8 {
                let n = r.range(1, 120); let dots = r.below(4);
                let mut x: String = (0..n).map(|_| B64U[r.below(64)] as char).collect();
                for _ in 0..dots { let at = r.below(x.len()); x.replace_range(at..at + 1, ".") }
                out.push(x);
            }
            for _ in 0..4 { let n = r.range(1, 60); out.push((0..n).map(|_| (0x21 + r.below(0x5e)) as u8 as char).collect()) }
        }
        _ => out.push(format!("?{t}")),
    }
    // a "mutant" that is textually the issued token is no mutation (e.g. standard base64 of a 48-byte MAC without '-'/'_')
    if m != "none" { let orig = format!("{h}.{p}.{sg}"); out.retain(|x| *x != orig) }
    out
}

/// header lines carrying the token for a transport kind
fn jwt_transport(via: &str, getter: &str, t: &str) -> Vec<(String, Vec<u8>)> {
    let custom = getter == "custom";
    let name = if custom { "X-Token" } else { "Authorization" };
    let v = |x: String| x.into_bytes();
    match via {
        "std" => vec![(name.into(), v(if custom { t.to_string() } else { format!("Bearer {t}") }))],
        "nohdr" => vec![],
        "wronghdr" => if custom { vec![("Authorization".into(), v(format!("Bearer {t}")))] } else { vec![("X-Token".into(), v(t.to_string()))] },
        "basic" => vec![(name.into(), v(format!("Basic {t}")))],
        "token" => vec![(name.into(), v(format!("Token {t}")))],
        "lcscheme" => vec![(name.into(), v(format!("bearer {t}")))],
        "ucscheme" => vec![(name.into(), v(format!("BEARER {t}")))],
        "nospace" => vec![(name.into(), v(format!("Bearer{t}")))],
        "twospace" => vec![(name.into(), v(format!("Bearer  {t}")))],
        "tab" => vec![(name.into(), v(format!("Bearer\t{t}")))],
        "rawff" => { let mut x = v(if custom { t.to_string() } else { format!("Bearer {t}") }); x.push(0xFF); vec![(name.into(), x)] }
        _ => vec![(name.into(), v(format!("Unknown {t}")))],
    }
}

fn jwt_router(cfg: &Value, secret: String) -> Result<(VRouter, &'static str), String> {
    fn tok_from_x(req: &ohkami::Request) -> Option<&str> { req.headers.get("X-Token") }
    let nested = s(&cfg["mount"]) == "nested";
    let stacked = s(&cfg["mount"]) == "stacked";
    macro_rules! app { ($P:ty, $h:expr) => {{
        let j: JWT<$P> = match s(&cfg["alg"]) { "HS256" => if secret.len() % 2 == 0 { JWT::default(secret.clone()) } else { JWT::new_256(secret.clone()) },
            "HS384" => JWT::new_384(secret.clone()), "HS512" => JWT::new_512(secret.clone()), a => return Err(format!("alg {a}")) };
        let j = if s(&cfg["getter"]) == "custom" { j.get_token_by(tok_from_x, ohkami::openapi::security::SecurityScheme::APIKey("xtoken", ohkami::openapi::security::APIKey::header("X-Token"))) } else { j };
        let inner = Ohkami::new((j, "/p".GET($h).POST($h)));
        if stacked {
            // an outer JWT fang of the same payload type with ANOTHER secret, looking for its token in X-Outer: the inner fang still has to
            // see a token signed with its own key (the harness always sends a valid outer token)
            fn tok_from_outer(req: &ohkami::Request) -> Option<&str> { req.headers.get("X-Outer") }
            let oj: JWT<$P> = JWT::new_256(outer_secret(&secret)).get_token_by(tok_from_outer, ohkami::openapi::security::SecurityScheme::APIKey("xouter", ohkami::openapi::security::APIKey::header("X-Outer")));
            finalize(Ohkami::new((oj, "/n".By(inner))))
        } else if nested { finalize(Ohkami::new(("/n".By(inner),))) } else { finalize(inner) }
    }}; }
    let r = match s(&cfg["ptype"]) { "typed" => app!(Claims, h_typed), _ => app!(Value, h_value) };
    Ok((r, if nested || stacked { "/n/p" } else { "/p" }))
}
fn outer_secret(secret: &str) -> String { format!("outer-{secret}-key") }
/// a valid token for the outer fang of a stacked configuration (payload {"n":4242,"sub":"outer"} fits both payload types)
fn outer_token(cfg: &Value, secret: &str) -> String {
    macro_rules! mk { ($P:ty) => {{ let v: $P = serde_json::from_slice(b"{\"n\":4242,\"sub\":\"outer\"}").expect("outer payload"); JWT::<$P>::new_256(outer_secret(secret)).issue(v).to_string() }}; }
    match s(&cfg["ptype"]) { "typed" => mk!(Claims), _ => mk!(Value) }
}

fn real_issue(cfg: &Value, secret: &str, payload: &[u8]) -> Option<String> {
    macro_rules! mk { ($P:ty) => {{
        let v: $P = serde_json::from_slice(payload).ok()?;
        let j: JWT<$P> = match s(&cfg["alg"]) { "HS256" => JWT::new_256(secret.to_string()), "HS384" => JWT::new_384(secret.to_string()), _ => JWT::new_512(secret.to_string()) };
        Some(j.issue(v).to_string())
    }}; }
    match s(&cfg["ptype"]) { "typed" => mk!(Claims), _ => mk!(Value) }
}

fn run_jwt(scn: &Value) -> Value {
    let cs = scn["cs"].as_u64().unwrap_or(0);
    let reps = scn["reps"].as_u64().unwrap_or(1).max(1);
    let (cfg, tok) = (&scn["cfg"], &scn["tok"]);
    let cfg_alg = s(&cfg["alg"]);
    let secret = jwt_key(s(&cfg["key"]), cs);
    let (router, path) = match jwt_router(cfg, secret.clone()) { Ok(x) => x, Err(e) => return json!({"kind": "tool-error", "msg": e}) };
    let method = s(&tok["method"]);
    let mutation = s(&tok["mut"]);
    let header = jwt_header(cfg_alg, tok, cs);
    let h = b64u(header.as_bytes());
    let mut variants: Vec<(String, Vec<u8>)> = vec![];   // (token string, signed payload bytes)
    let mut base_token = String::new();
    let mut issue_eq = "na";
    for (ki, skey) in jwt_signing_keys(s(&tok["skey"]), &secret).iter().enumerate() {
        // payload nonce: varied until the signature contains a url-safe-only symbol when the row needs one
        let mut nonce = cs % 1000;
        let (payload, p, macb, sg) = loop {
            let payload = jwt_payload(tok, cs, nonce);
            let p = b64u(&payload);
            let macb = mac(s(&tok["salg"]), skey.as_bytes(), format!("{h}.{p}").as_bytes());
            let sg = b64u(&macb);
            if mutation != "sigstd" || sg.contains('-') || sg.contains('_') || nonce > cs % 1000 + 200 { break (payload, p, macb, sg) }
            nonce += 1;
        };
        if ki == 0 { base_token = format!("{h}.{p}.{sg}") }
        for t in jwt_mutants(mutation, &h, &p, &sg, &macb, cs, reps) { variants.push((t, payload.clone())) }
        // the token the REAL `JWT::issue` produces for the same configuration and payload, when the row describes an issued token
        let issued_facts = s(&tok["skey"]) == "same" && s(&tok["salg"]) == cfg_alg && s(&tok["halg"]) == cfg_alg && s(&tok["typ"]) == "JWT"
            && s(&tok["cty"]) == "absent" && s(&tok["hshape"]) == "issue" && mutation == "none";
        if issued_facts {
            if let Some(real) = real_issue(cfg, &secret, &payload) {
                issue_eq = if real == base_token { "same" } else { "diff" };
                variants.push((real, payload.clone()));
            }
        }
    }
    let (mut n_same, mut n_diff, mut n_err, mut n_noerr, mut n_panic) = (0, 0, 0, 0, 0);
    let (mut ex_ran, mut ex_diff, mut ex_err, mut ex_noerr, mut ex_panic) = (String::new(), String::new(), String::new(), String::new(), String::new());
    let mut statuses: Vec<i64> = vec![];
    if s(&tok["exp"]) == "lapsed" {
        // an exchange with the server (a request without a token, answered 401), then nothing for more than two seconds: no request, no response,
        // nothing that would make the process look at the clock -- and then the token, one second after its `exp`
        let _ = exchange(&router, &request_bytes(method, path, &[]), method == "HEAD");
        std::thread::sleep(std::time::Duration::from_millis(2300));
    }
    for (t, payload) in &variants {
        let mut lines = jwt_transport(s(&tok["via"]), s(&cfg["getter"]), t);
        if s(&cfg["mount"]) == "stacked" { lines.push(("X-Outer".to_string(), if s(&tok["skey"]) == "outer" { t.clone().into_bytes() } else { outer_token(cfg, &secret).into_bytes() })) }
        let bytes = request_bytes(method, path, &lines);
        let o = exchange(&router, &bytes, method == "HEAD");
        let value = lines.first().map(|(k, v)| format!("{k}: {}", show(v))).unwrap_or_else(|| "(no header)".into());
        if !statuses.contains(&(o.status as i64)) { statuses.push(o.status as i64) }
        let set = |ex: &mut String| if ex.is_empty() { *ex = value.clone() };
        if o.panicked { n_panic += 1; set(&mut ex_panic) }
        else if o.ran {
            // what "exactly the signed payload" is for the handler's payload type: the JSON value itself, or the struct it decodes to
            let want: Option<Value> = if s(&cfg["ptype"]) == "typed" { serde_json::from_slice::<Claims>(payload).ok().and_then(|c| serde_json::to_value(c).ok()) }
                                      else { serde_json::from_slice(payload).ok() };
            let got: Option<Value> = o.seen.as_deref().and_then(|x| serde_json::from_str(x).ok());
            if want.is_some() && want == got { n_same += 1; set(&mut ex_ran) } else { n_diff += 1; set(&mut ex_diff) }
        }
        else if o.status >= 400 && o.perr.is_empty() { n_err += 1; set(&mut ex_err) }
        else { n_noerr += 1; set(&mut ex_noerr) }
        let _ = (&o.headers, o.stage);
    }
    statuses.sort();
    json!({"kind": "jwt", "n": variants.len(), "ran_same": n_same, "ran_diff": n_diff, "err": n_err, "noerr": n_noerr, "panic": n_panic,
           "statuses": statuses, "issue_eq": issue_eq, "token": util::clip(&base_token, 600), "header": header,
           "ex": {"ran": ex_ran, "diff": ex_diff, "err": ex_err, "noerr": ex_noerr, "panic": ex_panic}})
}

// ================================================================================================ entry points
pub fn run(scn: &Value) -> Value {
    match s(&scn["mod"]) {
        "basic" => run_basic(scn),
        "jwt" => run_jwt(scn),
        // cross-check of this module's own HMAC / base64 code path (the driver compares with Python's hmac, hashlib, base64)
        "selfcheck" => {
            let (key, msg) = (util::unhex(s(&scn["key_hex"])), util::unhex(s(&scn["msg_hex"])));
            let m = mac(s(&scn["alg"]), &key, &msg);
            json!({"kind": "selfcheck", "mac_hex": util::hex(&m), "b64url": b64u(&m), "b64std": STANDARD.encode(&m)})
        }
        m => json!({"kind": "tool-error", "msg": format!("unknown mod {m}")}),
    }
}

// ------------------------------------------------------------------------------------------------ random scenarios
fn rnd_part(rng: &mut Rng, colon: bool) -> Vec<&'static str> {
    let n = rng.below(6);
    (0..n).map(|_| { let a: &[&'static str] = if colon { &["a", "b", "A", "d", "c2", "c3", "c4", ":", ":", "sp", "ct"] } else { &["a", "b", "A", "d", "c2", "c3", "c4", "sp", "ct"] }; *rng.pick(a) }).collect()
}

fn gen_basic(rng: &mut Rng) -> Value {
    let n = rng.range(1, 6);
    let pairs: Vec<(Vec<&str>, Vec<&str>)> = (0..n).map(|_| (rnd_part(rng, false), rnd_part(rng, true))).collect();
    let cred = |u: &Vec<&'static str>, p: &Vec<&'static str>| { let mut c = u.clone(); c.push(":"); c.extend(p.iter()); c };
    let (i, j) = (rng.below(n), rng.below(n));
    let mut c: Vec<&'static str> = match rng.below(10) {
        0..=3 => cred(&pairs[i].0, &pairs[i].1),
        4 => cred(&pairs[i].0, &pairs[j].1),
        5 => { let mut c = pairs[i].0.clone(); c.extend(pairs[i].1.iter()); c }
        6 => cred(&pairs[i].1, &pairs[i].0),
        _ => cred(&pairs[i].0, &pairs[i].1),
    };
    match rng.below(8) {   // one-token edits of the credential
        0 => if !c.is_empty() { let at = rng.below(c.len()); c.remove(at); },
        1 => { let at = rng.below(c.len() + 1); c.insert(at, *rng.pick(&["a", "b", ":", "c2", "sp"])) }
        2 => if !c.is_empty() { let at = rng.below(c.len()); c[at] = match c[at] { "a" => "A", "A" => "a", "b" => "d", ":" => "sp", _ => "a" } },
        _ => {}
    }
    let kind = if rng.chance(1, 2) { "basic" } else { *rng.pick(&["basic", "nopad", "noncanon", "lower", "upper", "twospace", "nospace", "tab", "bearer", "digest", "schemeonly", "missing",
        "badchar", "trailing", "lead", "midpad", "nonutf8_last", "nonutf8_trunc", "nonutf8_mid", "nonutf8_repl", "rawff", "twice"]) };
    json!({"mod": "basic", "form": if n == 1 && rng.chance(1, 2) { "single" } else { "array" }, "mount": *rng.pick(&["top", "nested"]),
           "method": *rng.pick(&["GET", "POST", "GET", "HEAD", "OPTIONS"]),
           "pairs": pairs.iter().map(|(u, p)| json!({"u": u, "p": p})).collect::<Vec<_>>(),
           "hdr": {"kind": kind, "cred": c}, "cs": (rng.next() % 1_000_000) as u64})
}

fn gen_jwt(rng: &mut Rng) -> Value {
    const ALGS: &[&str] = &["HS256", "HS384", "HS512"];
    const CLAIM: &[&str] = &["absent", "absent", "absent", "past", "future", "pastf", "futuref", "neg", "big", "str", "null", "junk"];
    let alg = *rng.pick(ALGS);
    // mostly valid along every axis, so that a single deviating fact decides the row
    let mostly = |rng: &mut Rng, good: &'static str, all: &[&'static str]| if rng.chance(3, 4) { good } else { *rng.pick(all) };
    let salg = if rng.chance(3, 4) { alg } else { *rng.pick(ALGS) };
    let halg = if rng.chance(3, 4) { alg } else { *rng.pick(&["HS256", "HS384", "HS512", "none", "absent", "lower", "space", "num", "null", "arr"]) };
    let pay = mostly(rng, "obj", &["obj", "nested", "arr", "str", "num", "notjson", "empty"]);
    let claims = matches!(pay, "obj" | "nested");
    let c = |rng: &mut Rng, ok: &'static str| if !claims { "absent" } else if rng.chance(2, 3) { *rng.pick(&["absent", ok]) } else { *rng.pick(CLAIM) };
    let (exp, nbf, iat) = (c(rng, "future"), c(rng, "past"), c(rng, "past"));
    json!({"mod": "jwt",
        "cfg": {"alg": alg, "key": *rng.pick(&["k1", "k2", "k3", "k4"]), "getter": *rng.pick(&["default", "default", "custom"]), "ptype": *rng.pick(&["value", "value", "typed"]), "mount": *rng.pick(&["top", "nested", "stacked"])},
        "tok": {"skey": mostly(rng, "same", &["same", "other", "near", "empty", "outer"]), "salg": salg, "halg": halg,
                "typ": mostly(rng, "JWT", &["JWT", "absent", "jwt", "other", "num"]), "cty": mostly(rng, "absent", &["absent", "JWT", "other"]),
                "hshape": mostly(rng, "issue", &["issue", "algfirst", "extra", "ws"]),
                "exp": exp, "nbf": nbf, "iat": iat, "pay": pay,
                "mut": mostly(rng, "none", &["none", "flip1", "flip2", "flip3", "del1", "del2", "del3", "ins1", "ins2", "ins3", "trunc", "extra", "siglen", "sigstd", "sigpad", "sigbits", "parts", "garbage"]),
                "via": mostly(rng, "std", &["std", "nohdr", "wronghdr", "basic", "token", "lcscheme", "ucscheme", "nospace", "twospace", "tab", "rawff"]),
                "method": *rng.pick(&["GET", "GET", "GET", "POST", "HEAD", "OPTIONS"])},
        "cs": (rng.next() % 1_000_000) as u64, "reps": 1 + rng.below(2)})
}

pub fn gen(rng: &mut Rng, i: usize) -> Value {
    let which = std::env::var("VH_AUTH_MOD").unwrap_or_default();
    match which.as_str() { "basic" => gen_basic(rng), "jwt" => gen_jwt(rng), _ => if i % 2 == 0 { gen_basic(rng) } else { gen_jwt(rng) } }
}
