//! C11 — Cookie header decoding and Set-Cookie building (spec: specs/Cookie.tla).
//!
//! Concretises abstract jars / cookies, runs the REAL code (a real `Request` read from raw bytes, its
//! `headers.Cookie()` handed to `ohkami_lib::serde_cookie::from_str`, `headers.Cookies()`; the response builder
//! `res.headers.set().SetCookie(..)`, the response really sent into a buffer, the crate's own `SetCookie::from_raw`
//! through `res.headers.SetCookie()`), and projects results onto code-point arrays.  TLC (Trace_Cookie) decides.
use crate::urlenc::{bytes_json, cps, literal, spell, Cz};
use crate::util::{self, Rng};
use serde::{de::DeserializeOwned, Deserialize};
use serde_json::{json, Value};
use std::collections::BTreeMap;

// ------------------------------------------------------------------ concretisation table (trusted base)
pub fn ck_reps(class: &str) -> &'static [char] {
    match class {
        "al" => &['a', 'Z', '7', 'k', 'Q', '0'],
        "eq" => &['='], "amp" => &['&'], "plus" => &['+'], "slash" => &['/'],
        "unres" => &['-', '.', '_', '~'],
        "cko" => &['!', '#', '$', '\'', '(', ')', '*', ':', '<', '>', '?', '@', '[', ']', '^', '`', '{', '|', '}'],
        "pct" => &['%'], "sp" => &[' '], "comma" => &[','], "semi" => &[';'], "dq" => &['"'], "bsl" => &['\\'],
        "ctl" => &['\t', '\n', '\r', '\u{1}', '\u{7f}'],
        "nul" => &['\0'],
        "u2" => &['é', 'ß', 'Ω', '\u{80}', '\u{7ff}'],
        "u3" => &['狼', '€', '\u{800}', '\u{ffff}', '\u{d7ff}', '\u{e000}', '\u{fffd}'],
        "u4" => &['😀', '\u{10000}', '\u{10ffff}', '𝄞'],
        "tp" => &['!', '#', '$', '%', '&', '\'', '*', '+', '-', '.', '^', '_', '`', '|', '~'],   // token punctuation (names)
        _ => &[],
    }
}
const VCLASSES: [&str; 18] = ["al", "eq", "amp", "plus", "slash", "unres", "cko", "pct", "sp", "comma", "semi", "dq", "bsl", "ctl", "nul", "u2", "u3", "u4"];
fn raw_class(c: &str) -> bool { matches!(c, "al" | "eq" | "amp" | "plus" | "slash" | "unres" | "cko") }

// ------------------------------------------------------------------ catalogue (mirrors Cookie!CkCatalogue)
#[derive(Deserialize)] struct CkA { a: String }
#[derive(Deserialize)] struct CkAB { a: String, b: String }
#[derive(Deserialize)] struct CkBA { b: String, a: String }
#[derive(Deserialize)] struct CkOpt { a: String, o: Option<String> }
#[derive(Deserialize)] struct CkRen { #[serde(rename = "x-y")] xy: String, #[serde(rename = "$t!")] t: String }
#[derive(Deserialize)] struct CkNum { n: u32, a: String }
type CkMap = BTreeMap<String, String>;
type Proj = Vec<(String, Vec<String>)>;
trait Ck: DeserializeOwned { fn project(&self) -> Proj; }
fn p1(n: &str, v: &str) -> (String, Vec<String>) { (n.to_string(), vec![v.to_string()]) }
impl Ck for CkA { fn project(&self) -> Proj { vec![p1("a", &self.a)] } }
impl Ck for CkAB { fn project(&self) -> Proj { vec![p1("a", &self.a), p1("b", &self.b)] } }
impl Ck for CkBA { fn project(&self) -> Proj { vec![p1("b", &self.b), p1("a", &self.a)] } }
impl Ck for CkOpt { fn project(&self) -> Proj { vec![p1("a", &self.a), ("o".into(), self.o.iter().cloned().collect())] } }
impl Ck for CkRen { fn project(&self) -> Proj { vec![p1("x-y", &self.xy), p1("$t!", &self.t)] } }
impl Ck for CkNum { fn project(&self) -> Proj { vec![p1("n", &self.n.to_string()), p1("a", &self.a)] } }
impl Ck for CkMap { fn project(&self) -> Proj { self.iter().map(|(k, v)| (k.clone(), vec![v.clone()])).collect() } }
fn proj_json(p: &Proj) -> Value { Value::Array(p.iter().map(|(n, es)| json!({"n": cps(n), "v": es.iter().map(|e| cps(e)).collect::<Vec<_>>()})).collect()) }
fn tool(msg: impl Into<String>) -> Value { json!({"kind": "tool-error", "msg": msg.into()}) }
fn errc(e: &str) -> &'static str {
    for (pat, c) in [("missing `; `", "missing-semi"), ("invalid Cookie value", "invalid-value"), ("invalid Cookie name", "invalid-name"), ("empty name", "empty-name"),
                     ("missing `=`", "missing-eq"), ("missing `;`", "missing-semi2"), ("missing ` ` after", "missing-sp"), ("unexpected end of input", "eof"),
                     ("missing field", "missing-field"), ("duplicate field", "dup-field"), ("Expected an integer", "expected-integer"), ("Unexpected trailing", "trailing")] {
        if e.contains(pat) { return c }
    }
    if e.is_empty() { "" } else { "other" }
}

// ------------------------------------------------------------------ Cookie header
fn wire(toks: &[Value], cz: &mut Cz, out: &mut Vec<u8>) -> Result<(), String> {
    for t in toks {
        let (c, e) = (util::s(&t["c"]), util::s(&t["e"]));
        if c == "sym" { spell(out, &literal(util::s(&t["s"]))?, e) } else { spell(out, &cz.pick_in(c, ck_reps(c))?.to_string(), e) }
    }
    Ok(())
}
fn jar_text(scn: &Value, cz: &mut Cz) -> Result<Vec<u8>, String> {
    let mut out = vec![];
    for (i, c) in util::arr(&scn["jar"]).iter().enumerate() {
        if i > 0 { out.extend_from_slice(b"; ") }
        wire(util::arr(&c["n"]), cz, &mut out)?;
        out.push(b'=');
        let q = util::s(&c["q"]) == "y";
        if q { out.push(b'"') }
        wire(util::arr(&c["v"]), cz, &mut out)?;
        if q { out.push(b'"') }
    }
    Ok(out)
}
fn request_with_cookie(text: &[u8]) -> Result<ohkami::__verif::VRequest, String> {
    let mut raw = b"GET /c HTTP/1.1\r\nHost: verif\r\nCookie: ".to_vec();
    raw.extend_from_slice(text);
    raw.extend_from_slice(b"\r\nAccept: */*\r\n\r\n");
    if raw.len() > 1000 { return Err("header too long for one request buffer".into()) }
    let mut req = ohkami::__verif::VRequest::new();
    let mut rd: &[u8] = &raw;
    match util::block_on(req.read(&mut rd)) {
        Ok(Some(())) => Ok(req),
        Ok(None) => Err("request not read".into()),
        Err(res) => Err(format!("request rejected with status {}", res.status.code())),
    }
}
fn lossy(b: &[u8]) -> String { util::clip(&String::from_utf8_lossy(b), 300) }
fn dec<T: Ck>(text: &[u8]) -> Value {
    let noreq = |e: String| json!({"kind": "cookie", "mode": "dec", "text": bytes_json(text), "texts": lossy(text), "de": "noreq", "err": e, "errc": "", "vout": [], "rot_same": true});
    let req = match request_with_cookie(text) { Ok(r) => r, Err(e) => return noreq(e) };
    let Some(raw) = req.get().headers.Cookie() else { return noreq("the request has no Cookie header".into()) };
    if raw.as_bytes() != text { return noreq("Cookie header value differs from what was sent".into()) }
    let (de, err, vout) = match ohkami_lib::serde_cookie::from_str::<T>(raw) {
        Ok(v) => ("ok", String::new(), proj_json(&v.project())),
        Err(e) => ("err", util::clip(&e.to_string(), 200), json!([])),
    };
    // the same cookies in another order (last pair first): a set of cookies decodes to the same names and values whatever their order
    let parts: Vec<&str> = raw.split("; ").collect();
    let rot_same = if parts.len() < 2 { true } else {
        let mut p2 = parts.clone(); p2.rotate_right(1);
        let t2 = p2.join("; ");
        let (de2, vout2) = match ohkami_lib::serde_cookie::from_str::<T>(&t2) { Ok(v) => ("ok", proj_json(&v.project())), Err(_) => ("err", json!([])) };
        let sorted = |v: &Value| { let mut x: Vec<String> = util::arr(v).iter().map(|e| e.to_string()).collect(); x.sort(); x };
        de2 == de && sorted(&vout2) == sorted(&vout)
    };
    json!({"kind": "cookie", "mode": "dec", "text": bytes_json(text), "texts": lossy(text), "de": de, "errc": errc(&err), "err": err, "vout": vout, "rot_same": rot_same})
}
fn iter(text: &[u8]) -> Value {
    let req = match request_with_cookie(text) { Ok(r) => r, Err(e) => return json!({"kind": "cookie", "mode": "iter", "text": bytes_json(text), "texts": lossy(text), "de": "noreq", "err": e, "errc": "", "pairs": []}) };
    let pairs: Vec<Value> = req.get().headers.Cookies().map(|(k, v)| json!({"k": cps(k), "v": cps(v)})).collect();
    json!({"kind": "cookie", "mode": "iter", "text": bytes_json(text), "texts": lossy(text), "de": "ok", "err": "", "errc": "", "pairs": pairs})
}

// ------------------------------------------------------------------ Set-Cookie
const DATE: &str = "Wed, 21 Oct 2015 07:28:00 GMT";
fn opt1(o: Option<String>) -> Value { match o { None => json!([]), Some(s) => json!([cps(&s)]) } }
fn set(scn: &Value, cz: &mut Cz) -> Value {
    let mut res = ohkami::Response::OK();
    let mut given = vec![];
    for c in util::arr(&scn["cookies"]) {
        let mut name = String::new();
        for t in util::arr(&c["n"]) { match cz.pick_in(util::s(t), ck_reps(util::s(t))) { Ok(ch) => name.push(ch), Err(e) => return tool(e) } }
        let mut value = String::new();
        let vt: Vec<&str> = util::arr(&c["v"]).iter().map(util::s).collect();
        for (k, t) in vt.iter().enumerate() {
            // an alphanumeric right after a `%` (or after `%` + one alphanumeric) is a hex digit in half of the scenarios:
            // the value then LOOKS like a percent-escape and must still come back as itself
            let after_pct = (k >= 1 && vt[k - 1] == "pct") || (k >= 2 && vt[k - 2] == "pct" && vt[k - 1] == "al");
            let reps: &[char] = if *t == "al" && after_pct && scn["id"].as_u64().unwrap_or(0) % 2 == 0 { &['2', '5', 'F', 'a', '0', '7'] } else { ck_reps(t) };
            match cz.pick_in(t, reps) { Ok(ch) => value.push(ch), Err(e) => return tool(e) }
        }
        let d = &c["d"];
        let ds = |k: &str| util::s(&d[k]).to_string();
        let maxage: Option<u64> = match ds("maxage").as_str() { "none" => None, "max" => Some(u64::MAX), s => match s.parse() { Ok(n) => Some(n), Err(_) => return tool("bad maxage") } };
        let (expires, domain, path, secure, httponly, samesite) = (ds("expires") != "none", ds("domain"), ds("path"), ds("secure") == "y", ds("httponly") == "y", ds("samesite"));
        let (dom2, path2, ss2) = (domain.clone(), path.clone(), samesite.clone());
        res.headers.set().SetCookie(util::leak(name.clone()), value.clone(), move |mut b| {
            if expires { b = b.Expires(DATE) }
            if let Some(n) = maxage { b = b.MaxAge(n) }
            if dom2 != "none" { b = b.Domain(dom2) }
            if path2 != "none" { b = b.Path(path2) }
            if secure { b = b.Secure() }
            if httponly { b = b.HttpOnly() }
            match ss2.as_str() { "Strict" => b.SameSiteStrict(), "Lax" => b.SameSiteLax(), "None" => b.SameSiteNone(), _ => b }
        });
        given.push(json!({"name": cps(&name), "value": cps(&value),
            "expires": opt1(expires.then(|| DATE.to_string())), "maxage": opt1(maxage.map(|n| n.to_string())),
            "domain": opt1((domain != "none").then(|| domain.clone())), "path": opt1((path != "none").then(|| path.clone())),
            "secure": opt1(secure.then(String::new)), "httponly": opt1(httponly.then(String::new)),
            "samesite": opt1((samesite != "none").then(|| samesite.clone()))}));
    }
    // the crate's own parser (SetCookie::from_raw behind the public iterator; unparsable lines are silently dropped by it)
    let own: Vec<Value> = res.headers.SetCookie().map(|sc| { let (n, v) = sc.Cookie(); json!({"name": cps(n), "value": cps(v),
        "expires": opt1(sc.Expires().map(str::to_string)), "maxage": opt1(sc.MaxAge().map(|n| n.to_string())),
        "domain": opt1(sc.Domain().map(str::to_string)), "path": opt1(sc.Path().map(str::to_string)),
        "secure": opt1(sc.Secure().and_then(|b| b.then(String::new))), "httponly": opt1(sc.HttpOnly().and_then(|b| b.then(String::new))),
        "samesite": opt1(sc.SameSite().map(str::to_string))}) }).collect();
    // the lines as they travel: the response is really sent and re-read by the independent parser
    let mut wire_bytes: Vec<u8> = vec![];
    util::block_on(ohkami::__verif::send(res, &mut wire_bytes));
    // header block split by hand on CRLF so that a line break smuggled into a Set-Cookie line shows up as extra lines
    let head_end = util::find(&wire_bytes, b"\r\n\r\n").unwrap_or(wire_bytes.len());
    let parsed = util::parse_response(&wire_bytes, false);
    let mut lines: Vec<Value> = vec![];
    let mut others = 0;
    for l in wire_bytes[..head_end].split(|b| *b == b'\n').skip(1) {
        let l = l.strip_suffix(b"\r").unwrap_or(l);
        if let Some(v) = l.strip_prefix(b"Set-Cookie: ") { lines.push(bytes_json(v)) }
        else if !(l.starts_with(b"Date: ") || l.starts_with(b"Content-Length: ")) { others += 1 }
    }
    json!({"kind": "cookie", "mode": "set", "given": given, "own": own, "lines": lines, "other_lines": others, "wire_error": parsed.error, "status": parsed.status})
}

macro_rules! dispatch { ($ty:expr, $f:ident ( $($a:expr),* )) => { match $ty {
    "CkA" => $f::<CkA>($($a),*), "CkAB" => $f::<CkAB>($($a),*), "CkBA" => $f::<CkBA>($($a),*), "CkOpt" => $f::<CkOpt>($($a),*),
    "CkRen" => $f::<CkRen>($($a),*), "CkNum" => $f::<CkNum>($($a),*), "CkMap" => $f::<CkMap>($($a),*),
    other => tool(format!("unknown type tag {other}")) } } }

pub fn run(scn: &Value) -> Value {
    let mut cz = Cz::new(scn);
    match util::s(&scn["mode"]) {
        "dec" => { let text = match jar_text(scn, &mut cz) { Ok(t) => t, Err(e) => return tool(e) }; dispatch!(util::s(&scn["ty"]), dec(&text)) }
        "iter" => { let text = match jar_text(scn, &mut cz) { Ok(t) => t, Err(e) => return tool(e) }; iter(&text) }
        "set" => set(scn, &mut cz),
        m => tool(format!("unknown mode {m}")),
    }
}

// ------------------------------------------------------------------ seeded random scenarios
fn rnd_vclass(rng: &mut Rng) -> &'static str { if rng.chance(1, 3) { "al" } else { VCLASSES[rng.below(VCLASSES.len())] } }
fn rnd_wire(rng: &mut Rng, min: usize, max: usize) -> Vec<Value> {
    (0..rng.range(min, max)).map(|_| { let c = rnd_vclass(rng); let e = if raw_class(c) && rng.chance(2, 3) { "r" } else if rng.chance(1, 2) { "U" } else { "L" }; json!({"c": c, "e": e, "s": ""}) }).collect()
}
fn rnd_name(rng: &mut Rng, k: usize) -> Vec<Value> {
    // distinct lengths keep random names distinct inside one jar
    (0..k).map(|_| json!({"c": if rng.chance(2, 3) { "al" } else { "tp" }, "e": "r", "s": ""})).collect()
}
fn q(rng: &mut Rng) -> &'static str { if rng.chance(1, 4) { "y" } else { "n" } }
const CK_KINDS: &[(&str, &[(&str, &str)])] = &[("CkA", &[("a", "str")]), ("CkAB", &[("a", "str"), ("b", "str")]), ("CkBA", &[("b", "str"), ("a", "str")]),
    ("CkOpt", &[("a", "str"), ("o", "optstr")]), ("CkRen", &[("x-y", "str"), ("$t!", "str")]), ("CkNum", &[("n", "u32"), ("a", "str")])];
pub fn gen(rng: &mut Rng, _i: usize) -> Value {
    let big_turn = _i % 1500 == 7 && _i < 9000;      // (judging a line of 4 KiB byte by byte inside TLC takes a minute: a few per run)
    match if big_turn { 9 } else { rng.below(10) } {
        0..=3 => {
            if rng.chance(1, 5) {
                let n = rng.range(1, 4);
                let jar: Vec<Value> = (0..n).map(|i| json!({"n": rnd_name(rng, i + 1), "v": rnd_wire(rng, 0, 8), "q": q(rng)})).collect();
                return json!({"mode": "dec", "ty": "CkMap", "jar": jar});
            }
            let (ty, fs) = CK_KINDS[rng.below(CK_KINDS.len())];
            let mut jar: Vec<Value> = vec![];
            for (f, k) in fs.iter() {
                if *k == "optstr" && rng.chance(1, 3) { continue }
                let v = if *k == "u32" { vec![json!({"c": "sym", "e": *rng.pick(&["r", "r", "U", "L", "M"]), "s": format!("u32:={}", rng.next() as u32)})] } else { rnd_wire(rng, 0, 8) };
                jar.push(json!({"n": [{"c": "sym", "e": "r", "s": format!("name:{f}")}], "v": v, "q": q(rng)}));
            }
            for j in (1..jar.len()).rev() { let k = rng.below(j + 1); jar.swap(j, k) }
            for _ in 0..rng.below(3) {
                let at = rng.below(jar.len() + 1);
                let name = *rng.pick(&["zz", "_ga", "PHPSESSID", "k.0"]);
                jar.insert(at, json!({"n": [{"c": "sym", "e": "r", "s": format!("name:{name}")}], "v": rnd_wire(rng, 0, 6), "q": q(rng)}));
            }
            json!({"mode": "dec", "ty": ty, "jar": jar})
        }
        4..=6 => {
            let n = rng.range(1, 5);
            let jar: Vec<Value> = (0..n).map(|i| json!({"n": rnd_name(rng, i + 1), "v": rnd_wire(rng, 0, 8), "q": q(rng)})).collect();
            json!({"mode": "iter", "ty": "Iter", "jar": jar})
        }
        _ => {
            let n = rng.range(1, 3);
            let cookies: Vec<Value> = (0..n).map(|_| {
                let name: Vec<Value> = (0..rng.range(1, 6)).map(|_| json!(if rng.chance(2, 3) { "al" } else { "tp" })).collect();
                // (one cookie in sixty is big: its Set-Cookie line is longer than the 4096 bytes some clients stop at -- the builder has no business dropping it)
                let nv = if big_turn { rng.range(470, 520) } else { rng.below(10) };
                let value: Vec<Value> = (0..nv).map(|k| json!(if nv > 100 { if k % 50 == 0 { "al" } else { "u3" } } else { rnd_vclass(rng) })).collect();
                json!({"n": name, "v": value, "d": {
                    "expires": *rng.pick(&["none", "date"]), "maxage": *rng.pick(&["none", "0", "1", "max", "86400", "9223372036854775808"]),
                    "domain": *rng.pick(&["none", "ex.com", "a.b-c.example"]), "path": *rng.pick(&["none", "/", "/a b", "/x/y=z,w"]),
                    "secure": *rng.pick(&["y", "n"]), "httponly": *rng.pick(&["y", "n"]), "samesite": *rng.pick(&["none", "Strict", "Lax", "None"])}})
            }).collect();
            json!({"mode": "set", "ty": "Set", "cookies": cookies})
        }
    }
}
