use serde_json::{json, Value};
pub fn run(_scn: &Value) -> Value { json!({"kind": "unimplemented"}) }
#[allow(dead_code)]
pub fn gen(_rng: &mut crate::util::Rng, i: usize) -> Value { json!({"id": i}) }
