//! C01 / C04 — routing dispatch and fang (middleware) scoping on the real router.
//! Scenario (vocabulary of specs/RouterApp.tla):
//!   {"apps":[{"fangs":[ids],"items":[{"t":"route","segs":[{"k":"S","s":[chars]}|{"k":"P","s":[]}],"methods":[..],"local":[ids],"h":id,"app":0}
//!                                     |{"t":"mount","segs":[..],"app":k,..}]}..],
//!    "early": fang id that answers early (0 = none), "reqs":[{"method","path":[[chars]..],"trailing":n}..]}
//! The application tree is assembled at run time through the public Route/Ohkami API (hook: ohkami::__verif),
//! finalised into the real router, and every request is parsed by the real Request::read and handled.
use crate::util::{self, arr, i, s, Rng};
use ohkami::__verif as v;
use ohkami::prelude::*;
use serde_json::{json, Value};
use std::cell::RefCell;

thread_local! { static LOG: RefCell<Vec<(&'static str, i64)>> = const { RefCell::new(Vec::new()) }; }
/// when installed (server.rs), fang/handler events also go to this global, ordered event list, next to the session's own events
pub static SINK: std::sync::Mutex<Option<Vec<Value>>> = std::sync::Mutex::new(None);
fn log(k: &'static str, id: i64) {
    LOG.with(|l| l.borrow_mut().push((k, id)));
    if let Some(sink) = SINK.lock().unwrap().as_mut() { sink.push(json!({"ev": k, "a": id, "b": 0})) }
}
thread_local! { static PARAMS: RefCell<Vec<String>> = const { RefCell::new(Vec::new()) }; }
fn got(ps: &[&String]) { PARAMS.with(|p| *p.borrow_mut() = ps.iter().map(|s| s.to_string()).collect()) }

#[derive(Clone)]
pub struct TraceFang { pub id: i64, pub early: bool }
impl<I: ohkami::FangProc> ohkami::Fang<I> for TraceFang {
    type Proc = TraceProc<I>;
    fn chain(&self, inner: I) -> Self::Proc { TraceProc { f: self.clone(), inner } }
}
pub struct TraceProc<I> { f: TraceFang, inner: I }
impl<I: ohkami::FangProc> ohkami::FangProc for TraceProc<I> {
    async fn bite<'b>(&'b self, req: &'b mut Request) -> Response {
        log("enter", self.f.id);
        if self.f.early { return Response::Forbidden() }
        let res = self.inner.bite(req).await;
        log("leave", self.f.id);
        res
    }
}

/// concretisation of the abstract characters; images keep the byte-prefix relations of the abstract strings
pub struct Table { a: &'static str, b: &'static str, pub pval: [&'static str; 2] }
pub fn table(seed: u64) -> Table {
    match seed % 4 {
        0 => Table { a: "a", b: "b", pval: ["a", "b"] },
        1 => Table { a: "users", b: "2", pval: ["users", "2"] },
        2 => Table { a: "x", b: "y-z", pval: ["x", "y-z"] },
        _ => Table { a: "api", b: "v_1", pval: ["api", "v_1"] },
    }
}
impl Table {
    pub fn chars(&self, cs: &Value) -> String {
        arr(cs).iter().map(|c| match s(c) { "a" => self.a, "b" => self.b, "c" => "c", "2" => "2", o => util::leak(o.to_string()) }).collect()
    }
    /// back from concrete text to abstract chars ("?" if it is not an image)
    pub fn unchars(&self, t: &str) -> Value {
        let mut out = vec![]; let mut rest = t;
        while !rest.is_empty() {
            // (a slash inside a param value is the decoded form of the escaped slash, the abstract character "%")
            if let Some(r) = rest.strip_prefix('/') { out.push("%"); rest = r; continue }
            if rest.starts_with(self.a) { out.push("a"); rest = &rest[self.a.len()..] }
            else if rest.starts_with(self.b) { out.push("b"); rest = &rest[self.b.len()..] }
            else if rest.starts_with('-') { out.push("-"); rest = &rest[1..] }
            else if rest.starts_with('.') { out.push("."); rest = &rest[1..] }
            else { return json!(["?"]) }
        }
        json!(out)
    }
    /// param names differ from item to item (`tag`), as they do in real applications
    pub fn route_literal(&self, segs: &Value, pbase: usize, tag: &str) -> String {
        let mut r = String::new(); let mut np = pbase;
        for sg in arr(segs) {
            r.push('/');
            if s(&sg["k"]) == "P" { np += 1; r.push_str(&format!(":{tag}p{np}")) } else { r.push_str(&self.chars(&sg["s"])) }
        }
        if r.is_empty() { "/".into() } else { r }
    }
}
fn nparams(segs: &Value) -> usize { arr(segs).iter().filter(|sg| s(&sg["k"]) == "P").count() }

/// every fourth parameterless handler answers with a stream (a chunked `text/event-stream` body) instead of a plain payload:
/// what HEAD leaves out must not depend on the kind of content the GET handler produces
macro_rules! handler_for { ($np:expr, $id:expr) => {{ let id = $id; match $np {
    0 if is_stream_handler(id) => HandlerKind::S0(id), 0 => HandlerKind::H0(id), 1 => HandlerKind::H1(id), _ => HandlerKind::H2(id) } }} }
enum HandlerKind { H0(i64), S0(i64), H1(i64), H2(i64) }
pub fn is_stream_handler(id: i64) -> bool { id % 4 == 3 }
fn stream0(id: i64) -> ohkami::sse::DataStream<String> {
    log("handler", id);
    ohkami::sse::DataStream::new(move |mut h: ohkami::sse::handle::Stream<String>| async move { h.send(format!("h{id}")) })
}

fn echo0(id: i64) -> String { log("handler", id); format!("h{id}") }

/// registers handler `id` for the given methods on `hs`, wrapped in `local` fangs
fn with_methods(mut hs: v::HandlerSet, methods: &[Value], np: usize, id: i64, local: &[TraceFang]) -> v::HandlerSet {
    macro_rules! reg { ($hs:ident, $m:ident, $h:expr) => { $hs = match local.len() {
        0 => $hs.$m($h),
        1 => $hs.$m((local[0].clone(), $h)),
        2 => $hs.$m((local[0].clone(), local[1].clone(), $h)),
        3 => $hs.$m((local[0].clone(), local[1].clone(), local[2].clone(), $h)),
        _ => $hs.$m((local[0].clone(), local[1].clone(), local[2].clone(), local[3].clone(), $h)),
    } } }
    macro_rules! reg_all { ($m:ident) => { match handler_for!(np, id) {
        HandlerKind::H0(id) => reg!(hs, $m, move || async move { echo0(id) }),
        HandlerKind::S0(id) => reg!(hs, $m, move || async move { stream0(id) }),
        HandlerKind::H1(id) => reg!(hs, $m, move |p: String| async move { log("handler", id); got(&[&p]); format!("h{id}|{p}") }),
        HandlerKind::H2(id) => reg!(hs, $m, move |(p, q): (String, String)| async move { log("handler", id); got(&[&p, &q]); format!("h{id}|{p}|{q}") }),
    } } }
    for m in methods { match s(m) { "GET" => reg_all!(GET), "POST" => reg_all!(POST), "PUT" => reg_all!(PUT), "PATCH" => reg_all!(PATCH), "DELETE" => reg_all!(DELETE), _ => {} } }
    hs
}

pub fn build_app(apps: &[Value], idx: usize, t: &Table, early: i64, pbase: usize) -> Ohkami {
    let app = &apps[idx - 1];
    let fangs: Vec<TraceFang> = arr(&app["fangs"]).iter().map(|f| TraceFang { id: i(f), early: i(f) == early }).collect();
    let mut o = match fangs.len() {
        0 => Ohkami::new(()),
        1 => Ohkami::with((fangs[0].clone(),), ()),
        2 => Ohkami::with((fangs[0].clone(), fangs[1].clone()), ()),
        3 => Ohkami::with((fangs[0].clone(), fangs[1].clone(), fangs[2].clone()), ()),
        4 => Ohkami::with((fangs[0].clone(), fangs[1].clone(), fangs[2].clone(), fangs[3].clone()), ()),
        5 => Ohkami::with((fangs[0].clone(), fangs[1].clone(), fangs[2].clone(), fangs[3].clone(), fangs[4].clone()), ()),
        6 => Ohkami::with((fangs[0].clone(), fangs[1].clone(), fangs[2].clone(), fangs[3].clone(), fangs[4].clone(), fangs[5].clone()), ()),
        7 => Ohkami::with((fangs[0].clone(), fangs[1].clone(), fangs[2].clone(), fangs[3].clone(), fangs[4].clone(), fangs[5].clone(), fangs[6].clone()), ()),
        _ => Ohkami::with((fangs[0].clone(), fangs[1].clone(), fangs[2].clone(), fangs[3].clone(), fangs[4].clone(), fangs[5].clone(), fangs[6].clone(), fangs[7].clone()), ()),
    };
    for it in arr(&app["items"]) {
        let tag = if s(&it["t"]) == "route" { format!("h{}", i(&it["h"])) } else { format!("m{}", i(&it["app"])) };
        let lit = util::leak(t.route_literal(&it["segs"], pbase, &tag));
        if s(&it["t"]) == "route" {
            let local: Vec<TraceFang> = arr(&it["local"]).iter().map(|f| TraceFang { id: i(f), early: i(f) == early }).collect();
            let hs = with_methods(v::handler_set(lit), arr(&it["methods"]), pbase + nparams(&it["segs"]), i(&it["h"]), &local);
            v::apply_handlers(&mut o, hs);
        } else {
            let child = build_app(apps, i(&it["app"]) as usize, t, early, pbase + nparams(&it["segs"]));
            v::apply_by(&mut o, v::by_another(lit, child));
        }
    }
    o
}

pub fn request_bytes(req: &Value, t: &Table) -> Vec<u8> {
    let mut p = String::new();
    // (the abstract character "%" is an escaped slash inside a segment, `%2F` or `%2f`)
    let esc = if (t.a.len() + arr(&req["path"]).len()) % 2 == 0 { "%2F" } else { "%2f" };
    for sg in arr(&req["path"]) { p.push('/'); p.push_str(&t.chars(sg).replace('%', esc)) }
    for _ in 0..i(&req["trailing"]) { p.push('/') }
    if p.is_empty() { p.push('/') }
    // some requests carry a query (with `?` and `/` inside it, which belong to the query): the path is what stands before the FIRST `?`
    let q = match (p.len() + arr(&req["path"]).len()) % 4 { 1 => "?q=what?&next=/a/b?c=1", 2 => "?x=1", _ => "" };
    format!("{} {}{} HTTP/1.1\r\nHost: x\r\n\r\n", s(&req["method"]), p, q).into_bytes()
}

pub fn exec(router: &v::VRouter, raw: &[u8], head: bool) -> (util::ParsedResponse, Vec<(&'static str, i64)>) {
    LOG.with(|l| l.borrow_mut().clear());
    PARAMS.with(|p| p.borrow_mut().clear());
    let out = util::block_on(async {
        let mut req = v::VRequest::new();
        let mut rd = raw;
        let res = match req.read(&mut rd).await { Ok(Some(())) => req.handle(router).await, Ok(None) => Response::new(Status::Gone), Err(e) => e };
        let mut out = Vec::new();
        v::send(res, &mut out).await;
        out
    });
    let mut p = util::parse_response(&out, head);
    p.after = out.len().saturating_sub(p.consumed);      // for a HEAD request: whatever was written after the head
    (p, LOG.with(|l| l.borrow().clone()))
}

pub fn run(scn: &Value) -> Value {
    let apps = arr(&scn["apps"]);
    let seed = scn["seed"].as_u64().unwrap_or_else(|| scn["id"].as_u64().unwrap_or(0));
    let t = table(seed);
    let early = i(&scn["early"]);
    let o = build_app(apps, 1, &t, early, 0);
    let router = v::finalize(o);
    let mut res = vec![];
    for req in arr(&scn["reqs"]) {
        let raw = request_bytes(req, &t);
        let head = s(&req["method"]) == "HEAD";
        let (p, lg) = exec(&router, &raw, head);
        let body = String::from_utf8_lossy(&p.body).to_string();
        let h = lg.iter().find(|(k, _)| *k == "handler").map(|(_, id)| *id).unwrap_or(0);
        // a stream handler's echo arrives as one event of a chunked event stream
        let body = if is_stream_handler(h) && PARAMS.with(|p| p.borrow().is_empty()) && p.framing == "chunked" { body.strip_prefix("data: ").and_then(|b| b.strip_suffix("\n\n")).unwrap_or("?").to_string() } else { body };
        let params: Vec<Value> = PARAMS.with(|p| p.borrow().iter().map(|x| t.unchars(x)).collect());
        let echoed = !head && h != 0 && body == std::iter::once(format!("h{h}")).chain(PARAMS.with(|p| p.borrow().clone())).collect::<Vec<_>>().join("|");
        res.push(json!({"status": p.status, "h": h, "params": params, "blen": if head { p.after as i64 } else { p.body.len() as i64 }, "wf": p.error.is_empty(),
                        "echo": echoed,
                        "log": lg.iter().map(|(k, id)| json!([k, id])).collect::<Vec<_>>()}));
    }
    json!({"kind": "router", "res": res, "table": [t.a, t.b]})
}

/// random applications with a realistic vocabulary: up to 3 apps, up to 4 routes each, depth <= 3
pub fn gen(rng: &mut Rng, idx: usize) -> Value {
    let c04 = idx % 2 == 1;
    let napps = rng.range(1, 3);
    let segstr = [vec!["a"], vec!["b"], vec!["a", "b"], vec!["a", "a"], vec!["b", "a"], vec!["a", "b", "a"], vec!["a", "-", "a"], vec!["a", ".", "b"], vec!["b", "-", "a"]];
    let mut apps: Vec<(Vec<i64>, Vec<Value>)> = (0..napps).map(|a| { let nf = if rng.chance(1, 4) { rng.range(3, 8) } else { rng.below(3) };      // (every tuple arity of `Fangs`: 1..8)
                                                                             ((0..nf).map(|k| (10 * (a + 1) + k + 1) as i64).collect(), vec![]) }).collect();
    let mut nexth = 1i64;
    // params above each app
    let mut pabove = vec![0usize; napps];
    let seg = |rng: &mut Rng, allow_p: bool| -> Value { if allow_p && rng.chance(1, 3) { json!({"k": "P", "s": []}) } else { json!({"k": "S", "s": rng.pick(&segstr).clone()}) } };
    // `under` = the item x does not leave the mount prefix pre at a position where pre is static (see Diverges in RouterGen.tla)
    let under = |x: &[Value], pre: &[Value]| -> bool {
        for k in 0..x.len().min(pre.len()) {
            if x[k] == pre[k] { continue }
            return !(s(&pre[k]["k"]) == "S")
        }
        x.len() >= pre.len()
    };
    // mounts: app k+1 mounted into a random earlier app
    for b in 1..napps {
        let a = rng.below(b);
        let n = if rng.chance(1, 8) { 0 } else { rng.range(1, 2) };     // 0: mounted at the root, `"/".By(child)`
        let mut pre = vec![]; let mut np = 0;
        for _ in 0..n { let sg = seg(rng, pabove[a] + np < 2); if s(&sg["k"]) == "P" { np += 1 } pre.push(sg) }
        let clash = apps[a].1.iter().any(|it| { let x = arr(&it["segs"]); under(x, &pre) || (s(&it["t"]) == "mount" && under(&pre, x)) });
        if clash { // fall back to a fresh static prefix
            pre = vec![json!({"k": "S", "s": ["b", "b", "a"]}), json!({"k": "S", "s": [if b == 1 { "a" } else { "b" }]})]; np = 0;
            if apps[a].1.iter().any(|it| { let x = arr(&it["segs"]); under(x, &pre) || (s(&it["t"]) == "mount" && under(&pre, x)) }) { continue }
        }
        pabove[b] = pabove[a] + np;
        apps[a].1.push(json!({"t": "mount", "segs": pre, "methods": [], "local": [], "h": 0, "app": b + 1}));
    }
    let mounted: Vec<bool> = (0..napps).map(|b| b == 0 || apps.iter().any(|(_, its)| its.iter().any(|it| s(&it["t"]) == "mount" && i(&it["app"]) as usize == b + 1))).collect();
    for a in 0..napps {
        if !mounted[a] { continue }
        // an application with a child mounted at its root has no room for routes of its own (mount prefixes are exclusive)
        if apps[a].1.iter().any(|it| s(&it["t"]) == "mount" && arr(&it["segs"]).is_empty()) { continue }
        // a wall: a mounted application with fangs and no route of its own (every request under its prefix ends in 404 behind its fangs)
        if c04 && a > 0 && !apps[a].0.is_empty() && rng.chance(1, 4) { continue }
        let nr = rng.range(1, 4);
        for _ in 0..nr {
            let n = rng.below(4);
            let mut r = vec![]; let mut np = 0;
            for _ in 0..n { let sg = seg(rng, pabove[a] + np < 2); if s(&sg["k"]) == "P" { np += 1 } r.push(sg) }
            let clash = apps[a].1.iter().any(|it| if s(&it["t"]) == "route" { arr(&it["segs"]) == &r[..] } else { under(&r, arr(&it["segs"])) });
            if clash { continue }
            let ms: Vec<&str> = match rng.below(4) { 0 => vec!["GET"], 1 => vec!["POST"], 2 => vec!["GET", "POST"], _ => vec!["GET", "PUT"] };
            let local: Vec<i64> = if c04 { (0..(if rng.chance(1, 4) { rng.range(3, 4) } else { rng.below(3) })).map(|k| 7 + k as i64).collect() } else { vec![] };   // local fangs: 1..4
            apps[a].1.push(json!({"t": "route", "segs": r, "methods": ms, "local": local, "h": nexth, "app": 0})); nexth += 1;
        }
        if !apps[a].1.iter().any(|it| s(&it["t"]) == "route") {
            let r = vec![json!({"k": "S", "s": ["b", "b"]})];
            let r = if apps[a].1.iter().any(|it| under(&r, arr(&it["segs"]))) { vec![] } else { r };
            apps[a].1.push(json!({"t": "route", "segs": r, "methods": ["GET"], "local": [], "h": nexth, "app": 0})); nexth += 1;
        }
    }
    // unmounted apps (mount skipped): drop by making them unreachable — keep indices stable with a dummy route
    for a in 0..napps { if !mounted[a] && apps[a].1.is_empty() { apps[a].1.push(json!({"t": "route", "segs": [], "methods": ["GET"], "local": [], "h": 900 + a as i64, "app": 0})) } }
    if !c04 { for a in apps.iter_mut() { a.0.clear() } }
    // requests: instances and near misses of every route and mount prefix
    let mut fulls: Vec<Vec<Value>> = vec![];
    fn collect(apps: &[(Vec<i64>, Vec<Value>)], a: usize, prefix: Vec<Value>, out: &mut Vec<Vec<Value>>) {
        for it in &apps[a].1 { let mut f = prefix.clone(); f.extend(arr(&it["segs"]).iter().cloned());
            if s(&it["t"]) == "mount" { out.push(f.clone()); collect(apps, i(&it["app"]) as usize - 1, f, out) } else { out.push(f) } }
    }
    collect(&apps, 0, vec![], &mut fulls);
    let mut reqs = vec![];
    let methods: &[&str] = if c04 { &["GET", "POST", "HEAD", "PUT", "DELETE", "OPTIONS"] } else { &["GET", "POST", "HEAD", "PUT", "DELETE"] };
    for f in &fulls {
        for w in [vec!["a"], vec!["b", "b"], vec!["a", "b"], vec!["b", "%", "b"]] {
            let inst: Vec<Vec<&str>> = f.iter().map(|sg| if s(&sg["k"]) == "S" { arr(&sg["s"]).iter().map(s).collect() } else { w.clone() }).collect();
            let mut variants = vec![inst.clone()];
            let mut x = inst.clone(); x.push(vec!["a"]); variants.push(x);
            if inst.len() >= 2 { let k = rng.below(inst.len() - 1); let mut x = inst.clone(); let nxt = x.remove(k + 1); x[k].push("%"); x[k].extend(nxt); variants.push(x) }   // two segments joined by an escaped slash
            if !inst.is_empty() { let mut x = inst.clone(); x.pop(); variants.push(x);
                let k = rng.below(inst.len()); let mut x = inst.clone(); x[k].push("a"); variants.push(x);
                let mut x = inst.clone(); x[k].pop(); variants.push(x); }
            for vv in variants { if vv.is_empty() && false { continue }
                let m = *rng.pick(methods); let tr = if vv.is_empty() { 1 } else { rng.below(3).min(if rng.chance(1, 4) { 2 } else { 1 }) };
                reqs.push(json!({"method": m, "path": vv, "trailing": tr})); }
        }
    }
    let used: Vec<i64> = apps.iter().flat_map(|a| a.0.clone()).collect();
    let early = if c04 && !used.is_empty() && rng.chance(1, 3) { *rng.pick(&used) } else { 0 };
    json!({"id": idx, "mode": if c04 { "c04" } else { "c01" }, "seed": rng.next() % 1000,
           "apps": apps.iter().map(|(f, its)| json!({"fangs": f, "items": its})).collect::<Vec<_>>(), "early": early, "reqs": reqs})
}
