//! C05 / C06 — one connection: requests in order, independent of each other and of TCP segmentation.
//! Scenario (vocabulary of specs/Conn.tla): {"mode":"c05"|"c06","reqs":[{"h","b","close","z","mark","many"}..],"cuts":[positions in cells]}
//! 1 cell = 256 bytes, buffer = 4 cells.  Two executions of every scenario:
//!   mem: the session loop steps (clear, read, handle, send, close on `Connection: close`) over a scripted in-memory
//!        reader that returns exactly one segment per read, through ohkami::__verif (real Request::read / Router::handle / send)
//!   tcp: the REAL Session::manage over a loopback TcpStream, segments written one by one
use crate::util::{self, arr, i, Rng, ScriptedReader};
use ohkami::__verif as v;
use ohkami::prelude::*;
use serde_json::{json, Value};
use std::sync::Mutex;

pub const CELL: usize = 256;

#[derive(Clone)]
struct Marker(String);
#[derive(Clone)]
struct MarkFang;
impl FangAction for MarkFang {
    async fn fore<'a>(&'a self, req: &'a mut Request) -> Result<(), Response> {
        if let Some(m) = req.headers.get("X-Mark").map(|s| s.to_string()) { req.context.set(Marker(m)) }
        Ok(())
    }
}

fn digest(b: &[u8]) -> String { let mut h: u64 = 1469598103934665603; for x in b { h ^= *x as u64; h = h.wrapping_mul(1099511628211) } format!("{}:{:016x}", b.len(), h) }

async fn echo(k: String, req: &Request) -> String {
    // the header set as a whole, and single headers through the string API (any case) and the typed accessors
    let one = |x: Option<&str>| x.map(|v| v.len().to_string() + ":" + &v[..v.len().min(12)]).unwrap_or("-".into());
    let hs = vec![format!("{:?}", req.headers), one(req.headers.get("host")), one(req.headers.get("Host")), one(req.headers.Host()), one(req.headers.get("USER-AGENT")), one(req.headers.UserAgent()),
                  one(req.headers.get("accept")), one(req.headers.get("x-req")), one(req.headers.get("X-Pad")), one(req.headers.get("content-length")), one(req.headers.get("Connection"))];
    // typed reading of the query as well: the iterator skips parts without `=`
    let qt = match req.query.parse::<std::collections::BTreeMap<String, String>>() { Ok(m) => format!("{m:?}"), Err(_) => "err".into() };
    // the address of the peer belongs to the connection, not to a request: whatever a request says about addresses (`Forwarded: for=..`) must not be
    // what a later request on the connection sees (the loopback source addresses of the harness's own clients all count as "peer")
    let ip = if req.ip.is_loopback() || req.ip.is_unspecified() { "peer".to_string() } else { req.ip.to_string() };
    format!("k={k};m={};path={};q={:?};qt={qt};h=[{}];p={};ctx={};ip={ip}", req.method, req.path.str(), req.query.iter().collect::<Vec<_>>(), hs.join("|"),
            req.payload().map(digest).unwrap_or("none".into()), req.context.get::<Marker>().map(|m| m.0.clone()).unwrap_or("none".into()))
}

fn router() -> v::VRouter {
    let mut o = Ohkami::with((MarkFang,), ());
    v::apply_handlers(&mut o, v::handler_set("/r/:k").GET(echo).POST(echo).PUT(echo));
    v::finalize(o)
}

pub struct Conc { pub bytes: Vec<u8>, pub body: Vec<u8> }
/// request k as bytes: head of exactly h cells (padded with a filler header), body of exactly b cells
pub fn concretise(k: usize, r: &Value, seed: u64) -> Conc {
    let (h, b) = (i(&r["h"]) as usize, i(&r["b"]) as usize);
    let bad = r["bad"].as_bool().unwrap_or(false);
    // every third request carries no query (whatever an earlier one carried must not show through)
    let query = if (k as u64 + seed) % 3 == 0 { String::new() } else { format!("?s={seed}&k{k}=v{k}") };
    // a request with a payload is a POST, a PUT or -- legal, if unusual -- a GET
    let method = if b == 0 { "GET" } else { ["GET", "POST", "PUT", "POST"][((k as u64 + seed) % 4) as usize] };
    // every fourth request carries standard headers only (no custom header at all: the padding moves into User-Agent), unless a flag below adds one
    let plain = (k as u64 + seed) % 4 == 1 && !bad;
    // empty lines in front of the request line (RFC 9112 2.2 lets a server ignore them; whatever it does must not depend on the reads)
    let lead = if r["lead"].as_bool().unwrap_or(false) { "\r\n\r\n" } else { "" };
    let mut head = if plain { format!("{lead}{method} /r/{k}{query} HTTP/1.1\r\nHost: h{k}.example\r\nAccept: a{k}\r\n") } else { format!("{lead}{method} /r/{k}{query} HTTP/1.1\r\nHost: h{k}.example\r\nX-Req: {k}\r\n") };
    // a request the parser refuses after it has accepted some header lines (which must not leak into the next request)
    if bad { head.push_str(&format!("Authorization: Bearer secret-of-{k}\r\nX-Mark: bad{k}\r\nX-Leak: leak{k}\r\nCookie: sid=bad{k}\r\nthis line has no colon\r\n")) }
    if r["many"].as_bool().unwrap_or(false) && !bad { for j in 0..5 { head.push_str(&format!("X-M{j}: v{k}-{j}\r\n")) } }
    if r["mark"].as_bool().unwrap_or(false) { head.push_str(&format!("X-Mark: m{k}\r\n")) }
    // some requests announce an address of their own (a proxy in front of the server would): it is this request's business only
    if (k as u64 + seed) % 5 == 2 && !bad { head.push_str(&format!("Forwarded: for=192.0.2.{};proto=http\r\n", 1 + k % 200)) }
    // (connection options are case-insensitive, RFC 9110 7.6.1)
    if r["close"].as_bool().unwrap_or(false) { head.push_str(["Connection: close\r\n", "Connection: Close\r\n", "connection: CLOSE\r\n"][((k as u64 + seed / 3) % 3) as usize]) }
    if b > 0 { head.push_str(&format!("Content-Length: {}\r\n", b * CELL)) }
    let padname = if plain { "User-Agent" } else { "X-Pad" };
    let fixed = head.len() + padname.len() + 2 + 2 + 2;
    let pad = (h * CELL).checked_sub(fixed).expect("head does not fit its cells");
    head.push_str(&format!("{padname}: {}\r\n\r\n", "p".repeat(pad)));
    assert_eq!(head.len(), h * CELL);
    let mut body: Vec<u8> = (0..b * CELL).map(|j| ((j as u64 * 13 + k as u64 * 31 + seed) % 250 + 1) as u8).collect();
    if b > 0 && r["z"].as_bool().unwrap_or(false) {
        body[0] = 0; body[b * CELL / 2] = 0;
        // binary-looking content: behind a NUL, an empty line, a bare LF LF, and something that reads like a request of its own
        let mid = b * CELL / 2;
        body[5..9].copy_from_slice(b"\r\n\r\n");
        body[mid + 3..mid + 5].copy_from_slice(b"\n\n");
        let inner = format!("GET /r/9{k}?inner=1 HTTP/1.1\r\nHost: inner\r\n\r\n");
        body[16..16 + inner.len()].copy_from_slice(inner.as_bytes());
    }
    let mut bytes = head.into_bytes(); bytes.extend_from_slice(&body);
    Conc { bytes, body }
}

fn strip_date(b: &[u8]) -> Vec<u8> {
    let s = String::from_utf8_lossy(b).to_string();
    s.split("\r\n").filter(|l| !l.to_ascii_lowercase().starts_with("date:")).collect::<Vec<_>>().join("\r\n").into_bytes()
}

/// the response request k gets as the only request on a fresh connection
fn fresh(router: &v::VRouter, c: &Conc) -> Vec<u8> {
    util::block_on(async {
        let mut vr = v::VRequest::new();
        let mut rd = ScriptedReader::new(vec![c.bytes.clone()]);
        let res = match vr.read(&mut rd).await { Ok(Some(())) => vr.handle(router).await, Ok(None) => return b"<closed>".to_vec(), Err(e) => e };
        let mut out = vec![]; v::send(res, &mut out).await; strip_date(&out)
    })
}

/// the same over a real socket: the request alone on a fresh connection served by the real Session::manage (what the session itself adds
/// to a response, e.g. a `Connection` header, is part of "the response it would receive as the only request on a fresh connection")
fn fresh_tcp(router: &v::VRouter, c: &Conc) -> Vec<u8> {
    use tokio::io::{AsyncReadExt, AsyncWriteExt};
    let r2 = router.clone();
    let bytes = c.bytes.clone();
    util::block_on(async move {
        let l = tokio::net::TcpListener::bind("127.0.0.1:0").await.expect("harness: bind");
        let addr = l.local_addr().unwrap();
        let (c, sv) = tokio::join!(crate::util::connect_loopback(addr), l.accept());
        let (mut c, (sv, peer)) = (c.expect("harness: connect (ephemeral ports exhausted?)"), sv.expect("harness: accept"));
        c.set_nodelay(true).ok();
        let server = tokio::spawn(async move { v::session(&r2, sv, peer.ip()).await });
        let mut out: Vec<u8> = vec![]; let mut buf = vec![0u8; 65536];
        if c.write_all(&bytes).await.is_err() { return b"<write failed>".to_vec() }
        let _ = c.flush().await;
        let deadline = tokio::time::Instant::now() + std::time::Duration::from_millis(15000);
        let first = loop {
            let p = util::parse_response(&out, false);
            if p.error.is_empty() && p.consumed > 0 { break Some(p.consumed) }
            match tokio::time::timeout_at(deadline, c.read(&mut buf)).await {
                Ok(Ok(0)) | Ok(Err(_)) | Err(_) => break None,
                Ok(Ok(m)) => out.extend_from_slice(&buf[..m]),
            }
        };
        // the response is complete: reset the connection instead of closing it in an orderly way, so that the client's port is free again at
        // once (tens of thousands of these connections per run would otherwise sit in TIME_WAIT and exhaust the ephemeral ports)
        let _ = c.set_linger(Some(std::time::Duration::from_secs(0)));
        drop(c);
        let _ = tokio::time::timeout(std::time::Duration::from_millis(5000), server).await;
        match first { Some(n) => strip_date(&out[..n]), None => b"<closed>".to_vec() }
    })
}

/// byte segments from the cell-level cuts; cuts inside a head or body are jittered by a few bytes (never across a part boundary)
pub fn segments(stream: &[u8], cuts: &[Value], boundaries: &[usize], hb: &[usize], exact: &[usize], seed: u64) -> Vec<Vec<u8>> {
    let mut pos: Vec<usize> = cuts.iter().enumerate().map(|(n, c)| {
        let p = i(c) as usize * CELL;
        // a cut between a head and its own body may fall a few bytes early, inside the blank line (\r\n\r|\n ..)
        if hb.contains(&p) { return p - [0usize, 1, 2, 3, 0, 1][(seed as usize + n) % 6] }
        // a cut between two requests may fall a few bytes early as well, inside the blank line that ends the head of a request without a body
        // (whose head may fill the whole buffer), or inside the last bytes of a body
        // (not where a refused request ends: `exact`)
        if exact.contains(&p) { return p }
        if boundaries.contains(&p) { p - [0usize, 0, 0, 1, 2, 3, 0, 0][(seed as usize / 5 + n) % 8] } else {
            // inside a head or a body: anywhere near, including the last bytes of the part
            let j = [((seed as usize + n * 7) % 41) as isize - 20, 127, -127, 1, -1][(seed as usize / 3 + n) % 5];
            (p as isize + j) as usize }
    }).collect();
    // nicks: behind a cut that falls exactly between two requests (and, sometimes, at the very beginning), one more cut a few bytes into the
    // next request -- inside its method token, its request line or the empty lines in front of it
    let ends: Vec<usize> = boundaries.iter().skip(1).step_by(2).cloned().collect();
    let ds = [1usize, 2, 3, 4, 5, 7, 16];
    let mut nicks: Vec<usize> = pos.iter().enumerate().filter(|(n, p)| ends.contains(p) && (seed as usize + n) % 2 == 1).map(|(n, p)| p + ds[(seed as usize / 2 + n) % 7]).collect();
    if seed % 4 == 3 { nicks.push(ds[(seed as usize / 4) % 7]) }
    pos.extend(nicks.into_iter().filter(|p| *p < stream.len()));
    pos.sort(); pos.dedup();
    pos.push(stream.len());
    let mut out = vec![]; let mut from = 0;
    for p in pos { if p > from { out.push(stream[from..p].to_vec()); from = p } }
    out
}

fn classify(out: &[u8], concs: &[Conc], fresh: &[Vec<u8>]) -> Vec<Value> {
    // split the byte stream the client received into responses
    let mut res = vec![]; let mut at = 0;
    while at < out.len() {
        let p = util::parse_response(&out[at..], false);
        if !p.error.is_empty() || p.consumed == 0 { res.push(json!({"k": 0, "status": 0, "body_ok": false, "same": false, "what": util::clip(&p.error, 60)})); break }
        let raw = &out[at..at + p.consumed]; at += p.consumed;
        let body = String::from_utf8_lossy(&p.body).to_string();
        let k: usize = body.strip_prefix("k=").and_then(|r| r.split(';').next()).and_then(|x| x.parse().ok()).unwrap_or(0);
        if p.status == 200 && k >= 1 && k <= concs.len() {
            let want = if concs[k - 1].body.is_empty() { "p=none".to_string() } else { format!("p={}", digest(&concs[k - 1].body)) };
            res.push(json!({"k": k as i64, "status": 200, "body_ok": body.contains(&want), "same": strip_date(raw) == fresh[k - 1], "what": ""}));
        } else { res.push(json!({"k": 0, "status": p.status as i64, "body_ok": false, "same": false, "what": util::clip(&body, 40)})) }
    }
    res
}

fn run_mem(router: &v::VRouter, segs: Vec<Vec<u8>>) -> (Vec<u8>, &'static str, bool) {
    util::block_on(async {
        let mut rd = ScriptedReader::new(segs);
        let mut vr = v::VRequest::new();
        let mut out = vec![]; let mut end = "stuck";
        let mut unread = 0..0;
        for _ in 0..64 {
            let carried = vr.clear_keeping(std::mem::take(&mut unread));
            match vr.read_following(&mut rd, carried).await {
                Ok(Some(following)) => {
                    unread = following;
                    let close = vr.get().headers.Connection().is_some_and(|c| c.eq_ignore_ascii_case("close"));
                    let res = vr.handle(router).await;
                    v::send(res, &mut out).await;
                    if close { end = "close-header"; break }
                }
                Ok(None) => { end = "eof"; break }
                Err(res) => { v::send(res, &mut out).await; }
            }
        }
        let unread = !rd.exhausted();
        (out, end, unread)
    })
}

static EVENTS: Mutex<Vec<(&'static str, usize, usize)>> = Mutex::new(Vec::new());
fn emit(k: &'static str, a: usize, b: usize) { EVENTS.lock().unwrap().push((k, a, b)) }

/// `wait_after[n]`: 0, or -- when segment n ends exactly where a request ends -- the number of requests that have ended by then: that many
/// responses are awaited before the next segment is written (several requests may end inside one segment)
fn run_tcp(router: &v::VRouter, segs: Vec<Vec<u8>>, wait_after: Vec<usize>) -> (Vec<u8>, &'static str, Vec<Value>) {
    use tokio::io::{AsyncReadExt, AsyncWriteExt};
    EVENTS.lock().unwrap().clear();
    v::install_emit(emit);
    let r2 = router.clone();
    let (out, end) = util::block_on(async move {
        let l = tokio::net::TcpListener::bind("127.0.0.1:0").await.unwrap();
        let addr = l.local_addr().unwrap();
        let (c, sv) = tokio::join!(crate::util::connect_loopback(addr), l.accept());
        let (mut c, (sv, peer)) = (c.unwrap(), sv.unwrap());
        c.set_nodelay(true).ok();
        let server = tokio::spawn(async move { v::session(&r2, sv, peer.ip()).await });
        let mut out: Vec<u8> = vec![]; let mut buf = vec![0u8; 65536]; let mut end = "open";
        let mut complete_responses = |out: &Vec<u8>| -> usize { let mut n = 0; let mut at = 0; while at < out.len() { let p = util::parse_response(&out[at..], false); if !p.error.is_empty() || p.consumed == 0 { break } at += p.consumed; n += 1 } n };
        let mut expected = 0usize;
        'outer: for (n, sg) in segs.iter().enumerate() {
            if c.write_all(sg).await.is_err() { end = "write-failed"; break }
            let _ = c.flush().await;
            if wait_after[n] > 0 {
                // whole requests have been delivered and the next one starts in another segment: wait for their responses
                expected = wait_after[n];
                let deadline = tokio::time::Instant::now() + std::time::Duration::from_millis(5000);
                while complete_responses(&out) < expected {
                    match tokio::time::timeout_at(deadline, c.read(&mut buf)).await {
                        Ok(Ok(0)) => { end = "server-closed"; break 'outer }
                        Ok(Ok(m)) => out.extend_from_slice(&buf[..m]),
                        Ok(Err(_)) => { end = "server-reset"; break 'outer }
                        Err(_) => break, // no response in time: go on, the verdict does not depend on it
                    }
                }
            } else { tokio::time::sleep(std::time::Duration::from_millis(2)).await }
        }
        // drain what is still coming, then half-close and read to the end
        loop {
            match tokio::time::timeout(std::time::Duration::from_millis(120), c.read(&mut buf)).await {
                Ok(Ok(0)) => { if end == "open" { end = "server-closed" } break }
                Ok(Ok(m)) => out.extend_from_slice(&buf[..m]),
                Ok(Err(_)) => { if end == "open" { end = "server-reset" } break }
                Err(_) => break,
            }
        }
        if end == "open" {
            let _ = c.shutdown().await;
            // the server leaves its loop when it reads the end of the stream: reading to EOF is deterministic, the timeout a fallback
            loop { match tokio::time::timeout(std::time::Duration::from_millis(15000), c.read(&mut buf)).await { Ok(Ok(0)) | Ok(Err(_)) | Err(_) => break, Ok(Ok(m)) => out.extend_from_slice(&buf[..m]) } }
            end = "eof";
        }
        let _ = tokio::time::timeout(std::time::Duration::from_millis(5000), server).await;
        (out, end)
    });
    let evs = EVENTS.lock().unwrap().iter().map(|(k, a, b)| json!([k, *a as i64, *b as i64])).collect();
    (out, end, evs)
}

pub fn run(scn: &Value) -> Value {
    let reqs = arr(&scn["reqs"]);
    let seed = scn["seed"].as_u64().unwrap_or_else(|| scn["id"].as_u64().unwrap_or(0));
    let router = router();
    let concs: Vec<Conc> = reqs.iter().enumerate().map(|(k, r)| concretise(k + 1, r, seed)).collect();
    let fresh: Vec<Vec<u8>> = concs.iter().map(|c| fresh(&router, c)).collect();
    let fresh_sock: Vec<Vec<u8>> = concs.iter().map(|c| fresh_tcp(&router, c)).collect();
    let mut stream = vec![]; let mut boundaries = vec![]; let mut ends = vec![]; let mut hb = vec![];
    for (k, c) in concs.iter().enumerate() {
        let he = stream.len() + i(&reqs[k]["h"]) as usize * CELL;
        boundaries.push(he); if i(&reqs[k]["b"]) > 0 { hb.push(he) }
        stream.extend_from_slice(&c.bytes); boundaries.push(stream.len()); ends.push(stream.len()) }
    let bad_ends: Vec<usize> = reqs.iter().enumerate().filter(|(_, r)| r["bad"].as_bool().unwrap_or(false)).map(|(k, _)| ends[k]).collect();
    let mut segs = segments(&stream, arr(&scn["cuts"]), &boundaries, &hb, &bad_ends, seed);
    // drip: the whole stream in segments of k bytes (a terminal, a tiny MSS, a proxy that forwards small records): a head of some hundred bytes
    // then takes some hundred reads
    if let Some(k) = scn["drip"].as_u64().filter(|k| *k > 0) { segs = stream.chunks(k as usize).map(|c| c.to_vec()).collect() }
    // abandon: the segment that brings the end of the last request also brings the beginning of one more, which the client never finishes
    // (it half-closes and reads what it is owed): not a request, and no reason to withhold the responses to the requests before it
    if scn["abandon"].as_bool().unwrap_or(false) { if let Some(l) = segs.last_mut() { l.extend_from_slice([&b"GET /r/99?x=1 HT"[..], &b"\r\n"[..], &b"POST /r/98 HTTP/1.1\r\nHost: h\r\nContent-Le"[..]][(seed % 3) as usize]) } }
    // mem
    let (out, end, unread) = run_mem(&router, segs.clone());
    let mem = json!({"resp": classify(&out, &concs, &fresh), "end": end, "unread": unread});
    // tcp: wait for a response after a segment that ends exactly at the end of a request
    let mut acc = 0; let wait_after: Vec<usize> = segs.iter().map(|sg| { acc += sg.len(); if ends.contains(&acc) { ends.iter().filter(|e| **e <= acc).count() } else { 0 } }).collect();
    let (out2, end2, evs) = run_tcp(&router, segs.clone(), wait_after);
    let tcp = json!({"resp": classify(&out2, &concs, &fresh_sock), "end": end2, "unread": false});
    // the reference for input the grammar does not cover (empty lines in front of a request): the same bytes, every request in a read of its own
    let reference = if reqs.iter().any(|r| r["lead"].as_bool().unwrap_or(false)) {
        let (o, e, _) = run_mem(&router, concs.iter().map(|c| c.bytes.clone()).collect());
        json!({"resp": classify(&o, &concs, &fresh), "end": e})
    } else { json!({"resp": [], "end": "none"}) };
    json!({"kind": "conn", "mem": mem, "tcp": tcp, "ref": reference, "events": evs, "nsegs": segs.len() as i64})
}

/// random histories: 3-12 requests, random cuts anywhere (cell units), sizes around the buffer
pub fn gen(rng: &mut Rng, idx: usize) -> Value {
    let c05 = idx % 2 == 0;
    let n = rng.range(2, if c05 { 10 } else { 5 });
    let reqs: Vec<Value> = (0..n).map(|k| json!({"h": if rng.chance(1, 6) { 4 } else { rng.range(1, 3) }, "b": if rng.chance(1, 2) { 0 } else { rng.range(1, 6) }, "close": k + 1 == n && rng.chance(1, 3),
        "z": rng.chance(1, 3), "mark": rng.chance(1, 3), "many": rng.chance(1, 3), "bad": false})).collect();
    let reqs: Vec<Value> = reqs.into_iter().enumerate().map(|(k, mut r)| { if k + 1 < n && rng.chance(1, 6) { r["bad"] = json!(true); r["b"] = json!(0); r["close"] = json!(false); r["h"] = json!(rng.range(2, 3)) } r }).collect();
    let anybad = reqs.iter().any(|r| r["bad"].as_bool().unwrap_or(false));
    let reqs: Vec<Value> = if !c05 && !anybad && rng.chance(1, 4) { let j = rng.below(n); reqs.into_iter().enumerate().map(|(k, mut r)| { if k == j { r["lead"] = json!(true) } r }).collect() } else { reqs };
    let mut ends = vec![]; let mut tot = 0; for r in &reqs { tot += (i(&r["h"]) + i(&r["b"])) as usize; ends.push(tot) }
    // c05: one segment per request, or (a pipelining client) several whole requests in one; a segment still ends where a refused request ends
    let mut cuts: Vec<usize> = if c05 { ends[..ends.len() - 1].iter().enumerate().filter(|(k, _)| reqs[*k]["bad"].as_bool().unwrap_or(false) || !rng.chance(1, 3)).map(|(_, e)| *e).collect() } else {
        let mut cs: Vec<usize> = (1..tot).filter(|_| rng.chance(1, 3)).collect();
        // keep the classes mixed: half of the c06 scenarios never coalesce two requests
        if rng.chance(1, 2) { for e in &ends[..ends.len() - 1] { if !cs.contains(e) { cs.push(*e) } } }
        // a segment ends where a refused request ends (what is read together with it may go with it)
        for (k, r) in reqs.iter().enumerate() { if r["bad"].as_bool().unwrap_or(false) && !cs.contains(&ends[k]) { cs.push(ends[k]) } }
        cs
    };
    cuts.sort(); cuts.dedup();
    let plain = !anybad && !reqs.iter().any(|r| r["lead"].as_bool().unwrap_or(false));
    let small = n <= 3 && reqs.iter().all(|r| i(&r["b"]) <= 2);
    let drip = if !c05 && plain && small && rng.chance(1, 2) { *rng.pick(&[1u64, 2, 3, 5, 7]) } else { 0 };
    let abandon = !c05 && plain && drip == 0 && !reqs.last().map(|r| r["close"].as_bool().unwrap_or(false)).unwrap_or(true) && rng.chance(1, 5);
    json!({"id": idx, "seed": rng.next() % 1000, "mode": if c05 { "c05" } else { "c06" }, "reqs": reqs, "cuts": cuts, "drip": drip, "abandon": abandon,
           "model": {"resp": [], "dropped": false, "fin": "unknown"}})
}
