//! C03 — responses on the wire are well-formed and the writer never overruns.
//! Scenario: {"ops": [[kind, args..]..], "method": "GET"|"HEAD"}  (vocabulary of specs/RespHeaders.tla)
//! The ops are applied to a real `Response` through the public API; after every op the header block is
//! snapshotted with the public `_write_to`; the finished response goes through the real router
//! (`complete()`, HEAD rule) and `Response::send` into memory, and is re-parsed by util::parse_response.
use crate::util::{self, arr, s, Rng};
use ohkami::__verif as v;
use ohkami::prelude::*;
use ohkami::header::append;
use serde_json::{json, Value};

/// (setter index, name a client must see). The expected names are the registered field names (RFC 9110 etc.),
/// written independently of the framework's own table.
macro_rules! std_headers { ($( $id:ident => $wire:literal ),* $(,)?) => {
    const STD: &[&str] = &[$($wire),*];
    fn set_std(res: &mut Response, idx: usize, val: Option<String>, app: bool) {
        let mut i = 0usize;
        $( if i == idx { match (val, app) {
            // a value is handed over as an owned String or as a `&'static str` (a literal of the application): the two travel as different `Cow`s
            (Some(x), false) => { if (x.len() + idx) % 2 == 0 { res.headers.set().$id(x); } else { res.headers.set().$id(util::leak(x)); } }
            (Some(x), true) => { res.headers.set().$id(append(x)); }
            (None, _) => { res.headers.set().$id(None); }
        } return } i += 1; )*
        let _ = i;
    }
} }
std_headers! {
    Server => "Server", Vary => "Vary", ETag => "ETag", Location => "Location",
    ContentEncoding => "Content-Encoding", ContentLanguage => "Content-Language", Allow => "Allow", Age => "Age",
    AcceptRanges => "Accept-Ranges", AccessControlAllowOrigin => "Access-Control-Allow-Origin",
    AccessControlAllowCredentials => "Access-Control-Allow-Credentials", AccessControlAllowHeaders => "Access-Control-Allow-Headers",
    AccessControlAllowMethods => "Access-Control-Allow-Methods", AccessControlExposeHeaders => "Access-Control-Expose-Headers",
    AccessControlMaxAge => "Access-Control-Max-Age", AltSvc => "Alt-Svc", CacheStatus => "Cache-Status",
    CDNCacheControl => "CDN-Cache-Control", ContentDisposition => "Content-Disposition", ContentLocation => "Content-Location",
    ContentRange => "Content-Range", ContentSecurityPolicy => "Content-Security-Policy",
    ContentSecurityPolicyReportOnly => "Content-Security-Policy-Report-Only",
    CrossOriginEmbedderPolicy => "Cross-Origin-Embedder-Policy", CrossOriginResourcePolicy => "Cross-Origin-Resource-Policy",
    Expires => "Expires", Link => "Link", ProxyAuthenticate => "Proxy-Authenticate", ReferrerPolicy => "Referrer-Policy",
    Refresh => "Refresh", RetryAfter => "Retry-After", StrictTransportSecurity => "Strict-Transport-Security",
    Via => "Via", XContentTypeOptions => "X-Content-Type-Options", XFrameOptions => "X-Frame-Options",
    WWWAuthenticate => "WWW-Authenticate",
}
// (the last two are names of STANDARD response headers given through the by-name API `.x(name, ..)`, in two spellings: within one history such a
//  header is then only ever touched by name -- K6 / K7 are drawn by the random generator only, which keeps Server / Vary out of the typed operations)
const CUSTOM: &[&str] = &["X-A", "X-Custom", "X-Request-Id", "Foo", "x-lower", "X-Trace-Span-Identifier", "Server", "vary"];
const NCUSTOM_PLAIN: usize = 6;

#[derive(Clone)]
struct Table { seed: u64 }
impl Table {
    /// abstract standard name -> index into STD: "A","B" chosen by seed, "S<k>" direct
    fn std_idx(&self, n: &str) -> usize {
        if let Some(k) = n.strip_prefix('S') { return k.parse::<usize>().unwrap_or(0) % STD.len() }
        let a = (self.seed as usize) % STD.len();
        let b = (a + 1 + (self.seed as usize / STD.len()) % (STD.len() - 1)) % STD.len();
        if n == "A" { a } else { b }
    }
    fn cust(&self, n: &str) -> &'static str {
        if let Some(k) = n.strip_prefix('K') { return CUSTOM[k.parse::<usize>().unwrap_or(0) % CUSTOM.len()] }
        let a = (self.seed as usize / 7) % NCUSTOM_PLAIN;
        if n == "X" { CUSTOM[a] } else { CUSTOM[(a + 1) % NCUSTOM_PLAIN] }
    }
    fn val(&self, t: &str) -> String {
        let alt = self.seed % 2 == 1;
        match t {
            "p" => if alt { "z" } else { "a" }.into(),
            "qq" => if alt { "xy" } else { "bb" }.into(),
            "L" => std::iter::repeat(if alt { 'm' } else { 'l' }).take(300).collect(),
            "e" => "".into(),
            "w" => "no-cache; x=1".into(),
            // bytes a sanitiser or an escaping writer might treat specially: non-ASCII text; a tab, `%`, `=` and `"`; a line break followed by
            // what would be a header line of its own (the name X-Injected is known to the oracle as a header nobody set)
            "u" => if alt { "\u{e9}\u{2013}\u{fc}" } else { "\u{df}\u{20ac}\u{e4}" }.into(),
            "t" => if alt { "a\tb%0Dc=\"d\"" } else { "q\t%zz=\"r\";s" }.into(),
            "x" => if alt { "a\r\nX-Injected: 1" } else { "b\nX-Injected: 22" }.into(),
            _ => format!("tok-{t}"),
        }
    }
    fn cookie(&self, t: &str) -> (&'static str, &'static str) { if t == "c1" { ("sid", "1") } else { ("theme", "dk") } }
    fn untok_val(&self, name_tok: &str, raw: &str) -> Value {
        match name_tok {
            "CL" => return json!([format!("n{raw}")]),
            "CT" => return json!([match raw { "text/plain; charset=UTF-8" => "text", "text/html; charset=UTF-8" => "html", "application/json" => "json", "application/octet-stream" => "raw", "text/event-stream" => "sse", _ => "?" }]),
            "CC" => return json!([if raw == "no-cache, must-revalidate" { "nocache" } else { "?" }]),
            "TE" => return json!([if raw == "chunked" { "chunked" } else { "?" }]),
            "DT" => return json!(["date"]),
            "SC" => return json!([match raw { "sid=1" => "c1", "theme=dk" => "c2", _ => "?" }]),
            _ => {}
        }
        if raw.is_empty() { return json!(["e"]) }
        let toks: Vec<String> = raw.split(", ").map(|p| {
            for t in ["p", "qq", "L", "e", "w", "u", "t", "x"] { if self.val(t) == p { return t.to_string() } }
            "?".to_string()
        }).collect();
        json!(toks)
    }
    fn untok_name(&self, names: &[(String, String)], wire: &str) -> String {
        match wire { "Content-Type" => return "CT".into(), "Content-Length" => return "CL".into(), "Date" => return "DT".into(), "Set-Cookie" => return "SC".into(),
                     "Cache-Control" => return "CC".into(), "Transfer-Encoding" => return "TE".into(), _ => {} }
        for (tok, w) in names { if w == wire { return tok.clone() } }
        if wire.eq_ignore_ascii_case("X-Injected") { return "INJ".into() }
        format!("?{wire}")
    }
}

/// a stream of exactly one server-sent event
struct OneMessage(Option<String>);
impl ohkami_lib::Stream for OneMessage {
    type Item = String;
    fn poll_next(mut self: std::pin::Pin<&mut Self>, _: &mut std::task::Context<'_>) -> std::task::Poll<Option<String>> { std::task::Poll::Ready(self.0.take()) }
}

fn status_of(t: &str) -> Status {
    // "c<code>": any status of the enum, through its public conversion from the code
    if let Some(code) = t.strip_prefix('c').and_then(|c| c.parse::<u16>().ok()) { return Status::from(code) }
    match t { "s204" => Status::NoContent, "s404" => Status::NotFound, "s304" => Status::NotModified, "s500" => Status::InternalServerError, "s201" => Status::Created,
              "s205" => Status::ResetContent, "s206" => Status::PartialContent, "s301" => Status::MovedPermanently, "s400" => Status::BadRequest, _ => Status::OK }
}
fn len_of(t: &str) -> usize { t.trim_start_matches('n').parse().unwrap_or(0) }

fn apply(res: &mut Response, op: &[Value], t: &Table) {
    match s(&op[0]) {
        "set" => set_std(res, t.std_idx(s(&op[1])), Some(t.val(s(&op[2]))), false),
        "app" => set_std(res, t.std_idx(s(&op[1])), Some(t.val(s(&op[2]))), true),
        "rem" => set_std(res, t.std_idx(s(&op[1])), None, false),
        "cset" => { let x = t.val(s(&op[2])); if (x.len() + t.cust(s(&op[1])).len()) % 2 == 0 { res.headers.set().x(t.cust(s(&op[1])), x); } else { res.headers.set().x(t.cust(s(&op[1])), util::leak(x)); } }
        "capp" => { res.headers.set().x(t.cust(s(&op[1])), append(t.val(s(&op[2])))); }
        "crem" => { res.headers.set().x(t.cust(s(&op[1])), None); }
        "cookie" => { let (n, val) = t.cookie(s(&op[1])); res.headers.set().SetCookie(n, val, |d| d); }
        "body" => {
            let n = len_of(s(&op[2]));
            match s(&op[1]) {
                "text" => res.set_text("t".repeat(n)),
                "html" => res.set_html("h".repeat(n)),
                "json" => res.set_json("j".repeat(n.saturating_sub(2))),
                "stream" => res.set_stream(OneMessage(Some("s".repeat(n)))),
                _ => res.set_payload("application/octet-stream", vec![0xABu8; n]),
            }
        }
        "drop" => { let _ = res.drop_content(); }
        // the header set taken apart and rebuilt through the public bulk constructor (Set-Cookie lines are left behind)
        "rebuild" => { let old = std::mem::replace(&mut res.headers, ohkami::__verif::new_response_headers());
                       res.headers = ohkami::__verif::ResponseHeaders::from_iter(old.into_iter().filter(|(k, _)| *k != "Set-Cookie")); }
        "status" => res.status = status_of(s(&op[1])),
        _ => {}
    }
}

fn names_of(ops: &[Value], t: &Table) -> Vec<(String, String)> {
    let mut names = vec![];
    for op in ops {
        let op = arr(op);
        let (k, n) = (s(&op[0]), op.get(1).map(s).unwrap_or(""));
        let w = match k { "set" | "app" | "rem" => STD[t.std_idx(n)].to_string(), "cset" | "capp" | "crem" => t.cust(n).to_string(), _ => continue };
        if !names.iter().any(|(a, _): &(String, String)| a == n) { names.push((n.to_string(), w)) }
    }
    names
}

fn block_lines(t: &Table, names: &[(String, String)], head: &[(String, String)]) -> Value {
    json!(head.iter().map(|(k, val)| { let n = t.untok_name(names, k); let vv = t.untok_val(&n, val); json!({"n": n, "v": vv}) }).collect::<Vec<_>>())
}

pub fn run(scn: &Value) -> Value {
    let ops: Vec<Value> = arr(&scn["ops"]).to_vec();
    let method = s(&scn["method"]).to_string();
    let seed = scn["seed"].as_u64().unwrap_or_else(|| scn["id"].as_u64().unwrap_or(0));
    let t = Table { seed };
    let names = names_of(&ops, &t);
    // 1. step by step on one Response, snapshot after every op
    let mut res = Response::new(Status::OK);
    let mut steps = vec![];
    for op in &ops {
        apply(&mut res, arr(op), &t);
        let mut buf = Vec::new();
        res.headers._write_to(&mut buf);
        let declared = v::declared_size(&res);
        // the block is "lines CRLF CRLF": parse it as the head of a dummy response
        let mut msg = b"HTTP/1.1 200 OK\r\n".to_vec(); msg.extend_from_slice(&buf);
        let p = util::parse_response(&msg, true);
        steps.push(json!({"wf": p.error.is_empty(), "lines": block_lines(&t, &names, &p.headers), "declared": declared as i64, "written": buf.len() as i64}));
    }
    // 2. through the router and the writer
    let (ops2, t2) = (ops.clone(), t.clone());
    let mut o = Ohkami::new(());
    let hs = v::handler_set("/").GET(move || { let (ops, t) = (ops2.clone(), t2.clone()); async move {
        let mut res = Response::new(Status::OK);
        for op in &ops { apply(&mut res, arr(op), &t) }
        res
    } });
    v::apply_handlers(&mut o, hs);
    let router = v::finalize(o);
    let raw = format!("{method} / HTTP/1.1\r\nHost: x\r\n\r\n").into_bytes();
    let (out, declared) = util::block_on(async {
        let mut req = v::VRequest::new();
        let mut rd = &raw[..];
        let res = match req.read(&mut rd).await { Ok(Some(())) => req.handle(&router).await, Ok(None) => panic!("harness: request not read"), Err(e) => e };
        let declared = v::declared_size(&res);
        // the connection takes everything at once, or only a few bytes per write call (a nearly full socket buffer)
        let mut w = util::ShortWriter::new([0usize, 1, 7, 64, 1000][(seed % 5) as usize]);
        v::send(res, &mut w).await;
        (w.out, declared)
    });
    let p = util::parse_response(&out, method == "HEAD");
    let head_len = util::find(&out, b"\r\n\r\n").map(|i| i + 4).unwrap_or(out.len());
    let status_line_len = util::find(&out, b"\r\n").map(|i| i + 2).unwrap_or(0);
    json!({"kind": "resp", "steps": steps,
           "wire": {"wf": p.error.is_empty(), "status": p.status, "lines": block_lines(&t, &names, &p.headers), "blen": p.body.len() as i64,
                    "framing": p.framing, "error": util::clip(&p.error, 120), "trailing": (out.len() - p.consumed.min(out.len())) as i64},
           "declared": declared as i64, "block_written": (head_len - status_line_len) as i64,
           "names": names.iter().map(|(a, b)| json!([a, b])).collect::<Vec<_>>()})
}

/// random histories: 20-60 ops over all standard headers, several custom names, long and empty values
pub fn gen(rng: &mut Rng, i: usize) -> Value {
    // one history in 40 is long: some hundreds of operations on a handful of headers (counters and tables that only wrap, fill up or
    // degrade after hundreds of insertions and removals on ONE response)
    let long = i % 40 == 13;
    let n = if long { rng.range(280, 620) } else { rng.range(8, 40) };
    let nstd = if long { rng.range(1, 3) } else { rng.range(2, 8) }; let stds: Vec<String> = (0..nstd).map(|_| format!("S{}", rng.below(STD.len()))).collect();
    let ncus = rng.range(1, 3); let cus: Vec<String> = (0..ncus).map(|_| format!("K{}", rng.below(CUSTOM.len()))).collect();
    let stds: Vec<String> = { let banned: Vec<String> = cus.iter().filter_map(|c| match c.as_str() { "K6" => STD.iter().position(|n| *n == "Server"), "K7" => STD.iter().position(|n| *n == "Vary"), _ => None }).map(|k| format!("S{k}")).collect();
                              let v: Vec<String> = stds.into_iter().filter(|x| !banned.contains(x)).collect(); if v.is_empty() { vec!["S5".to_string()] } else { v } };
    let vals: &[&str] = if long { &["p", "qq", "w", "e"] } else if i % 5 == 2 { &["p", "qq", "L", "w", "e", "u", "t", "x", "u", "t", "x"] } else { &["p", "qq", "L", "w", "e"] };
    const CODES: [u16; 57] = [200, 201, 202, 203, 204, 205, 206, 207, 208, 226, 300, 301, 302, 303, 307, 308, 400, 401, 403, 404, 405, 406, 407, 408, 409, 410, 411,
        412, 413, 414, 415, 416, 417, 418, 421, 422, 423, 424, 426, 428, 429, 431, 451, 500, 501, 502, 503, 504, 505, 506, 507, 508, 510, 511, 200, 404, 204];
    let mut ops = vec![];
    for k in 0..n {
        // (long histories are mostly cycles "remove, set again" of one header: every cycle is a new entry of the append-only parts of the header map)
        if long && k % 2 == 0 && k + 1 < n && rng.below(100) < 85 {
            let h = stds[0].clone();
            ops.push(json!(["rem", h])); ops.push(json!(["set", h, *rng.pick(vals)])); continue
        }
        let r = rng.below(100);
        let h = rng.pick(&stds).clone(); let c = rng.pick(&cus).clone(); let val = *rng.pick(vals);
        let r = if long && r >= 74 { r % 74 } else { r };
        // (the bulk constructor files a standard name given by name under the typed header, `.x(name, ..)` does not: histories that give a standard
        //  name by name leave the rebuild out -- what the two APIs make of one name together is not what this dimension is about)
        let r = if (93..=94).contains(&r) && cus.iter().any(|c| c == "K6" || c == "K7") { 95 } else { r };      // (long histories: header operations only, the snapshots stay small)
        ops.push(match r {
            0..=21 => json!(["set", h, val]),
            22..=33 => json!(["app", h, if val == "e" { "p" } else { val }]),
            34..=49 => json!(["rem", h]),
            50..=59 => json!(["cset", c, val]),
            60..=65 => json!(["capp", c, if val == "e" { "p" } else { val }]),
            66..=73 => json!(["crem", c]),
            74..=79 => json!(["cookie", if rng.chance(1, 2) { "c1" } else { "c2" }]),
            80..=89 => { let k = *rng.pick(&["text", "html", "json", "raw", "stream"]); let l = *rng.pick(&["n0", "n1", "n3", "n8", "n12", "n248", "n300", "n1000", "n4088", "n5000"]);
                         json!(["body", k, if k == "json" && (l == "n0" || l == "n1") { "n3" } else { l }]) }
            90..=92 => json!(["drop"]),
            93..=94 => json!(["rebuild"]),
            _ => if rng.chance(1, 2) { json!(["status", format!("c{}", rng.pick(&CODES))]) } else { json!(["status", *rng.pick(&["s200", "s204", "s404", "s201", "s500", "s205", "s206", "s301", "s400"])]) },
        });
    }
    json!({"id": i, "ops": ops, "method": if rng.chance(1, 4) { "HEAD" } else { "GET" }, "seed": rng.next() % 100000})
}
