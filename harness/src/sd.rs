//! C18 — graceful shutdown.  One fresh process per scenario (the statics CATCH/WAKER and the ctrlc
//! handler cannot be reset).
//!
//! mode "proto": forces a TLC-generated interleaving of the real SIGINT handler closure (running on
//!   ctrlc's thread after a real `raise(SIGINT)`) with the real `until_interrupt` poll, using the
//!   cfg(ohkami_verif) scheduling points.  Verdict by the property: the future must return `None`
//!   (or have a wake-up pending) once the handler has run.
//! mode "e2e": runs the real `Ohkami::howl` with handlers that block until the script releases them;
//!   the environment steps (client arrives / signal / session done) come from the TLC behaviour.
use ohkami::__verif as v;
use serde_json::{json, Value};
use std::future::Future;
use std::pin::Pin;
use std::sync::atomic::{AtomicUsize, Ordering};
use std::sync::{Arc, Condvar, Mutex};
use std::task::{Context, Poll, Wake, Waker};
use std::time::Duration;

#[derive(Default)]
struct Ctl {
    parked: [Option<&'static str>; 2],
    grant: [bool; 2],
    free: bool,
    finalize: bool,
    h_active: bool,
    h_runs: usize,
    p_done: Option<bool>,
    p_waiting: bool,
    seen: usize,
    log: Vec<String>,
}
static CTL: Mutex<Option<Ctl>> = Mutex::new(None);
static CV: Condvar = Condvar::new();
static WAKES: AtomicUsize = AtomicUsize::new(0);
const P: usize = 0;
const H: usize = 1;

fn who_of(point: &str) -> usize { if point.starts_with("h:") { H } else { P } }

fn sched(point: &'static str) {
    let w = who_of(point);
    let mut g = CTL.lock().unwrap();
    {
        let c = g.as_mut().unwrap();
        c.log.push(point.to_string());
        if point == "h:begin" { c.h_active = true }
        if c.free { if point == "h:end" { c.h_active = false; c.h_runs += 1 } CV.notify_all(); return }
        c.parked[w] = Some(point);
    }
    CV.notify_all();
    loop {
        let c = g.as_mut().unwrap();
        if c.grant[w] || c.free {
            c.grant[w] = false; c.parked[w] = None;
            if point == "h:end" { c.h_active = false; c.h_runs += 1 }
            CV.notify_all();
            break
        }
        g = CV.wait(g).unwrap();
    }
}

struct Accept;
impl Future for Accept { type Output = (); fn poll(self: Pin<&mut Self>, _: &mut Context<'_>) -> Poll<()> { sched("p:accept_polled"); Poll::Pending } }
/// the task's waker changes from poll to poll (as it does when the future moves between tasks, or sits in a `select!`): only a wake-up through the waker
/// of the LATEST poll wakes the task; one through an earlier waker is counted apart and wakes nobody
struct W(usize);
static CURRENT: AtomicUsize = AtomicUsize::new(0);
static STALE: AtomicUsize = AtomicUsize::new(0);
impl Wake for W { fn wake(self: Arc<Self>) {
    if self.0 == CURRENT.load(Ordering::SeqCst) { WAKES.fetch_add(1, Ordering::SeqCst); } else { STALE.fetch_add(1, Ordering::SeqCst); }
    let _g = CTL.lock().unwrap(); CV.notify_all(); } }
fn current_waker() -> Waker { Waker::from(Arc::new(W(CURRENT.load(Ordering::SeqCst)))) }

fn wait_until(mut g: std::sync::MutexGuard<'static, Option<Ctl>>, ms: u64, cond: impl Fn(&Ctl) -> bool) -> (std::sync::MutexGuard<'static, Option<Ctl>>, bool) {
    let deadline = std::time::Instant::now() + Duration::from_millis(ms);
    loop {
        if cond(g.as_ref().unwrap()) { return (g, true) }
        let now = std::time::Instant::now();
        if now >= deadline { return (g, false) }
        let (g2, _) = CV.wait_timeout(g, deadline - now).unwrap();
        g = g2;
    }
}

fn grant(w: usize) -> bool {
    let g = CTL.lock().unwrap();
    let (mut g, ok) = wait_until(g, 20000, |c| c.parked[w].is_some());
    if !ok { return false }
    g.as_mut().unwrap().grant[w] = true;
    CV.notify_all();
    let (g, _) = wait_until(g, 20000, |c| !c.grant[w]);
    // until it parks again or is finished
    let (_g, ok) = wait_until(g, 20000, |c| c.parked[w].is_some() || (w == H && !c.h_active) || (w == P && (c.p_done.is_some() || c.p_waiting)));
    ok
}

fn proto(scn: &Value) -> Value {
    *CTL.lock().unwrap() = Some(Ctl::default());
    v::install_sched(sched);
    let ctrlc = v::CtrlC::new();
    let polls: Arc<Mutex<Vec<String>>> = Arc::new(Mutex::new(vec![]));
    let p2 = polls.clone();
    let pt = std::thread::spawn(move || {
        let mut fut = Box::pin(ctrlc.until_interrupt(Accept));
        loop {
            CURRENT.fetch_add(1, Ordering::SeqCst);
            let waker = current_waker();
            let mut cx = Context::from_waker(&waker);
            match fut.as_mut().poll(&mut cx) {
                Poll::Ready(x) => { p2.lock().unwrap().push(format!("ready:{}", if x.is_some() { "some" } else { "none" }));
                    let mut g = CTL.lock().unwrap(); g.as_mut().unwrap().p_done = Some(x.is_none()); CV.notify_all(); return }
                Poll::Pending => p2.lock().unwrap().push("pending".into()),
            }
            // suspended: the runtime polls again only after a wake-up
            sched("p:suspended");
            let mut g = CTL.lock().unwrap();
            loop {
                let c = g.as_mut().unwrap();
                let w = WAKES.load(Ordering::SeqCst);
                if w > c.seen { c.seen = w; c.p_waiting = false; break }
                if c.finalize { c.p_done = Some(false); c.p_waiting = false; CV.notify_all(); return }
                c.p_waiting = true; CV.notify_all();
                g = CV.wait(g).unwrap();
            }
        }
    });
    let mut stuck = 0; let mut skipped = 0;
    for st in crate::util::arr(&scn["steps"]) {
        let (th, act) = (crate::util::s(&st[0]), crate::util::s(&st[1]));
        match th {
            "S" => {
                unsafe { libc::raise(libc::SIGINT); }
                let g = CTL.lock().unwrap();
                let (_g, ok) = wait_until(g, 30000, |c| c.parked[H] == Some("h:begin"));
                if !ok { stuck += 1 }
            }
            "H" => { if !grant(H) { stuck += 1 } else {
                // the closure has nothing left to do after h:end: let it finish
                let at_end = CTL.lock().unwrap().as_ref().unwrap().parked[H] == Some("h:end");
                if at_end { grant(H); }
            } }
            // a wake-up of the task by something else (whatever waker it holds at this moment)
            "W" => { WAKES.fetch_add(1, Ordering::SeqCst); let _g = CTL.lock().unwrap(); CV.notify_all(); }
            "A" => match act {
                "APollAccept" | "AWgPoll" => skipped += 1,
                "ADrop" => { let at = CTL.lock().unwrap().as_ref().unwrap().parked[P]; if at == Some("p:after_load_true") { if !grant(P) { stuck += 1 } } else { skipped += 1 } }
                "AResume" => {
                    // needs a pending wake-up
                    let pending = { let g = CTL.lock().unwrap(); WAKES.load(Ordering::SeqCst) > g.as_ref().unwrap().seen };
                    if pending { if !grant(P) { stuck += 1 } } else { stuck += 1 }
                }
                _ => { let done = CTL.lock().unwrap().as_ref().unwrap().p_done.is_some(); if done { skipped += 1 } else if !grant(P) { stuck += 1 } }
            },
            _ => skipped += 1,
        }
    }
    // free run to quiescence
    { let mut g = CTL.lock().unwrap(); g.as_mut().unwrap().free = true; CV.notify_all(); }
    let g = CTL.lock().unwrap();
    let (mut g, quiet) = wait_until(g, 30000, |c| c.p_done.is_some() || (c.p_waiting && !c.h_active && WAKES.load(Ordering::SeqCst) == c.seen));
    // give a straggling handler wake-up a last chance (handler thread may be between swap and wake only if active, excluded above)
    g.as_mut().unwrap().finalize = true; CV.notify_all();
    let (g, _) = wait_until(g, 30000, |c| c.p_done.is_some());
    let returned = g.as_ref().unwrap().p_done == Some(true);
    let log = g.as_ref().unwrap().log.clone();
    let hruns = g.as_ref().unwrap().h_runs;
    drop(g);
    let _ = pt.join();
    json!({"kind": "sd", "returned": returned, "lost": !returned, "quiet": quiet, "stuck": stuck, "skipped": skipped,
           "hruns": hruns, "wakes": WAKES.load(Ordering::SeqCst), "stale_wakes": STALE.load(Ordering::SeqCst), "polls": *polls.lock().unwrap(), "points": log})
}

// ------------------------------------------------------------------------------------------------
// e2e: the real howl

static EVENTS: Mutex<Vec<(String, i64)>> = Mutex::new(Vec::new());
fn ev(k: &str, i: i64) { EVENTS.lock().unwrap().push((k.to_string(), i)) }
static RELEASE: Mutex<Vec<Arc<tokio::sync::Notify>>> = Mutex::new(Vec::new());
static HEND: AtomicUsize = AtomicUsize::new(0);
fn sched_free(point: &'static str) { if point == "h:end" { HEND.fetch_add(1, Ordering::SeqCst); } }

async fn slow(i: usize) -> String {
    ev("started", i as i64);
    let n = RELEASE.lock().unwrap()[i].clone();
    n.notified().await;
    ev("ended", i as i64);
    format!("done {i}")
}

/// a session that ends by unwinding: the handler panics inside its async body (outside catch_unwind)
async fn crash(i: usize) -> String {
    ev("started", i as i64);
    ev("ended", i as i64);
    panic!("handler {i} panics (scripted)")
}

/// a session that is upgraded to a WebSocket: it is in flight until the WebSocket handler ends
async fn wsup(i: usize, ctx: ohkami::ws::WebSocketContext<'_>) -> ohkami::ws::WebSocket {
    ctx.upgrade(move |_conn| async move {
        ev("started", i as i64);
        let n = RELEASE.lock().unwrap()[i].clone();
        n.notified().await;
        ev("ended", i as i64);
    })
}

static ACC: AtomicUsize = AtomicUsize::new(0);
fn count_accepts(kind: &'static str, _a: usize, _b: usize) { if kind == "accepted" { ACC.fetch_add(1, Ordering::SeqCst); } }

/// A burst: on a runtime with ONE thread, a connection is put into the accept queue and the interrupt is delivered (handler finished) while the
/// accept loop is not being polled; its next poll then accepts the connection and sees the interrupt in one go.  Whatever the loop does with a
/// connection it has accepted, that connection is a session in flight: `howl` returns after it has been served, not before its task was ever polled.
fn burst(scn: &Value) -> Value {
    use ohkami::prelude::*;
    use std::io::{Read, Write};
    let _ = scn;
    v::install_sched(sched_free);
    v::install_emit(count_accepts);
    for _ in 0..2 { RELEASE.lock().unwrap().push(Arc::new(tokio::sync::Notify::new())) }
    let rt = tokio::runtime::Builder::new_current_thread().enable_all().build().unwrap();
    let out = rt.block_on(async move {
        let port = { let l = std::net::TcpListener::bind("127.0.0.1:0").unwrap(); l.local_addr().unwrap().port() };
        let o = Ohkami::new(("/s/:i".GET(slow),));
        let script = tokio::spawn(async move {
            let mut up = false;
            for _ in 0..4000 { if let Ok(c) = tokio::net::TcpStream::connect(("127.0.0.1", port)).await { drop(c); up = true; break } tokio::time::sleep(Duration::from_millis(5)).await }
            if !up { return Err("howl did not listen") }
            tokio::time::sleep(Duration::from_millis(50)).await;        // the probe's own session has ended
            ACC.store(0, Ordering::SeqCst);
            RELEASE.lock().unwrap()[0].notify_one();                     // the handler of session 0 will not wait
            // ---- from here to the next await nothing else runs on the runtime's only thread
            ev("arrive", 0);
            let Ok(mut c) = std::net::TcpStream::connect(("127.0.0.1", port)) else { return Err("connect") };
            let _ = c.write_all(b"GET /s/0 HTTP/1.1\r\nConnection: close\r\n\r\n");
            ev("signal", 0);
            let before = HEND.load(Ordering::SeqCst);
            unsafe { libc::raise(libc::SIGINT); }
            let t0 = std::time::Instant::now();
            while HEND.load(Ordering::SeqCst) == before && t0.elapsed() < Duration::from_secs(3) { std::thread::sleep(Duration::from_millis(1)) }
            std::thread::sleep(Duration::from_millis(5));
            // ---- now the accept loop is polled: a connection in its queue, the flag set, the wake-up delivered
            let mut returned = false;
            for _ in 0..5000 { if EVENTS.lock().unwrap().iter().any(|(k, _)| k == "returned") { returned = true; break } tokio::time::sleep(Duration::from_millis(2)).await }
            let _ = c.set_read_timeout(Some(Duration::from_millis(1500)));
            let mut buf = vec![]; let _ = c.read_to_end(&mut buf);
            ev("client-bytes", buf.len() as i64);
            Ok((true, 0i64, returned))
        });
        let howl = async { o.howl(("127.0.0.1", port)).await;
            let ended = EVENTS.lock().unwrap().iter().filter(|(k, _)| k == "ended").count();
            ev("acc-open", ACC.load(Ordering::SeqCst) as i64 - ended as i64); ev("returned", 0); };
        tokio::pin!(howl);
        tokio::pin!(script);
        let mut sres = None; let mut hdone = false;
        loop {
            tokio::select! {
                _ = &mut howl, if !hdone => { hdone = true; if sres.is_some() { break } }
                r = &mut script, if sres.is_none() => { sres = Some(r.unwrap()); break }
            }
        }
        match sres.unwrap() {
            Err(e) => json!({"kind": "tool-error", "where": e}),
            Ok((signalled, unserved, returned)) => {
                let evs: Vec<Value> = EVENTS.lock().unwrap().iter().map(|(k, i)| json!([k, i])).collect();
                json!({"kind": "e2e", "returned": returned, "signalled": signalled, "unserved": unserved, "events": evs})
            }
        }
    });
    out
}

fn e2e(scn: &Value) -> Value {
    if scn["burst"].as_bool().unwrap_or(false) { return burst(scn) }
    use ohkami::prelude::*;
    use tokio::io::{AsyncReadExt, AsyncWriteExt};
    v::install_sched(sched_free);
    for _ in 0..8 { RELEASE.lock().unwrap().push(Arc::new(tokio::sync::Notify::new())) }
    let steps: Vec<String> = crate::util::arr(&scn["steps"]).iter().map(|s| crate::util::s(&s[0]).to_string()).collect();
    let crashes: Vec<i64> = crate::util::arr(&scn["crash"]).iter().map(crate::util::i).collect();
    let upgraded: Vec<i64> = scn["ws"].as_array().map(|a| a.iter().map(crate::util::i).collect()).unwrap_or_default();
    // timers of the server (read once per process, and this is a fresh one): a Keep-Alive deadline far shorter than the time the sessions stay in flight
    // after the interrupt (`grace_ms`) -- for sessions the deadline does not apply to (WebSocket sessions have a timeout of their own)
    if let Some(k) = scn["timers"]["keepalive"].as_u64() { std::env::set_var("OHKAMI_KEEPALIVE_TIMEOUT", k.to_string()) }
    if let Some(k) = scn["timers"]["websocket"].as_u64() { std::env::set_var("OHKAMI_WEBSOCKET_TIMEOUT", k.to_string()) }
    let grace_ms = scn["timers"]["grace_ms"].as_u64().unwrap_or(100);
    // what the process inherited: the default disposition of SIGINT, SIGINT ignored (what POSIX prescribes for a background job of a
    // non-interactive shell: `./server &` in a script), or a handler somebody installed before `howl` -- the interrupt is the server's business in all three
    extern "C" fn earlier_handler(_: libc::c_int) {}
    match scn["id"].as_u64().unwrap_or(0) % 3 {
        1 => unsafe { libc::signal(libc::SIGINT, libc::SIG_IGN); },
        2 => unsafe { libc::signal(libc::SIGINT, earlier_handler as extern "C" fn(libc::c_int) as libc::sighandler_t); },
        _ => {}
    }
    let rt = tokio::runtime::Builder::new_multi_thread().worker_threads(2).enable_all().build().unwrap();
    let out = rt.block_on(async move {
        let port = { let l = std::net::TcpListener::bind("127.0.0.1:0").unwrap(); l.local_addr().unwrap().port() };
        let o = Ohkami::new(("/s/:i".GET(slow), "/x/:i".GET(crash), "/w/:i".GET(wsup)));
        let script = tokio::spawn(async move {
            // wait until it listens
            let mut up = false;
            for _ in 0..4000 { if let Ok(c) = tokio::net::TcpStream::connect(("127.0.0.1", port)).await { drop(c); up = true; break } tokio::time::sleep(Duration::from_millis(5)).await }
            if !up { return Err("howl did not listen") }
            // that probe connection is a session too: it ends when the server reads EOF
            tokio::time::sleep(Duration::from_millis(20)).await;
            let mut clients: Vec<tokio::task::JoinHandle<Vec<u8>>> = vec![];
            let mut next = 0usize; let mut inflight: std::collections::VecDeque<usize> = Default::default();
            let mut signalled = false; let mut unserved = 0;
            for st in &steps {
                match st.as_str() {
                    "C" => {
                        let i = next; next += 1;
                        ev("arrive", i as i64);
                        let crashing = crashes.contains(&(i as i64));
                        let ws = !crashing && upgraded.contains(&(i as i64));
                        let h = tokio::spawn(async move {
                            let mut buf = vec![];
                            if let Ok(mut c) = tokio::net::TcpStream::connect(("127.0.0.1", port)).await {
                                let req = if ws { format!("GET /w/{i} HTTP/1.1\r\nHost: x\r\nConnection: Upgrade\r\nUpgrade: websocket\r\nSec-WebSocket-Version: 13\r\nSec-WebSocket-Key: dGhlIHNhbXBsZSBub25jZQ==\r\n\r\n") }
                                          else { format!("GET /{}/{i} HTTP/1.1\r\nConnection: close\r\n\r\n", if crashing { "x" } else { "s" }) };
                                let _ = c.write_all(req.as_bytes()).await;
                                let _ = c.read_to_end(&mut buf).await;
                            }
                            buf
                        });
                        // wait until the handler has started (always, before a signal; maybe never, after one)
                        let lim = if signalled { 60 } else { 6000 };
                        let mut started = false;
                        for _ in 0..lim { if EVENTS.lock().unwrap().iter().any(|(k, j)| k == "started" && *j == i as i64) { started = true; break } tokio::time::sleep(Duration::from_millis(5)).await }
                        if started && !crashing { inflight.push_back(i) } else if !started { unserved += 1; ev("unserved", i as i64) }
                        clients.push(h);
                    }
                    "S" => {
                        ev("signal", 0);
                        let before = HEND.load(Ordering::SeqCst);
                        unsafe { libc::raise(libc::SIGINT); }
                        for _ in 0..1000 { if HEND.load(Ordering::SeqCst) > before { break } tokio::time::sleep(Duration::from_millis(2)).await }
                        signalled = true;
                        // let the accept loop observe it
                        tokio::time::sleep(Duration::from_millis(30)).await;
                        // "stops accepting connections": with sessions still in flight (howl cannot have returned) the port must refuse a new
                        // client -- probed until it does, for at most 10 s (the sessions stay in flight meanwhile: only the script releases them)
                        if !inflight.is_empty() {
                            let t0 = std::time::Instant::now(); let mut closed = false; let mut oks = 0i64;
                            while t0.elapsed() < Duration::from_millis(10000) {
                                match tokio::time::timeout(Duration::from_millis(1500), tokio::net::TcpStream::connect(("127.0.0.1", port))).await {
                                    Ok(Ok(c)) => { oks += 1; drop(c); tokio::time::sleep(Duration::from_millis(20)).await }
                                    Ok(Err(e)) if e.kind() == std::io::ErrorKind::ConnectionRefused => { closed = true; break }
                                    Ok(Err(_)) | Err(_) => { tokio::time::sleep(Duration::from_millis(20)).await }      // neither accepted nor refused: try again
                                }
                            }
                            ev("port-probes-accepted", oks);
                            ev("port", closed as i64);
                        }
                    }
                    "D" => {
                        if let Some(i) = inflight.pop_front() {
                            ev("release", i as i64);
                            RELEASE.lock().unwrap()[i].notify_one();
                            for _ in 0..1000 { if EVENTS.lock().unwrap().iter().any(|(k, j)| k == "ended" && *j == i as i64) { break } tokio::time::sleep(Duration::from_millis(2)).await }
                            tokio::time::sleep(Duration::from_millis(10)).await;
                        }
                    }
                    _ => {}
                }
            }
            // grace period: with sessions in flight howl must still be running
            if signalled && !inflight.is_empty() { tokio::time::sleep(Duration::from_millis(grace_ms)).await; ev("grace-over", inflight.len() as i64); }
            while let Some(i) = inflight.pop_front() { ev("release", i as i64); RELEASE.lock().unwrap()[i].notify_one(); }
            let mut returned = false;
            if signalled { for _ in 0..15000 { if EVENTS.lock().unwrap().iter().any(|(k, _)| k == "returned") { returned = true; break } tokio::time::sleep(Duration::from_millis(2)).await } }
            for h in clients { h.abort(); }
            Ok((signalled, unserved, returned))
        });
        let howl = async { o.howl(("127.0.0.1", port)).await; ev("returned", 0); };
        tokio::pin!(howl);
        tokio::pin!(script);
        let mut sres = None; let mut hdone = false;
        loop {
            tokio::select! {
                _ = &mut howl, if !hdone => { hdone = true; if sres.is_some() { break } }
                r = &mut script, if sres.is_none() => { sres = Some(r.unwrap()); break }
            }
        }
        match sres.unwrap() {
            Err(e) => json!({"kind": "tool-error", "where": e}),
            Ok((signalled, unserved, returned)) => {
                let evs: Vec<Value> = EVENTS.lock().unwrap().iter().map(|(k, i)| json!([k, i])).collect();
                json!({"kind": "e2e", "returned": returned, "signalled": signalled, "unserved": unserved, "events": evs})
            }
        }
    });
    rt.shutdown_timeout(Duration::from_millis(100));
    out
}

/// The in-flight counter under a storm of sessions: one thread plays the accept loop (`add` for every new session), another one lets the
/// sessions end (drops the handles) at the same time -- `rounds` x `per` sessions.  The model takes `add` and the drop for atomic steps;
/// this run checks that assumption on the real WaitGroup: when every session has ended the counter is back at zero, so that the wait after an
/// interrupt ends (reported in the vocabulary of the e2e runs: signal, then `returned` iff the wait is over).
fn storm(scn: &Value) -> Value {
    let (rounds, per) = (scn["storm"]["rounds"].as_u64().unwrap_or(20), scn["storm"]["per"].as_u64().unwrap_or(100_000));
    let mut wg = v::WaitGroup::new();
    for _ in 0..rounds {
        let (tx, rx) = std::sync::mpsc::sync_channel::<v::WaitGroup>(64);
        let ender = std::thread::spawn(move || { for h in rx { drop(h) } });
        for _ in 0..per { if tx.send(wg.add()).is_err() { break } }
        drop(tx);
        let _ = ender.join();
    }
    let waker = Waker::from(Arc::new(W(usize::MAX)));
    let mut cx = Context::from_waker(&waker);
    let over = matches!(Pin::new(&mut wg).poll(&mut cx), Poll::Ready(()));
    std::mem::forget(wg);          // (the root handle is not a session: its drop is not part of the protocol)
    let mut evs = vec![json!(["signal", 0])];
    if over { evs.push(json!(["returned", 0])) }
    json!({"kind": "e2e", "returned": over, "signalled": true, "unserved": 0, "events": evs, "sessions": (rounds * per) as i64})
}

pub fn run(scn: &Value) -> Value {
    if scn.get("storm").is_some() { return storm(scn) }
    match crate::util::s(&scn["mode"]) { "proto" => proto(scn), "e2e" => e2e(scn), m => json!({"kind": "tool-error", "where": format!("mode {m}")}) }
}

#[allow(dead_code)]
pub fn gen(_rng: &mut crate::util::Rng, i: usize) -> Value { json!({"id": i}) }
