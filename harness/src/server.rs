//! Composition (specs/Server.tla): one connection to an application with fangs, served by the REAL Session::manage over
//! loopback TCP.  The trace is the interleaving of the session's own events (cfg(ohkami_verif) hooks in Request::read and
//! the session loop) with the enter/leave/handler events of the logging fangs and handlers.
//! Scenario: the RouterApp vocabulary ("apps", "early") + "conn": [{"req": {"method","path","trailing"}, "close": bool}..]
use crate::router::{build_app, request_bytes, table, SINK};
use crate::util::{self, arr, Rng};
use ohkami::__verif as v;
use serde_json::{json, Value};

fn emit(k: &'static str, a: usize, b: usize) {
    if let Some(sink) = SINK.lock().unwrap().as_mut() { sink.push(json!({"ev": k, "a": a as i64, "b": b as i64})) }
}

pub fn run(scn: &Value) -> Value {
    use tokio::io::{AsyncReadExt, AsyncWriteExt};
    let seed = scn["seed"].as_u64().unwrap_or_else(|| scn["id"].as_u64().unwrap_or(0));
    let t = table(seed);
    let router = v::finalize(build_app(arr(&scn["apps"]), 1, &t, util::i(&scn["early"]), 0));
    let reqs: Vec<Vec<u8>> = arr(&scn["conn"]).iter().map(|c| {
        let mut raw = request_bytes(&c["req"], &t);
        if c["close"].as_bool().unwrap_or(false) { let n = raw.len(); raw.splice(n - 2..n - 2, b"Connection: close\r\n".iter().cloned()); }
        raw }).collect();
    *SINK.lock().unwrap() = Some(vec![]);
    v::install_emit(emit);
    let statuses = util::block_on(async move {
        let l = tokio::net::TcpListener::bind("127.0.0.1:0").await.unwrap();
        let addr = l.local_addr().unwrap();
        let (c, sv) = tokio::join!(crate::util::connect_loopback(addr), l.accept());
        let (mut c, (sv, peer)) = (c.unwrap(), sv.unwrap());
        c.set_nodelay(true).ok();
        let server = tokio::spawn(async move { v::session(&router, sv, peer.ip()).await });
        let mut statuses: Vec<i64> = vec![]; let mut buf = vec![0u8; 65536];
        'conn: for (k, raw) in reqs.iter().enumerate() {
            if c.write_all(raw).await.is_err() { break }
            let head = arr(&scn["conn"])[k]["req"]["method"] == "HEAD";
            let mut got: Vec<u8> = vec![];
            loop {
                let p = util::parse_response(&got, head);
                if p.error.is_empty() && p.consumed > 0 { statuses.push(p.status as i64); break }
                match tokio::time::timeout(std::time::Duration::from_millis(15000), c.read(&mut buf)).await {
                    Ok(Ok(0)) | Ok(Err(_)) | Err(_) => break 'conn,
                    Ok(Ok(m)) => got.extend_from_slice(&buf[..m]),
                }
            }
        }
        let _ = c.shutdown().await;
        let _ = tokio::time::timeout(std::time::Duration::from_millis(5000), server).await;
        statuses
    });
    let events = SINK.lock().unwrap().take().unwrap_or_default();
    json!({"kind": "server", "events": events, "statuses": statuses})
}

/// random applications (router::gen) with a connection of 1-5 requests taken from the generated request set
pub fn gen(rng: &mut Rng, idx: usize) -> Value {
    let mut scn = crate::router::gen(rng, idx * 2 + 1);
    let reqs = arr(&scn["reqs"]).to_vec();
    let n = rng.range(1, 5);
    let conn: Vec<Value> = (0..n).map(|k| json!({"req": rng.pick(&reqs).clone(), "close": k + 1 == n && rng.chance(1, 2)})).collect();
    scn["conn"] = json!(conn);
    scn["reqs"] = json!([]);
    scn["id"] = json!(idx);
    scn
}
