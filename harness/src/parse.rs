//! C02 — request bytes parsed faithfully, malformed bytes refused.
//! Scenario: {"req": <state of the HttpParse machine at its end>}; the bytes are presented as the first read
//! of a connection to the real `Request::read` (through ohkami::__verif::VRequest and a scripted reader).
use crate::util::{self, arr, s, Rng, ScriptedReader};
use ohkami::__verif as v;
use serde_json::{json, Value};

pub const BUF: usize = 1024;

pub struct Table { pub alt: bool }
impl Table {
    pub fn seg(&self, t: &str) -> (&'static str, &'static str) { // (wire, denoted)
        match (t, self.alt) {
            ("s1", false) => ("abc", "abc"), ("s1", true) => ("users", "users"),
            ("s2", false) => ("x.y-z_0", "x.y-z_0"), ("s2", true) => ("v1.2_b-9", "v1.2_b-9"),
            ("se", false) => ("a%20b", "a b"), ("se", true) => ("%41b%2e", "Ab."),
            _ => ("zz", "zz"),
        }
    }
    pub fn qk(&self, t: &str) -> &'static str { match (t, self.alt) { ("k1", false) => "q", ("k1", true) => "name", ("k2", false) => "page", _ => "id" } }
    pub fn qv(&self, t: &str) -> (&'static str, &'static str) {
        match (t, self.alt) { ("v1", false) => ("1", "1"), ("v1", true) => ("ohkami", "ohkami"), ("ve", false) => ("a%26b%3D", "a&b="), ("ve", true) => ("%e7%8b%bc", "狼"),
                              ("vq", false) => ("a=b", "a=b"), ("vq", true) => ("x==%3D=y", "x====y"),
                              ("vh", false) => ("what?", "what?"), ("vh", true) => ("/login?next=/home", "/login?next=/home"), _ => ("", "") }
    }
    pub fn hname(&self, n: &str) -> &'static str {
        match n { "Host" => "Host", "Accept" => "Accept", "CT" => "Content-Type", "XA" => "X-Request-Id", "XB" => "X-Custom-Flag", "CL" => "Content-Length",
                  // the registered names of the standard headers are their own tokens (family "names")
                  other if other.chars().next().is_some_and(|c| c.is_ascii_uppercase()) && other.len() > 2 || other == "TE" => util::leak(other.to_string()),
                  _ => "X-Other" }
    }
    pub fn cased(&self, name: &str, c: &str) -> String {
        match c {
            "lower" => name.to_ascii_lowercase(),
            "upper" => name.to_ascii_uppercase(),
            "mixed" => { let low = name.to_ascii_lowercase(); let mut it = low.chars();
                         let first = it.next().unwrap().to_ascii_uppercase(); let rest: String = it.collect();
                         let m = format!("{first}{rest}");
                         if m == name { name.chars().enumerate().map(|(i, ch)| if i % 2 == 0 { ch.to_ascii_lowercase() } else { ch.to_ascii_uppercase() }).collect() } else { m } }
            _ => name.to_string(),
        }
    }
    pub fn hval(&self, t: &str) -> String {
        match (t, self.alt) { ("v1", false) => "alpha".into(), ("v1", true) => "example.com".into(), ("v2", false) => "beta2".into(), ("v2", true) => "*/*".into(),
            ("vl", _) => "l".repeat(200), ("v0", _) => String::new(), ("vs", false) => "a b; c=d".into(), ("vs", true) => "text/plain; charset=utf-8".into(), _ => "x".into() }
    }
    fn unhval(&self, raw: &str) -> Value {
        json!(raw.split(", ").map(|p| { for t in ["v1", "v2", "vl", "vs", "v0"] { if self.hval(t) == p { return t.to_string() } } format!("?{}", util::clip(p, 12)) }).collect::<Vec<_>>())
    }
}

pub struct Built { pub bytes: Vec<u8>, pub body: Vec<u8>, pub head_len: usize }

/// concretises the abstract request (no parsing logic here: pure table look-up and concatenation), then applies the fault
pub fn build(req: &Value, t: &Table, seed: u64) -> Built {
    let fault = s(&req["fault"]);
    let mut method = s(&req["method"]).to_string();
    let mut target = String::new();
    for sg in arr(&req["segs"]) { target.push('/'); target.push_str(t.seg(s(sg)).0) }
    if target.is_empty() { target.push('/') } else if req["trailing"].as_bool().unwrap_or(false) { target.push('/') }
    if req["hasq"].as_bool().unwrap_or(false) {
        target.push('?');
        target.push_str(&arr(&req["query"]).iter().map(|p| format!("{}={}", t.qk(s(&p[0])), t.qv(s(&p[1])).0)).collect::<Vec<_>>().join("&"));
    }
    let mut version = "HTTP/1.1".to_string();
    match fault {
        "unknown-method" => method = "FOO".into(), "lowercase-method" => method = method.to_ascii_lowercase(),
        "target-no-slash" => target = target.trim_start_matches('/').to_string() + "x", "target-asterisk" => target = "*".into(),
        "target-too-long" => target = format!("/{}", "t".repeat(2000)),
        "nul-in-target" => target.insert(1, '\0'),
        "version-1.0" => version = "HTTP/1.0".into(), "version-2" => version = "HTTP/2".into(), "version-garbage" => version = "HTXP/1.1".into(),
        _ => {}
    }
    let mut head: Vec<u8> = vec![];
    head.extend_from_slice(method.as_bytes());
    if fault != "no-sp-after-method" { head.push(b' ') }
    head.extend_from_slice(target.as_bytes());
    if fault == "nonutf8-in-target" { head.extend_from_slice(b"/\xff\xfe") }
    let target_end = head.len();
    if fault == "no-version" { head.extend_from_slice(b"\r\n") } else {
        if fault != "no-sp-after-target" { head.push(b' ') }
        head.extend_from_slice(version.as_bytes()); head.extend_from_slice(b"\r\n");
    }
    let version_end = head.len();
    let mut first_header_name_mid = 0; let mut first_header_value_mid = 0;
    for (k, h) in arr(&req["headers"]).iter().enumerate() {
        let name = t.cased(t.hname(s(&h["n"])), s(&h["c"]));
        let mut val = t.hval(s(&h["v"])).into_bytes();
        if k == 0 { match fault { "nul-in-header-value" => val.insert(1.min(val.len()), 0), "nonutf8-in-header-value" => val.insert(1.min(val.len()), 0xFF), "header-line-too-long" => val = vec![b'h'; 2000], _ => {} } }
        if k == 0 { first_header_name_mid = head.len() + name.len() / 2 }
        head.extend_from_slice(name.as_bytes());
        if k == 0 && fault == "header-no-colon" { head.push(b' ') } else { head.extend_from_slice(b": ") }
        if k == 0 { first_header_value_mid = head.len() + val.len() / 2 }
        head.extend_from_slice(&val); head.extend_from_slice(b"\r\n");
    }
    // body
    let size_class = s(&req["body"]["size"]);
    let mut body: Vec<u8> = vec![];
    if size_class != "none" {
        let cl_name = t.cased("Content-Length", s(&req["body"]["clcase"]));
        // the size depends on the head length, which depends on the digits of the size: fixpoint over a few rounds
        let mut size = 5usize;
        for _ in 0..4 {
            let hl = head.len() + cl_name.len() + 2 + size.to_string().len() + 2 + 2;
            size = match size_class { "small" => 5, "fill" => BUF.saturating_sub(hl).max(1), "over" => BUF.saturating_sub(hl) + 300, _ => 3000 };
        }
        body = (0..size).map(|i| ((i as u64 * 7 + seed) % 251 + 1) as u8).collect();
        if s(&req["body"]["first"]) == "Z" { body[0] = 0 }
        if req["body"]["nul"].as_bool().unwrap_or(false) && size >= 3 { body[size / 2] = 0 }
        let clv = match fault { "cl-letters" => "abc".to_string(), "cl-digits-then-letter" => format!("{size}a"), "cl-negative" => format!("-{size}"),
                                "cl-30-digits" => "1".repeat(30), "cl-empty" => String::new(), "cl-plus-sign" => format!("+{size}"), "cl-hex" => format!("0x{size:x}"), _ => size.to_string() };
        head.extend_from_slice(cl_name.as_bytes()); head.extend_from_slice(b": "); head.extend_from_slice(clv.as_bytes()); head.extend_from_slice(b"\r\n");
    }
    let before_blank = head.len();
    head.extend_from_slice(b"\r\n");
    let head_len = head.len();
    let mut bytes = head.clone();
    if fault == "bare-lf" { bytes = String::from_utf8_lossy(&bytes).replace("\r\n", "\n").into_bytes() }
    let head_wire_len = bytes.len();
    bytes.extend_from_slice(&body);
    match fault {
        "trunc-method" => bytes.truncate(2), "trunc-target" => bytes.truncate((method.len() + 1 + target_end) / 2 + 1),
        "trunc-version" => bytes.truncate(version_end - 3), "trunc-header-name" => bytes.truncate(first_header_name_mid),
        "trunc-header-value" => bytes.truncate(first_header_value_mid), "trunc-before-blank-line" => bytes.truncate(before_blank),
        "trunc-body" => bytes.truncate(head_wire_len + body.len() / 2),
        _ => {}
    }
    Built { bytes, body, head_len }
}

/// an earlier request on the same connection object: query, several headers (standard, custom, cookie), a payload
const PRELUDE: &[u8] = b"POST /pre/lude?pk=pv&k1=stale HTTP/1.1\r\nHost: prelude.example\r\nAuthorization: Bearer PRELUDE\r\nCookie: pre=lude\r\nX-Prelude: 1\r\nIf-Match: \"pre\"\r\nContent-Type: text/plain\r\nContent-Length: 7\r\n\r\nPREBODY";
const PROBES: [&str; 6] = ["Host", "Authorization", "Cookie", "X-Prelude", "If-Match", "Content-Type"];

pub fn observe(req: &Value, t: &Table, built: &Built, segs: Vec<Vec<u8>>) -> Value { observe_after(req, t, built, segs, false) }
pub fn observe_after(req: &Value, t: &Table, built: &Built, segs: Vec<Vec<u8>>, prelude: bool) -> Value {
    let mut rd = ScriptedReader::new(segs);
    let mut vr = v::VRequest::new();
    if prelude {
        // what Session::manage does between two requests: read, (handle,) clear_keeping, read_following
        let mut pre = ScriptedReader::new(vec![PRELUDE.to_vec()]);
        match util::block_on(async { vr.read(&mut pre).await }) { Ok(Some(())) => {} _ => return json!({"kind": "error", "status": 0, "starved": false, "note": "prelude refused"}) }
        let _ = vr.get().payload().map(|p| p.len());
        let carried = vr.clear_keeping(0..0);
        assert_eq!(carried, 0);
    }
    let res = if prelude { util::block_on(async { vr.read_following(&mut rd, 0).await }).map(|o| o.map(|_| ())) } else { util::block_on(async { vr.read(&mut rd).await }) };
    match res {
        Err(e) => { let mut out = vec![]; util::block_on(async { v::send(e, &mut out).await }); let p = util::parse_response(&out, false);
                    json!({"kind": "error", "status": p.status, "starved": rd.starved > 0}) }
        Ok(None) => json!({"kind": "closed", "status": 0, "starved": rd.starved > 0}),
        Ok(Some(())) => {
            let r = vr.get();
            let acc = std::panic::catch_unwind(std::panic::AssertUnwindSafe(|| {
                let path = r.path.str().to_string();
                let segs: Vec<String> = if path == "/" { vec![] } else { path.trim_start_matches('/').trim_end_matches('/').split('/').map(|x| {
                    for tk in ["s1", "s2", "se"] { if t.seg(tk).1 == x { return tk.to_string() } } format!("?{}", util::clip(x, 12)) }).collect() };
                let query: Vec<Value> = r.query.iter().map(|(k, val)| {
                    let kt = ["k1", "k2"].iter().find(|tk| t.qk(tk) == k).map(|x| x.to_string()).unwrap_or(format!("?{k}"));
                    let vt = ["v1", "ve", "e", "vq", "vh"].iter().find(|tk| t.qv(tk).1 == val).map(|x| x.to_string()).unwrap_or(format!("?{val}"));
                    json!([kt, vt]) }).collect();
                let mut names: Vec<String> = vec![];
                for h in arr(&req["headers"]) { let n = s(&h["n"]).to_string(); if !names.contains(&n) { names.push(n) } }
                let hdr: Vec<Value> = names.iter().map(|n| {
                    let canon = t.hname(n);
                    let typed = match n.as_str() { "CT" => r.headers.ContentType(), "Accept" => r.headers.Accept(), "Accept-Encoding" => r.headers.AcceptEncoding(), "Accept-Language" => r.headers.AcceptLanguage(), "Access-Control-Request-Headers" => r.headers.AccessControlRequestHeaders(), "Access-Control-Request-Method" => r.headers.AccessControlRequestMethod(), "Authorization" => r.headers.Authorization(), "Cache-Control" => r.headers.CacheControl(), "Content-Disposition" => r.headers.ContentDisposition(), "Content-Encoding" => r.headers.ContentEncoding(), "Content-Language" => r.headers.ContentLanguage(), "Content-Location" => r.headers.ContentLocation(), "Date" => r.headers.Date(), "Forwarded" => r.headers.Forwarded(), "From" => r.headers.From(), "Host" => r.headers.Host(), "If-Match" => r.headers.IfMatch(), "If-Modified-Since" => r.headers.IfModifiedSince(), "If-None-Match" => r.headers.IfNoneMatch(), "If-Range" => r.headers.IfRange(), "If-Unmodified-Since" => r.headers.IfUnmodifiedSince(), "Link" => r.headers.Link(), "Max-Forwards" => r.headers.MaxForwards(), "Origin" => r.headers.Origin(), "Proxy-Authorization" => r.headers.ProxyAuthorization(), "Range" => r.headers.Range(), "Referer" => r.headers.Referer(), "Sec-Fetch-Dest" => r.headers.SecFetchDest(), "Sec-Fetch-Mode" => r.headers.SecFetchMode(), "Sec-Fetch-Site" => r.headers.SecFetchSite(), "Sec-Fetch-User" => r.headers.SecFetchUser(), "Sec-WebSocket-Extensions" => r.headers.SecWebSocketExtensions(), "Sec-WebSocket-Key" => r.headers.SecWebSocketKey(), "Sec-WebSocket-Protocol" => r.headers.SecWebSocketProtocol(), "Sec-WebSocket-Version" => r.headers.SecWebSocketVersion(), "TE" => r.headers.TE(), "Trailer" => r.headers.Trailer(), "User-Agent" => r.headers.UserAgent(), "Upgrade-Insecure-Requests" => r.headers.UpgradeInsecureRequests(), "Via" => r.headers.Via(), _ => r.headers.get(canon) };
                    let get = r.headers.get(canon); let getlower = r.headers.get(&canon.to_ascii_lowercase());
                    let tv = |x: Option<&str>| x.map(|x| t.unhval(x)).unwrap_or(json!(["absent"]));
                    json!({"n": n, "typed": tv(typed), "get": tv(get), "getlower": tv(getlower)}) }).collect();
                let pl = r.payload();
                let dbg = format!("{:?}", r).len();
                let sent: Vec<String> = names.iter().map(|n| t.hname(n).to_ascii_lowercase()).collect();
                let stale: Vec<&str> = PROBES.iter().filter(|p| !sent.contains(&p.to_ascii_lowercase()) && !(p.eq_ignore_ascii_case("content-type") && sent.iter().any(|x| x == "content-type")) && r.headers.get(p).is_some()).cloned().collect();
                // the typed reading of the query: an absent/empty query must read as the empty map (the iterator skips parts without `=`,
                // so a stale slice of an earlier request can hide from it)
                let qempty = matches!(r.query.parse::<std::collections::BTreeMap<String, String>>(), Ok(m) if m.is_empty());
                json!({"method": r.method.as_str(), "segs": segs, "query": query, "qempty": qempty, "hdr": hdr, "stale": stale,
                       "payload": {"present": pl.is_some(), "same": pl.map(|p| p == &built.body[..]).unwrap_or(false), "len": pl.map(|p| p.len() as i64).unwrap_or(0)}, "dbg": dbg as i64})
            }));
            match acc {
                Ok(mut o) => { o["kind"] = json!("accepted"); o["starved"] = json!(rd.starved > 0); o["accpanic"] = json!(""); o["status"] = json!(0); o }
                Err(_) => json!({"kind": "accepted", "status": 0, "starved": rd.starved > 0, "accpanic": "panic", "method": "", "segs": [], "query": [], "qempty": false, "hdr": [], "stale": [], "payload": {"present": false, "same": false, "len": 0}}),
            }
        }
    }
}

pub fn run(scn: &Value) -> Value {
    let req = &scn["req"];
    let seed = scn["seed"].as_u64().unwrap_or_else(|| scn["id"].as_u64().unwrap_or(0));
    let t = Table { alt: seed % 2 == 1 };
    let built = build(req, &t, seed);
    let mut o = match req["delivery"].as_str().unwrap_or("whole") {
        "after" => observe_after(req, &t, &built, vec![built.bytes.clone()], true),
        "followed" => { let mut b = built.bytes.clone(); b.extend_from_slice(b"POST /next/one?k1=next HTTP/1.1\r\nHost: next.example\r\nContent-Length: 4\r\n\r\nNEXT"); observe(req, &t, &built, vec![b]) }
        "split" => {
            // every cut of the head (and a little beyond) into two reads; the first one whose outcome differs from the uncut delivery is reported
            let whole = observe(req, &t, &built, vec![built.bytes.clone()]);
            let mut out = whole.clone(); out["cut"] = json!(0);
            let last = built.bytes.len().saturating_sub(1).min(built.head_len + 6);
            for cut in 1..=last {
                let mut o = observe(req, &t, &built, vec![built.bytes[..cut].to_vec(), built.bytes[cut..].to_vec()]);
                if o != whole { o["cut"] = json!(cut as i64); out = o; break }
            }
            out
        }
        _ => observe(req, &t, &built, vec![built.bytes.clone()]),
    };
    o["nbytes"] = json!(built.bytes.len() as i64);
    o["hex"] = json!(util::clip(&String::from_utf8_lossy(&built.bytes[..built.bytes.len().min(built.head_len)]).replace('\r', "\\r").replace('\n', "\\n"), 300));
    o
}

/// random requests: more headers, every dimension varied at once
pub fn gen(rng: &mut Rng, i: usize) -> Value {
    let methods = ["GET", "PUT", "POST", "PATCH", "DELETE", "HEAD", "OPTIONS"];
    let m = *rng.pick(&methods);
    let nseg = rng.below(4);
    let segs: Vec<&str> = (0..nseg).map(|_| *rng.pick(&["s1", "s2", "se"])).collect();
    let hasq = rng.chance(1, 2);
    let query: Vec<Value> = if hasq { (0..rng.below(4)).map(|_| json!([*rng.pick(&["k1", "k2"]), *rng.pick(&["v1", "ve", "e", "vq", "vh"])])).collect() } else { vec![] };
    let hl = [("Host", "canon", "v1"), ("Host", "lower", "v2"), ("Accept", "mixed", "v1"), ("Accept", "upper", "v2"), ("Accept", "canon", "vl"), ("CT", "canon", "vs"), ("CT", "mixed", "v1"),
              ("XA", "canon", "v1"), ("XA", "canon", "v2"), ("XA", "lower", "v2"), ("XB", "mixed", "vl"), ("XB", "upper", "vs"), ("XA", "upper", "vs"), ("Host", "mixed", "vs"),
              ("XB", "canon", "v0"), ("Accept", "lower", "v0"), ("Via", "canon", "v0"), ("User-Agent", "upper", "v1"), ("User-Agent", "mixed", "v2"), ("If-None-Match", "mixed", "v2"), ("Sec-WebSocket-Key", "upper", "v1"), ("Referer", "lower", "vs"), ("Via", "upper", "v1"), ("TE", "lower", "v1")];
    let mut headers = vec![]; let mut long = 0;
    for _ in 0..rng.below(7) { let h = rng.pick(&hl); if h.2 == "vl" { long += 1; if long > 3 { continue } } headers.push(json!({"n": h.0, "c": h.1, "v": h.2})) }
    let body = if (["POST", "PUT", "PATCH", "DELETE"].contains(&m) && rng.chance(2, 3)) || rng.chance(1, 4) {
        json!({"size": *rng.pick(&["small", "fill", "over", "big"]), "first": if rng.chance(1, 3) { "Z" } else { "N" }, "nul": rng.chance(1, 3), "clcase": *rng.pick(&["canon", "lower", "mixed"])})
    } else { json!({"size": "none", "first": "N", "nul": false, "clcase": "canon"}) };
    let faults = ["trunc-method", "trunc-target", "trunc-version", "trunc-header-name", "trunc-header-value", "trunc-before-blank-line", "trunc-body",
        "version-1.0", "version-2", "version-garbage", "no-sp-after-method", "no-sp-after-target", "no-version", "header-no-colon", "bare-lf",
        "cl-letters", "cl-digits-then-letter", "cl-negative", "cl-30-digits", "cl-empty", "cl-plus-sign", "cl-hex", "nul-in-target", "nul-in-header-value", "nonutf8-in-header-value",
        "nonutf8-in-target", "unknown-method", "lowercase-method", "target-no-slash", "target-asterisk", "target-too-long", "header-line-too-long"];
    let mut fault = if rng.chance(1, 3) { *rng.pick(&faults) } else { "none" };
    let needs_body = ["trunc-body", "cl-letters", "cl-digits-then-letter", "cl-negative", "cl-30-digits", "cl-empty", "cl-plus-sign", "cl-hex"];
    let needs_hdr = ["trunc-header-name", "trunc-header-value", "header-no-colon", "nul-in-header-value", "nonutf8-in-header-value", "header-line-too-long"];
    if (needs_body.contains(&fault) && s(&body["size"]) == "none") || (needs_hdr.contains(&fault) && headers.is_empty()) { fault = "none" }
    json!({"id": i, "seed": rng.next() % 1000, "req": {"phase": "end", "method": m, "segs": segs, "trailing": nseg > 0 && rng.chance(1, 4), "query": query, "hasq": hasq,
           "headers": headers, "body": body, "fault": fault, "delivery": if fault == "none" { *rng.pick(&["whole", "whole", "split", "after", "followed"]) } else { *rng.pick(&["whole", "whole", "whole", "split", "after"]) }}})
}
