//! C14 — the CORS fang applies the configured policy to every response and preflight.
//! Scenario (vocabulary of specs/Cors.tla, applications as in specs/RouterApp.tla):
//!   {"policy":{"origin":"star"|"o1"|"o2","cred":bool,"allowh":{"set":bool,"list":["h1",..]},"expose":{"set":bool,"list":[..]},"maxage":""|digits},
//!    "apps":[{"fangs":[],"items":[route item | mount item]}..],      apps[0] carries the CORS fang: Ohkami::with((CORS,), ..)
//!    "reqs":[{"method","path":[[chars]..],"trailing":n,"acrm":""|method token,"acrh":{"set":bool,"list":[..]},"origin":"none"|"o1"|"o2"|"o3"}..]}
//! The application is assembled through the public API (hook: ohkami::__verif), every request goes through the real
//! Request::read -> Router::handle (fangs + handlers) -> Response::send and is re-parsed by util::parse_response.
//! Observation per request: status, body length, and the Access-Control-* header values projected back to the
//! abstract tokens (lists split on ',' and trimmed).
use crate::router;
use crate::util::{self, arr, i, s, Rng};
use ohkami::__verif as v;
use ohkami::fang::CORS;
use ohkami::prelude::*;
use serde_json::{json, Value};
use std::cell::Cell;

thread_local! { static HIT: Cell<i64> = const { Cell::new(0) }; }

/// concretisation of origins and header-name tokens (two representatives each, chosen by the seed)
pub struct CTable { o1: &'static str, o2: &'static str, o3: &'static str, names: [&'static str; 8], sep: &'static str, lower: bool }
pub fn ctable(seed: u64) -> CTable {
    match (seed / 4) % 2 {
        0 => CTable { o1: "https://foo.example", o2: "https://bar.example:8443", o3: "https://evil.example",
                      names: ["Content-Type", "X-Custom", "X-Trace-Id", "Authorization", "Accept-Language", "X-Total-Count", "ETag", "X-Requested-With"],
                      sep: ", ", lower: false },
        _ => CTable { o1: "http://localhost:3000", o2: "https://a.b.c.example", o3: "http://10.0.0.1:8080",
                      names: ["X-Requested-With", "authorization", "X-Api-Key", "Content-Type", "If-Match", "Link", "X-Rate-Limit", "x-id"],
                      sep: ",", lower: true },
    }
}
impl CTable {
    fn origin(&self, tok: &str) -> &'static str { match tok { "star" => "*", "o1" => self.o1, "o2" => self.o2, _ => self.o3 } }
    fn unorigin(&self, text: &str) -> String {
        if text == "*" { "star".into() } else if text == self.o1 { "o1".into() } else if text == self.o2 { "o2".into() } else if text == self.o3 { "o3".into() } else { format!("?{}", util::clip(text, 40)) }
    }
    fn name(&self, tok: &str) -> &'static str {
        match tok.strip_prefix('h').and_then(|n| n.parse::<usize>().ok()) { Some(n) if (1..=8).contains(&n) => self.names[n - 1], _ => util::leak(tok.to_string()) }
    }
    fn unname(&self, text: &str) -> String {
        match self.names.iter().position(|n| n.eq_ignore_ascii_case(text)) { Some(k) => format!("h{}", k + 1), None => format!("?{}", util::clip(text, 40)) }
    }
}

fn build_cors(pol: &Value, ct: &CTable) -> CORS {
    let mut c = CORS::new(ct.origin(s(&pol["origin"])));
    if pol["cred"].as_bool().unwrap_or(false) { c = c.AllowCredentials() }
    let names = |l: &Value| -> Vec<&'static str> { arr(l).iter().map(|t| ct.name(s(t))).collect() };
    macro_rules! list { ($c:ident, $m:ident, $l:expr) => {{ let l = $l; match l.len() {
        0 => $c.$m([]), 1 => $c.$m([l[0]]), 2 => $c.$m([l[0], l[1]]), 3 => $c.$m([l[0], l[1], l[2]]),
        4 => $c.$m([l[0], l[1], l[2], l[3]]), 5 => $c.$m([l[0], l[1], l[2], l[3], l[4]]),
        _ => $c.$m([l[0], l[1], l[2], l[3], l[4], l[5]]) } }} }
    if pol["allowh"]["set"].as_bool().unwrap_or(false) { c = list!(c, AllowHeaders, names(&pol["allowh"]["list"])) }
    if pol["expose"]["set"].as_bool().unwrap_or(false) { c = list!(c, ExposeHeaders, names(&pol["expose"]["list"])) }
    let ma = s(&pol["maxage"]);
    if !ma.is_empty() { c = c.MaxAge(ma.parse::<u32>().expect("maxage token")) }
    c
}

/// what handler `id` answers: success with a body, an error, a refusal with a body
fn respond(id: i64) -> Response {
    HIT.with(|h| h.set(id));
    match id % 4 { 2 => Response::InternalServerError(), 3 => Response::Forbidden().with_text("denied"), _ => Response::OK().with_text(format!("h{id}")) }
}
fn with_methods(mut hs: v::HandlerSet, methods: &[Value], id: i64) -> v::HandlerSet {
    macro_rules! reg { ($m:ident) => { hs = hs.$m(move || async move { respond(id) }) } }
    for m in methods { match s(m) { "GET" => reg!(GET), "POST" => reg!(POST), "PUT" => reg!(PUT), "PATCH" => reg!(PATCH), "DELETE" => reg!(DELETE), _ => {} } }
    hs
}
fn nparams(segs: &Value) -> usize { arr(segs).iter().filter(|sg| s(&sg["k"]) == "P").count() }

/// the gate of a mounted application: a fang of its own that refuses every request but OPTIONS before the handler
#[derive(Clone)]
struct Gate;
impl FangAction for Gate {
    async fn fore<'a>(&'a self, req: &'a mut Request) -> Result<(), Response> {
        if req.method == Method::OPTIONS { Ok(()) } else { Err(Response::Unauthorized().with_text("gate")) }
    }
}

fn build_app(apps: &[Value], idx: usize, t: &router::Table, cors: Option<CORS>, pbase: usize) -> Ohkami {
    let app = &apps[idx - 1];
    let gated = !arr(&app["fangs"]).is_empty();
    let mut o = match cors { Some(c) => Ohkami::with((c,), ()), None if gated => Ohkami::with((Gate,), ()), None => Ohkami::new(()) };
    for it in arr(&app["items"]) {
        // param names differ from item to item, as in real applications (two registrations of one path may name its params differently)
        let tag = if s(&it["t"]) == "route" { format!("h{}", i(&it["h"])) } else { format!("m{}", i(&it["app"])) };
        let lit = util::leak(t.route_literal(&it["segs"], pbase, &tag));
        if s(&it["t"]) == "route" {
            v::apply_handlers(&mut o, with_methods(v::handler_set(lit), arr(&it["methods"]), i(&it["h"])));
        } else {
            let child = build_app(apps, i(&it["app"]) as usize, t, None, pbase + nparams(&it["segs"]));
            v::apply_by(&mut o, v::by_another(lit, child));
        }
    }
    o
}

fn request_bytes(req: &Value, t: &router::Table, ct: &CTable) -> Vec<u8> {
    let mut p = String::new();
    for sg in arr(&req["path"]) { p.push('/'); p.push_str(&t.chars(sg)) }
    for _ in 0..i(&req["trailing"]) { p.push('/') }
    if p.is_empty() { p.push('/') }
    let mut r = format!("{} {} HTTP/1.1\r\nHost: x\r\n", s(&req["method"]), p);
    let hn = |canon: &str| if ct.lower { canon.to_ascii_lowercase() } else { canon.to_string() };
    match s(&req["origin"]) { "none" | "" => {} o => r.push_str(&format!("{}: {}\r\n", hn("Origin"), ct.origin(o))) }
    if !s(&req["acrm"]).is_empty() { r.push_str(&format!("{}: {}\r\n", hn("Access-Control-Request-Method"), s(&req["acrm"]))) }
    if req["acrh"]["set"].as_bool().unwrap_or(false) {
        let l: Vec<&str> = arr(&req["acrh"]["list"]).iter().map(|x| ct.name(s(x))).collect();
        r.push_str(&format!("{}: {}\r\n", hn("Access-Control-Request-Headers"), l.join(ct.sep)));
    }
    r.push_str("\r\n");
    r.into_bytes()
}

fn exec(router: &v::VRouter, raw: &[u8], head: bool) -> util::ParsedResponse {
    HIT.with(|h| h.set(0));
    let out = util::block_on(async {
        let mut req = v::VRequest::new();
        let mut rd = raw;
        let res = match req.read(&mut rd).await { Ok(Some(())) => req.handle(router).await, Ok(None) => Response::new(Status::Gone), Err(e) => e };
        let mut out = Vec::new();
        v::send(res, &mut out).await;
        out
    });
    util::parse_response(&out, head)
}

fn values(p: &util::ParsedResponse, name: &str) -> Vec<String> {
    p.headers.iter().filter(|(k, _)| k.eq_ignore_ascii_case(name)).map(|(_, v)| v.clone()).collect()
}
fn tokens(p: &util::ParsedResponse, name: &str) -> Vec<String> {
    values(p, name).iter().flat_map(|v| v.split(',').map(|t| t.trim().to_string()).collect::<Vec<_>>()).filter(|t| !t.is_empty()).collect()
}

pub fn run(scn: &Value) -> Value {
    let apps = arr(&scn["apps"]);
    let seed = scn["seed"].as_u64().unwrap_or_else(|| scn["id"].as_u64().unwrap_or(0));
    let t = router::table(seed);
    let ct = ctable(seed);
    let cors = build_cors(&scn["policy"], &ct);
    // an application the framework refuses to build (conflicting registrations) is not an application: reported, not judged
    let built = std::panic::catch_unwind(std::panic::AssertUnwindSafe(|| v::finalize(build_app(apps, 1, &t, Some(cors), 0))));
    let router = match built {
        Ok(r) => r,
        Err(_) => { let m = crate::LAST_PANIC.with(|p| p.borrow().clone());
                    return json!({"kind": "nobuild", "where": util::panic_site(&m), "msg": util::clip(&m, 160), "res": []}) }
    };
    let mut res = vec![];
    let mut first = String::new();
    for req in arr(&scn["reqs"]) {
        let raw = request_bytes(req, &t, &ct);
        if first.is_empty() { first = String::from_utf8_lossy(&raw).to_string() }
        let head = s(&req["method"]) == "HEAD";
        let p = exec(&router, &raw, head);
        res.push(json!({
            "status": p.status, "blen": p.body.len() as i64, "wf": p.error.is_empty(), "h": HIT.with(|h| h.get()),
            "acao": values(&p, "Access-Control-Allow-Origin").iter().map(|x| ct.unorigin(x)).collect::<Vec<_>>(),
            "acac": values(&p, "Access-Control-Allow-Credentials"),
            "aceh": tokens(&p, "Access-Control-Expose-Headers").iter().map(|x| ct.unname(x)).collect::<Vec<_>>(),
            "acam": tokens(&p, "Access-Control-Allow-Methods"),
            "acah": tokens(&p, "Access-Control-Allow-Headers").iter().map(|x| ct.unname(x)).collect::<Vec<_>>(),
            "acma": values(&p, "Access-Control-Max-Age"),
        }));
    }
    json!({"kind": "cors", "res": res, "first": first,
           "table": {"o1": ct.o1, "o2": ct.o2, "o3": ct.o3, "names": ct.names, "sep": ct.sep, "lower": ct.lower, "chars": [t.chars(&json!(["a"])), t.chars(&json!(["b"]))]}})
}

// ------------------------------------------------------------------------------------------------ random generator
fn seg(rng: &mut Rng, allow_p: bool) -> Value {
    let segstr = [vec!["a"], vec!["b"], vec!["a", "b"], vec!["a", "a"], vec!["b", "a"], vec!["a", "b", "a"]];
    if allow_p && rng.chance(1, 4) { json!({"k": "P", "s": []}) } else { json!({"k": "S", "s": rng.pick(&segstr).clone()}) }
}
fn same(x: &[Value], y: &[Value]) -> bool { x.len() == y.len() && x.iter().zip(y).all(|(a, b)| a == b) }
fn starts(x: &[Value], pre: &[Value]) -> bool { x.len() >= pre.len() && same(&x[..pre.len()], pre) }
fn subset(rng: &mut Rng, all: &[&'static str], allow_empty: bool) -> Vec<&'static str> {
    loop { let v: Vec<&str> = all.iter().filter(|_| rng.chance(1, 2)).cloned().collect(); if allow_empty || !v.is_empty() { return v } }
}
fn hlist(rng: &mut Rng, max: usize) -> Value {
    let lo = if rng.chance(1, 8) { 0 } else { 1 };
    let n = rng.range(lo, max);
    let mut l: Vec<String> = vec![];
    while l.len() < n { let h = format!("h{}", rng.range(1, 8)); if !l.contains(&h) { l.push(h) } }
    json!(l)
}

/// random policies x bigger applications (two mount levels, up to 8 routes, split registrations, routes at mount points)
/// x requests.  The generator keeps to applications the framework builds: a mounted application never shares a first
/// segment below its mount point with an item registered BEFORE the mount (static: construction panics; param: two
/// param siblings), and one method is never registered twice for one pattern.
pub fn gen(rng: &mut Rng, idx: usize) -> Value {
    let methods_all = ["GET", "POST", "PUT", "DELETE", "PATCH"];
    let origin = *rng.pick(&["star", "o1", "o2", "o1"]);
    let policy = json!({"origin": origin, "cred": rng.chance(1, 2),
        "allowh": {"set": rng.chance(1, 2), "list": hlist(rng, 4)}, "expose": {"set": rng.chance(1, 2), "list": hlist(rng, 4)},
        "maxage": *rng.pick(&["", "", "0", "5", "600", "86400", "4294967295"])});
    // tree of applications: app k+1 (k >= 1) mounted into an earlier one; depth <= 2 mount levels
    let napps = rng.range(1, 4);
    let mut level = vec![0usize; napps];
    let mut parent = vec![0usize; napps];
    for b in 1..napps { let cand: Vec<usize> = (0..b).filter(|&a| level[a] < 2).collect(); let a = *rng.pick(&cand); parent[b] = a; level[b] = level[a] + 1 }
    // full prefix (segments) and params above each app
    let mut prefix: Vec<Vec<Value>> = vec![vec![]; napps];
    let mut mount_segs: Vec<Vec<Value>> = vec![vec![]; napps];
    for b in 1..napps {
        let a = parent[b];
        let pa = prefix[a].iter().filter(|sg| s(&sg["k"]) == "P").count();
        let n = rng.below(3);  // 0 = mounted at "/"
        let mut pre = vec![]; let mut np = 0;
        for _ in 0..n { let sg = seg(rng, pa + np < 2); if s(&sg["k"]) == "P" { np += 1 } pre.push(sg) }
        mount_segs[b] = pre.clone();
        let mut f = prefix[a].clone(); f.extend(pre); prefix[b] = f;
    }
    // registrations: (app, local segs, methods); global table full pattern -> methods already registered
    let mut items: Vec<Vec<Value>> = vec![vec![]; napps];
    let mut registered: Vec<(Vec<Value>, Vec<&str>)> = vec![];
    let mut nexth = 1i64;
    let nroutes = rng.range(1, 8);
    let mut plan: Vec<(usize, Vec<Value>, Vec<&str>)> = vec![];
    for _ in 0..nroutes {
        let a = rng.below(napps);
        let pa = prefix[a].iter().filter(|sg| s(&sg["k"]) == "P").count();
        // with some probability re-use an already planned full pattern (split registration / same path from another app)
        let mut local: Option<Vec<Value>> = None;
        if !registered.is_empty() && rng.chance(1, 6) {
            let (full, _) = rng.pick(&registered).clone();
            if starts(&full, &prefix[a]) { local = Some(full[prefix[a].len()..].to_vec()) }
        }
        let local = local.unwrap_or_else(|| { let n = rng.below(3); let mut r = vec![]; let mut np = 0;
            for _ in 0..n { let sg = seg(rng, pa + np < 2); if s(&sg["k"]) == "P" { np += 1 } r.push(sg) } r });
        let mut full = prefix[a].clone(); full.extend(local.iter().cloned());
        let taken: Vec<&str> = registered.iter().filter(|(f, _)| same(f, &full)).flat_map(|(_, m)| m.clone()).collect();
        let free: Vec<&'static str> = methods_all.iter().filter(|m| !taken.contains(m)).cloned().collect();
        if free.is_empty() { continue }
        let ms = subset(rng, &free, false);
        registered.push((full, ms.clone()));
        plan.push((a, local, ms));
    }
    // item order inside each app: mounts first (so that later routes may share nodes with the mounted application), except
    // that a mount may come after routes which do not share a first segment below the mount point with the child
    let firsts_below = |b: usize, plan: &Vec<(usize, Vec<Value>, Vec<&str>)>, prefix: &Vec<Vec<Value>>| -> Vec<Value> {
        // first segments (relative to app b's root) of everything registered in b's subtree
        let mut out = vec![];
        for (a, local, _) in plan { let mut full = prefix[*a].clone(); full.extend(local.iter().cloned());
            let mut anc = *a; let mut inside = anc == b; while anc != 0 && !inside { anc = parent[anc]; inside = anc == b }
            if inside && full.len() > prefix[b].len() { out.push(full[prefix[b].len()].clone()) } }
        out
    };
    for a in 0..napps {
        let children: Vec<usize> = (1..napps).filter(|&b| parent[b] == a).collect();
        let routes: Vec<&(usize, Vec<Value>, Vec<&str>)> = plan.iter().filter(|(x, _, _)| *x == a).collect();
        let mut early: Vec<Value> = vec![]; let mut late: Vec<Value> = vec![];
        let mut placed_before: Vec<Vec<Value>> = vec![];
        for (_, local, ms) in &routes {
            let it = json!({"t": "route", "segs": local, "methods": ms, "local": [], "h": nexth, "app": 0}); nexth += 1;
            // may this route precede the mounts?  only if it does not pass through any child's mount point into a shared first segment
            let mut ok_before = rng.chance(1, 2);
            for &b in &children { let ms_ = &mount_segs[b];
                if starts(local, ms_) { let fb = firsts_below(b, &plan, &prefix);
                    if local.len() > ms_.len() && (fb.contains(&local[ms_.len()]) || (s(&local[ms_.len()]["k"]) == "P" && fb.iter().any(|f| s(&f["k"]) == "P")) || (s(&local[ms_.len()]["k"]) == "S" && false)) { ok_before = false } } }
            if ok_before { placed_before.push(local.clone()); early.push(it) } else { late.push(it) }
        }
        let mut mounts: Vec<Value> = vec![];
        let mut seen_children: Vec<usize> = vec![];
        for &b in &children {
            // two children whose subtrees share a first segment below a common mount point: the second merge would conflict -> drop the second child's mount
            let fb = firsts_below(b, &plan, &prefix);
            let clash = seen_children.iter().any(|&c| { let (mc, mb) = (&mount_segs[c], &mount_segs[b]);
                let fc = firsts_below(c, &plan, &prefix);
                (same(mc, mb) && fb.iter().any(|f| fc.contains(f) || (s(&f["k"]) == "P" && fc.iter().any(|g| s(&g["k"]) == "P"))))
                || (starts(mb, mc) && mb.len() > mc.len() && (fc.contains(&mb[mc.len()]) || (s(&mb[mc.len()]["k"]) == "P" && fc.iter().any(|g| s(&g["k"]) == "P"))))
                || (starts(mc, mb) && mc.len() > mb.len() && (fb.contains(&mc[mb.len()]) || (s(&mc[mb.len()]["k"]) == "P" && fb.iter().any(|g| s(&g["k"]) == "P")))) });
            if clash { continue }
            // an early route passing strictly through this mount point with a param where the child starts with a static (or the reverse) is fine
            seen_children.push(b);
            mounts.push(json!({"t": "mount", "segs": mount_segs[b], "methods": [], "local": [], "h": 0, "app": b + 1}));
        }
        let mut its = early; its.extend(mounts); its.extend(late);
        items[a] = its;
    }
    // requests: instances of every registered pattern and of every mount prefix, near misses, an unregistered path
    let mut pats: Vec<Vec<Value>> = registered.iter().map(|(f, _)| f.clone()).collect();
    for b in 1..napps { pats.push(prefix[b].clone()) }
    let mut reqs = vec![];
    let pf = ["GET", "POST", "PUT", "DELETE", "PATCH", "HEAD", "OPTIONS", "FOO", "get", "TRACE", "PU", "ET", "GET, PUT", "HEA", ",", "OPTION", "T, P"];
    let simple = ["GET", "POST", "PUT", "DELETE", "PATCH", "HEAD", "OPTIONS"];
    let mut paths: Vec<Vec<Vec<&str>>> = vec![];
    for f in &pats {
        for w in [vec!["b", "b"], vec!["a"]] {
            let inst: Vec<Vec<&str>> = f.iter().map(|sg| if s(&sg["k"]) == "S" { arr(&sg["s"]).iter().map(s).collect() } else { w.clone() }).collect();
            if !paths.contains(&inst) { paths.push(inst.clone()) }
            if rng.chance(1, 3) { let mut x = inst.clone(); x.push(vec!["a"]); if !paths.contains(&x) { paths.push(x) } }
            if rng.chance(1, 3) && !inst.is_empty() { let mut x = inst.clone(); x.pop(); if !paths.contains(&x) { paths.push(x) } }
        }
    }
    paths.push(vec![vec!["b", "b", "b"], vec!["a"]]);
    for p in &paths {
        let tr = if p.is_empty() { 1 } else { rng.below(2) };
        for m in pf.iter() {
            if rng.chance(1, 3) { continue }
            let acrh = json!({"set": rng.chance(1, 2), "list": hlist(rng, 3)});
            reqs.push(json!({"method": "OPTIONS", "path": p, "trailing": tr, "acrm": m, "acrh": acrh, "origin": *rng.pick(&["none", "o1", "o2", "o3"])}));
        }
        for m in simple.iter() {
            if rng.chance(1, 2) { continue }
            reqs.push(json!({"method": m, "path": p, "trailing": tr, "acrm": "", "acrh": {"set": rng.chance(1, 4), "list": hlist(rng, 2)}, "origin": *rng.pick(&["none", "o1", "o3"])}));
        }
    }
    json!({"id": idx, "seed": rng.next() % 1000, "policy": policy,
           "apps": items.iter().enumerate().map(|(a, its)| json!({"fangs": if a > 0 && (idx + a) % 2 == 0 { vec![1] } else { vec![] }, "items": its})).collect::<Vec<_>>(), "reqs": reqs})
}
