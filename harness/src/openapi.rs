//! C15 — the generated OpenAPI document is valid and describes exactly the application.
//!
//! Scenario (vocabulary of specs/RouterApp.tla extended by specs/OpenApi.tla):
//!   {"apps":[{"fangs":[kind..],"items":[{"t":"route","segs":[{"k":"S","s":[chars]}|{"k":"P","s":[name chars]}],
//!                                         "methods":[..],"local":[kind..],"h":id,"app":0,"sig":{"pv","ex","rt"}}
//!                                        |{"t":"mount","segs":[..],"app":k,..}]}..], "seed":n}
//!   fang kinds: "jwt" (JWT, Authorization: Bearer), "jwth" (JWT, token in header X-Token, documented as apiKey/header),
//!               "jwtc" (JWT, token in cookie `token`, documented with APIKey::cookie), "basic" (BasicAuth), "tag" (openapi::Tag),
//!               "plain" (a fang that only passes through).
//!   sig: handler signature from the catalogue compiled below (pv = path params of the handler, ex = extractors, rt = return type).
//! The application is assembled through the public Route/Ohkami API, the REAL `Ohkami::__openapi_document_bytes__`
//! produces the document, which is parsed with serde_json and FLATTENED into facts (nothing here judges them:
//! specs/Trace_OpenApi.tla does).  Then one request per documented operation is built FROM THE DOCUMENT and sent
//! through the real router (reachability), and one request per registered (route, method) is built from the scenario.
//!
//! Trusted base of this module: the concretisation table (abstract chars / param-name tokens -> text), the catalogue
//! (the Rust types behind the signature tags and, in specs/OpenApi.tla, the table of what each tag means), the
//! flattening (`flatten`, `schema_nodes`, `kwfact`), the JSON-pointer resolver, the instance builder that derives a
//! request from the document, and `util::parse_response`.
use crate::util::{self, arr, i, s, Rng};
use base64::Engine as _;
use ohkami::__verif as v;
use ohkami::fang::{BasicAuth, JWT};
use ohkami::format::{Multipart, Query, URLEncoded, JSON};
use ohkami::handler::{Handler, IntoHandler};
use ohkami::openapi::{self, Schema};
use ohkami::typed::status;
use ohkami::{FromParam, FromRequest, IntoResponse, Ohkami, Request, Response};
use serde::{Deserialize, Serialize};
use serde_json::{json, Map, Value};
use std::cell::RefCell;

thread_local! { static LOG: RefCell<Vec<i64>> = const { RefCell::new(Vec::new()) }; }
fn ran(id: i64) { LOG.with(|l| l.borrow_mut().push(id)) }

// =============================================================================================== catalogue: types
#[derive(Deserialize, Schema)]
#[allow(dead_code)]
struct QPlain { q: String, limit: u32, n: Option<u32> }      // (two required fields, not declared in alphabetical order)
#[derive(Deserialize, Schema)]
#[openapi(component)]
#[allow(dead_code)]
struct QComp { page: u32, tag: Option<String> }
#[derive(Deserialize, Schema)]
#[allow(dead_code)]
#[serde(rename_all = "camelCase")]
struct BPlain { name: String, age: u32, tags: Vec<String>, nick: Option<String>, #[serde(rename = "e_mail")] mail: String }     // (a renamed field keeps its name under rename_all)
#[derive(Deserialize, Serialize, Schema, Clone)]
#[openapi(component)]
struct Owner { id: u32, name: String }
#[derive(Deserialize, Schema)]
#[openapi(component)]
#[allow(dead_code)]
struct BComp { title: String, owner: Owner, co: Vec<Owner> }
#[derive(Deserialize, Schema)]
#[allow(dead_code)]
struct BFlag { name: String, #[openapi(schema_with = "flag_schema")] active: bool }
fn flag_schema() -> impl Into<openapi::SchemaRef> { openapi::bool() }
#[derive(Deserialize, Schema)]
#[allow(dead_code)]
struct BNum {
    #[openapi(schema_with = "age_schema")] age: u32,
    #[openapi(schema_with = "codes_schema")] codes: Vec<u32>,
}
fn age_schema() -> impl Into<openapi::SchemaRef> { openapi::integer().minimum(0).exclusiveMaximum(150).multipleOf(1) }
fn codes_schema() -> impl Into<openapi::SchemaRef> { openapi::array(openapi::integer()).minItems(0).maxItems(8).uniqueItems() }
#[derive(Deserialize, Schema)]
#[allow(dead_code)]
struct FPlain { user: String, n: u32 }
#[derive(Deserialize, Schema)]
#[allow(dead_code)]
struct MPlain { title: String, note: Option<String> }
#[derive(Serialize, Schema)]
struct RPlain { id: u32, msg: String, extra: Option<String> }
#[derive(Serialize, Schema)]
#[openapi(component)]
struct RComp { id: u32, owner: Owner }

enum MyError { #[allow(dead_code)] Bad, #[allow(dead_code)] Internal }
impl IntoResponse for MyError {
    fn into_response(self) -> Response { match self { MyError::Bad => Response::BadRequest(), MyError::Internal => Response::InternalServerError() } }
    fn openapi_responses() -> openapi::Responses {
        openapi::Responses::new([
            (400, openapi::Response::when("bad input")),
            (500, openapi::Response::when("internal").content("text/plain", openapi::string())),
        ])
    }
}

trait Ret: IntoResponse + Send + 'static { fn make(id: i64) -> Self; }
fn rplain(id: i64) -> RPlain { RPlain { id: id as u32, msg: "m".into(), extra: None } }
fn rcomp(id: i64) -> RComp { RComp { id: id as u32, owner: Owner { id: 1, name: "o".into() } } }
impl Ret for &'static str { fn make(_: i64) -> Self { "ok" } }
impl Ret for String { fn make(id: i64) -> Self { format!("h{id}") } }
impl Ret for JSON<RPlain> { fn make(id: i64) -> Self { JSON(rplain(id)) } }
impl Ret for JSON<RComp> { fn make(id: i64) -> Self { JSON(rcomp(id)) } }
impl Ret for JSON<Vec<RComp>> { fn make(id: i64) -> Self { JSON(vec![rcomp(id)]) } }
impl Ret for status::Created<JSON<RPlain>> { fn make(id: i64) -> Self { status::Created(JSON(rplain(id))) } }
impl Ret for status::NoContent { fn make(_: i64) -> Self { status::NoContent } }
impl Ret for Result<JSON<RPlain>, MyError> { fn make(id: i64) -> Self { Ok(JSON(rplain(id))) } }
impl Ret for Result<status::Created<JSON<RComp>>, MyError> { fn make(id: i64) -> Self { Ok(status::Created(JSON(rcomp(id)))) } }

// =============================================================================================== catalogue: handlers
/// a handler with its type erased the way `#[openapi::operation]` does it (public `IntoHandler` for a unit-like value)
#[derive(Clone)]
struct Erased { n: usize, h: Handler }
impl IntoHandler<Erased> for Erased {
    fn n_params(&self) -> usize { self.n }
    fn into_handler(self) -> Handler { self.h }
}
fn e<T, H: IntoHandler<T>>(h: H) -> Erased { Erased { n: h.n_params(), h: h.into_handler() } }

// one generic constructor per IntoHandler impl family of ohkami/src/fang/handler/into_handler.rs
fn f0_0<R: Ret>(id: i64) -> Erased { e::<fn() -> R, _>(move || async move { ran(id); R::make(id) }) }
fn f0_1<I1: FromRequest<'static> + 'static, R: Ret>(id: i64) -> Erased {
    e::<fn(I1) -> R, _>(move |_a: I1| async move { ran(id); R::make(id) })
}
fn f0_2<I1: FromRequest<'static> + 'static, I2: FromRequest<'static> + 'static, R: Ret>(id: i64) -> Erased {
    e::<fn(I1, I2) -> R, _>(move |_a: I1, _b: I2| async move { ran(id); R::make(id) })
}
fn fb_0<P1: FromParam<'static> + 'static, R: Ret>(id: i64) -> Erased {
    e::<fn((P1,)) -> R, _>(move |_p: P1| async move { ran(id); R::make(id) })
}
fn fb_1<P1: FromParam<'static> + 'static, I1: FromRequest<'static> + 'static, R: Ret>(id: i64) -> Erased {
    e::<fn(((P1,),), I1) -> R, _>(move |_p: P1, _a: I1| async move { ran(id); R::make(id) })
}
fn fb_2<P1: FromParam<'static> + 'static, I1: FromRequest<'static> + 'static, I2: FromRequest<'static> + 'static, R: Ret>(id: i64) -> Erased {
    e::<fn(((P1,),), I1, I2) -> R, _>(move |_p: P1, _a: I1, _b: I2| async move { ran(id); R::make(id) })
}
fn ft_0<P1: FromParam<'static> + 'static, R: Ret>(id: i64) -> Erased {
    e::<fn(((P1,),)) -> R, _>(move |_p: (P1,)| async move { ran(id); R::make(id) })
}
fn ft_1<P1: FromParam<'static> + 'static, I1: FromRequest<'static> + 'static, R: Ret>(id: i64) -> Erased {
    e::<fn((P1,), I1) -> R, _>(move |_p: (P1,), _a: I1| async move { ran(id); R::make(id) })
}
fn ft_2<P1: FromParam<'static> + 'static, I1: FromRequest<'static> + 'static, I2: FromRequest<'static> + 'static, R: Ret>(id: i64) -> Erased {
    e::<fn((P1,), I1, I2) -> R, _>(move |_p: (P1,), _a: I1, _b: I2| async move { ran(id); R::make(id) })
}
fn f2_0<P1: FromParam<'static> + 'static, P2: FromParam<'static> + 'static, R: Ret>(id: i64) -> Erased {
    e::<fn(((P1, P2),)) -> R, _>(move |_p: (P1, P2)| async move { ran(id); R::make(id) })
}
fn f2_1<P1: FromParam<'static> + 'static, P2: FromParam<'static> + 'static, I1: FromRequest<'static> + 'static, R: Ret>(id: i64) -> Erased {
    e::<fn((P1, P2), I1) -> R, _>(move |_p: (P1, P2), _a: I1| async move { ran(id); R::make(id) })
}
fn f2_2<P1: FromParam<'static> + 'static, P2: FromParam<'static> + 'static, I1: FromRequest<'static> + 'static, I2: FromRequest<'static> + 'static, R: Ret>(id: i64) -> Erased {
    e::<fn((P1, P2), I1, I2) -> R, _>(move |_p: (P1, P2), _a: I1, _b: I2| async move { ran(id); R::make(id) })
}
// named functions (the generator derives `operationId` from the function name); the id is a const parameter
async fn named_text<const ID: i64>() -> &'static str { ran(ID); "ok" }
async fn named_item<const ID: i64>(_p: u32) -> JSON<RPlain> { ran(ID); JSON(rplain(ID)) }

/// return-type level: every return tag ("full") or the three basic ones ("core")
macro_rules! with_rt {
    (full, $rt:expr, $id:expr, $f:ident, [$($g:ty),*]) => { match $rt {
        "text" => $f::<$($g,)* &'static str>($id), "string" => $f::<$($g,)* String>($id),
        "json" => $f::<$($g,)* JSON<RPlain>>($id), "jsonc" => $f::<$($g,)* JSON<RComp>>($id), "jvec" => $f::<$($g,)* JSON<Vec<RComp>>>($id),
        "created" => $f::<$($g,)* status::Created<JSON<RPlain>>>($id), "nocontent" => $f::<$($g,)* status::NoContent>($id),
        "result" => $f::<$($g,)* Result<JSON<RPlain>, MyError>>($id), "resultc" => $f::<$($g,)* Result<status::Created<JSON<RComp>>, MyError>>($id),
        _ => return None } };
    (core, $rt:expr, $id:expr, $f:ident, [$($g:ty),*]) => { match $rt {
        "text" => $f::<$($g,)* &'static str>($id), "json" => $f::<$($g,)* JSON<RPlain>>($id),
        "created" => $f::<$($g,)* status::Created<JSON<RPlain>>>($id),
        _ => return None } };
}
macro_rules! with_ex {
    (full, $ex:expr, $rt:expr, $id:expr, $f0:ident, $f1:ident, $f2:ident, [$($p:ty),*]) => { match $ex {
        "none" => with_rt!(full, $rt, $id, $f0, [$($p),*]),
        "q"  => with_rt!(full, $rt, $id, $f1, [$($p,)* Query<QPlain>]),
        "qc" => with_rt!(full, $rt, $id, $f1, [$($p,)* Query<QComp>]),
        "j"  => with_rt!(full, $rt, $id, $f1, [$($p,)* JSON<BPlain>]),
        "jc" => with_rt!(full, $rt, $id, $f1, [$($p,)* JSON<BComp>]),
        "jb" => with_rt!(full, $rt, $id, $f1, [$($p,)* JSON<BFlag>]),
        "jn" => with_rt!(full, $rt, $id, $f1, [$($p,)* JSON<BNum>]),
        "oj" => with_rt!(full, $rt, $id, $f1, [$($p,)* Option<JSON<BPlain>>]),
        "u"  => with_rt!(full, $rt, $id, $f1, [$($p,)* URLEncoded<FPlain>]),
        "m"  => with_rt!(full, $rt, $id, $f1, [$($p,)* Multipart<MPlain>]),
        "qj" => with_rt!(full, $rt, $id, $f2, [$($p,)* Query<QPlain>, JSON<BPlain>]),
        _ => return None } };
    (core, $ex:expr, $rt:expr, $id:expr, $f0:ident, $f1:ident, $f2:ident, [$($p:ty),*]) => { match $ex {
        "none" => with_rt!(core, $rt, $id, $f0, [$($p),*]),
        "q"  => with_rt!(core, $rt, $id, $f1, [$($p,)* Query<QPlain>]),
        "j"  => with_rt!(core, $rt, $id, $f1, [$($p,)* JSON<BPlain>]),
        "qj" => with_rt!(core, $rt, $id, $f2, [$($p,)* Query<QPlain>, JSON<BPlain>]),
        _ => return None } };
}
/// the catalogue: (pv, ex, rt) -> handler.  `None` = not in the catalogue (mirrors OpenApi!InCatalogue).
fn handler_of(pv: &str, ex: &str, rt: &str, id: i64) -> Option<Erased> {
    Some(match pv {
        "p0" => with_ex!(full, ex, rt, id, f0_0, f0_1, f0_2, []),
        "u"  => with_ex!(full, ex, rt, id, fb_0, fb_1, fb_2, [u32]),
        "i"  => with_ex!(core, ex, rt, id, fb_0, fb_1, fb_2, [i64]),
        "s"  => with_ex!(core, ex, rt, id, fb_0, fb_1, fb_2, [String]),
        "tu" => with_ex!(core, ex, rt, id, ft_0, ft_1, ft_2, [u32]),
        "us" => with_ex!(core, ex, rt, id, f2_0, f2_1, f2_2, [u32, String]),
        "si" => with_ex!(core, ex, rt, id, f2_0, f2_1, f2_2, [String, i64]),
        "n0" if ex == "none" && rt == "text" => { macro_rules! n { ($($k:literal)*) => { match id { $($k => e(named_text::<$k>),)* _ => return None } } } n!(1 2 3 4 5 6 7 8 9 10 11 12) }
        "nu" if ex == "none" && rt == "json" => { macro_rules! n { ($($k:literal)*) => { match id { $($k => e(named_item::<$k>),)* _ => return None } } } n!(1 2 3 4 5 6 7 8 9 10 11 12) }
        _ => return None,
    })
}
fn handler_np(pv: &str) -> usize { match pv { "p0" | "n0" => 0, "us" | "si" => 2, _ => 1 } }

// =============================================================================================== fangs
#[derive(Clone)]
struct Plain;
impl<I: ohkami::FangProc> ohkami::Fang<I> for Plain {
    type Proc = PlainProc<I>;
    fn chain(&self, inner: I) -> Self::Proc { PlainProc { inner } }
}
struct PlainProc<I> { inner: I }
impl<I: ohkami::FangProc> ohkami::FangProc for PlainProc<I> {
    async fn bite<'b>(&'b self, req: &'b mut Request) -> Response { self.inner.bite(req).await }
}
#[derive(Serialize, Deserialize, Clone)]
struct Claims { sub: String }
const SECRET: &str = "c15-secret-key";
const USER: &str = "u1";
const PASS: &str = "pw:1";
fn jwt() -> JWT<Claims> { JWT::default(SECRET) }
fn token_from_header(req: &Request) -> Option<&str> { req.headers.get("X-Token") }
fn token_from_cookie(req: &Request) -> Option<&str> { req.headers.Cookies().find(|(k, _)| *k == "token").map(|(_, v)| v) }
fn jwth() -> JWT<Claims> {
    JWT::default(SECRET).get_token_by(token_from_header, openapi::SecurityScheme::APIKey("tokenHeader", openapi::security::APIKey::header("X-Token")))
}
fn jwtc() -> JWT<Claims> {
    JWT::default(SECRET).get_token_by(token_from_cookie, openapi::SecurityScheme::APIKey("tokenCookie", openapi::security::APIKey::cookie("token")))
}
fn basic() -> BasicAuth<&'static str> { BasicAuth { username: USER, password: PASS } }
fn valid_token() -> String { jwt().issue(Claims { sub: "c15".into() }).to_string() }

macro_rules! fang1 { ($k:expr, $tag:expr, $f:ident => $body:expr) => { match $k {
    "jwt" => { let $f = jwt(); $body }, "jwth" => { let $f = jwth(); $body }, "jwtc" => { let $f = jwtc(); $body },
    "basic" => { let $f = basic(); $body }, "tag" => { let $f = openapi::Tag($tag); $body }, _ => { let $f = Plain; $body } } } }

// =============================================================================================== concretisation
/// abstract chars "a"/"b" -> text (images keep the byte-prefix relations), param-name tokens "x"/"y"/"z" -> names
pub struct Table { a: &'static str, b: &'static str, names: [&'static str; 3] }
pub fn table(seed: u64) -> Table {
    match seed % 4 {
        0 => Table { a: "a", b: "b", names: ["x", "y", "z"] },
        1 => Table { a: "users", b: "2", names: ["id", "tenant", "user_id"] },
        2 => Table { a: "x", b: "y-z", names: ["p1", "p2", "p3"] },
        _ => Table { a: "api", b: "v_1", names: ["item.id", "org-name", "N"] },
    }
}
impl Table {
    fn chars(&self, cs: &Value) -> String { arr(cs).iter().map(|c| match s(c) { "a" => self.a, "b" => self.b, o => util::leak(o.to_string()) }).collect() }
    fn unchars(&self, t: &str) -> Value {
        let mut out = vec![]; let mut rest = t;
        while !rest.is_empty() {
            if rest.starts_with(self.a) { out.push("a"); rest = &rest[self.a.len()..] }
            else if rest.starts_with(self.b) { out.push("b"); rest = &rest[self.b.len()..] }
            else { return json!(["?"]) }
        }
        json!(out)
    }
    fn name(&self, cs: &Value) -> &'static str { match s(&arr(cs)[0]) { "x" => self.names[0], "y" => self.names[1], _ => self.names[2] } }
    fn unname(&self, n: &str) -> Value { match self.names.iter().position(|x| *x == n) { Some(0) => json!(["x"]), Some(1) => json!(["y"]), Some(2) => json!(["z"]), _ => json!(["?"]) } }
    fn route_literal(&self, segs: &Value) -> String {
        let mut r = String::new();
        for sg in arr(segs) { r.push('/'); if s(&sg["k"]) == "P" { r.push(':'); r.push_str(self.name(&sg["s"])) } else { r.push_str(&self.chars(&sg["s"])) } }
        if r.is_empty() { "/".into() } else { r }
    }
}

// =============================================================================================== application assembly
fn with_methods(mut hs: v::HandlerSet, methods: &[Value], h: &Erased, local: &[&str], tag: &'static str) -> v::HandlerSet {
    macro_rules! reg { ($m:ident) => { hs = match local.len() {
        0 => hs.$m(h.clone()),
        1 => fang1!(local[0], tag, f => hs.$m((f, h.clone()))),
        _ => fang1!(local[0], tag, f => fang1!(local[1], tag, g => hs.$m((f, g, h.clone())))),
    } } }
    for m in methods { match s(m) { "GET" => reg!(GET), "POST" => reg!(POST), "PUT" => reg!(PUT), "PATCH" => reg!(PATCH), "DELETE" => reg!(DELETE), _ => {} } }
    hs
}

fn build_app(apps: &[Value], idx: usize, t: &Table) -> Result<Ohkami, String> {
    let app = &apps[idx - 1];
    let fangs: Vec<&str> = arr(&app["fangs"]).iter().map(s).collect();
    let tag: &'static str = util::leak(format!("t{idx}"));
    let mut o = match fangs.len() {
        0 => Ohkami::new(()),
        1 => fang1!(fangs[0], tag, f => Ohkami::with(f, ())),
        _ => fang1!(fangs[0], tag, f => fang1!(fangs[1], tag, g => Ohkami::with((f, g), ()))),
    };
    for it in arr(&app["items"]) {
        let lit = util::leak(t.route_literal(&it["segs"]));
        if s(&it["t"]) == "route" {
            let sg = &it["sig"];
            let h = handler_of(s(&sg["pv"]), s(&sg["ex"]), s(&sg["rt"]), i(&it["h"]))
                .ok_or_else(|| format!("signature not in the catalogue: {sg} (h={})", it["h"]))?;
            let local: Vec<&str> = arr(&it["local"]).iter().map(s).collect();
            let ltag: &'static str = util::leak(format!("l{}", it["h"]));
            v::apply_handlers(&mut o, with_methods(v::handler_set(lit), arr(&it["methods"]), &h, &local, ltag));
        } else {
            let child = build_app(apps, i(&it["app"]) as usize, t)?;
            v::apply_by(&mut o, v::by_another(lit, child));
        }
    }
    Ok(o)
}

// =============================================================================================== flattening
fn kind_of(v: &Value) -> &'static str {
    match v { Value::Null => "null", Value::Bool(_) => "boolean", Value::String(_) => "string", Value::Array(_) => "array", Value::Object(_) => "object",
        Value::Number(n) => if n.is_i64() || n.is_u64() || n.as_f64().is_some_and(|f| f.fract() == 0.0) { "integer" } else { "number" } }
}
fn sign_of(v: &Value) -> &'static str {
    match v.as_f64() { Some(f) if f < 0.0 => "neg", Some(f) if f == 0.0 => "zero", Some(_) => "pos", None => "" }
}
fn esc(t: &str) -> String { t.replace('~', "~0").replace('/', "~1") }
/// RFC 6901 resolution of a local reference "#/a/b" inside the document
fn resolve<'d>(doc: &'d Value, r: &str) -> Option<&'d Value> {
    let p = r.strip_prefix('#')?;
    if p.is_empty() { return Some(doc) }
    let mut cur = doc;
    for tok in p.strip_prefix('/')?.split('/') {
        let tok = tok.replace("~1", "/").replace("~0", "~");
        cur = match cur { Value::Object(m) => m.get(&tok)?, Value::Array(a) => a.get(tok.parse::<usize>().ok()?)?, _ => return None };
    }
    Some(cur)
}
/// one fact per keyword of a schema node: the keyword, the JSON kind of its value and what DocValid needs of the value
fn kwfact(doc: &Value, kw: &str, val: &Value) -> Value {
    let (strs, n, ekinds): (Vec<Value>, usize, Vec<&str>) = match val {
        Value::String(t) => (vec![json!(t)], 0, vec![]),
        Value::Array(a) => (a.iter().filter(|x| x.is_string()).cloned().collect(), a.len(), a.iter().map(kind_of).collect()),
        Value::Object(m) => (m.keys().map(|k| json!(k)).collect(), m.len(), m.values().map(kind_of).collect()),
        _ => (vec![], 0, vec![]),
    };
    let ok = if kw == "$ref" { val.as_str().is_some_and(|r| resolve(doc, r).is_some()) } else { true };
    json!({"kw": kw, "kind": kind_of(val), "strs": strs, "n": n, "ekinds": ekinds, "sgn": sign_of(val), "ok": ok})
}
/// every schema node reachable from `root` (through the applicator keywords the generator can emit)
fn schema_nodes(doc: &Value, root: &Value, ptr: String, place: &str, out: &mut Vec<(String, String, Value)>) {
    let kws: Vec<Value> = match root { Value::Object(m) => m.iter().map(|(k, val)| kwfact(doc, k, val)).collect(), _ => vec![] };
    out.push((ptr.clone(), place.to_string(), json!({"self": kind_of(root), "kws": kws})));
    if let Value::Object(m) = root {
        if let Some(Value::Object(ps)) = m.get("properties") { for (k, sub) in ps { schema_nodes(doc, sub, format!("{ptr}/properties/{}", esc(k)), place, out) } }
        if let Some(sub @ (Value::Object(_) | Value::Bool(_))) = m.get("items") { schema_nodes(doc, sub, format!("{ptr}/items"), place, out) }
        for comb in ["anyOf", "allOf", "oneOf"] {
            if let Some(Value::Array(a)) = m.get(comb) { for (k, sub) in a.iter().enumerate() { schema_nodes(doc, sub, format!("{ptr}/{comb}/{k}"), place, out) } }
        }
    }
}
const METHODS: [&str; 8] = ["get", "put", "post", "patch", "delete", "options", "head", "trace"];

struct Flat { facts: Value, ops: Vec<(String, String, Value)> /* (template, method, operation object) */ }

fn flatten(doc: &Value, t: &Table) -> Flat {
    let mut nodes: Vec<(String, String, Value)> = vec![];
    let mut paths = vec![]; let mut ops_out = vec![];
    let empty = Map::new();
    let pobj = doc["paths"].as_object().unwrap_or(&empty);
    let mut keys: Vec<&String> = pobj.keys().collect(); keys.sort();
    for tmpl in keys {
        let item = &pobj[tmpl];
        let segs: Vec<Value> = if tmpl == "/" { vec![] } else { tmpl.split('/').skip(1).map(|sg|
            match sg.strip_prefix('{').and_then(|x| x.strip_suffix('}')) {
                Some(name) => json!({"k": "P", "s": t.unname(name)}),
                None => json!({"k": "S", "s": t.unchars(sg)}),
            }).collect() };
        let mut ops = vec![]; let mut other = vec![];
        for (mk, op) in item.as_object().unwrap_or(&empty) {
            if !METHODS.contains(&mk.as_str()) { other.push(json!(mk)); continue }
            let base = format!("/paths/{}/{}", esc(tmpl), mk);
            let mut params = vec![];
            for (k, p) in arr(&op["parameters"]).iter().enumerate() {
                let name = s(&p["name"]);
                let pin = s(&p["in"]);
                params.push(json!({"name": name, "abs": if pin == "path" { t.unname(name) } else { json!([]) }, "in": pin,
                                   "required": p["required"].as_bool().unwrap_or(false), "type": s(&p["schema"]["type"]), "hasSchema": p.get("schema").is_some()}));
                if let Some(sc) = p.get("schema") { schema_nodes(doc, sc, format!("{base}/parameters/{k}/schema"), "param", &mut nodes) }
            }
            let mut body = vec![];
            if let Some(rb) = op.get("requestBody") {
                for (mime, c) in rb["content"].as_object().unwrap_or(&empty) {
                    body.push(json!(mime));
                    if let Some(sc) = c.get("schema") { schema_nodes(doc, sc, format!("{base}/requestBody/content/{}/schema", esc(mime)), "reqbody", &mut nodes) }
                }
            }
            let mut statuses = vec![];
            for (code, r) in op["responses"].as_object().unwrap_or(&empty) {
                let mut mimes = vec![];
                for (mime, c) in r["content"].as_object().unwrap_or(&empty) {
                    mimes.push(json!(mime));
                    if let Some(sc) = c.get("schema") { schema_nodes(doc, sc, format!("{base}/responses/{code}/content/{}/schema", esc(mime)), "response", &mut nodes) }
                }
                for (hn, h) in r["headers"].as_object().unwrap_or(&empty) {
                    if let Some(sc) = h.get("schema") { schema_nodes(doc, sc, format!("{base}/responses/{code}/headers/{}/schema", esc(hn)), "header", &mut nodes) }
                }
                statuses.push(json!({"code": code, "mimes": mimes}));
            }
            let security: Vec<Value> = arr(&op["security"]).iter().flat_map(|req| req.as_object().map(|m| m.keys().map(|k| json!(k)).collect::<Vec<_>>()).unwrap_or_default()).collect();
            ops.push(json!({"method": mk.to_uppercase(), "params": params, "hasBody": op.get("requestBody").is_some(), "body": body,
                            "bodyreq": op["requestBody"]["required"].as_bool().unwrap_or(false), "statuses": statuses,
                            "hasResponses": op.get("responses").is_some_and(|r| r.is_object()),
                            "security": security, "tags": op["tags"].as_array().cloned().unwrap_or_default(), "opid": s(&op["operationId"])}));
            ops_out.push((tmpl.clone(), mk.clone(), op.clone()));
        }
        paths.push(json!({"raw": tmpl, "tmpl": segs, "ops": ops, "other": other}));
    }
    for (name, sc) in doc["components"]["schemas"].as_object().unwrap_or(&empty) {
        schema_nodes(doc, sc, format!("/components/schemas/{}", esc(name)), "component", &mut nodes);
    }
    // identical node facts (same place, same keyword facts) are reported once, with a count and the first pointer
    let mut dedup: Vec<(String, Value, usize)> = vec![];
    for (ptr, place, n) in nodes {
        let key = json!({"place": place, "self": n["self"], "kws": n["kws"]});
        match dedup.iter_mut().find(|(_, k, _)| k["self"] == key["self"] && k["kws"] == key["kws"]) { Some(d) => d.2 += 1, None => dedup.push((ptr, key, 1)) }
    }
    let nodes: Vec<Value> = dedup.into_iter().map(|(ptr, k, c)| json!({"ptr": ptr, "place": k["place"], "self": k["self"], "kws": k["kws"], "cnt": c})).collect();
    let schemes: Vec<Value> = doc["components"]["securitySchemes"].as_object().unwrap_or(&empty).iter()
        .map(|(n, sc)| json!({"name": n, "type": s(&sc["type"]), "scheme": s(&sc["scheme"]), "in": s(&sc["in"]), "pname": s(&sc["name"])})).collect();
    let facts = json!({
        "version": s(&doc["openapi"]), "isObject": doc.is_object(), "hasInfo": doc["info"].is_object(),
        "hasTitle": doc["info"]["title"].is_string(), "hasInfoVersion": doc["info"]["version"].is_string(), "hasPaths": doc["paths"].is_object(),
        "paths": paths, "schemes": schemes, "nodes": nodes,
    });
    Flat { facts, ops: ops_out }
}

// =============================================================================================== requests
/// an instance of a schema of the document (only what the generator can emit; lenient about type names)
fn instance(doc: &Value, sc: &Value, depth: usize) -> Value {
    if depth > 8 { return json!("s") }
    if let Some(r) = sc.get("$ref").and_then(|r| r.as_str()) { return resolve(doc, r).map(|t| instance(doc, t, depth + 1)).unwrap_or(json!("s")) }
    if let Some(ev) = sc.get("enum").and_then(|x| x.as_array()).and_then(|a| a.first()) { return ev.clone() }
    match s(&sc["type"]) {
        "object" => {
            let mut m = Map::new();
            for r in arr(&sc["required"]) { let k = s(r); m.insert(k.to_string(), sc["properties"].get(k).map(|p| instance(doc, p, depth + 1)).unwrap_or(json!("s"))); }
            Value::Object(m)
        }
        "array" => { let n = sc["minItems"].as_u64().unwrap_or(1).max(1); Value::Array((0..n).map(|_| sc.get("items").map(|it| instance(doc, it, depth + 1)).unwrap_or(json!("s"))).collect()) }
        "integer" | "number" => json!(1),
        "boolean" | "bool" => json!(true),
        "string" => json!("s"),
        _ => {
            for comb in ["oneOf", "anyOf", "allOf"] { if let Some(first) = sc.get(comb).and_then(|x| x.as_array()).and_then(|a| a.first()) { return instance(doc, first, depth + 1) } }
            json!("s")
        }
    }
}
fn scalar(v: &Value) -> String { match v { Value::String(t) => t.clone(), other => other.to_string() } }
fn form_pairs(v: &Value) -> Vec<(String, String)> { v.as_object().map(|m| m.iter().map(|(k, x)| (k.clone(), scalar(x))).collect()).unwrap_or_default() }

struct Req { method: String, path: String, headers: Vec<(String, String)>, body: Vec<u8> }
impl Req {
    fn bytes(&self) -> Vec<u8> {
        let mut b = format!("{} {} HTTP/1.1\r\nHost: c15.test\r\n", self.method, self.path).into_bytes();
        for (k, v) in &self.headers { b.extend_from_slice(format!("{k}: {v}\r\n").as_bytes()) }
        if !self.body.is_empty() { b.extend_from_slice(format!("Content-Length: {}\r\n", self.body.len()).as_bytes()) }
        b.extend_from_slice(b"\r\n"); b.extend_from_slice(&self.body); b
    }
    fn show(&self) -> String { util::clip(&format!("{} {} {:?} body={}", self.method, self.path, self.headers.iter().map(|(k, _)| k.as_str()).collect::<Vec<_>>(), String::from_utf8_lossy(&self.body)), 300) }
}
fn body_for(mime: &str, inst: &Value, rq: &mut Req) {
    if mime.starts_with("application/json") {
        rq.headers.push(("Content-Type".into(), "application/json".into())); rq.body = serde_json::to_vec(inst).unwrap();
    } else if mime.starts_with("application/x-www-form-urlencoded") {
        rq.headers.push(("Content-Type".into(), mime.into()));
        rq.body = form_pairs(inst).iter().map(|(k, v)| format!("{k}={v}")).collect::<Vec<_>>().join("&").into_bytes();
    } else if mime.starts_with("multipart/form-data") {
        rq.headers.push(("Content-Type".into(), "multipart/form-data; boundary=XbX".into()));
        let mut b = String::new();
        for (k, v) in form_pairs(inst) { b.push_str(&format!("--XbX\r\nContent-Disposition: form-data; name=\"{k}\"\r\n\r\n{v}\r\n")) }
        b.push_str("--XbX--\r\n"); rq.body = b.into_bytes();
    } else {
        rq.headers.push(("Content-Type".into(), mime.into())); rq.body = scalar(inst).into_bytes();
    }
}
/// the request a client derives from one documented operation: `{p}` := 1, required query parameters and the request
/// body instantiated from their schemas, credentials for every security scheme the operation names
fn request_from_doc(doc: &Value, tmpl: &str, method: &str, op: &Value) -> Req {
    // a value of the documented type for every `{p}`: a number where the document says integer / number, a text that is no number otherwise
    // (a document that puts the handler's types on the wrong params sends a text where the handler parses a number)
    // (a template may name two params alike, `/{y}/{y}`: the k-th of them is the k-th path parameter of that name)
    let mut seen: Vec<String> = vec![];
    let mut path_value = |name: &str| -> &'static str {
        let k = seen.iter().filter(|n| n.as_str() == name).count(); seen.push(name.to_string());
        let same: Vec<&Value> = arr(&op["parameters"]).iter().filter(|p| s(&p["in"]) == "path" && s(&p["name"]) == name).collect();
        let ty = same.get(k).or(same.first()).map(|p| { let sc = &p["schema"];
            let sc = if let Some(r) = sc["$ref"].as_str() { r.strip_prefix("#/").and_then(|q| doc.pointer(&format!("/{q}"))).unwrap_or(sc) } else { sc };
            s(&sc["type"]).to_string() }).unwrap_or_default();
        if ty == "integer" || ty == "number" { "1" } else { "x1y" } };
    let mut path: String = tmpl.split('/').map(|sg| if sg.starts_with('{') && sg.ends_with('}') { path_value(&sg[1..sg.len() - 1]) } else { sg }).collect::<Vec<_>>().join("/");
    if path.is_empty() { path.push('/') }
    let mut rq = Req { method: method.to_uppercase(), path, headers: vec![], body: vec![] };
    let q: Vec<String> = arr(&op["parameters"]).iter().filter(|p| s(&p["in"]) == "query" && p["required"].as_bool().unwrap_or(false))
        .map(|p| format!("{}={}", s(&p["name"]), scalar(&instance(doc, &p["schema"], 0)))).collect();
    if !q.is_empty() { rq.path = format!("{}?{}", rq.path, q.join("&")) }
    if let Some((mime, c)) = op["requestBody"]["content"].as_object().and_then(|m| m.iter().next()) {
        body_for(mime, &instance(doc, &c["schema"], 0), &mut rq);
    }
    let mut cookies = vec![];
    let mut used: Vec<String> = vec![];
    for req in arr(&op["security"]) {
        for name in req.as_object().map(|m| m.keys().cloned().collect::<Vec<_>>()).unwrap_or_default() {
            if used.contains(&name) { continue }   // every scheme the operation names, once
            used.push(name.clone());
            let sc = &doc["components"]["securitySchemes"][&name];
            match (s(&sc["type"]), s(&sc["scheme"])) {
                ("http", "bearer") => rq.headers.push(("Authorization".into(), format!("Bearer {}", valid_token()))),
                ("http", "basic") => rq.headers.push(("Authorization".into(), format!("Basic {}", base64::engine::general_purpose::STANDARD.encode(format!("{USER}:{PASS}"))))),
                ("apiKey", _) => match s(&sc["in"]) {
                    "header" => rq.headers.push((s(&sc["name"]).to_string(), valid_token())),
                    "cookie" => cookies.push(format!("{}={}", s(&sc["name"]), valid_token())),
                    "query" => { let sep = if rq.path.contains('?') { '&' } else { '?' }; rq.path = format!("{}{sep}{}={}", rq.path, s(&sc["name"]), valid_token()) }
                    _ => {}
                },
                _ => {}
            }
        }
    }
    if !cookies.is_empty() { rq.headers.push(("Cookie".into(), cookies.join("; "))) }
    rq
}
/// the request for a registered (route, method) derived from the SCENARIO (signature tag and guarding fangs)
fn request_from_scn(lit: &str, method: &str, sig: &Value, guards: &[&str]) -> Req {
    let mut path: String = lit.split('/').map(|sg| if sg.starts_with(':') { "1" } else { sg }).collect::<Vec<_>>().join("/");
    if path.is_empty() { path.push('/') }
    let mut rq = Req { method: method.to_string(), path, headers: vec![], body: vec![] };
    match s(&sig["ex"]) { "q" | "qj" => rq.path.push_str("?q=s&n=1&limit=2"), "qc" => rq.path.push_str("?page=1&tag=s"), _ => {} }
    match s(&sig["ex"]) {
        "j" | "qj" | "oj" => body_for("application/json", &json!({"name": "s", "age": 1, "tags": ["s"], "e_mail": "s"}), &mut rq),
        "jc" => body_for("application/json", &json!({"title": "s", "owner": {"id": 1, "name": "s"}, "co": []}), &mut rq),
        "jb" => body_for("application/json", &json!({"name": "s", "active": true}), &mut rq),
        "jn" => body_for("application/json", &json!({"age": 1, "codes": [1]}), &mut rq),
        "u" => body_for("application/x-www-form-urlencoded", &json!({"user": "s", "n": 1}), &mut rq),
        "m" => body_for("multipart/form-data", &json!({"title": "s"}), &mut rq),
        _ => {}
    }
    let mut cookie = false;
    for g in guards { match *g {
        "jwt" => if !rq.headers.iter().any(|(k, _)| k == "Authorization") { rq.headers.push(("Authorization".into(), format!("Bearer {}", valid_token()))) },
        "basic" => if !rq.headers.iter().any(|(k, _)| k == "Authorization") { rq.headers.push(("Authorization".into(), format!("Basic {}", base64::engine::general_purpose::STANDARD.encode(format!("{USER}:{PASS}"))))) },
        "jwth" => if !rq.headers.iter().any(|(k, _)| k == "X-Token") { rq.headers.push(("X-Token".into(), valid_token())) },
        "jwtc" => if !cookie { cookie = true; rq.headers.push(("Cookie".into(), format!("token={}", valid_token()))) },
        _ => {}
    } }
    rq
}
fn exec(router: &v::VRouter, raw: &[u8]) -> (u16, i64) {
    LOG.with(|l| l.borrow_mut().clear());
    let out = util::block_on(async {
        let mut req = v::VRequest::new();
        let mut rd = raw;
        let res = match req.read(&mut rd).await { Ok(Some(())) => req.handle(router).await, Ok(None) => Response::new(ohkami::Status::Gone), Err(e) => e };
        let mut out = Vec::new();
        v::send(res, &mut out).await;
        out
    });
    let p = util::parse_response(&out, false);
    (p.status, LOG.with(|l| l.borrow().first().copied().unwrap_or(0)))
}

// =============================================================================================== run
fn collect_routes<'a>(apps: &'a [Value], idx: usize, prefix: String, guards: Vec<&'a str>, t: &Table, out: &mut Vec<(String, &'a Value, Vec<&'a str>)>) {
    let app = &apps[idx - 1];
    let mut g = guards; g.extend(arr(&app["fangs"]).iter().map(s));
    for it in arr(&app["items"]) {
        let lit = t.route_literal(&it["segs"]);
        let full = if prefix.is_empty() || prefix == "/" { lit.clone() } else if lit == "/" { prefix.clone() } else { format!("{prefix}{lit}") };
        if s(&it["t"]) == "route" { let mut gg = g.clone(); gg.extend(arr(&it["local"]).iter().map(s)); out.push((full, it, gg)) }
        else { collect_routes(apps, i(&it["app"]) as usize, full, g.clone(), t, out) }
    }
}

pub fn run(scn: &Value) -> Value {
    let apps = arr(&scn["apps"]);
    let seed = scn["seed"].as_u64().unwrap_or_else(|| scn["id"].as_u64().unwrap_or(0));
    let t = table(seed);
    let o = match build_app(apps, 1, &t) { Ok(o) => o, Err(e) => return json!({"kind": "tool-error", "what": e}) };
    // ---- the document, from the real generator
    let bytes = o.__openapi_document_bytes__(openapi::OpenAPI { title: "c15", version: "0.0.1", servers: &[openapi::Server::at("http://c15.test")] });
    let doc: Value = match serde_json::from_slice(&bytes) {
        Ok(d) => d,
        Err(e) => return json!({"kind": "not-json", "where": util::clip(&e.to_string(), 80)}),
    };
    let flat = flatten(&doc, &t);
    // ---- reachability: one request per documented operation, built from the document
    let router = v::finalize(o);
    let mut reach = vec![];
    for (tmpl, method, op) in &flat.ops {
        let rq = request_from_doc(&doc, tmpl, method, op);
        let (status, h) = exec(&router, &rq.bytes());
        reach.push(json!({"raw": tmpl, "method": method.to_uppercase(), "h": h, "status": status, "req": util::clip(&rq.show(), 140)}));
    }
    // ---- every registered (route, method), requested as the scenario describes it
    let mut routes = vec![]; collect_routes(apps, 1, String::new(), vec![], &t, &mut routes);
    let mut probes = vec![];
    for (lit, it, guards) in &routes {
        for m in arr(&it["methods"]) {
            let rq = request_from_scn(lit, s(m), &it["sig"], guards);
            let (status, h) = exec(&router, &rq.bytes());
            probes.push(json!({"h": it["h"], "method": m, "ran": h, "status": status, "req": util::clip(&rq.show(), 140)}));
        }
    }
    let mut obs = flat.facts;
    obs["kind"] = json!("openapi"); obs["reach"] = json!(reach); obs["probes"] = json!(probes);
    obs["table"] = json!([t.a, t.b, t.names[0], t.names[1], t.names[2]]);
    obs["bytes"] = json!(bytes.len());
    if std::env::var("VH_C15_DUMP").is_ok() { eprintln!("{}", String::from_utf8_lossy(&bytes)) }
    obs
}

// =============================================================================================== random generator
const PVS: [&str; 7] = ["p0", "u", "i", "s", "tu", "us", "si"];
const EX_FULL: [&str; 11] = ["none", "q", "qc", "j", "jc", "jb", "jn", "oj", "u", "m", "qj"];
const EX_CORE: [&str; 4] = ["none", "q", "j", "qj"];
const RT_FULL: [&str; 9] = ["text", "string", "json", "jsonc", "jvec", "created", "nocontent", "result", "resultc"];
const RT_CORE: [&str; 3] = ["text", "json", "created"];
const FANGS: [&str; 6] = ["jwt", "jwth", "jwtc", "basic", "tag", "plain"];

/// random applications beyond TLC's bounds: up to 4 applications nested up to 3 deep, up to 4 routes each, depth <= 3,
/// every method, every signature of the catalogue, up to two fangs per application and per route
pub fn gen(rng: &mut Rng, idx: usize) -> Value {
    let napps = rng.range(1, 4);
    let segstr = [vec!["a"], vec!["b"], vec!["a", "b"], vec!["b", "a"], vec!["a", "a"]];
    let names = ["x", "y", "z"];
    let mut items: Vec<Vec<Value>> = vec![vec![]; napps];
    let mut pabove = vec![0usize; napps];
    let mut gabove: Vec<Vec<&str>> = vec![vec![]; napps];
    // fangs of an application / a route: no "jwt" together with "basic" on one route (both live in `Authorization`)
    let pick_fangs = |rng: &mut Rng, above: &[&str]| -> Vec<&'static str> {
        let mut out: Vec<&'static str> = vec![];
        for _ in 0..(if rng.chance(1, 2) { 0 } else { rng.range(1, 2) }) {
            let f = *rng.pick(&FANGS);
            let clash = |a: &str, b: &str| (a == "jwt" && b == "basic") || (a == "basic" && b == "jwt");
            if above.iter().any(|g| clash(g, f)) || out.iter().any(|g| clash(g, f)) { continue }
            out.push(f);
        }
        out
    };
    let mut fangs: Vec<Vec<&str>> = vec![vec![]; napps];
    fangs[0] = pick_fangs(rng, &[]);
    let seg = |rng: &mut Rng, allow_p: bool| -> Value { if allow_p && rng.chance(2, 5) { json!({"k": "P", "s": [*rng.pick(&names)]}) } else { json!({"k": "S", "s": rng.pick(&segstr).clone()}) } };
    let same = |a: &Value, b: &Value| s(&a["k"]) == s(&b["k"]) && (s(&a["k"]) == "P" || a["s"] == b["s"]);
    let under = |x: &[Value], pre: &[Value]| x.len() >= pre.len() && pre.iter().zip(x).all(|(p, y)| same(p, y));
    let mut mounted = vec![false; napps]; mounted[0] = true;
    for b in 1..napps {
        let a = rng.below(b);
        if !mounted[a] { continue }
        let n = if rng.chance(1, 8) { 0 } else { rng.range(1, 2) };     // 0: mounted at the root, `"/".By(child)`
        let mut pre = vec![]; let mut np = 0;
        for _ in 0..n { let sg = seg(rng, pabove[a] + np < 2); if s(&sg["k"]) == "P" { np += 1 } pre.push(sg) }
        if items[a].iter().any(|it| under(arr(&it["segs"]), &pre) || (s(&it["t"]) == "mount" && under(&pre, arr(&it["segs"])))) { continue }
        pabove[b] = pabove[a] + np; mounted[b] = true;
        gabove[b] = gabove[a].iter().chain(fangs[a].iter()).copied().collect();
        fangs[b] = pick_fangs(rng, &gabove[b]);
        items[a].push(json!({"t": "mount", "segs": pre, "methods": [], "local": [], "h": 0, "app": b + 1, "sig": {"pv": "p0", "ex": "none", "rt": "text"}}));
    }
    let mut nexth = 1i64;
    for a in 0..napps {
        if !mounted[a] { items[a].push(json!({"t": "route", "segs": [], "methods": ["GET"], "local": [], "h": 900 + a, "app": 0, "sig": {"pv": "p0", "ex": "none", "rt": "text"}})); continue }
        // an application with a child mounted at its root has no room for routes of its own (mount prefixes are exclusive)
        if items[a].iter().any(|it| s(&it["t"]) == "mount" && arr(&it["segs"]).is_empty()) { continue }
        let nr = rng.range(1, 4);
        for k in 0..nr {
            let n = rng.below(4);
            let mut r = vec![]; let mut np = 0;
            for _ in 0..n { let sg = seg(rng, pabove[a] + np < 2); if s(&sg["k"]) == "P" { np += 1 } r.push(sg) }
            let clash = items[a].iter().any(|it| if s(&it["t"]) == "route" { let x = arr(&it["segs"]); x.len() == r.len() && under(x, &r) } else { under(&r, arr(&it["segs"])) });
            if clash { if k + 1 < nr || items[a].iter().any(|it| s(&it["t"]) == "route") { continue } else { r = vec![json!({"k": "S", "s": ["b", "b", "b"]})]; np = 0 } }
            let total = pabove[a] + np;
            let pvs: Vec<&str> = PVS.iter().copied().filter(|p| handler_np(p) <= total).collect();
            // mostly the handler takes every param of the full route; sometimes fewer
            let exact: Vec<&str> = pvs.iter().copied().filter(|p| handler_np(p) == total).collect();
            let pv = if !exact.is_empty() && rng.chance(3, 4) { *rng.pick(&exact) } else { *rng.pick(&pvs) };
            let full = pv == "p0" || pv == "u";
            let ex = if full { *rng.pick(&EX_FULL) } else { *rng.pick(&EX_CORE) };
            let rt = if full { *rng.pick(&RT_FULL) } else { *rng.pick(&RT_CORE) };
            let ms: Vec<&str> = match rng.below(6) { 0 => vec!["GET"], 1 => vec!["POST"], 2 => vec!["GET", "POST"], 3 => vec!["PUT", "DELETE"], 4 => vec!["PATCH"], _ => vec!["GET", "PUT", "POST", "PATCH", "DELETE"] };
            let above: Vec<&str> = gabove[a].iter().chain(fangs[a].iter()).copied().collect();
            let local = pick_fangs(rng, &above);
            items[a].push(json!({"t": "route", "segs": r, "methods": ms, "local": local, "h": nexth, "app": 0, "sig": {"pv": pv, "ex": ex, "rt": rt}})); nexth += 1;
        }
    }
    json!({"id": idx, "seed": rng.next() % 1000, "src": "random",
           "apps": (0..napps).map(|a| json!({"fangs": fangs[a], "items": items[a]})).collect::<Vec<_>>()})
}
