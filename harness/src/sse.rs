//! C17 — server-sent event streams deliver every message intact and end properly.
//!
//! Scenario (vocabulary of specs/Sse.tla):
//!   {"script": ["P"|"Y",..], "msgs": [[token,..],..], "hist": [action,..] | [], "seed": n,
//!    "pol": {"delay": [d,..], "spur": [s,..]}, "wmode": 0|1|2, "via": "direct"|"router"|"from"|"router-from"}
//! `script` is the producer's program ("P" push the next message through the real queue handle, "Y" return Pending
//! until the harness fires the awaited event; the end of the script is the end of the future), `hist` the schedule
//! TLC generated (sequence of Sse action names: the harness performs the environment actions Fire / Spurious exactly
//! between the same steps of the real code); with an empty `hist` the environment follows the policy `pol`
//! (per yield: fire after `delay` further steps of the code, -1 = when the task is idle; `spur` spurious wake-ups first).
//!
//! The real thing is built with the public API: `DataStream::new(|handle| producer)` -> `into_response()` (or returned
//! by a handler of a real `Ohkami` when via = "router") -> REAL `Response::send` into an in-memory `AsyncWrite`.
//! The send future is polled by hand with a flag waker: no timers, no sleeps, fully deterministic.
//!
//! Observation: head facts, result of the strict de-chunker (util::parse_response), the decoded event-stream text
//! tokenised into the atoms of Sse.tla (the TLA+ operator ParseES decides what it means), and the log of steps
//! (one Sse action name per step of the real run) for the scheduling half of Trace_Sse.
use crate::util::{self, arr, s, Rng};
use ohkami::__verif as v;
use ohkami::prelude::*;
use ohkami::sse::DataStream;
use serde_json::{json, Value};
use std::future::Future;
use std::pin::Pin;
use std::sync::atomic::{AtomicBool, Ordering};
use std::sync::{Arc, Mutex};
use std::task::{Context, Poll, Wake, Waker};

// ------------------------------------------------------------------ concretisation table (trusted base)

fn pick<'a>(seed: u64, salt: u64, xs: &[&'a str]) -> &'a str { xs[((seed.wrapping_mul(0x9E3779B97F4A7C15) >> 17).wrapping_add(salt) % xs.len() as u64) as usize] }

/// message token -> concrete text.  Text tokens get one of several representatives (by seed); the representatives of
/// different tokens start with different characters and none contains a structural character, so that a run of text on
/// the wire splits uniquely into them again (`tokenise`).
fn concrete(tok: &str, seed: u64) -> Option<String> {
    Some(match tok {
        "LF" => "\n".into(), "CR" => "\r".into(), "CRLF" => "\r\n".into(), "SP" => " ".into(), "COLON" => ":".into(),
        "BOM" => "\u{FEFF}".into(),
        "DATA" => "data:".into(), "EV" => "event:".into(), "ID" => "id:".into(), "RETRY" => "retry:".into(),
        "x" => pick(seed, 0, &["Hello", "Xa", "M"]).into(),
        "y" => pick(seed, 1, &["World", "Yb9", "Q"]).into(),
        "u" => pick(seed, 2, &["\u{dc}n\u{ef}", "\u{65e5}\u{672c}\u{8a9e}", "\u{2713}\u{1f642}"]).into(),
        "u2" => pick(seed, 3, &["\u{3a9}mega", "\u{e9}\u{e9}", "\u{1f680}"]).into(),
        "n" => pick(seed, 4, &["42", "7", "1000"]).into(),
        "n2" => pick(seed, 5, &["0", "99"]).into(),
        "tab" => "\t".into(), "ls" => "\u{2028}".into(), "nel" => "\u{85}".into(), "nul" => "\0".into(),
        "ff" => "\x0c".into(), "vt" => "\x0b".into(),
        _ => {
            // L<k>: ASCII text of exactly k bytes; W<k>: multi-byte text of k characters
            if let Some(k) = tok.strip_prefix('L').and_then(|k| k.parse::<usize>().ok()) {
                if k < 2 { return None }
                let mut t = String::with_capacity(k); t.push('Z');
                for j in 0..k - 2 { t.push((b'a' + ((j as u64 + seed) % 26) as u8) as char) }
                t.push('$'); t
            } else if let Some(k) = tok.strip_prefix('W').and_then(|k| k.parse::<usize>().ok()) {
                if k < 2 { return None }
                let mut t = String::new(); t.push('\u{178}');
                for j in 0..k - 2 { t.push(['\u{e9}', '\u{4e16}', '\u{1f600}'][(j + seed as usize) % 3]) }
                t.push('\u{20ac}'); t
            } else { return None }
        }
    })
}
fn is_text_token(tok: &str) -> bool { !matches!(tok, "LF" | "CR" | "CRLF" | "SP" | "COLON" | "BOM" | "DATA" | "EV" | "ID" | "RETRY") }

/// event-stream text -> atoms of Sse.tla
fn tokenise(text: &str, table: &[(String, String)]) -> Vec<String> {
    let mut out = vec![];
    let mut rest = text;
    let mut unknown = String::new();
    fn flush(u: &mut String, out: &mut Vec<String>) { if !u.is_empty() { out.push(format!("?{}", util::clip(u, 40))); u.clear() } }
    while let Some(c) = rest.chars().next() {
        let special = match c { '\n' => Some("<LF>"), '\r' => Some("<CR>"), ' ' => Some("<SP>"), ':' => Some("<COLON>"), '\u{FEFF}' => Some("<BOM>"), _ => None };
        if let Some(a) = special { flush(&mut unknown, &mut out); out.push(a.into()); rest = &rest[c.len_utf8()..]; continue }
        let best = table.iter().filter(|(conc, _)| rest.starts_with(conc.as_str())).max_by_key(|(conc, _)| conc.len());
        match best {
            Some((conc, atom)) => { flush(&mut unknown, &mut out); out.push(atom.clone()); rest = &rest[conc.len()..] }
            None => { unknown.push(c); rest = &rest[c.len_utf8()..] }
        }
    }
    flush(&mut unknown, &mut out);
    out
}

// ------------------------------------------------------------------ controller shared by producer, writer and executor

struct Flag(AtomicBool);
impl Wake for Flag { fn wake(self: Arc<Self>) { self.0.store(true, Ordering::SeqCst) } fn wake_by_ref(self: &Arc<Self>) { self.0.store(true, Ordering::SeqCst) } }

struct Ctl {
    hist: Vec<String>, cur: usize, forced: bool, stuck: i64,
    events: Vec<String>,
    waiting: bool, fired: bool, stored: Option<Waker>, task: Waker,
    delays: Vec<i64>, spurs: Vec<i64>, yields: usize, countdown: i64, spur_left: i64,
    fires: usize, spurious: usize, writer_pending: bool,
}
impl Ctl {
    fn do_fire(&mut self) { self.fired = true; self.fires += 1; self.events.push("Fire".into()); if let Some(w) = self.stored.take() { w.wake() } }
    fn do_spur(&mut self) { self.spurious += 1; self.events.push("Spurious".into()); self.task.wake_by_ref() }
    fn steering(&self) -> bool { self.forced && self.stuck < 0 }
    /// environment actions that the schedule places before the next step of the code
    fn env(&mut self) {
        if self.steering() {
            while let Some(a) = self.hist.get(self.cur).cloned() {
                if a == "Fire" { if !(self.waiting && !self.fired) { self.stuck = self.cur as i64; return } self.do_fire(); self.cur += 1 }
                else if a == "Spurious" { self.do_spur(); self.cur += 1 }
                else { break }
            }
        } else if self.waiting && !self.fired {
            if self.countdown == 0 { self.do_fire() } else if self.countdown > 0 { self.countdown -= 1 }
        }
    }
    /// a step of the code under test has been observed
    fn code(&mut self, name: &str) {
        if self.steering() {
            if self.hist.get(self.cur).map(|a| a == name).unwrap_or(false) { self.cur += 1 } else { self.stuck = self.cur as i64; self.countdown = -1; self.spur_left = 0 }
        }
        self.events.push(name.into());
    }
    fn on_yield(&mut self, w: Waker) {
        self.waiting = true; self.fired = false; self.stored = Some(w);
        let k = self.yields; self.yields += 1;
        self.countdown = self.delays.get(k % self.delays.len().max(1)).copied().unwrap_or(-1);
        self.spur_left = self.spurs.get(k % self.spurs.len().max(1)).copied().unwrap_or(0);
    }
}
type Shared = Arc<Mutex<Ctl>>;

// ------------------------------------------------------------------ the scripted producer future

/// the queue handle as the handler gets it: from `DataStream::new` or from `ohkami_lib::stream::queue`
enum Handle { Sse(ohkami::sse::handle::Stream<String>), Raw(ohkami_lib::stream::impls::Queue<String>) }
/// `decoy`: None = no filter behind the stream.  Some(pattern): the stream goes through `StreamExt::filter`, and the producer also pushes items the
/// predicate rejects (DECOY..) -- where the forced schedule says `PDecoy`, or by pattern (0: before each message, 1: after each message,
/// 2: before the first message and at the very end)
struct Producer { ctl: Shared, handle: Handle, script: Vec<u8>, ip: usize, msgs: Vec<String>, next_msg: usize, decoy: Option<u8>, last_decoy: bool }
const DECOY: char = '\u{1}';
impl Producer {
    fn push_decoy(&mut self, c: &mut Ctl) {
        let m = format!("{DECOY}rejected-{}", self.next_msg);
        match &mut self.handle { Handle::Sse(h) => h.send(m), Handle::Raw(q) => q.push(m) }
        self.last_decoy = true;
        c.code("PDecoy");
    }
}
impl Future for Producer {
    type Output = ();
    fn poll(mut self: Pin<&mut Self>, cx: &mut Context<'_>) -> Poll<()> {
        let this = &mut *self;
        let ctl = this.ctl.clone();
        let mut c = ctl.lock().unwrap();
        c.env();
        if c.waiting && !c.fired {
            c.code("PStill");
            c.stored = Some(cx.waker().clone());
            return Poll::Pending
        }
        c.waiting = false; c.fired = false; c.stored = None;
        c.code("PCont");
        loop {
            c.env();
            if let Some(pat) = this.decoy {
                let op = this.script.get(this.ip).copied();
                let now = if c.steering() { c.hist.get(c.cur).map(|a| a == "PDecoy").unwrap_or(false) }
                          else { !this.last_decoy && match (pat, op) { (0, Some(b'P')) => true, (2, Some(b'P')) => this.next_msg == 0, (2, None) => true, _ => false } };
                if now { this.push_decoy(&mut c); continue }
            }
            match this.script.get(this.ip).copied() {
                Some(b'P') => {
                    let m = this.msgs[this.next_msg].clone(); this.next_msg += 1; this.ip += 1;
                    match &mut this.handle { Handle::Sse(h) => h.send(m), Handle::Raw(q) => q.push(m) }   // the real queue handle
                    this.last_decoy = false;
                    c.code("PPush");
                    if this.decoy == Some(1) && !c.steering() { this.push_decoy(&mut c) }
                }
                Some(_) => {
                    this.ip += 1;
                    c.on_yield(cx.waker().clone());
                    c.code("PYield");
                    return Poll::Pending
                }
                None => { c.code("PEnd"); return Poll::Ready(()) }
            }
        }
    }
}

// ------------------------------------------------------------------ the connection

struct Conn { ctl: Shared, out: Vec<u8>, unit_start: usize, units: usize, wmode: i64, part: usize, toggle: bool }
impl tokio::io::AsyncWrite for Conn {
    fn poll_write(mut self: Pin<&mut Self>, _cx: &mut Context<'_>, buf: &[u8]) -> Poll<std::io::Result<usize>> {
        let n = match self.wmode {
            1 => buf.len().min(self.part.max(1)),
            2 => { self.toggle = !self.toggle;
                   // not ready this time; the executor polls again without any wake-up (so the task's wake flag only
                   // ever carries wake-ups of the stream)
                   if self.toggle { self.ctl.lock().unwrap().writer_pending = true; return Poll::Pending }
                   buf.len().min(self.part.max(1) * 3) }
            _ => buf.len(),
        };
        self.out.extend_from_slice(&buf[..n]);
        Poll::Ready(Ok(n))
    }
    fn poll_flush(mut self: Pin<&mut Self>, _cx: &mut Context<'_>) -> Poll<std::io::Result<()>> {
        if self.out.len() > self.unit_start {
            let name = if self.units == 0 { "CHead" } else if &self.out[self.unit_start..] == b"0\r\n\r\n" { "CFinish" } else { "CDeliver" };
            { let mut c = self.ctl.lock().unwrap(); c.env(); c.code(name); }
            self.units += 1; self.unit_start = self.out.len();
        }
        Poll::Ready(Ok(()))
    }
    fn poll_shutdown(self: Pin<&mut Self>, _cx: &mut Context<'_>) -> Poll<std::io::Result<()>> { Poll::Ready(Ok(())) }
}

// ------------------------------------------------------------------ run

fn make_stream(ctl: Shared, script: Vec<u8>, msgs: Vec<String>, from_queue: bool, decoy: Option<u8>, tail: Option<String>) -> DataStream {
    use ohkami::util::StreamExt;
    if let Some(closing) = tail {
        // the handler's stream followed by a second stream of one closing message, through the adapter `StreamExt::chain`
        return DataStream::from(ohkami_lib::stream::queue(move |q| Producer { ctl, handle: Handle::Raw(q), script, ip: 0, msgs, next_msg: 0, decoy: None, last_decoy: false })
            .chain(ohkami_lib::stream::once(closing)))
    }
    if let Some(d) = decoy {
        // the handler's stream behind the adapter `StreamExt::filter`: the predicate rejects the decoys (and tells the log)
        let c2 = ctl.clone();
        return DataStream::from(ohkami_lib::stream::queue(move |q| Producer { ctl, handle: Handle::Raw(q), script, ip: 0, msgs, next_msg: 0, decoy: Some(d), last_decoy: false })
            .filter(move |m: &String| if m.starts_with(DECOY) { let mut c = c2.lock().unwrap(); c.env(); c.code("CDiscard"); false } else { true }))
    }
    if from_queue {
        // `DataStream::from(stream)` over `ohkami_lib::stream::queue`: the same QueueStream behind the `map(Data::encode)` adapter
        DataStream::from(ohkami_lib::stream::queue(move |q| Producer { ctl, handle: Handle::Raw(q), script, ip: 0, msgs, next_msg: 0, decoy: None, last_decoy: false }))
    } else {
        DataStream::new(move |h| Producer { ctl, handle: Handle::Sse(h), script, ip: 0, msgs, next_msg: 0, decoy: None, last_decoy: false })
    }
}

fn chunk_sizes(raw: &[u8]) -> Vec<usize> {
    let mut at = 0; let mut v = vec![];
    while let Some(le) = util::find(&raw[at..], b"\r\n") {
        let Ok(line) = std::str::from_utf8(&raw[at..at + le]) else { break };
        let Ok(sz) = usize::from_str_radix(line.split(';').next().unwrap_or("").trim(), 16) else { break };
        v.push(sz); at += le + 2 + sz + 2;
        if sz == 0 || at > raw.len() { break }
    }
    v
}

fn err_class(e: &str) -> String {
    if e.is_empty() { return "ok".into() }
    let cut = e.find(|c| c == '"' || c == ':' || c == '[').unwrap_or(e.len());
    e[..cut].trim().replace(' ', "-")
}

pub fn run(scn: &Value) -> Value {
    let seed = scn["seed"].as_u64().unwrap_or(0);
    // (a script that ends with "T": the stream is chained with a second stream of one closing message, the last of `msgs`)
    let has_tail = arr(&scn["script"]).last().map(|x| s(x) == "T").unwrap_or(false);
    let script: Vec<u8> = arr(&scn["script"]).iter().filter(|x| s(x) != "T").map(|x| if s(x) == "P" { b'P' } else { b'Y' }).collect();
    let npush = script.iter().filter(|b| **b == b'P').count() + has_tail as usize;
    let mut msgs = vec![]; let mut table: Vec<(String, String)> = vec![];
    for w in ["data", "event", "id", "retry"] { table.push((w.to_string(), format!("={w}"))) }
    for m in arr(&scn["msgs"]) {
        let mut text = String::new();
        for t in arr(m) {
            let Some(c) = concrete(s(t), seed) else { return json!({"kind": "tool-error", "what": format!("unknown token {}", s(t))}) };
            if is_text_token(s(t)) && !table.iter().any(|(_, a)| a[1..] == *s(t)) { table.push((c.clone(), format!("={}", s(t)))) }
            text.push_str(&c);
        }
        msgs.push(text);
    }
    if msgs.len() != npush { return json!({"kind": "tool-error", "what": "number of messages differs from the number of pushes"}) }
    // the table must be prefix-free, or the wire could not be read back uniquely
    for (i, (a, _)) in table.iter().enumerate() { for (j, (b, _)) in table.iter().enumerate() {
        if i != j && b.starts_with(a.as_str()) { return json!({"kind": "tool-error", "what": format!("concretisation table not prefix-free: {a:?} {b:?}")}) }
    } }
    let hist: Vec<String> = arr(&scn["hist"]).iter().map(|x| s(x).to_string()).collect();
    let delays: Vec<i64> = arr(&scn["pol"]["delay"]).iter().map(util::i).collect();
    let spurs: Vec<i64> = arr(&scn["pol"]["spur"]).iter().map(util::i).collect();
    let wmode = util::i(&scn["wmode"]);
    let via = match s(&scn["via"]) { "router" => "router", "from" => "from", "router-from" => "router-from", "filter" => "filter", "router-filter" => "router-filter", "chain" => "chain", "router-chain" => "router-chain", _ => "direct" };
    let from_queue = via.ends_with("from");
    let decoy: Option<u8> = if via.ends_with("filter") { Some((seed % 3) as u8) } else { None };
    let tail: Option<String> = if has_tail { msgs.pop() } else { None };
    if s(&scn["via"]) == "session" { return run_session(&msgs, &table, scn["gap_ms"].as_u64().unwrap_or(50)) }

    let flag = Arc::new(Flag(AtomicBool::new(false)));
    let waker = Waker::from(flag.clone());
    let ctl: Shared = Arc::new(Mutex::new(Ctl {
        forced: !hist.is_empty(), hist, cur: 0, stuck: -1, events: vec![], waiting: false, fired: false, stored: None, task: waker.clone(),
        delays, spurs, yields: 0, countdown: -1, spur_left: 0, fires: 0, spurious: 0, writer_pending: false,
    }));

    // the response, through the public API
    let res: Response = if via.starts_with("router") {
        let (c2, sc2, m2, tl2) = (ctl.clone(), script.clone(), msgs.clone(), tail.clone());
        let o = Ohkami::new(("/sse".GET(move || { let (c, sc, m, tl) = (c2.clone(), sc2.clone(), m2.clone(), tl2.clone()); async move { make_stream(c, sc, m, from_queue, decoy, tl) } }),));
        let router = v::finalize(o);
        util::block_on(async {
            let mut req = v::VRequest::new();
            let mut rd: &[u8] = b"GET /sse HTTP/1.1\r\nHost: x\r\nAccept: text/event-stream\r\n\r\n";
            match req.read(&mut rd).await { Ok(Some(())) => req.handle(&router).await, Ok(None) => Response::new(Status::Gone), Err(e) => e }
        })
    } else {
        let mut r = make_stream(ctl.clone(), script.clone(), msgs.clone(), from_queue, decoy, tail.clone()).into_response();
        v::complete(&mut r);
        r
    };

    let mut conn = Conn { ctl: ctl.clone(), out: vec![], unit_start: 0, units: 0, wmode, part: 1 + (seed % 7) as usize, toggle: false };
    let (mut finished, mut stalled, mut polls) = (false, false, 0usize);
    {
        let mut fut = Box::pin(v::send(res, &mut conn));
        let mut cx = Context::from_waker(&waker);
        loop {
            polls += 1;
            if polls > 200_000 { break }
            match fut.as_mut().poll(&mut cx) {
                Poll::Ready(_) => { finished = true; break }
                Poll::Pending => {
                    let mut c = ctl.lock().unwrap();
                    if c.writer_pending { c.writer_pending = false; continue }      // the connection was not ready: not a step of the stream
                    c.env(); c.code("CSuspend");
                    // the task is suspended: only a wake-up makes the executor poll it again
                    c.env();
                    if !c.steering() && !flag.0.load(Ordering::SeqCst) {
                        if c.spur_left > 0 { c.spur_left -= 1; c.do_spur() }
                        else if c.waiting && !c.fired { c.do_fire() }
                    }
                    if !flag.0.swap(false, Ordering::SeqCst) { stalled = true; break }
                    c.code("CResume");
                }
            }
        }
    }
    let c = ctl.lock().unwrap();
    let raw = conn.out;
    let p = util::parse_response(&raw, false);
    let get = |n: &str| p.headers.iter().filter(|(k, _)| k.eq_ignore_ascii_case(n)).map(|(_, v)| v.clone()).collect::<Vec<_>>();
    let (te, cl, ct) = (get("Transfer-Encoding"), get("Content-Length"), get("Content-Type"));
    let trailing = if p.error.is_empty() { raw.len() as i64 - p.consumed as i64 } else { 0 };
    let (utf8, text) = match std::str::from_utf8(&p.body) { Ok(t) => (true, t.to_string()), Err(_) => (false, String::new()) };
    let toks = tokenise(&text, &table);
    let head_end = util::find(&raw, b"\r\n\r\n").map(|i| i + 4).unwrap_or(raw.len());
    let sizes = chunk_sizes(&raw[head_end..]);
    let digits = sizes.iter().map(|z| format!("{:x}", z).len()).max().unwrap_or(0);
    json!({
        "kind": "sse", "via": via,
        "status": p.status as i64, "te": te.join(",").to_ascii_lowercase(), "cl": if cl.is_empty() { "none".to_string() } else { cl.join(",") },
        "ct": ct.iter().map(|c| c.split(';').next().unwrap_or("").trim().to_ascii_lowercase()).collect::<Vec<_>>().join(","),
        "framing": p.framing, "dechunk": err_class(&p.error), "trailing": trailing, "utf8": utf8,
        "toks": toks, "text": util::clip(&text, 240), "concrete": msgs.iter().map(|m| util::clip(m, 80)).collect::<Vec<_>>(),
        "nchunks": sizes.len() as i64, "maxdigits": digits as i64, "bodylen": p.body.len() as i64,
        "events": c.events, "finished": finished, "stalled": stalled, "polls": polls as i64,
        "forced": if !c.forced { "free".to_string() } else if c.stuck >= 0 { format!("stuck@{}", c.stuck) } else if c.cur == c.hist.len() { "ok".to_string() } else { format!("short@{}", c.cur) },
        "fires": c.fires as i64, "spurious": c.spurious as i64,
    })
}

/// The stream served by the real `Session::manage` over a loopback socket, at a real pace: the producer pushes one message every `gap`
/// milliseconds.  The session's deadline (OHKAMI_KEEPALIVE_TIMEOUT, read once per process) is set to 3 seconds for this worker process
/// (the scenarios stay far from it on either side: streams of at most 0.2 s, and streams of 4.8 s).
fn run_session(msgs: &[String], table: &[(String, String)], gap: u64) -> Value {
    use tokio::io::{AsyncReadExt, AsyncWriteExt};
    std::env::set_var("OHKAMI_KEEPALIVE_TIMEOUT", "3");
    let m2: Vec<String> = msgs.to_vec();
    let o = Ohkami::new(("/sse".GET(move || { let m = m2.clone(); async move {
        DataStream::new(move |mut h: ohkami::sse::handle::Stream<String>| async move { for x in m { h.send(x); tokio::time::sleep(std::time::Duration::from_millis(gap)).await } })
    } }),));
    let router = v::finalize(o);
    let raw: Vec<u8> = util::block_on(async move {
        let l = tokio::net::TcpListener::bind("127.0.0.1:0").await.unwrap();
        let addr = l.local_addr().unwrap();
        let (c, sv) = tokio::join!(crate::util::connect_loopback(addr), l.accept());
        let (mut c, (sv, peer)) = (c.unwrap(), sv.unwrap());
        let server = tokio::spawn(async move { v::session(&router, sv, peer.ip()).await });
        let _ = c.write_all(b"GET /sse HTTP/1.1\r\nHost: x\r\nAccept: text/event-stream\r\nConnection: close\r\n\r\n").await;
        let mut out = vec![]; let mut buf = vec![0u8; 65536];
        loop { match tokio::time::timeout(std::time::Duration::from_millis(15000), c.read(&mut buf)).await { Ok(Ok(0)) | Ok(Err(_)) | Err(_) => break, Ok(Ok(n)) => out.extend_from_slice(&buf[..n]) } }
        let _ = tokio::time::timeout(std::time::Duration::from_millis(3000), server).await;
        out
    });
    let p = util::parse_response(&raw, false);
    let get = |n: &str| p.headers.iter().filter(|(k, _)| k.eq_ignore_ascii_case(n)).map(|(_, v)| v.clone()).collect::<Vec<_>>();
    let (te, cl, ct) = (get("Transfer-Encoding"), get("Content-Length"), get("Content-Type"));
    let trailing = if p.error.is_empty() { raw.len() as i64 - p.consumed as i64 } else { 0 };
    // when the body is cut the de-chunker reports an error and no body: the events that did arrive are read from the complete chunks
    let head_end = util::find(&raw, b"\r\n\r\n").map(|i| i + 4).unwrap_or(raw.len());
    let sizes = chunk_sizes(&raw[head_end..]);
    let body: Vec<u8> = if p.error.is_empty() { p.body.clone() } else {
        let mut b = vec![]; let mut at = head_end;
        while let Some(le) = util::find(&raw[at..], b"\r\n") {
            let Ok(line) = std::str::from_utf8(&raw[at..at + le]) else { break };
            let Ok(sz) = usize::from_str_radix(line.trim(), 16) else { break };
            if sz == 0 || at + le + 2 + sz + 2 > raw.len() { break }
            b.extend_from_slice(&raw[at + le + 2..at + le + 2 + sz]); at += le + 2 + sz + 2;
        }
        b };
    let (utf8, text) = match std::str::from_utf8(&body) { Ok(t) => (true, t.to_string()), Err(_) => (false, String::new()) };
    let toks = tokenise(&text, table);
    let digits = sizes.iter().map(|z| format!("{:x}", z).len()).max().unwrap_or(0);
    json!({
        "kind": "sse", "via": "session",
        "status": p.status as i64, "te": te.join(",").to_ascii_lowercase(), "cl": if cl.is_empty() { "none".to_string() } else { cl.join(",") },
        "ct": ct.iter().map(|c| c.split(';').next().unwrap_or("").trim().to_ascii_lowercase()).collect::<Vec<_>>().join(","),
        "framing": p.framing, "dechunk": err_class(&p.error), "trailing": trailing, "utf8": utf8,
        "toks": toks, "text": util::clip(&text, 240), "concrete": msgs.iter().map(|m| util::clip(m, 80)).collect::<Vec<_>>(),
        "nchunks": sizes.len() as i64, "maxdigits": digits as i64, "bodylen": body.len() as i64,
        "events": [], "finished": p.error.is_empty(), "stalled": false, "polls": 0, "forced": "free", "fires": 0, "spurious": 0,
    })
}

// ------------------------------------------------------------------ random scenarios (same vocabulary, beyond TLC's bounds)

const PLAIN: &[&str] = &["x", "y", "u", "u2", "n", "n2", "tab", "ls", "nel", "nul", "ff", "vt"];
const STRUCT: &[&str] = &["LF", "CR", "CRLF", "SP", "COLON", "DATA", "EV", "ID", "RETRY", "BOM"];

fn long_token(rng: &mut Rng) -> String {
    // message.len() = 6 + text + 2: sizes around the hex digit boundaries 0xf/0x10, 0xff/0x100, 0xfff/0x1000, 0xffff/0x10000
    let around = *rng.pick(&[16usize, 16, 256, 256, 4096, 4096, 65536]);
    let k = (around as i64 - 8 + rng.range(0, 6) as i64 - 3).max(2) as usize;
    if rng.chance(1, 4) && around <= 4096 { format!("W{}", (k / 3).max(2)) } else { format!("L{k}") }
}

pub fn gen(rng: &mut Rng, i: usize) -> Value {
    // script: up to 30 steps, bursts of pushes, runs of yields, sometimes ending with a non-empty queue
    let steps = rng.range(0, 30);
    let mut script: Vec<&str> = vec![];
    while script.len() < steps {
        if rng.chance(3, 5) { for _ in 0..rng.range(1, 5) { if script.len() < steps { script.push("P") } } }
        else { for _ in 0..rng.range(1, 3) { if script.len() < steps { script.push("Y") } } }
    }
    // one scenario in six: the stream is chained with a second stream of one closing message (script ends with "T", one more message)
    let chain = rng.chance(1, 6);
    if chain { script.push("T") }
    let npush = script.iter().filter(|x| **x == "P" || **x == "T").count();
    let mut long_used = false;
    let mut msgs = vec![];
    for _ in 0..npush {
        let len = match rng.below(10) { 0 => 0, 1..=5 => rng.range(1, 4), _ => rng.range(5, 12) };
        let crfree = rng.chance(1, 2);          // half of the messages stay inside what the encoder handles
        let mut m: Vec<String> = vec![];
        for _ in 0..len {
            let t = if rng.chance(1, 14) && !long_used { long_used = rng.chance(1, 2); long_token(rng) }
                    else if rng.chance(1, 2) { rng.pick(PLAIN).to_string() }
                    else { loop { let t = *rng.pick(STRUCT); if !(crfree && t == "CR") { break t.to_string() } } };
            // two long tokens of the same kind would not be prefix-free: keep at most one L and one W per scenario kind+size
            m.push(t);
        }
        msgs.push(m);
    }
    // de-duplicate long tokens that would clash in the table (same leading character, one a prefix of the other is
    // impossible thanks to the terminator, so nothing to do) — kept simple: all L/W tokens are allowed.
    let ny = script.iter().filter(|x| **x == "Y").count().max(1);
    let delay: Vec<i64> = (0..ny).map(|_| *rng.pick(&[-1i64, -1, 0, 0, 1, 2, 3, 5])).collect();
    let spur: Vec<i64> = (0..ny).map(|_| *rng.pick(&[0i64, 0, 0, 1, 2])).collect();
    json!({"id": i, "script": script, "msgs": msgs, "hist": [], "seed": rng.below(1 << 30) as i64,
           "pol": {"delay": delay, "spur": spur}, "wmode": *rng.pick(&[0i64, 0, 1, 2]), "via": if chain { *rng.pick(&["chain", "router-chain"]) } else { *rng.pick(&["direct", "direct", "router", "from", "router-from", "filter", "router-filter"]) }})
}
