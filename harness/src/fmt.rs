//! C20 — date and number formatters (`ohkami_lib::time::imf_fixdate`, `ohkami_lib::num::{itoa, hexized, hexized_bytes}`).
//!
//! A scenario is a *batch description* printed by TLC (specs/FmtGen.tla) or by `gen` below:
//!   {"kind":"days","from":a,"to":b,"sod":s,"full":0|1}      every day number a..=b at second-of-day s
//!   {"kind":"daylist","days":[..],"sod":s,"full":..}        the listed day numbers
//!   {"kind":"secs","day":d,"from":a,"to":b,"full":..}       every second a..=b of day d
//!   {"kind":"ts-random","seed":k,"n":n,"full":..}           n seeded random instants in [0, 253402300799]
//!   {"kind":"num-range","fn":f,"from":a,"to":b}             every n in a..=b   (f: itoa | hexized | hexized_bytes)
//!   {"kind":"num-list","fn":f,"vals":[[l0,l1,l2,l3],..]}    the listed 64-bit values (base-2^16 limbs, least significant first)
//!   {"kind":"num-random","fn":f,"seed":k,"n":n}             n seeded random 64-bit values (every bit length)
//!   {"kind":"wire-cl","sizes":[..]}                         a real `Response::OK().with_text(<n bytes>)` sent through the real
//!                                                           `Response::send`: the Content-Length value (itoa) and the Date header
//!   {"kind":"wire-chunk","sizes":[..]}                      a real one-message SSE response: the chunk-size line (hexized_bytes,
//!                                                           stripped by the writer) and the number of bytes that follow it
//!
//! For every element the REAL function is called and its output is *projected*, never judged:
//!   dates: the 29-byte string is cut at the fixed field positions of `Www, DD Mon YYYY HH:MM:SS GMT`;
//!          columns wd, dd, mon, yy, hh, mi, ss (numbers: strict all-digit parse, -1 otherwise), len, frame (the
//!          bytes between the fields, concatenated) and, when "full":1, the whole string as byte codes.
//!   numbers: the output as byte codes; random values are echoed as limbs computed by shifts.
//! A panic inside one element is recorded for that element (len -1 / out [-1]) and the batch continues.
//! Trusted concretisation: timestamp = 86400*day + sod; value = l0 | l1<<16 | l2<<32 | l3<<48.
use crate::util::{arr, i, s, Rng};
use serde_json::{json, Value};

const LAST_DAY: u64 = 2_932_896; // 9999-12-31

#[derive(Default)]
struct DateCols { day: Vec<i64>, sod: Vec<i64>, wd: Vec<String>, dd: Vec<i64>, mon: Vec<String>, yy: Vec<i64>, hh: Vec<i64>, mi: Vec<i64>, ss: Vec<i64>, len: Vec<i64>, frame: Vec<String>, chars: Vec<Vec<i64>> }

/// strict: every byte an ASCII digit (so "+6", " 6", "6 " are -1)
fn digits(b: &[u8]) -> i64 {
    if b.is_empty() || !b.iter().all(|c| c.is_ascii_digit()) { return -1 }
    b.iter().fold(0i64, |a, c| a * 10 + (c - b'0') as i64)
}
fn text(b: &[u8]) -> String { b.iter().map(|&c| if (0x20..0x7f).contains(&c) && c != b'"' && c != b'\\' { c as char } else { '?' }).collect() }
fn cut(b: &[u8], from: usize, to: usize) -> &[u8] { let n = b.len(); &b[from.min(n)..to.min(n)] }

fn one_date(c: &mut DateCols, day: u64, sod: u64, full: bool) {
    let ts = 86_400 * day + sod;
    let r = std::panic::catch_unwind(|| ohkami_lib::time::imf_fixdate(ts));
    c.day.push(day as i64); c.sod.push(sod as i64);
    match r {
        Ok(out) => {
            let b = out.as_bytes();
            push_date_fields(c, b);
            if full { c.chars.push(b.iter().map(|&x| x as i64).collect()) }
        }
        Err(_) => {
            c.wd.push("!panic".into()); c.dd.push(-1); c.mon.push("!panic".into()); c.yy.push(-1); c.hh.push(-1); c.mi.push(-1); c.ss.push(-1);
            c.len.push(-1); c.frame.push("!panic".into());
            if full { c.chars.push(vec![-1]) }
        }
    }
}

fn push_date_fields(c: &mut DateCols, b: &[u8]) {
    c.wd.push(text(cut(b, 0, 3)));
    c.dd.push(digits(cut(b, 5, 7)));
    c.mon.push(text(cut(b, 8, 11)));
    c.yy.push(digits(cut(b, 12, 16)));
    c.hh.push(digits(cut(b, 17, 19)));
    c.mi.push(digits(cut(b, 20, 22)));
    c.ss.push(digits(cut(b, 23, 25)));
    c.len.push(b.len() as i64);
    let mut f = Vec::new();
    for (a, z) in [(3, 5), (7, 8), (11, 12), (16, 17), (19, 20), (22, 23), (25, usize::MAX)] { f.extend_from_slice(cut(b, a, z)) }
    c.frame.push(text(&f));
}

fn now() -> u64 { std::time::SystemTime::now().duration_since(std::time::UNIX_EPOCH).map(|d| d.as_secs()).unwrap_or(0) }

/// the bytes of a real response as `Response::send` writes them
fn send(res: ohkami::Response) -> Vec<u8> {
    let mut w: Vec<u8> = Vec::new();
    crate::util::block_on(async { ohkami::__verif::send(res, &mut w).await; });
    w
}

/// wire-cl: Content-Length value bytes + Date header fields + the harness's own clock readings around the construction
fn wire_cl(scn: &Value) -> Value {
    let mut c = DateCols::default();
    let (mut out, mut t0d, mut t0s, mut t1d, mut t1s, mut err) = (vec![], vec![], vec![], vec![], vec![], vec![]);
    for sz in arr(&scn["sizes"]) {
        let n = i(sz) as usize;
        let r = std::panic::catch_unwind(|| {
            let t0 = now();
            let res = ohkami::Response::OK().with_text("x".repeat(n));
            let t1 = now();
            (t0, t1, send(res))
        });
        match r {
            Ok((t0, t1, w)) => {
                let p = crate::util::parse_response(&w, false);
                let get = |name: &str| p.headers.iter().filter(|(k, _)| k.eq_ignore_ascii_case(name)).map(|(_, v)| v.clone()).collect::<Vec<_>>();
                let (cl, date) = (get("Content-Length"), get("Date"));
                if p.error.is_empty() && cl.len() == 1 && date.len() == 1 {
                    out.push(cl[0].bytes().map(|x| x as i64).collect::<Vec<_>>());
                    push_date_fields(&mut c, date[0].as_bytes());
                    err.push(String::new());
                } else {
                    out.push(vec![]); push_date_fields(&mut c, b"");
                    err.push(if !p.error.is_empty() { crate::util::clip(&p.error, 60) } else { format!("{} Content-Length, {} Date", cl.len(), date.len()) });
                }
                t0d.push((t0 / 86_400) as i64); t0s.push((t0 % 86_400) as i64); t1d.push((t1 / 86_400) as i64); t1s.push((t1 % 86_400) as i64);
            }
            Err(_) => { out.push(vec![-1]); push_date_fields(&mut c, b""); err.push("panic".into()); t0d.push(0); t0s.push(0); t1d.push(0); t1s.push(0) }
        }
    }
    json!({"kind": "wire", "n": out.len(), "out": out, "err": err, "wd": c.wd, "dd": c.dd, "mon": c.mon, "yy": c.yy, "hh": c.hh, "mi": c.mi, "ss": c.ss,
           "len": c.len, "frame": c.frame, "t0day": t0d, "t0sod": t0s, "t1day": t1d, "t1sod": t1s})
}

/// wire-chunk: the first chunk-size line of a one-message event stream and the number of bytes up to the chunk's closing CRLF
fn wire_chunk(scn: &Value) -> Value {
    let (mut out, mut follow, mut err) = (vec![], vec![], vec![]);
    for sz in arr(&scn["sizes"]) {
        let n = (i(sz) as usize).max(8) - 8;       // "data: " + payload + "\n\n"
        let r = std::panic::catch_unwind(|| send(ohkami::Response::OK().with_stream(ohkami_lib::stream::once("y".repeat(n)))));
        match r {
            Ok(w) => {
                // head, then  <size line> CRLF <data> CRLF "0" CRLF CRLF   (one chunk): located from both ends, independently of the size line's value
                let tail: &[u8] = b"\r\n0\r\n\r\n";
                let parts = crate::util::find(&w, b"\r\n\r\n").and_then(|he| {
                    let rest = &w[he + 4..];
                    let le = crate::util::find(rest, b"\r\n")?;
                    if !rest.ends_with(tail) || rest.len() < le + 2 + tail.len() { return None }
                    Some((rest[..le].to_vec(), rest.len() - (le + 2) - tail.len()))
                });
                match parts {
                    Some((line, data)) if data < (1usize << 31) => { out.push(line.iter().map(|&x| x as i64).collect::<Vec<_>>()); follow.push(data as i64); err.push(String::new()) }
                    _ => { out.push(vec![]); follow.push(0); err.push("no single chunk found".into()) }
                }
            }
            Err(_) => { out.push(vec![-1]); follow.push(0); err.push("panic".into()) }
        }
    }
    json!({"kind": "wire", "n": out.len(), "out": out, "follow": follow, "err": err})
}

fn dates_obs(c: DateCols, full: bool, echo: bool) -> Value {
    let mut o = json!({"kind": "dates", "n": c.len.len(), "wd": c.wd, "dd": c.dd, "mon": c.mon, "yy": c.yy, "hh": c.hh, "mi": c.mi, "ss": c.ss,
                       "len": c.len, "frame": c.frame});
    if full { o["chars"] = json!(c.chars) }
    if echo { o["day"] = json!(c.day); o["sod"] = json!(c.sod) }
    o
}

fn limbs(v: u64) -> [i64; 4] { [(v & 0xffff) as i64, ((v >> 16) & 0xffff) as i64, ((v >> 32) & 0xffff) as i64, ((v >> 48) & 0xffff) as i64] }
fn unlimbs(l: &[Value]) -> u64 { (0..4).fold(0u64, |a, k| a | ((i(&l[k]) as u64 & 0xffff) << (16 * k))) }

fn one_num(f: &str, v: u64) -> Vec<i64> {
    let n = v as usize;
    let r = std::panic::catch_unwind(|| match f {
        "itoa" => ohkami_lib::num::itoa(n).into_bytes(),
        "hexized" => ohkami_lib::num::hexized(n).into_bytes(),
        _ => ohkami_lib::num::hexized_bytes(n).to_vec(),
    });
    match r { Ok(b) => b.iter().map(|&x| x as i64).collect(), Err(_) => vec![-1] }
}

/// random 64-bit value: bit length uniform in 1..=64 (so every decimal / hexadecimal width occurs), top bit set
fn rand_u64(rng: &mut Rng) -> u64 {
    let bits = rng.range(1, 64) as u32;
    let v = rng.next();
    let v = if bits == 64 { v } else { v & ((1u64 << bits) - 1) };
    v | (1u64 << (bits - 1))
}

pub fn run(scn: &Value) -> Value {
    if std::mem::size_of::<usize>() != 8 { return json!({"kind": "tool-error", "what": "the check assumes a 64-bit usize"}) }
    let kind = s(&scn["kind"]);
    let full = i(&scn["full"]) == 1;
    match kind {
        "days" | "daylist" | "secs" | "ts-random" => {
            let mut c = DateCols::default();
            match kind {
                "days" => { let sod = i(&scn["sod"]) as u64; for d in i(&scn["from"])..=i(&scn["to"]) { one_date(&mut c, d as u64, sod, full) } }
                "daylist" => { let sod = i(&scn["sod"]) as u64; for d in arr(&scn["days"]) { one_date(&mut c, i(d) as u64, sod, full) } }
                "secs" => { let d = i(&scn["day"]) as u64; for t in i(&scn["from"])..=i(&scn["to"]) { one_date(&mut c, d, t as u64, full) } }
                _ => {
                    let mut rng = Rng::new(i(&scn["seed"]) as u64 ^ 0xC20);
                    for _ in 0..i(&scn["n"]) {
                        let d = rng.next() % (LAST_DAY + 1);
                        let t = rng.next() % 86_400;
                        one_date(&mut c, d, t, full)
                    }
                }
            }
            dates_obs(c, full, kind == "ts-random")
        }
        "num-range" | "num-list" | "num-random" => {
            let f = s(&scn["fn"]);
            if !["itoa", "hexized", "hexized_bytes"].contains(&f) { return json!({"kind": "tool-error", "what": "unknown fn"}) }
            let mut vals: Vec<u64> = vec![];
            match kind {
                "num-range" => { for n in i(&scn["from"])..=i(&scn["to"]) { vals.push(n as u64) } }
                "num-list" => { for l in arr(&scn["vals"]) { vals.push(unlimbs(arr(l))) } }
                _ => { let mut rng = Rng::new(i(&scn["seed"]) as u64 ^ 0x20C); for _ in 0..i(&scn["n"]) { vals.push(rand_u64(&mut rng)) } }
            }
            let out: Vec<Vec<i64>> = vals.iter().map(|&v| one_num(f, v)).collect();
            let mut o = json!({"kind": "nums", "n": out.len(), "out": out});
            if kind == "num-random" { o["vals"] = json!(vals.iter().map(|&v| limbs(v)).collect::<Vec<_>>()) }
            o
        }
        "wire-cl" => wire_cl(scn),
        "wire-chunk" => wire_chunk(scn),
        _ => json!({"kind": "tool-error", "what": format!("unknown scenario kind {kind:?}")}),
    }
}

/// Seeded random batches in the same vocabulary, beyond the ranges TLC emits.
pub fn gen(rng: &mut Rng, n: usize) -> Value {
    let seed = (rng.next() % 1_000_000_000) as i64;
    match n % 6 {
        0 => json!({"kind": "ts-random", "seed": seed, "n": 2000, "full": 1}),
        1 => { let len = rng.range(200, 2000) as u64; let a = rng.next() % (LAST_DAY + 1 - len); json!({"kind": "days", "from": a, "to": a + len - 1, "sod": rng.below(86_400), "full": (n / 6) % 2}) }
        2 => { let a = rng.below(86_400 - 2001); json!({"kind": "secs", "day": rng.next() % (LAST_DAY + 1), "from": a, "to": a + rng.range(200, 2000), "full": (n / 6) % 2}) }
        3 => json!({"kind": "num-random", "fn": "itoa", "seed": seed, "n": 2000}),
        4 => json!({"kind": "num-random", "fn": *rng.pick(&["hexized", "hexized_bytes"]), "seed": seed, "n": 2000}),
        _ => {
            // a run of consecutive values starting anywhere below 2^31 - 2^12 (crosses digit-count changes now and then)
            let a = match rng.below(3) { 0 => 10u64.pow(rng.range(3, 9) as u32) - 500, 1 => 16u64.pow(rng.range(3, 7) as u32) - 500, _ => rng.next() % ((1u64 << 31) - 4096) };
            json!({"kind": "num-range", "fn": *rng.pick(&["itoa", "hexized", "hexized_bytes"]), "from": a, "to": a + 999})
        }
    }
}
