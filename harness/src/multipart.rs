//! C10 — multipart/form-data: executes `ohkami_lib::serde_multipart::from_bytes` on the bytes made from the
//! token wire that the TLA+ operator `EncodeForm` (specs/Multipart.tla) emitted, into a target struct selected by
//! tag, and projects the decoded struct back onto the spec's vocabulary.
//!
//! Trusted here: the token -> bytes table (`Cx::bytes_of`), its inverse (`Cx::tokens_of`), the struct catalogue.
//! Nothing in this file decides: Trace_Multipart.tla does.
use crate::util::{self, Rng};
use ohkami_lib::serde_multipart::{from_bytes, File};
use serde::Deserialize;
use serde_json::{json, Value};

// ------------------------------------------------------------------------------------------------ concretisation
const BWORDS: &[&str] = &["b", "Xy9", "WebKitFormBoundary7MA4YWxkTrZu0gW", "_.:=?+()'"];
const XREPS: &[&str] = &["x", "A", " ", "\"", ";", "=", "\t", "z", "%", "\\"];
const U8REPS: &[&str] = &["é", "あ", "😀"];
const HIREPS: &[u8] = &[0xFF, 0x80, 0xFE, 0xC0];
const NAMES: &[(&str, &str)] = &[("a", "b"), ("user-name", "pet photos"), ("x; filename=y", "é[]")];
const F1REPS: &[&str] = &["f.txt", "é 1.png", "a;b=c.tar.gz", "C:\\dir\\f.bin", "C:\\Users\\me\\"];      // (the last one ends with a backslash: sent verbatim by a conforming encoder)
const F2REPS: &[&str] = &["g.md", "x'y.jpg", "noext", "%22q.pdf", "odd\\\\\\"];
const M1REPS: &[&str] = &["application/octet-stream", "image/png"];
const M2REPS: &[&str] = &["text/plain; charset=UTF-8", "text/markdown"];
const MTXTREPS: &[&str] = &["text/plain", "text/plain; charset=UTF-8"];
const CTEREPS: &[&str] = &["binary", "8bit", "7bit"];

pub struct Cx {
    pub v: usize, bword: &'static str, x: &'static str, u8c: &'static str, hi: u8,
    f1: &'static str, f2: &'static str, m1: &'static str, m2: &'static str, mtxt: &'static str, cte: &'static str,
    base: usize, len: usize, pub inrange: bool, pub utf8ok: bool,
}
impl Cx {
    pub fn new(cv: u64) -> Cx {
        let mut r = Rng::new(cv ^ 0xC10);
        Cx { v: r.below(NAMES.len()), bword: BWORDS[r.below(BWORDS.len())], x: XREPS[r.below(XREPS.len())], u8c: U8REPS[r.below(U8REPS.len())],
             hi: HIREPS[r.below(HIREPS.len())], f1: F1REPS[r.below(F1REPS.len())], f2: F2REPS[r.below(F2REPS.len())],
             m1: M1REPS[r.below(M1REPS.len())], m2: M2REPS[r.below(M2REPS.len())], mtxt: MTXTREPS[r.below(MTXTREPS.len())],
             cte: CTEREPS[r.below(CTEREPS.len())], base: 0, len: 0, inrange: true, utf8ok: true }
    }
    /// token -> bytes. `None`: a token outside the vocabulary (tool error).
    fn bytes_of(&self, t: &str, out: &mut Vec<u8>) -> bool {
        let s: &str = match t {
            "-" => "-", "CR" => "\r", "LF" => "\n", "NUL" => "\0", "x" => self.x, "U8" => self.u8c, "b" => self.bword,
            "HI" => { out.push(self.hi); return true }
            "Q" => "\"", ": " => ": ", "; " => "; ", "form-data" => "form-data", "name=" => "name=", "filename=" => "filename=",
            "Content-Disposition" | "content-disposition" | "CONTENT-DISPOSITION" | "Content-Type" | "content-type" | "CONTENT-TYPE"
            | "Content-Transfer-Encoding" | "content-transfer-encoding" | "CONTENT-TRANSFER-ENCODING" => t,
            "binary" => self.cte,
            "na" => NAMES[self.v].0, "nb" => NAMES[self.v].1,
            "F0" => "", "F1" => self.f1, "F2" => self.f2,
            "M1" => self.m1, "M2" => self.m2, "MTXT" => self.mtxt,
            _ => return false,
        };
        out.extend_from_slice(s.as_bytes()); true
    }
    /// bytes -> content tokens (inverse of the table; bytes the table cannot produce become "?hh")
    fn tokens_of(&self, b: &[u8]) -> Vec<Value> {
        let mut out = vec![]; let mut i = 0;
        while i < b.len() {
            let r = &b[i..];
            let (tok, n): (String, usize) =
                if r.starts_with(self.bword.as_bytes()) { ("b".into(), self.bword.len()) }
                else if r.starts_with(self.u8c.as_bytes()) { ("U8".into(), self.u8c.len()) }
                else if r.starts_with(self.x.as_bytes()) { ("x".into(), self.x.len()) }
                else { match r[0] { b'-' => ("-".into(), 1), b'\r' => ("CR".into(), 1), b'\n' => ("LF".into(), 1), 0 => ("NUL".into(), 1),
                                    c if c == self.hi => ("HI".into(), 1), c => (format!("?{:02x}", c), 1) } };
            out.push(json!(tok)); i += n;
        }
        out
    }
    fn fname_id(&self, s: &str) -> String { if s.is_empty() { "F0".into() } else if s == self.f1 { "F1".into() } else if s == self.f2 { "F2".into() } else { format!("?{}", util::clip(s, 40)) } }
    fn mt_id(&self, s: &str) -> String { if s.is_empty() { "M0".into() } else if s == self.m1 { "M1".into() } else if s == self.m2 { "M2".into() } else if s == "text/plain" { "MTP".into() } else { format!("?{}", util::clip(s, 40)) } }

    /// range check WITHOUT touching the bytes; an empty slice is inside by convention (the decoder uses static "" for absent headers)
    fn inside(&mut self, p: *const u8, n: usize) -> bool {
        if n == 0 { return true }
        let a = p as usize;
        let ok = a >= self.base && a.checked_add(n).map_or(false, |e| e <= self.base + self.len);
        if !ok { self.inrange = false }
        ok
    }
    fn str_checked<'a>(&mut self, s: &'a str) -> Option<&'a str> {
        if !self.inside(s.as_ptr(), s.len()) { return None }
        match std::str::from_utf8(s.as_bytes()) { Ok(x) => Some(x), Err(_) => { self.utf8ok = false; None } }
    }
    fn file(&mut self, f: &File<'_>) -> Value {
        let fname = match self.str_checked(f.filename) { Some(s) => self.fname_id(s), None => "?wild".into() };
        let mt = match self.str_checked(f.mimetype) { Some(s) => self.mt_id(s), None => "?wild".into() };
        let content = if self.inside(f.content.as_ptr(), f.content.len()) { self.tokens_of(f.content) } else { vec![json!("?wild")] };
        json!({"fname": fname, "mt": mt, "content": content})
    }
}

fn fobs(t: &str, s: Vec<Value>, fs: Vec<Value>) -> Value { json!({"t": t, "s": s, "fs": fs}) }

// ------------------------------------------------------------------------------------------------ target catalogue
pub trait Fld<'de>: Deserialize<'de> + Sized { fn proj(&self, cx: &mut Cx) -> Value; fn dflt() -> Self; }
impl<'de: 'a, 'a> Fld<'de> for &'a str {
    fn proj(&self, cx: &mut Cx) -> Value { match cx.str_checked(self) { Some(s) => fobs("str", cx.tokens_of(s.as_bytes()), vec![]), None => fobs("str", vec![json!("?wild")], vec![]) } }
    fn dflt() -> Self { "" }
}
impl<'de> Fld<'de> for String {
    fn proj(&self, cx: &mut Cx) -> Value { if std::str::from_utf8(self.as_bytes()).is_err() { cx.utf8ok = false } fobs("str", cx.tokens_of(self.as_bytes()), vec![]) }
    fn dflt() -> Self { String::new() }
}
impl<'de: 'a, 'a> Fld<'de> for Option<&'a str> {
    fn proj(&self, cx: &mut Cx) -> Value { match self { None => fobs("none", vec![], vec![]), Some(s) => <&str as Fld>::proj(s, cx) } }
    fn dflt() -> Self { None }
}
impl<'de: 'a, 'a> Fld<'de> for File<'a> {
    fn proj(&self, cx: &mut Cx) -> Value { let f = cx.file(self); fobs("file", vec![], vec![f]) }
    fn dflt() -> Self { unreachable!("File has no default: never selected with dflt") }
}
impl<'de: 'a, 'a> Fld<'de> for Option<File<'a>> {
    fn proj(&self, cx: &mut Cx) -> Value { match self { None => fobs("none", vec![], vec![]), Some(f) => { let f = cx.file(f); fobs("file", vec![], vec![f]) } } }
    fn dflt() -> Self { None }
}
impl<'de: 'a, 'a> Fld<'de> for Vec<File<'a>> {
    fn proj(&self, cx: &mut Cx) -> Value {
        // a wild Vec (length beyond anything the input could hold) is reported without walking it
        if self.len() > cx.len + 1 { cx.inrange = false; return fobs("files", vec![], vec![json!({"fname": "?wild", "mt": "?wild", "content": []})]) }
        let fs = self.iter().map(|f| cx.file(f)).collect(); fobs("files", vec![], fs)
    }
    fn dflt() -> Self { Vec::new() }
}

macro_rules! forms { ($m:ident, $na:literal, $nb:literal) => { pub mod $m {
    use super::Fld; use serde::Deserialize;
    #[derive(Deserialize)] #[serde(bound(deserialize = "A: Fld<'de>, B: Fld<'de>"))]
    pub struct F2<A, B> { #[serde(rename = $na)] pub a: A, #[serde(rename = $nb)] pub b: B }
    #[derive(Deserialize)] #[serde(bound(deserialize = "A: Fld<'de>"))]
    pub struct FA<A> { #[serde(rename = $na)] pub a: A }
    #[derive(Deserialize)] #[serde(bound(deserialize = "B: Fld<'de>"))]
    pub struct FB<B> { #[serde(rename = $nb)] pub b: B }
    #[derive(Deserialize)] pub struct F0 {}
    // the same shapes, refusing fields they do not declare
    #[derive(Deserialize)] #[serde(deny_unknown_fields, bound(deserialize = "A: Fld<'de>, B: Fld<'de>"))]
    pub struct X2<A, B> { #[serde(rename = $na)] pub a: A, #[serde(rename = $nb)] pub b: B }
    #[derive(Deserialize)] #[serde(deny_unknown_fields, bound(deserialize = "A: Fld<'de>"))]
    pub struct XA<A> { #[serde(rename = $na)] pub a: A }
    #[derive(Deserialize)] #[serde(deny_unknown_fields, bound(deserialize = "B: Fld<'de>"))]
    pub struct XB<B> { #[serde(rename = $nb)] pub b: B }
    #[derive(Deserialize)] #[serde(deny_unknown_fields)] pub struct X0 {}
    #[derive(Deserialize)] #[serde(bound(deserialize = "A: Fld<'de>, B: Fld<'de>"))]
    pub struct D2<A, B> { #[serde(rename = $na, default = "A::dflt")] pub a: A, #[serde(rename = $nb, default = "B::dflt")] pub b: B }
    #[derive(Deserialize)] #[serde(bound(deserialize = "A: Fld<'de>"))]
    pub struct DA<A> { #[serde(rename = $na, default = "A::dflt")] pub a: A }
    #[derive(Deserialize)] #[serde(bound(deserialize = "B: Fld<'de>"))]
    pub struct DB<B> { #[serde(rename = $nb, default = "B::dflt")] pub b: B }
} } }
forms!(n0, "a", "b");
forms!(n1, "user-name", "pet photos");
forms!(n2, "x; filename=y", "é[]");

type R = Result<(Value, Value), String>;
fn absent() -> Value { fobs("absent", vec![], vec![]) }

macro_rules! per_variant { ($cx:expr, $dflt:expr, $input:expr, |$f:ident : $plain:ident | $dfl:ident < $($g:ty),* >| $body:expr) => {{
    macro_rules! one { ($m:ident) => { if $dflt { from_bytes::<$m::$dfl<$($g),*>>($input).map_err(|e| e.to_string()).map(|$f| $body) }
                                       else { from_bytes::<$m::$plain<$($g),*>>($input).map_err(|e| e.to_string()).map(|$f| $body) } } }
    match $cx.v { 0 => one!(n0), 1 => one!(n1), _ => one!(n2) }
}} }

fn fin_ab<'de, A: Fld<'de>, B: Fld<'de>>(cx: &mut Cx, dflt: bool, input: &'de [u8]) -> R {
    per_variant!(cx, dflt, input, |f: F2 | D2<A, B>| (f.a.proj(cx), f.b.proj(cx)))
}
fn fin_a<'de, A: Fld<'de>>(cx: &mut Cx, dflt: bool, input: &'de [u8]) -> R {
    per_variant!(cx, dflt, input, |f: FA | DA<A>| (f.a.proj(cx), absent()))
}
fn fin_b<'de, B: Fld<'de>>(cx: &mut Cx, dflt: bool, input: &'de [u8]) -> R {
    per_variant!(cx, dflt, input, |f: FB | DB<B>| (absent(), f.b.proj(cx)))
}
fn fin_0(cx: &mut Cx, input: &[u8]) -> R {
    let r = match cx.v { 0 => from_bytes::<n0::F0>(input).map(|_| ()), 1 => from_bytes::<n1::F0>(input).map(|_| ()), _ => from_bytes::<n2::F0>(input).map(|_| ()) };
    r.map_err(|e| e.to_string()).map(|_| (absent(), absent()))
}
fn fin_ab_x<'de, A: Fld<'de>, B: Fld<'de>>(cx: &mut Cx, input: &'de [u8]) -> R { per_variant!(cx, false, input, |f: X2 | D2<A, B>| (f.a.proj(cx), f.b.proj(cx))) }
fn fin_a_x<'de, A: Fld<'de>>(cx: &mut Cx, input: &'de [u8]) -> R { per_variant!(cx, false, input, |f: XA | DA<A>| (f.a.proj(cx), absent())) }
fn fin_b_x<'de, B: Fld<'de>>(cx: &mut Cx, input: &'de [u8]) -> R { per_variant!(cx, false, input, |f: XB | DB<B>| (absent(), f.b.proj(cx))) }
fn fin_0_x(cx: &mut Cx, input: &[u8]) -> R {
    let r = match cx.v { 0 => from_bytes::<n0::X0>(input).map(|_| ()), 1 => from_bytes::<n1::X0>(input).map(|_| ()), _ => from_bytes::<n2::X0>(input).map(|_| ()) };
    r.map_err(|e| e.to_string()).map(|_| (absent(), absent()))
}
/// the targets that refuse unknown fields (`deny` of the scenario's target): a / b of the form's natural types or left out
fn level_deny<'de>(cx: &mut Cx, ta: &str, tb: &str, input: &'de [u8]) -> Option<R> {
    macro_rules! with_a { ($A:ty) => { match tb {
        "none" => fin_a_x::<$A>(cx, input), "str" => fin_ab_x::<$A, &'de str>(cx, input), "file" => fin_ab_x::<$A, File<'de>>(cx, input),
        "optfile" => fin_ab_x::<$A, Option<File<'de>>>(cx, input), "vecfile" => fin_ab_x::<$A, Vec<File<'de>>>(cx, input), _ => return None } } }
    Some(match ta {
        "none" => match tb { "none" => fin_0_x(cx, input), "str" => fin_b_x::<&'de str>(cx, input), "file" => fin_b_x::<File<'de>>(cx, input),
                             "optfile" => fin_b_x::<Option<File<'de>>>(cx, input), "vecfile" => fin_b_x::<Vec<File<'de>>>(cx, input), _ => return None },
        "str" => with_a!(&'de str), "file" => with_a!(File<'de>), "optfile" => with_a!(Option<File<'de>>), "vecfile" => with_a!(Vec<File<'de>>),
        _ => return None })
}
fn level_b<'de, A: Fld<'de>>(cx: &mut Cx, tb: &str, dflt: bool, input: &'de [u8]) -> Option<R> {
    Some(match tb {
        "none" => fin_a::<A>(cx, dflt, input),
        "str" => fin_ab::<A, &'de str>(cx, dflt, input), "string" => fin_ab::<A, String>(cx, dflt, input),
        "optstr" => fin_ab::<A, Option<&'de str>>(cx, dflt, input), "file" => fin_ab::<A, File<'de>>(cx, dflt, input),
        "optfile" => fin_ab::<A, Option<File<'de>>>(cx, dflt, input), "vecfile" => fin_ab::<A, Vec<File<'de>>>(cx, dflt, input),
        _ => return None })
}
fn level_b_noa<'de>(cx: &mut Cx, tb: &str, dflt: bool, input: &'de [u8]) -> Option<R> {
    Some(match tb {
        "none" => fin_0(cx, input),
        "str" => fin_b::<&'de str>(cx, dflt, input), "string" => fin_b::<String>(cx, dflt, input),
        "optstr" => fin_b::<Option<&'de str>>(cx, dflt, input), "file" => fin_b::<File<'de>>(cx, dflt, input),
        "optfile" => fin_b::<Option<File<'de>>>(cx, dflt, input), "vecfile" => fin_b::<Vec<File<'de>>>(cx, dflt, input),
        _ => return None })
}
fn level_a<'de>(cx: &mut Cx, ta: &str, tb: &str, dflt: bool, input: &'de [u8]) -> Option<R> {
    match ta {
        "none" => level_b_noa(cx, tb, dflt, input),
        "str" => level_b::<&'de str>(cx, tb, dflt, input), "string" => level_b::<String>(cx, tb, dflt, input),
        "optstr" => level_b::<Option<&'de str>>(cx, tb, dflt, input), "file" => level_b::<File<'de>>(cx, tb, dflt, input),
        "optfile" => level_b::<Option<File<'de>>>(cx, tb, dflt, input), "vecfile" => level_b::<Vec<File<'de>>>(cx, tb, dflt, input),
        _ => None }
}

/// short class of a decoder error message (for signatures; the message itself is echoed in `msg`)
pub fn err_class(m: &str) -> String {
    for (pat, c) in [("duplicate field", "duplicate-field"), ("missing field", "missing-field"), ("invalid type", "invalid-type"), ("invalid length", "invalid-length"),
                     ("unknown field", "unknown-field"), ("unknown variant", "unknown-variant"), ("invalid value", "invalid-value"),
                     ("multipart/mixed", "NotSupportedMultipartMixed"), ("Expected a single file", "UnexpectedMultipleFiles"), ("Expected multipart boundary", "ExpectedBoundary"),
                     ("Missing CRLF", "MissingCRLF"), ("Expected file but found", "ExpectedFile"), ("Expected non-file field", "ExpectedNonFileField"),
                     ("Expected `filename", "ExpectedFilename"), ("Expected `Content-Type` or", "ExpectedValidHeader"), ("Expected `form-data", "ExpectedFormdataAndName"),
                     ("Invalid filename", "InvalidFilename"), ("Invalid mime type", "InvalidMimeType"), ("Invalid `name`", "InvalidPartName"), ("Expected a non-file field to be", "NotUTF8NonFileField")] {
        if m.contains(pat) { return c.into() }
    }
    util::clip(m, 40)
}

pub fn concretise(cx: &Cx, wire: &[Value]) -> Result<Vec<u8>, String> {
    let mut bytes = Vec::new();
    for t in wire { let t = t.as_str().ok_or("wire token is not a string")?; if !cx.bytes_of(t, &mut bytes) { return Err(format!("unknown wire token {t:?}")) } }
    Ok(bytes)
}

pub fn run(scn: &Value) -> Value {
    let cv = scn.get("cv").and_then(|v| v.as_u64()).unwrap_or_else(|| scn.get("id").and_then(|v| v.as_u64()).unwrap_or(0));
    let mut cx = Cx::new(cv);
    let bytes = match concretise(&cx, util::arr(&scn["wire"])) { Ok(b) => b, Err(e) => return json!({"kind": "tool-error", "msg": e}) };
    // the decoder borrows from exactly this buffer (no slack behind it that a wild slice could silently stay inside)
    let input: Box<[u8]> = bytes.into_boxed_slice();
    cx.base = input.as_ptr() as usize; cx.len = input.len();
    let (ta, tb, dflt) = (util::s(&scn["target"]["a"]), util::s(&scn["target"]["b"]), scn["target"]["dflt"].as_bool().unwrap_or(false));
    if dflt && (ta == "file" || tb == "file") { return json!({"kind": "tool-error", "msg": "File has no default"}) }
    let hex = util::hex(&input);
    let deny = scn["target"]["deny"].as_bool().unwrap_or(false);
    let Some(r) = (if deny { level_deny(&mut cx, ta, tb, &input) } else { level_a(&mut cx, ta, tb, dflt, &input) }) else { return json!({"kind": "tool-error", "msg": format!("unknown target {ta}/{tb}")}) };
    match r {
        Ok((a, b)) => json!({"kind": "value", "a": a, "b": b, "inrange": cx.inrange, "utf8ok": cx.utf8ok, "where": "", "err": "", "errfield": "", "hex": hex}),
        Err(m) => {
            let m = String::from_utf8_lossy(m.as_bytes()).into_owned();   // never let invalid UTF-8 into the observation line
            // which declared field the message names (serde: duplicate field `x`, missing field `x`)
            let ef = if m.contains(&format!("`{}`", NAMES[cx.v].0)) { "a" } else if m.contains(&format!("`{}`", NAMES[cx.v].1)) { "b" } else { "" };
            json!({"kind": "error", "a": absent(), "b": absent(), "inrange": true, "utf8ok": true, "where": "", "err": err_class(&m), "errfield": ef, "msg": util::clip(&m, 160), "hex": hex})
        }
    }
}

// ------------------------------------------------------------------------------------------------ random scenarios
// Same vocabulary, beyond TLC's bounds: up to 6 parts, contents up to 14 tokens, boundaries up to 5 tokens, any option mix.
// The wire is produced by a second encoder written here; Trace_Multipart re-encodes with EncodeForm and rejects the line
// (tool error) if the two differ, so the specification's encoder stays the authority.
fn hname(h: &str, case: &str) -> String { match case { "lower" => h.to_ascii_lowercase(), "upper" => h.to_ascii_uppercase(), _ => h.to_string() } }
fn contains(h: &[String], n: &[String]) -> bool { n.len() <= h.len() && h.windows(n.len()).any(|w| w == n) }
fn push(w: &mut Vec<String>, ts: &[&str]) { w.extend(ts.iter().map(|s| s.to_string())) }

pub fn encode(form: &[Value], o: &Value) -> Vec<String> {
    let bnd: Vec<String> = util::arr(&o["bnd"]).iter().map(|v| util::s(v).to_string()).collect();
    let case = util::s(&o["hcase"]);
    let (ctfirst, textct, cte, fin) = (o["ctfirst"] == json!(true), o["textct"] == json!(true), o["cte"] == json!(true), o["fin"] == json!(true));
    let mut w: Vec<String> = vec![];
    let dashb = |w: &mut Vec<String>| { push(w, &["-", "-"]); w.extend(bnd.iter().cloned()) };
    for (i, p) in form.iter().enumerate() {
        if i > 0 { push(&mut w, &["CR", "LF"]) }
        dashb(&mut w); push(&mut w, &["CR", "LF"]);
        let file = util::s(&p["kind"]) == "file";
        let mut cd: Vec<String> = vec![hname("Content-Disposition", case)];
        push(&mut cd, &[": ", "form-data", "; ", "name=", "Q", util::s(&p["name"]), "Q"]);
        if file { push(&mut cd, &["; ", "filename=", "Q", util::s(&p["fname"]), "Q"]) }
        push(&mut cd, &["CR", "LF"]);
        let mut ct: Vec<String> = vec![];
        let m = if file { let m = util::s(&p["mt"]); if m == "M0" { None } else { Some(m) } } else if textct { Some("MTXT") } else { None };
        if let Some(m) = m { ct.push(hname("Content-Type", case)); push(&mut ct, &[": ", m, "CR", "LF"]) }
        if ctfirst { w.extend(ct); w.extend(cd) } else { w.extend(cd); w.extend(ct) }
        if cte { w.push(hname("Content-Transfer-Encoding", case)); push(&mut w, &[": ", "binary", "CR", "LF"]) }
        push(&mut w, &["CR", "LF"]);
        w.extend(util::arr(&p["content"]).iter().map(|v| util::s(v).to_string()));
    }
    if !form.is_empty() { push(&mut w, &["CR", "LF"]) }
    dashb(&mut w); push(&mut w, &["-", "-"]);
    if fin { push(&mut w, &["CR", "LF"]) }
    w
}

pub fn gen(rng: &mut Rng, i: usize) -> Value {
    const TA: &[&str] = &["x", "CR", "LF", "-", "NUL", "U8", "b"];
    const TYPES: &[&str] = &["none", "str", "string", "optstr", "file", "optfile", "vecfile"];
    let nb = rng.range(1, 5);
    let mut bnd: Vec<String> = (0..nb).map(|_| if rng.chance(1, 3) { "-" } else { "b" }.to_string()).collect();
    if rng.chance(1, 8) { bnd = vec!["-".into(); nb] }
    let mut dashb = vec!["-".to_string(), "-".to_string()]; dashb.extend(bnd.iter().cloned());
    let nparts = if rng.chance(1, 20) { 0 } else { rng.range(1, 6) };
    let mut form = vec![];
    // a name bias so that runs of same-name files, split runs and mixed shapes all occur
    let bias = rng.below(3);
    for _ in 0..nparts {
        let name = match bias { 0 => "na", 1 => if rng.chance(3, 4) { "na" } else { "nb" }, _ => if rng.chance(1, 2) { "na" } else { "nb" } };
        let file = rng.chance(2, 3);
        let content: Vec<String> = loop {
            let n = match rng.below(6) { 0 => 0, 1 => 1, 2 => 2, 3 => 3, _ => rng.range(4, 14) };
            let mut c: Vec<String> = (0..n).map(|_| if file && rng.chance(1, 9) { "HI" } else { TA[rng.below(TA.len())] }.to_string()).collect();
            // bias towards near-delimiters: CRLF, dashes and boundary letters at the end
            if n >= 2 && rng.chance(1, 3) { let k = rng.range(1, n.min(2 + nb)); let tail: Vec<String> = ["CR", "LF"].iter().map(|s| s.to_string()).chain(dashb.iter().cloned()).take(k).collect(); let l = c.len(); c[l - k..].clone_from_slice(&tail); }
            if !contains(&c, &dashb) { break c }
        };
        if file {
            let conv = rng.chance(1, 6);
            let fname = if conv || rng.chance(1, 8) { "F0" } else if rng.chance(1, 2) { "F1" } else { "F2" };
            let mt = *rng.pick(&["M0", "M1", "M2"]);
            form.push(json!({"kind": "file", "name": name, "fname": fname, "mt": mt, "content": if conv { vec![] } else { content }}));
        } else {
            form.push(json!({"kind": "text", "name": name, "fname": "-", "mt": "-", "content": content}));
        }
    }
    let opts = json!({"bnd": bnd, "hcase": *rng.pick(&["canon", "lower", "upper"]), "ctfirst": rng.chance(1, 2), "textct": rng.chance(1, 2), "cte": rng.chance(1, 3), "fin": rng.chance(1, 2)});
    let dflt = rng.chance(1, 4);
    let ty = |rng: &mut Rng| loop { let t = *rng.pick(TYPES); if !(dflt && t == "file") { break t } };
    let (ta, tb) = (ty(rng), ty(rng));
    let wire = encode(&form, &opts);
    json!({"fam": "random", "form": form, "opts": opts, "target": {"a": ta, "b": tb, "dflt": dflt}, "wire": wire, "cv": (rng.next() % 1_000_000) as u64, "id": i})
}
