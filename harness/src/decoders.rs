//! C08 — totality and memory safety of the network-facing decoders.
//! A scenario {dec, toks, target:{tag}, mut} is concretised (token -> bytes table below, plus an optional seeded byte-level
//! mutation), handed to the REAL decoder for the REAL target type, and every str / slice the decoder yields is checked:
//! range against the input buffer (before the bytes are touched) and UTF-8 validity. Panics / aborts / hangs are turned
//! into observations by the worker framework in main.rs. Nothing here decides: Trace_Decoders.tla does.
use crate::util::{self, Rng};
use ohkami_lib::serde_multipart::File;
use serde::de::IgnoredAny;
use serde::Deserialize;
use serde_json::{json, Value};
use std::borrow::Cow;
use std::collections::{BTreeMap, HashMap};

// ------------------------------------------------------------------------------------------------ checks
pub struct Pcx { base: usize, len: usize, pub inrange: bool, pub utf8ok: bool, pub strs: u32, pub borrowed: u32, check_range: bool }
impl Pcx {
    fn new(buf: &[u8], check_range: bool) -> Self { Pcx { base: buf.as_ptr() as usize, len: buf.len(), inrange: true, utf8ok: true, strs: 0, borrowed: 0, check_range } }
    /// range check without touching the bytes; empty slices are inside by convention
    fn slice(&mut self, p: *const u8, n: usize) -> bool {
        if n == 0 || !self.check_range { return true }
        self.borrowed += 1;
        let a = p as usize;
        let ok = a >= self.base && a.checked_add(n).map_or(false, |e| e <= self.base + self.len);
        if !ok { self.inrange = false }
        ok
    }
    fn borrowed_str(&mut self, s: &str) { self.strs += 1; if self.slice(s.as_ptr(), s.len()) && std::str::from_utf8(s.as_bytes()).is_err() { self.utf8ok = false } }
    fn owned_str(&mut self, s: &str) { self.strs += 1; if s.len() < (1 << 30) && std::str::from_utf8(s.as_bytes()).is_err() { self.utf8ok = false } }
}
pub trait Probe { fn probe(&self, _cx: &mut Pcx) {} }
macro_rules! noprobe { ($($t:ty),*) => { $(impl Probe for $t {})* } }
noprobe!(i8, i16, i32, i64, u8, u16, u32, u64, usize, f32, f64, bool, (), IgnoredAny);
impl Probe for char { fn probe(&self, cx: &mut Pcx) { if char::from_u32(*self as u32).is_none() { cx.utf8ok = false } } }
impl Probe for &str { fn probe(&self, cx: &mut Pcx) { cx.borrowed_str(self) } }
impl Probe for String { fn probe(&self, cx: &mut Pcx) { cx.owned_str(self) } }
impl Probe for Cow<'_, str> { fn probe(&self, cx: &mut Pcx) { match self { Cow::Borrowed(s) => cx.borrowed_str(s), Cow::Owned(s) => cx.owned_str(s) } } }
impl Probe for &[u8] { fn probe(&self, cx: &mut Pcx) { cx.slice(self.as_ptr(), self.len()); } }
impl<T: Probe> Probe for Option<T> { fn probe(&self, cx: &mut Pcx) { if let Some(x) = self { x.probe(cx) } } }
impl<T: Probe> Probe for Vec<T> { fn probe(&self, cx: &mut Pcx) { if self.len() > (1 << 24) { cx.inrange = false; return } for x in self { x.probe(cx) } } }
impl<A: Probe, B: Probe> Probe for (A, B) { fn probe(&self, cx: &mut Pcx) { self.0.probe(cx); self.1.probe(cx) } }
impl<K: Probe, V: Probe> Probe for HashMap<K, V> { fn probe(&self, cx: &mut Pcx) { for (k, v) in self { k.probe(cx); v.probe(cx) } } }
impl<K: Probe, V: Probe> Probe for BTreeMap<K, V> { fn probe(&self, cx: &mut Pcx) { for (k, v) in self { k.probe(cx); v.probe(cx) } } }
impl Probe for File<'_> { fn probe(&self, cx: &mut Pcx) { cx.borrowed_str(self.filename); cx.borrowed_str(self.mimetype); cx.slice(self.content.as_ptr(), self.content.len()); } }

// ------------------------------------------------------------------------------------------------ target catalogue
#[derive(Deserialize)] #[serde(bound(deserialize = "T: Deserialize<'de>"))] pub struct Fa<T> { pub a: T }
impl<T: Probe> Probe for Fa<T> { fn probe(&self, cx: &mut Pcx) { self.a.probe(cx) } }
#[derive(Deserialize)] pub struct F0 {}
impl Probe for F0 {}
#[derive(Deserialize)] pub struct Inner { pub x: u32 }
impl Probe for Inner {}
#[derive(Deserialize)] pub struct S2 { pub a: String, pub b: Option<u32> }
impl Probe for S2 { fn probe(&self, cx: &mut Pcx) { self.a.probe(cx) } }
#[derive(Deserialize)] pub struct M2<'a> { #[serde(borrow)] pub a: Option<File<'a>>, pub b: Option<&'a str> }
impl Probe for M2<'_> { fn probe(&self, cx: &mut Pcx) { self.a.probe(cx); self.b.probe(cx) } }
#[derive(Deserialize)] pub struct US;
impl Probe for US {}
#[derive(Deserialize)] pub enum E { #[serde(rename = "x")] X, A }
impl Probe for E {}
#[derive(Deserialize)] pub enum EN { #[serde(rename = "x")] X(u32), A }
impl Probe for EN {}
#[derive(Deserialize)] pub enum ES { #[serde(rename = "x")] X { v: u32 }, A }
impl Probe for ES { fn probe(&self, _cx: &mut Pcx) { if let ES::X { v } = self { let _ = v; } } }
#[derive(Deserialize)] pub struct N(pub u32);
impl Probe for N {}
#[derive(Deserialize)] pub struct NStr(pub String);
impl Probe for NStr { fn probe(&self, cx: &mut Pcx) { self.0.probe(cx) } }
#[derive(Deserialize)] pub struct TS(pub u8, pub String);
impl Probe for TS { fn probe(&self, cx: &mut Pcx) { self.1.probe(cx) } }
#[derive(Deserialize)] pub struct NS(pub Fa<u32>);
impl Probe for NS {}
#[derive(Deserialize)] pub struct NF<'a>(#[serde(borrow)] pub File<'a>);
impl Probe for NF<'_> { fn probe(&self, cx: &mut Pcx) { self.0.probe(cx) } }
/// a target that asks for `deserialize_byte_buf`
pub struct BB(pub Vec<u8>);
impl Probe for BB {}
impl<'de> Deserialize<'de> for BB {
    fn deserialize<D: serde::Deserializer<'de>>(d: D) -> Result<Self, D::Error> {
        struct V;
        impl<'de> serde::de::Visitor<'de> for V {
            type Value = BB;
            fn expecting(&self, f: &mut std::fmt::Formatter) -> std::fmt::Result { f.write_str("bytes") }
            fn visit_bytes<E: serde::de::Error>(self, v: &[u8]) -> Result<BB, E> { Ok(BB(v.to_vec())) }
            fn visit_byte_buf<E: serde::de::Error>(self, v: Vec<u8>) -> Result<BB, E> { Ok(BB(v)) }
            fn visit_str<E: serde::de::Error>(self, v: &str) -> Result<BB, E> { Ok(BB(v.as_bytes().to_vec())) }
        }
        d.deserialize_byte_buf(V)
    }
}

pub trait Dec { fn dec<'de, T: Deserialize<'de>>(input: &'de [u8]) -> Result<T, String>; }
pub struct Url; pub struct Cki; pub struct Mp;
impl Dec for Url { fn dec<'de, T: Deserialize<'de>>(i: &'de [u8]) -> Result<T, String> { ohkami_lib::serde_urlencoded::from_bytes::<T>(i).map_err(|e| e.to_string()) } }
impl Dec for Cki { fn dec<'de, T: Deserialize<'de>>(i: &'de [u8]) -> Result<T, String> {
    // the Cookie header reaches the decoder as &str; the caller of `run` has made the bytes valid UTF-8
    ohkami_lib::serde_cookie::from_str::<T>(std::str::from_utf8(i).expect("harness: cookie input is UTF-8")).map_err(|e| e.to_string()) } }
impl Dec for Mp { fn dec<'de, T: Deserialize<'de>>(i: &'de [u8]) -> Result<T, String> { ohkami_lib::serde_multipart::from_bytes::<T>(i).map_err(|e| e.to_string()) } }

type Out = Result<(), String>;
fn go<'de, D: Dec, T: Deserialize<'de> + Probe>(input: &'de [u8], cx: &mut Pcx) -> Out { D::dec::<T>(input).map(|v| v.probe(cx)) }

fn by_type<'de, D: Dec + 'static>(field: bool, ty: &str, input: &'de [u8], cx: &mut Pcx) -> Option<Out> {
    macro_rules! g { ($t:ty) => { if field { go::<D, Fa<$t>>(input, cx) } else { go::<D, $t>(input, cx) } } }
    Some(match ty {
        "i8" => g!(i8), "i16" => g!(i16), "i32" => g!(i32), "i64" => g!(i64), "u8" => g!(u8), "u16" => g!(u16), "u32" => g!(u32), "u64" => g!(u64),
        "bool" => g!(bool), "f32" => g!(f32), "f64" => g!(f64), "char" => g!(char),
        "str" => g!(&'de str), "string" => g!(String), "cow" => g!(Cow<'de, str>), "bytes" => g!(&'de [u8]), "bytebuf" => g!(BB),
        "opt_u32" => g!(Option<u32>), "opt_str" => g!(Option<&'de str>), "unit" => g!(()), "unitstruct" => g!(US),
        "enum" => g!(E), "enum_nt" => g!(EN), "enum_st" => g!(ES), "newtype" => g!(N), "newtype_str" => g!(NStr),
        "vec_string" => g!(Vec<String>), "vec_u32" => g!(Vec<u32>), "vec_str" => g!(Vec<&'de str>), "tuple" => g!((u8, String)), "tuplestruct" => g!(TS),
        "map" => g!(HashMap<String, String>), "btreemap_int" => g!(BTreeMap<String, i32>), "nested" => g!(Inner),
        "ignored" => if field { go::<D, F0>(input, cx) } else { go::<D, IgnoredAny>(input, cx) },
        "struct2" => if std::any::TypeId::of::<D>() == std::any::TypeId::of::<Mp>() { go::<D, M2<'de>>(input, cx) } else { go::<D, S2>(input, cx) },
        "opt_struct" => go::<D, Option<Fa<u32>>>(input, cx), "newtype_struct" => go::<D, NS>(input, cx),
        "file" => g!(File<'de>), "opt_file" => g!(Option<File<'de>>), "vec_file" => g!(Vec<File<'de>>), "newtype_file" => g!(NF<'de>),
        _ => return None,
    })
}

// ------------------------------------------------------------------------------------------------ concretisation
struct Tab { one: &'static str, x: &'static str, hi: u8, u8c: &'static str, huge: &'static str, b: &'static str }
fn tab(cv: u64) -> Tab {
    let mut r = Rng::new(cv ^ 0xC08);
    Tab { one: ["1", "7", "0", "42"][r.below(4)], x: ["x", "q", "Zz"][r.below(3)], hi: [0xFFu8, 0x80, 0xC0, 0xF5][r.below(4)], u8c: ["é", "あ"][r.below(2)],
          huge: ["9999999999999999999999999", "18446744073709551616", "36893488147419103233"][r.below(3)], b: ["b", "Xy9"][r.below(2)] }
}
fn mp_head(h: &str, t: &Tab) -> Vec<u8> {
    let cd = "Content-Disposition: form-data; name=\"a\"";
    let s: String = match h {
        "text" => format!("{cd}\r\n\r\n"),
        "file" => format!("{cd}; filename=\"f.txt\"\r\n\r\n"),
        "filect" => format!("{cd}; filename=\"f.txt\"\r\nContent-Type: text/plain\r\n\r\n"),
        "conv" => format!("{cd}; filename=\"\"\r\nContent-Type: application/octet-stream\r\n\r\n"),
        "nocd" => "Content-Type: text/plain\r\n\r\n".into(),
        "noblank" => format!("{cd}\r\n"),
        "badhdr" => ":junk\r\n\r\n".into(),
        "noquote" => "Content-Disposition: form-data; name=a\r\n\r\n".into(),
        "lfonly" => format!("{cd}\n\n"),
        "mixed" => format!("{cd}; filename=\"f.txt\"\r\nContent-Type: multipart/mixed\r\n\r\n"),
        "hiname" => { let mut v = b"Content-Disposition: form-data; name=\"".to_vec(); v.push(t.hi); v.extend_from_slice(b"\"\r\n\r\n"); return v }
        "nofnquote" => format!("{cd}; filename=f.txt\r\n\r\n"),
        "openquote" => "Content-Disposition: form-data; name=\"a\r\n\r\n".into(),
        "ctnoval" => format!("{cd}; filename=\"f.txt\"\r\nContent-Type\r\n\r\n"),
        "truncq" => "Content-Disposition: form-data; name=\"na".into(),
        "truncbs" => "Content-Disposition: form-data; name=\"na\\".into(),
        "fntruncbs" => format!("{cd}; filename=\"f\\"),
        "escq" => "Content-Disposition: form-data; name=\"a\\\"b\\\\c\"\r\n\r\n".into(),
        "bsend" => "Content-Disposition: form-data; name=\"a\\\"\r\n\r\n".into(),
        _ => return vec![],
    };
    s.into_bytes()
}
fn bytes_of(dec: &str, tok: &str, t: &Tab, out: &mut Vec<u8>) -> bool {
    if dec == "multipart" {
        if let Some(h) = tok.strip_prefix("P:") { out.extend_from_slice(b"--"); out.extend_from_slice(t.b.as_bytes()); out.extend_from_slice(b"\r\n"); let v = mp_head(h, t); if v.is_empty() { return false } out.extend(v); return true }
        if let Some(h) = tok.strip_prefix("N:") { out.extend_from_slice(b"\r\n"); let v = mp_head(h, t); if v.is_empty() { return false } out.extend(v); return true }
        match tok {
            "D" => { out.extend_from_slice(b"\r\n--"); out.extend_from_slice(t.b.as_bytes()); return true }
            "D:other" => { out.extend_from_slice(b"\r\n--c0"); return true }
            "B" => { out.extend_from_slice(b"--"); out.extend_from_slice(t.b.as_bytes()); return true }
            "END" => { out.extend_from_slice(b"--"); return true }
            _ => {}
        }
    }
    let s: &str = match tok {
        "ka" => "a", "kz" => "zz", "n" => "sid", "v" => "v", "=" | "&" | "; " | ";" | " " | "," | "-" | "." | "+" | "/" | "(" | "%" | "%4" | "%G1" | "%FF" | "%C3" | "%41" | "%C3%A9" | "%00" | "%2F" | "e" | "c"
            | "true" | "Max-Age=" | "max-age=" | "Max-Age" | "Path=" | "Expires=" | "Domain=" | "Secure" | "HttpOnly" | "SameSite=" | "Lax" | "Foo" => tok,
        "1" => t.one, "x" => t.x, "U8" => t.u8c, "DQ" => "\"", "CRLF" => "\r\n", "CR" => "\r", "LF" => "\n", "NUL" => "\0",
        "HUGE" => t.huge, "9x20" => "99999999999999999999",
        "LONG" => { for _ in 0..90 { out.extend_from_slice(b"%E3%81%82") } return true }
        _ if tok.starts_with("DEEP:") => { let piece = tok[5..].as_bytes(); let n = if piece.len() == 1 { 200_000 } else { 100_000 }; for _ in 0..n { out.extend_from_slice(piece) } return true }
        "HI" => { out.push(t.hi); return true }
        _ => return false,
    };
    out.extend_from_slice(s.as_bytes()); true
}
const SPECIALS: &[u8] = b"%=&;,\" \r\n\0-+/:\xFF\x80\xC3(";
fn mutate(b: &mut Vec<u8>, seed: u64) {
    let mut r = Rng::new(seed ^ 0x6d7574);
    for _ in 0..r.range(1, 2) {
        match r.below(6) {
            0 if !b.is_empty() => { let i = r.below(b.len()); b[i] = (r.next() & 0xFF) as u8 }
            1 if !b.is_empty() => { let i = r.below(b.len()); b.remove(i); }
            2 if !b.is_empty() => { let i = r.below(b.len()); let c = b[i]; b.insert(i, c) }
            3 => { let i = r.below(b.len() + 1); b.insert(i, SPECIALS[r.below(SPECIALS.len())]) }
            4 if !b.is_empty() => { let k = r.below(b.len()); b.truncate(k) }
            _ if !b.is_empty() => { let i = r.below(b.len()); b[i] ^= 1 << r.below(8) }
            _ => b.push(SPECIALS[r.below(SPECIALS.len())]),
        }
    }
}

fn err_class(m: &str) -> String { util::clip(&crate::multipart::err_class(m), 40) }
fn finish(r: Out, cx: &Pcx, input: &[u8], maxage: &str) -> Value {
    // an error message is a yielded string too: validate it, and never let invalid UTF-8 into the observation line
    let (kind, raw): (&str, &[u8]) = match &r { Ok(()) => ("value", b""), Err(m) => ("error", m.as_bytes()) };
    let utf8ok = cx.utf8ok && std::str::from_utf8(raw).is_ok();
    let msg = String::from_utf8_lossy(raw).into_owned();
    let err = if kind == "error" { err_class(&msg) } else { String::new() };
    json!({"kind": kind, "utf8ok": utf8ok, "inrange": cx.inrange, "maxage": maxage, "where": "", "err": err, "msg": util::clip(&msg, 120),
           "strs": cx.strs, "borrowed": cx.borrowed, "hex": util::hex(&input[..input.len().min(400)])})
}

fn run_setcookie(input: &[u8]) -> Value {
    // SetCookie::from_raw is crate-private; the public route is the response-header builder whose output
    // `Headers::SetCookie()` parses back. The builder writes name "=" percent_encode(value) [ "; Path=" path ] verbatim, so:
    //   W = name "=" alnum* [ "; " rest ]  is delivered exactly as  name=alnum; Path=/; rest   (directive-level inputs)
    //   any other W is delivered as  W "="                                                     (name/value-level inputs)
    let w = String::from_utf8_lossy(input).into_owned();
    let (name, value, path): (String, String, Option<String>) = (|| {
        if let Some(i) = w.find('=') {
            let rest = &w[i + 1..];
            let (val, dirs) = match rest.find("; ") { Some(j) => (&rest[..j], Some(&rest[j + 2..])), None => (rest, None) };
            if val.bytes().all(|c| c.is_ascii_alphanumeric()) { return (w[..i].to_string(), val.to_string(), dirs.map(|d| format!("/; {d}"))) }
        }
        (w.clone(), String::new(), None)
    })();
    let raw = format!("{}={}{}", name, value, path.as_ref().map(|p| format!("; Path={p}")).unwrap_or_default());
    let mut res = ohkami::Response::OK();
    let name: &'static str = util::leak(name);
    res.headers.set().SetCookie(name, value, |d| match path { Some(p) => d.Path(p), None => d });
    let mut cx = Pcx::new(raw.as_bytes(), false);
    let mut maxage = "-".to_string();
    let mut n = 0;
    for c in res.headers.SetCookie() {
        n += 1;
        let (k, v) = c.Cookie(); cx.owned_str(k); cx.owned_str(v);
        for s in [c.Expires(), c.Domain(), c.Path(), c.SameSite()].into_iter().flatten() { cx.owned_str(s) }
        if let Some(m) = c.MaxAge() { maxage = m.to_string() }
    }
    let r: Out = if n > 0 { Ok(()) } else { Err("Set-Cookie refused".into()) };
    finish(r, &cx, raw.as_bytes(), &maxage)
}

fn deliverable_in_request_line(b: &[u8]) -> bool { b.iter().all(|&c| c > 0x20 && c != 0x7f && c != b'?' && c != b'#') }
fn run_request(tag: &str, input: &[u8]) -> Value {
    if !deliverable_in_request_line(input) || input.len() > 600 {
        let cx = Pcx::new(input, false);
        return finish(Err("not deliverable inside a request line".into()), &cx, input, "-")
    }
    let mut req = b"GET /".to_vec();
    if tag == "query.iter" { req.extend_from_slice(b"p?") }
    req.extend_from_slice(input); req.extend_from_slice(b" HTTP/1.1\r\nHost: x\r\n\r\n");
    let mut vr = ohkami::__verif::VRequest::new();
    let mut rd = util::ScriptedReader::new(vec![req]);
    let got = util::block_on(vr.read(&mut rd));
    let mut cx = Pcx::new(input, false);
    let r: Out = match got {
        Ok(Some(())) => {
            let rq = vr.get();
            if tag == "query.iter" { for (k, v) in rq.query.iter() { k.probe(&mut cx); v.probe(&mut cx) } }
            else { let s = rq.path.str(); s.probe(&mut cx); let _ = format!("{:?}", rq.path); }
            Ok(())
        }
        Ok(None) => Err("connection closed".into()),
        Err(res) => Err(format!("refused with status {}", res.status.code())),
    };
    finish(r, &cx, input, "-")
}

fn run_pct(tag: &str, input: &[u8]) -> Value {
    use ohkami::FromParam;
    if tag == "path.str" || tag == "query.iter" { return run_request(tag, input) }
    let mut cx = Pcx::new(input, true);
    macro_rules! p { ($t:ty) => { match <$t as FromParam>::from_raw_param(input) { Ok(v) => { v.probe(&mut cx); Ok(()) } Err(res) => Err(format!("param refused with status {}", res.status.code())) } } }
    let r: Out = match tag {
        "decode_utf8" => match ohkami_lib::percent_decode_utf8(input) { Ok(c) => { c.probe(&mut cx); Ok(()) } Err(e) => Err(e.to_string()) },
        "decode" => { match ohkami_lib::percent_decode(input) { Cow::Borrowed(b) => { cx.slice(b.as_ptr(), b.len()); } Cow::Owned(_) => {} } Ok(()) }
        "param:string" => p!(String), "param:cow" => p!(Cow<'_, str>), "param:str" => p!(&str),
        "param:u8" => p!(u8), "param:u16" => p!(u16), "param:u32" => p!(u32), "param:u64" => p!(u64), "param:usize" => p!(usize),
        "param:i8" => p!(i8), "param:i16" => p!(i16), "param:i32" => p!(i32), "param:i64" => p!(i64),
        _ => return json!({"kind": "tool-error", "msg": format!("unknown pct target {tag}")}),
    };
    finish(r, &cx, input, "-")
}

thread_local! { static LAST: std::cell::RefCell<Vec<u8>> = const { std::cell::RefCell::new(Vec::new()) }; }
/// Panics are caught here (not only by the worker framework) because a panic message of these decoders can itself carry
/// invalid UTF-8 (it quotes the string the decoder built); the observation line must stay valid UTF-8.
pub fn run(scn: &Value) -> Value {
    static HOOK: std::sync::Once = std::sync::Once::new();
    HOOK.call_once(|| std::panic::set_hook(Box::new(|info| {
        let loc = info.location().map(|l| format!("{}:{}", l.file(), l.line())).unwrap_or_default();
        let msg: Vec<u8> = if let Some(s) = info.payload().downcast_ref::<&str>() { s.as_bytes().to_vec() }
                           else if let Some(s) = info.payload().downcast_ref::<String>() { s.as_bytes().to_vec() } else { b"?".to_vec() };
        let mut m = loc.into_bytes(); m.extend_from_slice(b": "); m.extend_from_slice(&msg[..msg.len().min(300)]);
        LAST.with(|p| *p.borrow_mut() = m);
    })));
    match std::panic::catch_unwind(std::panic::AssertUnwindSafe(|| run_inner(scn))) {
        Ok(v) => v,
        Err(_) => {
            let raw = LAST.with(|p| p.borrow().clone());
            let m = String::from_utf8_lossy(&raw).into_owned();
            json!({"kind": "panic", "where": util::panic_site(&m), "msg": util::clip(&m, 200), "msgutf8": std::str::from_utf8(&raw).is_ok()})
        }
    }
}
fn run_inner(scn: &Value) -> Value {
    let dec = util::s(&scn["dec"]);
    let tag = util::s(&scn["target"]["tag"]);
    let cv = scn.get("cv").and_then(|v| v.as_u64()).unwrap_or(0);
    let t = tab(cv);
    let mut bytes = vec![];
    for tk in util::arr(&scn["toks"]) { if !bytes_of(dec, util::s(tk), &t, &mut bytes) { return json!({"kind": "tool-error", "msg": format!("unknown token {tk} for {dec}")}) } }
    let m = scn.get("mut").and_then(|v| v.as_u64()).unwrap_or(0);
    if m != 0 { mutate(&mut bytes, m) }
    if dec == "cookie" { bytes = String::from_utf8_lossy(&bytes).into_owned().into_bytes() }
    // exact-size allocation: nothing of ours lies behind the input
    let input: Box<[u8]> = bytes.into_boxed_slice();
    match dec {
        "setcookie" => run_setcookie(&input),
        "pct" => run_pct(tag, &input),
        "urlenc" | "cookie" | "multipart" => {
            let (pos, ty) = tag.split_once(':').unwrap_or(("", ""));
            let mut cx = Pcx::new(&input, true);
            let r = match dec { "urlenc" => by_type::<Url>(pos == "f", ty, &input, &mut cx), "cookie" => by_type::<Cki>(pos == "f", ty, &input, &mut cx), _ => by_type::<Mp>(pos == "f", ty, &input, &mut cx) };
            match r { Some(r) => finish(r, &cx, &input, "-"), None => json!({"kind": "tool-error", "msg": format!("unknown target {tag}")}) }
        }
        _ => json!({"kind": "tool-error", "msg": format!("unknown decoder {dec}")}),
    }
}

// ------------------------------------------------------------------------------------------------ random scenarios
// token strings drawn without regard to the grammar (length <= 12), any target of the decoder, mostly with a byte-level mutation
const KV_TYPES: &[&str] = &["i8", "i16", "i32", "i64", "u8", "u16", "u32", "u64", "bool", "f32", "f64", "char", "str", "string", "cow", "bytes", "bytebuf", "opt_u32", "opt_str",
    "unit", "unitstruct", "enum", "enum_nt", "enum_st", "newtype", "newtype_str", "vec_string", "vec_u32", "tuple", "tuplestruct", "map", "ignored"];
const MP_TAGS: &[&str] = &["f:str", "f:string", "f:opt_str", "f:file", "f:opt_file", "f:vec_file", "f:u32", "f:bool", "f:ignored", "f:vec_str", "f:newtype_file", "f:enum", "f:unit",
    "f:bytes", "f:char", "f:f64", "f:tuple", "f:map", "t:map", "t:file", "t:u32", "t:string", "t:vec_file", "t:opt_struct", "t:unit", "t:ignored", "t:struct2"];
const PCT_TAGS: &[&str] = &["decode_utf8", "decode", "path.str", "query.iter", "param:string", "param:cow", "param:str", "param:u8", "param:u16", "param:u32", "param:u64", "param:usize",
    "param:i8", "param:i16", "param:i32", "param:i64"];
pub fn gen(rng: &mut Rng, i: usize) -> Value {
    let dec = *rng.pick(&["urlenc", "urlenc", "cookie", "cookie", "multipart", "multipart", "setcookie", "pct"]);
    let toks: &[&str] = match dec {
        "urlenc" => &["ka", "kz", "=", "&", "1", "x", "true", ",", "%41", "LONG", "-", ".", "+", "%C3%A9", "e", "%", "%4", "%G1", "%FF", "%C3", "HI", "NUL"],
        "cookie" => &["ka", "kz", "=", "; ", ";", " ", "1", "x", "true", "%41", "LONG", "-", ".", "%C3%A9", "DQ", "%", "%G1", "%FF", "%C3", "U8", "&", "("],
        "multipart" => &["P:text", "P:file", "P:filect", "P:conv", "P:nocd", "P:noblank", "P:badhdr", "P:noquote", "P:lfonly", "P:mixed", "P:hiname", "P:nofnquote", "P:openquote", "P:ctnoval", "P:truncq", "P:truncbs", "P:fntruncbs", "P:escq", "P:bsend", "N:truncbs", "N:fntruncbs",
                         "N:text", "N:file", "N:filect", "N:conv", "N:nocd", "N:noblank", "N:lfonly", "N:openquote", "c", "CR", "LF", "-", "HI", "D", "D", "D", "D:other", "B", "END", "END", "CRLF"],
        "setcookie" => &["n", "=", "v", "%41", "DQ", "%C3%A9", "; ", ";", "%FF", "%", "%G1", "Max-Age=", "max-age=", "Max-Age", "1", "x", " ", "-", "HUGE", "HI", "Path=", "Expires=", "Domain=", "/", "Secure", "HttpOnly", "SameSite=", "Lax", "Foo"],
        _ => &["x", "1", "%41", "%C3%A9", "-", "%2F", "+", "%", "%4", "%G1", "%FF", "%C3", "%00", "HI", "9x20"],
    };
    let n = rng.below(13);
    let mut ts: Vec<&str> = (0..n).map(|_| *rng.pick(toks)).collect();
    // half of the multipart strings start like a body so that the later tokens are reached
    if dec == "multipart" && rng.chance(1, 2) && !ts.is_empty() { ts[0] = *rng.pick(&["P:text", "P:file", "P:conv", "P:filect"]) }
    if (dec == "urlenc" || dec == "cookie") && rng.chance(1, 2) && ts.len() >= 2 { ts[0] = "ka"; ts[1] = "=" }
    let tag: String = match dec {
        "urlenc" | "cookie" => match rng.below(12) { 0 => "f:nested".into(), 1 => "t:struct2".into(), 2 => "t:btreemap_int".into(), 3 => "t:opt_struct".into(), 4 => "t:newtype_struct".into(),
                                                       _ => format!("{}:{}", if rng.chance(2, 3) { "f" } else { "t" }, rng.pick(KV_TYPES)) },
        "multipart" => rng.pick(MP_TAGS).to_string(),
        "setcookie" => "headers".into(),
        _ => rng.pick(PCT_TAGS).to_string(),
    };
    let m = if rng.chance(2, 3) { 1 + (rng.next() % 1_000_000) } else { 0 };
    json!({"dec": dec, "toks": ts, "faults": ["Random"], "target": {"tag": tag, "cls": "?"}, "mut": m, "cv": rng.next() % 1000, "id": i})
}
