//! TIMERS (specs/Timers.tla) — the time-dependent behaviour of one connection served by the REAL Session::manage over
//! loopback TCP: the session deadline (OHKAMI_KEEPALIVE_TIMEOUT, one deadline for the whole session) and the builtin
//! `Timeout` fang (app / mounted app / local level, nested).
//!
//! Scenario (vocabulary of specs/Timers.tla, times in ticks of UNIT_MS = 100 ms):
//!   {"S": session deadline in ticks (a multiple of 10: the env var is in seconds),
//!    "app": [layer..], "sub": [layer..]           fangs of the outer app / of the app mounted at /m
//!    "conn": [{"at": tick at which the client sends the request (absolute, from the accept), "mnt": 0|1 (route of the mounted app),
//!              "loc": [layer..] local fangs of the route, "script": [d..] handler = (sleep d, log point)*, "close": 0|1}..],
//!    "fin": tick at which the client shuts its writing side down (0 = never: it waits for the server to close)}
//!   layer = {"k":"T","d":ticks,...}  the builtin Timeout fang   |  {"k":"L","id":n,"pre":ticks,"post":ticks} a logging fang that
//!           sleeps `pre` before and `post` after its inner part.
//! Observation: {"kind":"timers","sv":[{t,e,a,b}..] server side events in real order (H4 hooks parsed/handled/sent/close/rejected,
//!   fang enter/leave/fdrop, handler hstart/hpoint/hend/hdrop), "cl":[..] client side events (send/resp/eof), "jit": the largest
//!   lateness (ms) of a 5 ms metronome task that ran on the same runtime thread during the scenario, "lin": events after the end}
//! `t` is in milliseconds since the session task was spawned.
use crate::util::{self, arr, i, s, Rng};
use ohkami::__verif as v;
use ohkami::fang::Timeout;
use ohkami::prelude::*;
use serde_json::{json, Value};
use std::sync::{Arc, Mutex};
use std::time::{Duration, Instant};

pub const UNIT_MS: u64 = 100;

struct Sink { t0: Instant, ev: Vec<(u64, &'static str, &'static str, i64, i64)> }
static SINK: Mutex<Option<Sink>> = Mutex::new(None);
fn ev(src: &'static str, k: &'static str, a: i64, b: i64) {
    if let Some(sink) = SINK.lock().unwrap().as_mut() {
        let t = sink.t0.elapsed().as_millis() as u64;
        sink.ev.push((t, src, k, a, b))
    }
}
fn emit(k: &'static str, a: usize, b: usize) {
    match k { "parsed" | "handled" | "sent" | "close" | "rejected" => ev("sv", k, a as i64, b as i64), _ => ev("rd", k, a as i64, b as i64) }
}

/// logs `what` when dropped before `done` was set: the frame was cancelled at an await point
struct Guard { what: &'static str, id: i64, done: bool }
impl Drop for Guard { fn drop(&mut self) { if !self.done { ev("sv", self.what, self.id, 0) } } }

fn ticks(n: i64) -> Duration { Duration::from_millis(n.max(0) as u64 * UNIT_MS) }

#[derive(Clone)]
pub enum VFang { Log { id: i64, pre: i64, post: i64 }, Time(Timeout) }
pub enum VProc<I: ohkami::FangProc> { Log { id: i64, pre: i64, post: i64, inner: I }, Time(<Timeout as ohkami::Fang<I>>::Proc) }
impl<I: ohkami::FangProc> ohkami::Fang<I> for VFang {
    type Proc = VProc<I>;
    fn chain(&self, inner: I) -> Self::Proc {
        match self {
            VFang::Log { id, pre, post } => VProc::Log { id: *id, pre: *pre, post: *post, inner },
            VFang::Time(t) => VProc::Time(<Timeout as ohkami::Fang<I>>::chain(t, inner)),      // the REAL builtin fang
        }
    }
}
impl<I: ohkami::FangProc> ohkami::FangProc for VProc<I> {
    async fn bite<'b>(&'b self, req: &'b mut Request) -> Response {
        match self {
            VProc::Time(p) => p.bite(req).await,
            VProc::Log { id, pre, post, inner } => {
                let mut g = Guard { what: "fdrop", id: *id, done: false };
                ev("sv", "enter", *id, 0);
                if *pre > 0 { tokio::time::sleep(ticks(*pre)).await }
                let res = inner.bite(req).await;
                if *post > 0 { tokio::time::sleep(ticks(*post)).await }
                ev("sv", "leave", *id, 0);
                g.done = true;
                res
            }
        }
    }
}

/// >= 2 concrete constructors per abstract duration
fn layer(l: &Value, seed: u64) -> VFang {
    if s(&l["k"]) == "T" {
        let ms = i(&l["d"]).max(0) as u64 * UNIT_MS;
        VFang::Time(match seed % 3 {
            0 => Timeout::by_millis(ms),
            1 => Timeout::by(Duration::from_micros(ms * 1000)),
            _ => if ms % 1000 == 0 { Timeout::by_secs(ms / 1000) } else { Timeout::by_secs_f64(ms as f64 / 1000.0) },
        })
    } else { VFang::Log { id: i(&l["id"]), pre: i(&l["pre"]), post: i(&l["post"]) } }
}
fn layers(ls: &Value, seed: u64) -> Vec<VFang> { arr(ls).iter().enumerate().map(|(n, l)| layer(l, seed / 2 + n as u64)).collect() }

async fn handler(k: i64, script: Arc<Vec<i64>>) -> String {
    let mut g = Guard { what: "hdrop", id: k, done: false };
    ev("sv", "hstart", k, 0);
    for (j, d) in script.iter().enumerate() {
        tokio::time::sleep(ticks(*d)).await;
        ev("sv", "hpoint", k, j as i64 + 1);
    }
    ev("sv", "hend", k, 0);
    g.done = true;
    format!("h{k}")
}

fn ohkami_with(f: &[VFang]) -> Ohkami {
    match f.len() {
        0 => Ohkami::new(()),
        1 => Ohkami::with((f[0].clone(),), ()),
        2 => Ohkami::with((f[0].clone(), f[1].clone()), ()),
        3 => Ohkami::with((f[0].clone(), f[1].clone(), f[2].clone()), ()),
        _ => Ohkami::with((f[0].clone(), f[1].clone(), f[2].clone(), f[3].clone()), ()),
    }
}

fn build(scn: &Value, seed: u64) -> (v::VRouter, Vec<Vec<u8>>) {
    let mut outer = ohkami_with(&layers(&scn["app"], seed));
    let mut sub = ohkami_with(&layers(&scn["sub"], seed + 7));
    let mut raws = vec![];
    let mut any_sub = false;
    for (n, r) in arr(&scn["conn"]).iter().enumerate() {
        let k = n as i64 + 1;
        let mnt = i(&r["mnt"]) == 1;
        let post = (seed + n as u64) % 2 == 1;
        let lit = util::leak(format!("/r{k}"));
        let script = Arc::new(arr(&r["script"]).iter().map(i).collect::<Vec<i64>>());
        let loc = layers(&r["loc"], seed + 13 * k as u64);
        let mut hs = v::handler_set(lit);
        macro_rules! reg { ($m:ident) => {{ let sc = script.clone(); let h = move || { let sc = sc.clone(); async move { handler(k, sc).await } };
            hs = match loc.len() {
                0 => hs.$m(h),
                1 => hs.$m((loc[0].clone(), h)),
                2 => hs.$m((loc[0].clone(), loc[1].clone(), h)),
                _ => hs.$m((loc[0].clone(), loc[1].clone(), loc[2].clone(), h)),
            } }} }
        if post { reg!(POST) } else { reg!(GET) }
        if mnt { v::apply_handlers(&mut sub, hs); any_sub = true } else { v::apply_handlers(&mut outer, hs) }
        let close = if i(&r["close"]) == 1 { if seed % 2 == 0 { "Connection: close\r\n" } else { "Connection: Close\r\n" } } else { "" };
        raws.push(format!("{} {}/r{k} HTTP/1.1\r\nHost: x\r\n{}{}\r\n", if post { "POST" } else { "GET" }, if mnt { "/m" } else { "" },
                          close, if post { "Content-Length: 0\r\n" } else { "" }).into_bytes());
    }
    if any_sub || !arr(&scn["sub"]).is_empty() { v::apply_by(&mut outer, v::by_another("/m", sub)) }
    (v::finalize(outer), raws)
}

pub fn run(scn: &Value) -> Value {
    use tokio::io::{AsyncReadExt, AsyncWriteExt};
    let seed = scn["seed"].as_u64().unwrap_or_else(|| scn["id"].as_u64().unwrap_or(0));
    let sdl = i(&scn["S"]);
    if sdl <= 0 || (sdl as u64 * UNIT_MS) % 1000 != 0 { return json!({"kind": "tool-error", "why": "S must be a positive whole number of seconds"}) }
    let secs = (sdl as u64 * UNIT_MS / 1000).to_string();
    // the value is read once per process (LazyLock in ohkami/src/config.rs): one worker process serves one value only
    match std::env::var("OHKAMI_KEEPALIVE_TIMEOUT") {
        Ok(cur) if cur != secs => return json!({"kind": "tool-error", "why": "this worker process already runs with another OHKAMI_KEEPALIVE_TIMEOUT"}),
        Ok(_) => {}
        Err(_) => std::env::set_var("OHKAMI_KEEPALIVE_TIMEOUT", &secs),
    }
    if scn.get("probe_big").is_some() { return run_big(scn) }
    let (router, raws) = build(scn, seed);
    let ats: Vec<i64> = arr(&scn["conn"]).iter().map(|r| i(&r["at"])).collect();
    let fin = i(&scn["fin"]);
    v::install_emit(emit);
    let (jit, lin) = util::block_on(async move {
        let l = tokio::net::TcpListener::bind("127.0.0.1:0").await.unwrap();
        let addr = l.local_addr().unwrap();
        let (c, sv) = tokio::join!(tokio::net::TcpStream::connect(addr), l.accept());
        let (c, (sv, peer)) = (c.unwrap(), sv.unwrap());
        c.set_nodelay(true).ok();
        let (mut rd, mut wr) = c.into_split();
        let t0 = Instant::now();
        *SINK.lock().unwrap() = Some(Sink { t0, ev: vec![] });
        let server = tokio::spawn(async move { v::session(&router, sv, peer.ip()).await; ev("sv", "returned", 0, 0) });
        // metronome: how late does this thread wake a 5 ms sleeper while the scenario runs?
        let worst = Arc::new(std::sync::atomic::AtomicU64::new(0));
        let metro = { let worst = worst.clone(); tokio::spawn(async move {
            loop {
                let a = Instant::now();
                tokio::time::sleep(Duration::from_millis(5)).await;
                let late = a.elapsed().as_millis().saturating_sub(5) as u64;
                worst.fetch_max(late, std::sync::atomic::Ordering::Relaxed);
            } }) };
        let writer = tokio::spawn(async move {
            for (n, raw) in raws.iter().enumerate() {
                tokio::time::sleep_until(tokio::time::Instant::from_std(t0 + ticks(ats[n]))).await;
                ev("cl", "send", n as i64 + 1, 0);
                if wr.write_all(raw).await.is_err() { ev("cl", "send-failed", n as i64 + 1, 0); return wr }
            }
            if fin > 0 {
                tokio::time::sleep_until(tokio::time::Instant::from_std(t0 + ticks(fin))).await;
                ev("cl", "fin", 0, 0);
                let _ = wr.shutdown().await;
            }
            wr
        });
        // reader: every complete response, then the end of the stream
        let mut got: Vec<u8> = vec![]; let mut buf = vec![0u8; 65536];
        let horizon = t0 + ticks(sdl) + Duration::from_millis(1500);
        loop {
            loop {
                let p = util::parse_response(&got, false);
                if p.error.is_empty() && p.consumed > 0 {
                    let body = String::from_utf8_lossy(&p.body).into_owned();
                    let code = if body == "timeout" { 0 } else if let Some(k) = body.strip_prefix('h').and_then(|x| x.parse::<i64>().ok()) { k } else { -1 };
                    ev("cl", "resp", p.status as i64, code);
                    got.drain(..p.consumed);
                } else { break }
            }
            match tokio::time::timeout_at(tokio::time::Instant::from_std(horizon), rd.read(&mut buf)).await {
                Ok(Ok(0)) => { ev("cl", "eof", got.len() as i64, 0); break }
                Ok(Err(_)) => { ev("cl", "eof", got.len() as i64, 1); break }
                Err(_) => { ev("cl", "still-open", got.len() as i64, 0); break }
                Ok(Ok(m)) => got.extend_from_slice(&buf[..m]),
            }
        }
        let _ = tokio::time::timeout(Duration::from_millis(1000), server).await;
        let mark = SINK.lock().unwrap().as_ref().map(|s| s.ev.len()).unwrap_or(0);
        // linger: anything that still runs after the session is over (a cancelled handler must not) shows up here
        tokio::time::sleep(Duration::from_millis(300)).await;
        writer.abort(); metro.abort();
        let _ = writer.await;
        (worst.load(std::sync::atomic::Ordering::Relaxed), mark)
    });
    let sink = SINK.lock().unwrap().take().unwrap();
    let rec = |e: &(u64, &'static str, &'static str, i64, i64)| json!({"t": e.0 as i64, "e": e.2, "a": e.3, "b": e.4});
    let sv: Vec<Value> = sink.ev.iter().take(lin).filter(|e| e.1 == "sv").map(rec).collect();
    let cl: Vec<Value> = sink.ev.iter().take(lin).filter(|e| e.1 == "cl").map(rec).collect();
    let late: Vec<Value> = sink.ev.iter().skip(lin).filter(|e| e.1 == "sv").map(rec).collect();
    let reads = sink.ev.iter().filter(|e| e.1 == "rd").count();
    json!({"kind": "timers", "sv": sv, "cl": cl, "late": late, "reads": reads as i64, "jit": jit as i64, "unit": UNIT_MS as i64})
}

/// Experiment for notes/TIMERS.md (not judged by the specification): a response that is larger than the socket buffers is being written
/// when the session deadline expires, because the client does not read.  {"S":10,"probe_big":megabytes}
fn run_big(scn: &Value) -> Value {
    use tokio::io::{AsyncReadExt, AsyncWriteExt};
    let sdl = i(&scn["S"]); let mb = i(&scn["probe_big"]).max(1) as usize;
    let mut o = Ohkami::new(());
    v::apply_handlers(&mut o, v::handler_set("/big").GET(move || async move { ev("sv", "hend", 1, 0); "x".repeat(mb << 20) }));
    let router = v::finalize(o);
    v::install_emit(emit);
    let (received, head, eof_t, reset) = util::block_on(async move {
        let l = tokio::net::TcpListener::bind("127.0.0.1:0").await.unwrap();
        let addr = l.local_addr().unwrap();
        let (c, sv) = tokio::join!(tokio::net::TcpStream::connect(addr), l.accept());
        let (mut c, (sv, peer)) = (c.unwrap(), sv.unwrap());
        let t0 = Instant::now();
        *SINK.lock().unwrap() = Some(Sink { t0, ev: vec![] });
        let server = tokio::spawn(async move { v::session(&router, sv, peer.ip()).await; ev("sv", "returned", 0, 0) });
        c.write_all(b"GET /big HTTP/1.1\r\nHost: x\r\n\r\n").await.unwrap();
        tokio::time::sleep_until(tokio::time::Instant::from_std(t0 + ticks(sdl) + Duration::from_millis(500))).await;
        let mut got = 0usize; let mut head = String::new(); let mut buf = vec![0u8; 1 << 16]; let mut reset = 0;
        loop { match c.read(&mut buf).await {
            Ok(0) => break, Err(_) => { reset = 1; break }
            Ok(m) => { if got == 0 { head = String::from_utf8_lossy(&buf[..m.min(120)]).into_owned() } got += m } } }
        let eof_t = t0.elapsed().as_millis() as i64;
        let _ = tokio::time::timeout(Duration::from_millis(500), server).await;
        (got, head, eof_t, reset)
    });
    let sink = SINK.lock().unwrap().take().unwrap();
    let sv: Vec<Value> = sink.ev.iter().filter(|e| e.1 == "sv").map(|e| json!({"t": e.0 as i64, "e": e.2, "a": e.3, "b": e.4})).collect();
    json!({"kind": "bigwrite", "body_bytes": (mb << 20) as i64, "received_bytes": received as i64, "head": head, "sv": sv, "client_read_until_ms": eof_t, "reset": reset})
}

/// random scenarios in the same vocabulary, beyond TLC's bounds: deeper onions (up to 3 fangs per level, nested Timeouts),
/// longer scripts, up to 4 requests, pipelined sends.  Robustness (every instant >= 2 ticks away from every deadline it is
/// compared with) is NOT decided here: the driver keeps a random scenario only if the specification's `Robust` says so.
pub fn gen(rng: &mut Rng, idx: usize) -> Value {
    let sdl = if rng.chance(1, 2) { 10 } else { 20 };
    let mut next_id = 0;
    let mut mk_layers = |rng: &mut Rng, max: usize| -> Vec<Value> {
        (0..rng.below(max + 1)).map(|_| if rng.chance(1, 2) {
            json!({"k": "T", "id": 0, "d": *rng.pick(&[0, 2, 3, 4, 5, 6, 8, 12]), "pre": 0, "post": 0})
        } else { next_id += 1; json!({"k": "L", "id": next_id, "d": 0, "pre": *rng.pick(&[0, 0, 1, 2, 3]), "post": *rng.pick(&[0, 0, 1, 2, 3])}) }).collect()
    };
    let app = mk_layers(rng, 3); let sub = mk_layers(rng, 3);
    let n = rng.range(1, 4);
    let mut at = 0i64; let mut conn = vec![];
    for k in 0..n {
        at += if k == 0 { rng.below(4) as i64 } else { *rng.pick(&[0, 0, 1, 2, 3, 4, 5, 7]) };
        let script: Vec<i64> = (0..rng.below(4)).map(|_| rng.range(1, 6) as i64).collect();
        conn.push(json!({"at": at, "mnt": rng.below(2) as i64, "loc": mk_layers(rng, 2), "script": script, "close": (k + 1 == n && rng.chance(1, 4)) as i64}));
    }
    let fin = if rng.chance(1, 4) { at + rng.range(0, 8) as i64 } else { 0 };
    json!({"id": idx, "S": sdl, "app": app, "sub": sub, "conn": conn, "fin": fin, "random": 1})
}
