//! C19 — a mounted directory serves exactly its files, byte-identical, and nothing else.
//!
//! One scenario = one directory tree + omit-extension setting + mount route + a list of requests.
//! `run` materialises the tree under `<worktree>/work/dirmount-tmp/<unique>/root` (plus siblings *outside* the
//! mounted directory), mounts it with the real public API (`"/route".Dir(path).omit_extensions([..])`) through
//! the run-time assembly hook `__verif::apply_dir`, finalises the real router and feeds every request as raw
//! bytes to the real `Request::read` → `Router::handle` → `Response::send`.  The outcome is projected onto the
//! vocabulary of specs/DirMount.tla: status, media type of `Content-Type`, and the *set of files of the
//! scenario whose bytes equal the body* (`eq`), so that "byte-identical" is decided on the real bytes and the
//! TLA+ oracle only has to say which file is expected.
//!
//! Vocabulary (all text is a JSON array of 1-character strings, because TLC cannot index strings):
//!   scn.mount : [seg, ..]                 mount route segments ([] = "/")
//!   scn.omit  : [ext, ..]                 omit_extensions, without the leading dot
//!   scn.files : [{path:[seg,..], cls}]    cls ∈ text | empty | bin | big | badtext
//!   scn.late  : [{path:[seg,..], op}]     changes made on disk *after* the mount: op ∈ add | remove | rewrite
//!   scn.reqs  : [{m, kind, path:[char,..]}]   request-target as characters (query included if any)
//!   scn.salt  : int                       concretisation seed (contents, dot spelling of omit, relative/absolute dir)
use crate::util::{self, Rng};
use ohkami::__verif as v;
use ohkami::Route;
use serde_json::{json, Value};
use std::path::{Path, PathBuf};
use std::sync::atomic::{AtomicUsize, Ordering};

static COUNTER: AtomicUsize = AtomicUsize::new(0);

fn text(v: &Value) -> String { util::arr(v).iter().map(|c| util::s(c)).collect() }
fn segs(v: &Value) -> Vec<String> { util::arr(v).iter().map(text).collect() }
fn chars(s: &str) -> Value { Value::Array(s.chars().map(|c| json!(c.to_string())).collect()) }

fn work_root() -> PathBuf {
    // <worktree>/harness/target/vh/vh  →  <worktree>/work/dirmount-tmp
    let exe = std::env::current_exe().unwrap();
    let wt = exe.ancestors().nth(4).map(|p| p.to_path_buf()).unwrap_or_else(std::env::temp_dir);
    wt.join("work").join("dirmount-tmp")
}

/// concretisation table: content class → bytes (path-derived, so that every file of a tree is distinguishable;
/// `empty` files are of course all equal, which is why `eq` is a set)
pub fn content(cls: &str, rel: &str, salt: u64) -> Vec<u8> {
    match cls {
        "empty" => vec![],
        "text" => match salt % 3 {
            0 => format!("<!-- {rel} #{salt} -->\n"),
            1 => format!("file={rel}\r\nsalt={salt}\r\nπ ≈ 3.14159 — ünïcödé\n"),
            _ => format!("{rel}\n").repeat(3 + (salt % 5) as usize),
        }.into_bytes(),
        // not valid UTF-8, contains NUL, CR LF CR LF and something that looks like a response head
        "bin" | "badtext" => {
            let mut b = vec![0x00, 0xff, 0xfe, 0x80, b'\r', b'\n', b'\r', b'\n', 0xc3, 0x28];
            b.extend_from_slice(rel.as_bytes());
            b.extend_from_slice(b"\r\nHTTP/1.1 200 OK\r\n\r\n");
            b.extend((0..(salt % 7) as u8).map(|i| 0xf0 | i));
            b.push(0x00);
            b
        }
        "big" => {
            let unit = format!("{rel}|{salt}|");
            let mut b = Vec::with_capacity(70_000);
            let mut i = 0u32;
            while b.len() < 66_000 { b.extend_from_slice(unit.as_bytes()); b.extend_from_slice(i.to_string().as_bytes()); i += 1 }
            b
        }
        _ => format!("?{rel}").into_bytes(),
    }
}

fn fnv(b: &[u8]) -> String {
    let mut h: u64 = 0xcbf29ce484222325;
    for x in b { h ^= *x as u64; h = h.wrapping_mul(0x100000001b3) }
    format!("{:016x}", h)
}

fn panic_msg(e: Box<dyn std::any::Any + Send>) -> String {
    if let Some(s) = e.downcast_ref::<&str>() { s.to_string() } else if let Some(s) = e.downcast_ref::<String>() { s.clone() } else { "?".into() }
}

/// class of a mount-time refusal (the panic message of `Dir::new` / `RoutingItem for Dir` / the router)
fn refusal_class(m: &str) -> &'static str {
    if m.contains("Conflicting") { "conflict" }
    else if m.contains("no extenstion") || m.contains("no extension") { "no-extension" }
    else if m.contains("doesn't know extension") { "unknown-extension" }
    else if m.contains("non UTF-8 text") { "non-utf8-text" }
    else if m.contains("invalid route") || m.contains("path segment") || m.contains("routes must") || m.contains("empty route") { "invalid-route" }
    else if m.contains("is not directory") || m.contains("No such file") { "no-directory" }
    else { "other" }
}

struct Mounted { router: v::VRouter }

fn mount(route: &'static str, dir: &'static str, omit: &[String], dotted: bool) -> Result<Mounted, String> {
    let r = std::panic::catch_unwind(std::panic::AssertUnwindSafe(|| {
        let d: v::Dir = route.Dir(dir);
        let l = |i: usize| -> &'static str { util::leak(if dotted { format!(".{}", omit[i]) } else { omit[i].clone() }) };
        let d = match omit.len() {
            0 => d,
            1 => d.omit_extensions([l(0)]),
            2 => d.omit_extensions([l(0), l(1)]),
            3 => d.omit_extensions([l(0), l(1), l(2)]),
            _ => d.omit_extensions([l(0), l(1), l(2), l(3)]),
        };
        let mut o = ohkami::Ohkami::new(());
        v::apply_dir(&mut o, d);
        Mounted { router: v::finalize(o) }
    }));
    r.map_err(panic_msg)
}

/// `cap`: the connection accepts at most that many bytes per write call (0: everything), as a socket whose send buffer is nearly full does
fn one_request(router: &v::VRouter, m: &str, target: &str, cap: usize) -> (Vec<u8>, String) {
    let raw = format!("{m} {target} HTTP/1.1\r\nHost: verif.test\r\nAccept: */*\r\n\r\n").into_bytes();
    let router = router.clone();
    let out = util::block_on(async move {
        let mut rd = util::ScriptedReader::new(vec![raw]);
        let mut rq = v::VRequest::new();
        let mut buf = util::ShortWriter::new(cap);
        let how;
        match rq.read(&mut rd).await {
            Ok(Some(())) => { let res = rq.handle(&router).await; v::send(res, &mut buf).await; how = "handled" }
            Ok(None) => { how = "no-request" }
            Err(res) => { v::send(res, &mut buf).await; how = "refused-by-parser" }
        }
        (buf.out, how.to_string())
    });
    out
}

pub fn run(scn: &Value) -> Value {
    let salt = util::i(&scn["salt"]).max(0) as u64 ^ (util::i(&scn["id"]).max(0) as u64).wrapping_mul(0x9E37);
    let mount_segs = segs(&scn["mount"]);
    let omit = segs(&scn["omit"]);
    let route: String = if mount_segs.is_empty() { "/".into() } else { mount_segs.iter().map(|s| format!("/{s}")).collect() };

    // ---- materialise
    let uniq = format!("{}-{}-{}", std::process::id(), util::i(&scn["id"]), COUNTER.fetch_add(1, Ordering::SeqCst));
    let base = work_root().join(uniq);
    let _ = std::fs::remove_dir_all(&base);
    let root = base.join("root");
    if let Err(e) = std::fs::create_dir_all(&root) { return json!({"kind": "tool-error", "msg": format!("mkdir {}: {e}", root.display())}) }
    struct Guard(PathBuf);
    impl Drop for Guard { fn drop(&mut self) { let _ = std::fs::remove_dir_all(&self.0); } }
    let _guard = Guard(base.clone());

    let mut contents: Vec<Vec<u8>> = vec![];
    let mut rels: Vec<String> = vec![];
    for f in util::arr(&scn["files"]) {
        let p = segs(&f["path"]);
        let rel = p.join("/");
        let c = content(util::s(&f["cls"]), &rel, salt);
        let full = root.join(&rel);
        if let Some(d) = full.parent() { if let Err(e) = std::fs::create_dir_all(d) { return json!({"kind": "tool-error", "msg": format!("mkdir: {e}")}) } }
        if let Err(e) = std::fs::write(&full, &c) { return json!({"kind": "tool-error", "msg": format!("write {}: {e}", full.display())}) }
        contents.push(c); rels.push(rel);
    }
    for d in util::arr(&scn["emptydirs"]) { let _ = std::fs::create_dir_all(root.join(segs(d).join("/"))); }
    // entries that are neither regular files nor directories (two runs in three): a symbolic link whose target is missing and a FIFO, in the
    // root and next to every file.  They are not "regular files under the directory": nothing is served for them, and they change nothing else.
    if salt % 3 != 0 {
        let mut dirs: Vec<PathBuf> = vec![root.clone()];
        for rel in &rels { if let Some(d) = root.join(rel).parent() { if !dirs.contains(&d.to_path_buf()) { dirs.push(d.to_path_buf()) } } }
        for d in dirs {
            for name in ["0-gone.lnk", "m-gone.lnk", "zz-gone.lnk"] { let _ = std::os::unix::fs::symlink(d.join("no-such-target"), d.join(name)); }
            if let Ok(c) = std::ffi::CString::new(d.join("a-fifo").to_string_lossy().as_bytes()) { unsafe { libc::mkfifo(c.as_ptr(), 0o600); } }
        }
    }
    // files outside the mounted directory: a sibling file, a sibling directory whose name extends the mounted
    // directory's name, and a file in the parent's parent
    let outside = b"OUTSIDE: this file is not under the mounted directory\n".to_vec();
    let _ = std::fs::write(base.join("outside.txt"), &outside);
    let _ = std::fs::create_dir_all(base.join("rootx"));
    let _ = std::fs::write(base.join("rootx").join("secret.txt"), &outside);
    let _ = std::fs::write(base.join("root.txt"), &outside);

    // ---- mount with the real API (relative or absolute spelling of the directory by salt)
    let abs = root.to_string_lossy().to_string();
    let dir_spelling = if salt % 2 == 0 { abs.clone() } else {
        // relative to the current directory when possible, with a redundant `./` and `..` detour
        match std::env::current_dir().ok().and_then(|cwd| pathdiff(&root, &cwd)) { Some(r) => format!("./{}/../root", r.to_string_lossy()), None => abs.clone() }
    };
    let dotted = (salt / 2) % 2 == 1;
    let mounted = mount(util::leak(route.clone()), util::leak(dir_spelling.clone()), &omit, dotted);

    // ---- changes on disk after start-up
    let mut late_contents: Vec<Value> = vec![];
    for l in util::arr(&scn["late"]) {
        let rel = segs(&l["path"]).join("/");
        let full = root.join(&rel);
        match util::s(&l["op"]) {
            "remove" => { let _ = std::fs::remove_file(&full); }
            "add" | "rewrite" => {
                if let Some(d) = full.parent() { let _ = std::fs::create_dir_all(d); }
                let c = format!("LATE {rel} written after the mount\n").into_bytes();
                let _ = std::fs::write(&full, &c);
                late_contents.push(json!({"rel": rel, "fnv": fnv(&c)}));
            }
            _ => {}
        }
    }

    let router = match mounted {
        Ok(m) => m.router,
        Err(msg) => return json!({"kind": "dir", "mounted": false, "refusal": refusal_class(&msg), "msg": util::clip(&msg, 160),
                                   "route": route, "resps": []}),
    };

    // ---- requests
    let mut resps = vec![];
    let salt = scn["salt"].as_u64().unwrap_or(0) as usize;
    for (nreq, rq) in util::arr(&scn["reqs"]).iter().enumerate() {
        let cap = [0usize, 4096, 0, 1000, 65_536, 37][(salt + nreq) % 6];
        let m = util::s(&rq["m"]).to_string();
        let target = text(&rq["path"]);
        let router2 = router.clone();
        let (m2, t2) = (m.clone(), target.clone());
        let r = std::panic::catch_unwind(std::panic::AssertUnwindSafe(move || one_request(&router2, &m2, &t2, cap)));
        let o = match r {
            Err(e) => json!({"k": "panic", "status": 0, "mt": "", "eq": [], "eqall": [], "eqlate": false, "eqout": false, "blen": 0, "tail": 0,
                             "framing": "", "cl": "", "nct": 0, "err": util::clip(&panic_msg(e), 120), "target": target}),
            Ok((buf, how)) => {
                if buf.is_empty() {
                    json!({"k": how, "status": 0, "mt": "", "eq": [], "eqall": [], "eqlate": false, "eqout": false, "blen": 0, "tail": 0,
                           "framing": "", "cl": "", "nct": 0, "err": "nothing written", "target": target})
                } else {
                    let p = util::parse_response(&buf, m == "HEAD");
                    let cts: Vec<&String> = p.headers.iter().filter(|(k, _)| k.eq_ignore_ascii_case("content-type")).map(|(_, v)| v).collect();
                    let mt = cts.first().map(|v| v.split(';').next().unwrap_or("").trim().to_ascii_lowercase()).unwrap_or_default();
                    let cl = p.headers.iter().find(|(k, _)| k.eq_ignore_ascii_case("content-length")).map(|(_, v)| v.clone()).unwrap_or_default();
                    let eq: Vec<usize> = contents.iter().enumerate().filter(|(_, c)| **c == p.body).map(|(i, _)| i + 1).collect();
                    let tail = buf.len().saturating_sub(p.consumed);
                    // everything that follows the head on the wire, whatever the declared framing says
                    let after: &[u8] = util::find(&buf, b"\r\n\r\n").map(|i| &buf[i + 4..]).unwrap_or(&[]);
                    let eqall: Vec<usize> = contents.iter().enumerate().filter(|(_, c)| c.as_slice() == after).map(|(i, _)| i + 1).collect();
                    json!({"k": if p.error.is_empty() { "resp" } else { "unparsable" }, "status": p.status, "mt": mt, "eq": eq,
                           "eqall": eqall, "eqlate": p.body.starts_with(b"LATE ") || after.starts_with(b"LATE "), "eqout": p.body == outside || after == outside.as_slice(),
                           "blen": p.body.len() as u32, "tail": tail as u32, "framing": p.framing, "cl": cl, "nct": cts.len(),
                           "fnv": fnv(&p.body), "err": util::clip(&p.error, 120), "how": how, "target": target})
                }
            }
        };
        resps.push(o);
    }
    json!({"kind": "dir", "mounted": true, "refusal": "", "msg": "", "route": route, "dir": if salt % 2 == 0 { "absolute" } else { "relative" },
           "dotted": dotted, "resps": resps,
           "fnv": contents.iter().map(|c| json!(fnv(c))).collect::<Vec<_>>(), "rels": rels})
}

fn pathdiff(p: &Path, base: &Path) -> Option<PathBuf> {
    let p = p.canonicalize().ok()?; let base = base.canonicalize().ok()?;
    let (pc, bc): (Vec<_>, Vec<_>) = (p.components().collect(), base.components().collect());
    let mut i = 0; while i < pc.len() && i < bc.len() && pc[i] == bc[i] { i += 1 }
    let mut out = PathBuf::new();
    for _ in i..bc.len() { out.push("..") }
    for c in &pc[i..] { out.push(c.as_os_str()) }
    if out.as_os_str().is_empty() { None } else { Some(out) }
}

// ------------------------------------------------------------------------------------------------ random generator
const EXTS: [&str; 16] = ["txt", "html", "css", "js", "xml", "csv", "tsv", "vcard", "jpeg", "gif", "png", "svg", "woff", "woff2", "json", "pdf"];
const STEMS: [&str; 18] = ["a", "b", "ab", "index", "a.min", "x-1", "y_2", "Z", "0", "about", "a.b.c", "inde", "indexx", "sub", "d", "v1", "reindex", "x.index"];
const DIRS: [&str; 9] = ["sub", "deep", "a", "ab", "d.js", "v1.html", "x-1", "assets", "index"];

fn is_text_ext(e: &str) -> bool { matches!(e, "txt" | "html" | "css" | "js" | "xml" | "csv" | "tsv" | "vcard") }

fn req(m: &str, kind: &str, path: &str) -> Value { json!({"m": m, "kind": kind, "path": chars(path)}) }

pub fn gen(rng: &mut Rng, i: usize) -> Value {
    // mount route of depth 0..3
    let mount: Vec<String> = (0..rng.below(4)).map(|_| rng.pick(&["pub", "static", "s", "v1.2", "a", "assets"]).to_string()).collect();
    // directories: a random small tree of depth <= 3
    let mut dirs: Vec<Vec<String>> = vec![vec![]];
    for _ in 0..rng.below(4) {
        let parent = dirs[rng.below(dirs.len())].clone();
        if parent.len() >= 3 { continue }
        let mut d = parent; d.push(rng.pick(&DIRS).to_string());
        if !dirs.contains(&d) { dirs.push(d) }
    }
    let nfiles = rng.range(1, 9);
    let mut files: Vec<(Vec<String>, String)> = vec![];
    for _ in 0..nfiles {
        let d = dirs[rng.below(dirs.len())].clone();
        let ext = if rng.chance(1, 3) { *rng.pick(&["html", "js", "txt"]) } else { *rng.pick(&EXTS) };
        let stem = if rng.chance(1, 4) { "index" } else { *rng.pick(&STEMS) };
        let name = format!("{stem}.{ext}");
        let mut p = d; p.push(name);
        if files.iter().any(|(q, _)| *q == p) { continue }
        // a file must not have the name of a directory of the tree (the file system would refuse it)
        if dirs.contains(&p) || dirs.iter().any(|dd| dd.len() > p.len() && dd[..p.len()] == p[..]) { continue }
        let cls = match rng.below(10) { 0 | 1 => "empty", 2 | 3 => if is_text_ext(ext) { "text" } else { "bin" }, 4 => "big", _ => "text" };
        files.push((p, cls.to_string()));
    }
    // rarely: a file outside the supported domain (the oracle then also allows a refused mount)
    if rng.chance(1, 12) {
        let d = dirs[rng.below(dirs.len())].clone();
        let (name, cls) = *rng.pick(&[("README", "text"), ("a.md", "text"), ("bad.txt", "badtext"), ("A.HTML", "text"), ("a b.txt", "text"), ("x.tar.gz", "bin")]);
        let mut p = d; p.push(name.to_string());
        if !files.iter().any(|(q, _)| *q == p) { files.push((p, cls.to_string())) }
    }
    let omit: Vec<String> = match rng.below(8) {
        0 | 1 => vec![], 2 | 3 => vec!["html".into()], 4 => vec!["html".into(), "js".into()], 5 => vec!["js".into(), "html".into(), "json".into()],
        6 => vec![rng.pick(&EXTS).to_string()], _ => vec!["txt".into(), rng.pick(&EXTS).to_string()],
    };
    let base: String = mount.iter().map(|s| format!("/{s}")).collect();
    let join = |b: &str, rest: &str| -> String { if rest.is_empty() { if b.is_empty() { "/".into() } else { b.to_string() } } else { format!("{b}/{rest}") } };
    let mut reqs: Vec<Value> = vec![];
    let strip = |name: &str| -> String {
        for e in &omit { if let Some(s) = name.strip_suffix(&format!(".{e}")) { return s.to_string() } }
        name.to_string()
    };
    for (p, _) in &files {
        let dir = p[..p.len() - 1].join("/");
        let name = &p[p.len() - 1];
        let full = join(&base, &p.join("/"));
        let short = join(&base, &if dir.is_empty() { strip(name) } else { format!("{dir}/{}", strip(name)) });
        reqs.push(req("GET", "file-full", &full));
        if short != full { reqs.push(req("GET", "file-short", &short)) }
        match rng.below(14) {
            0 => reqs.push(req("HEAD", "file-short", &short)),
            1 => reqs.push(req("POST", "file-short", &short)),
            2 => reqs.push(req("GET", "more", &format!("{short}x"))),
            3 => reqs.push(req("GET", "less", &short[..short.len().saturating_sub(1).max(1)])),
            4 => reqs.push(req("GET", "slash", &format!("{short}/"))),
            5 => reqs.push(req("GET", "query", &format!("{short}?v={}", rng.below(100)))),
            6 => reqs.push(req("GET", "dotdot", &format!("{}/{}", join(&base, &if dir.is_empty() { "zz/..".to_string() } else { format!("{dir}/../{}", p[p.len() - 2]) }), strip(name)))),
            7 => reqs.push(req("GET", "enc-dotdot", &format!("{}/%2e%2e/{}", join(&base, "zz"), p.join("/")))),
            8 => { let b = join(&base, &dir); if b != "/" { reqs.push(req("GET", "enc-slash", &format!("{b}%2f{}", strip(name)))) } else { reqs.push(req("GET", "enc-slash", &format!("/%2f{}", strip(name)))) } }
            9 => reqs.push(req("GET", "dslash", &format!("{}//{}", join(&base, &dir).trim_end_matches('/'), strip(name)))),
            10 => { let mut c = short.clone().into_bytes(); let k = c.len() - 1; c[k] = if c[k] == b'q' { b'r' } else { b'q' }; reqs.push(req("GET", "subst", &String::from_utf8(c).unwrap())) }
            11 => reqs.push(req("GET", "upper", &short.to_ascii_uppercase())),
            12 => reqs.push(req("HEAD", "more", &format!("{full}x"))),
            _ => reqs.push(req("GET", "index-own", &join(&base, &if dir.is_empty() { "index".to_string() } else { format!("{dir}/index") }))),
        }
    }
    for d in &dirs {
        let dp = join(&base, &d.join("/"));
        reqs.push(req("GET", "dir", &dp));
        if rng.chance(1, 2) { reqs.push(req("GET", "dir-slash", &format!("{}/", dp.trim_end_matches('/')))) }
        if rng.chance(1, 3) { reqs.push(req("HEAD", "dir", &dp)) }
    }
    reqs.push(req("GET", "outside", &format!("{}/../outside.txt", if base.is_empty() { "" } else { &base })));
    reqs.push(req("GET", "outside", &join(&base, "outside.txt")));
    reqs.push(req("GET", "outside", &join(&base, "%2e%2e/outside.txt")));
    reqs.push(req("GET", "outside", "/../rootx/secret.txt"));
    reqs.push(req("GET", "root", "/"));
    // changes after the mount
    let mut late = vec![];
    if rng.chance(1, 4) && !files.is_empty() {
        let (p, _) = &files[rng.below(files.len())];
        late.push(json!({"path": p.iter().map(|s| chars(s)).collect::<Vec<_>>(), "op": *rng.pick(&["remove", "rewrite"])}));
        let newp = vec!["late.txt".to_string()];
        if !files.iter().any(|(q, _)| *q == newp) {
            late.push(json!({"path": newp.iter().map(|s| chars(s)).collect::<Vec<_>>(), "op": "add"}));
            reqs.push(req("GET", "late-added", &join(&base, "late.txt")));
        }
    }
    json!({
        "id": i, "salt": rng.below(1 << 20),
        "mount": mount.iter().map(|s| chars(s)).collect::<Vec<_>>(),
        "omit": omit.iter().map(|s| chars(s)).collect::<Vec<_>>(),
        "files": files.iter().map(|(p, c)| json!({"path": p.iter().map(|s| chars(s)).collect::<Vec<_>>(), "cls": c})).collect::<Vec<_>>(),
        "emptydirs": dirs.iter().filter(|d| !d.is_empty()).map(|d| d.iter().map(|s| chars(s)).collect::<Vec<_>>()).collect::<Vec<_>>(),
        "late": late,
        "reqs": reqs,
    })
}
