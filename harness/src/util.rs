//! shared helpers: deterministic rng, tokio runtime, scripted in-memory streams, independent HTTP response parser
#![allow(dead_code)]
use serde_json::{json, Value};
use std::pin::Pin;
use std::task::{Context, Poll};

pub struct Rng(u64);
impl Rng {
    pub fn new(seed: u64) -> Self { Rng(seed.wrapping_mul(0x9E3779B97F4A7C15) ^ 0xD1B54A32D192ED03) }
    pub fn next(&mut self) -> u64 {
        self.0 = self.0.wrapping_add(0x9E3779B97F4A7C15);
        let mut z = self.0;
        z = (z ^ (z >> 30)).wrapping_mul(0xBF58476D1CE4E5B9);
        z = (z ^ (z >> 27)).wrapping_mul(0x94D049BB133111EB);
        z ^ (z >> 31)
    }
    pub fn below(&mut self, n: usize) -> usize { if n == 0 { 0 } else { (self.next() % n as u64) as usize } }
    pub fn range(&mut self, lo: usize, hi: usize) -> usize { lo + self.below(hi - lo + 1) }
    pub fn chance(&mut self, num: usize, den: usize) -> bool { self.below(den) < num }
    pub fn pick<'a, T>(&mut self, xs: &'a [T]) -> &'a T { &xs[self.below(xs.len())] }
}

pub fn clip(s: &str, n: usize) -> String { s.chars().take(n).collect() }

/// `file:line` of a panic message produced by the hook in main.rs, with the /repo prefix removed
pub fn panic_site(m: &str) -> String {
    let site = m.split(": ").next().unwrap_or("");
    let site = site.trim_start_matches("/repo/");
    // registry crates: keep crate-relative path
    if let Some(i) = site.find("/registry/src/") { let rest = &site[i + 14..]; return rest.splitn(2, '/').nth(1).unwrap_or(rest).to_string() }
    site.to_string()
}

pub fn hex(b: &[u8]) -> String { b.iter().map(|x| format!("{:02x}", x)).collect() }
pub fn unhex(s: &str) -> Vec<u8> { (0..s.len() / 2).map(|i| u8::from_str_radix(&s[2 * i..2 * i + 2], 16).unwrap()).collect() }

pub fn leak(s: String) -> &'static str { Box::leak(s.into_boxed_str()) }

thread_local! {
    static RT: tokio::runtime::Runtime = tokio::runtime::Builder::new_current_thread().enable_all().build().unwrap();
}
pub fn block_on<F: std::future::Future>(f: F) -> F::Output { RT.with(|rt| rt.block_on(f)) }

pub fn s(v: &Value) -> &str { v.as_str().unwrap_or("") }
pub fn i(v: &Value) -> i64 { v.as_i64().unwrap_or(0) }
pub fn arr(v: &Value) -> &[Value] { v.as_array().map(|a| a.as_slice()).unwrap_or(&[]) }

/// In-memory reader delivering scripted segments, one per `read` call. When every segment has been
/// delivered and the code under test asks for more, the reader is *starved*: it records that fact
/// and reports end-of-stream (so `read_exact` fails instead of blocking forever).
pub struct ScriptedReader { pub segs: Vec<Vec<u8>>, pub at: usize, pub off: usize, pub starved: u32, pub reads: u32, pub eof_is_error: bool }
impl ScriptedReader {
    pub fn new(segs: Vec<Vec<u8>>) -> Self { Self { segs, at: 0, off: 0, starved: 0, reads: 0, eof_is_error: false } }
    pub fn exhausted(&self) -> bool { self.at >= self.segs.len() }
}
impl tokio::io::AsyncRead for ScriptedReader {
    fn poll_read(mut self: Pin<&mut Self>, _cx: &mut Context<'_>, buf: &mut tokio::io::ReadBuf<'_>) -> Poll<std::io::Result<()>> {
        self.reads += 1;
        while self.at < self.segs.len() && self.off >= self.segs[self.at].len() { self.at += 1; self.off = 0; }
        if self.at >= self.segs.len() { self.starved += 1; return Poll::Ready(Ok(())) }
        let (at, off) = (self.at, self.off);
        let seg = &self.segs[at][off..];
        let n = seg.len().min(buf.remaining());
        buf.put_slice(&seg[..n]);
        self.off += n;
        if self.off >= self.segs[at].len() { self.at += 1; self.off = 0; }
        Poll::Ready(Ok(()))
    }
}

/// Client side of a loopback connection, from a source address of its own inside 127.0.0.0/8 (chosen from the process id and a counter):
/// every source address has its own range of ephemeral ports, so the tens of thousands of short connections of a run -- also of several
/// runs side by side -- do not exhaust one range while closed ones sit in TIME_WAIT.  Falls back to a plain connect.
pub async fn connect_loopback(addr: std::net::SocketAddr) -> std::io::Result<tokio::net::TcpStream> {
    static N: std::sync::atomic::AtomicU32 = std::sync::atomic::AtomicU32::new(0);
    let n = N.fetch_add(1, std::sync::atomic::Ordering::Relaxed);
    let pid = std::process::id();
    let src = std::net::Ipv4Addr::new(127, (1 + pid % 200) as u8, ((pid / 200 + n / 200) % 250) as u8, (2 + n % 200) as u8);
    if let Ok(sock) = tokio::net::TcpSocket::new_v4() {
        if sock.bind(std::net::SocketAddr::new(src.into(), 0)).is_ok() {
            if let Ok(c) = sock.connect(addr).await { return Ok(c) }
        }
    }
    tokio::net::TcpStream::connect(addr).await
}

/// A connection that accepts at most `cap` bytes per write call (0: everything), as a socket with a nearly full send buffer does.
pub struct ShortWriter { pub out: Vec<u8>, pub cap: usize, pub writes: u32 }
impl ShortWriter { pub fn new(cap: usize) -> Self { Self { out: vec![], cap, writes: 0 } } }
impl tokio::io::AsyncWrite for ShortWriter {
    fn poll_write(mut self: Pin<&mut Self>, _cx: &mut Context<'_>, buf: &[u8]) -> Poll<std::io::Result<usize>> {
        self.writes += 1;
        let n = if self.cap == 0 { buf.len() } else { buf.len().min(self.cap) };
        self.out.extend_from_slice(&buf[..n]);
        Poll::Ready(Ok(n))
    }
    fn poll_flush(self: Pin<&mut Self>, _cx: &mut Context<'_>) -> Poll<std::io::Result<()>> { Poll::Ready(Ok(())) }
    fn poll_shutdown(self: Pin<&mut Self>, _cx: &mut Context<'_>) -> Poll<std::io::Result<()>> { Poll::Ready(Ok(())) }
}

/// Independent, strict HTTP/1.1 response parser (trusted base of the harness).
#[derive(Debug, Clone, Default)]
pub struct ParsedResponse { pub status: u16, pub reason: String, pub headers: Vec<(String, String)>, pub body: Vec<u8>, pub framing: String, pub consumed: usize, pub after: usize, pub error: String }

pub fn find(h: &[u8], n: &[u8]) -> Option<usize> { if n.is_empty() { return Some(0) } h.windows(n.len()).position(|w| w == n) }

/// Parses one response from `b`. `head_request`: the response answers HEAD (no body follows whatever the headers say).
pub fn parse_response(b: &[u8], head_request: bool) -> ParsedResponse {
    let mut r = ParsedResponse::default();
    let Some(he) = find(b, b"\r\n\r\n") else { r.error = "no end of head".into(); return r };
    let head = &b[..he];
    let Ok(head) = std::str::from_utf8(head) else { r.error = "head not utf8".into(); return r };
    let mut lines = head.split("\r\n");
    let sl = lines.next().unwrap_or("");
    let mut p = sl.splitn(3, ' ');
    if p.next() != Some("HTTP/1.1") { r.error = format!("bad status line {sl:?}"); return r }
    let Some(code) = p.next().and_then(|c| if c.len() == 3 { c.parse::<u16>().ok() } else { None }) else { r.error = format!("bad status code {sl:?}"); return r };
    r.status = code; r.reason = p.next().unwrap_or("").to_string();
    for l in lines {
        if l.contains('\r') || l.contains('\n') { r.error = format!("bare CR/LF in header line {l:?}"); return r }
        let Some(c) = l.find(':') else { r.error = format!("header line without colon {l:?}"); return r };
        let (k, v) = (&l[..c], l[c + 1..].trim_matches(|ch| ch == ' ' || ch == '\t'));
        if k.is_empty() || k.bytes().any(|ch| ch <= b' ' || ch >= 127) { r.error = format!("bad header name {k:?}"); return r }
        r.headers.push((k.to_string(), v.to_string()));
    }
    let rest = &b[he + 4..];
    let get = |n: &str| r.headers.iter().filter(|(k, _)| k.eq_ignore_ascii_case(n)).map(|(_, v)| v.clone()).collect::<Vec<_>>();
    let cl = get("Content-Length"); let te = get("Transfer-Encoding");
    if head_request || code == 204 || code == 304 || (100..200).contains(&code) {
        r.framing = if !cl.is_empty() { "cl-nobody".into() } else if !te.is_empty() { "chunked-nobody".into() } else { "none".into() };
        r.consumed = he + 4; return r
    }
    if !te.is_empty() {
        if te.len() != 1 || !te[0].eq_ignore_ascii_case("chunked") { r.error = format!("transfer-encoding {te:?}"); return r }
        if !cl.is_empty() { r.error = "both content-length and chunked".into(); return r }
        r.framing = "chunked".into();
        let mut at = 0usize;
        loop {
            let Some(le) = find(&rest[at..], b"\r\n") else { r.error = "chunk size line not terminated".into(); return r };
            let line = std::str::from_utf8(&rest[at..at + le]).unwrap_or("!");
            let hexs = line.split(';').next().unwrap_or("").trim();
            let Ok(sz) = usize::from_str_radix(hexs, 16) else { r.error = format!("bad chunk size {line:?}"); return r };
            if hexs.is_empty() { r.error = "empty chunk size".into(); return r }
            at += le + 2;
            if sz == 0 {
                // trailers until empty line
                loop {
                    let Some(le) = find(&rest[at..], b"\r\n") else { r.error = "missing final CRLF after last chunk".into(); return r };
                    at += le + 2; if le == 0 { break }
                }
                break
            }
            if rest.len() < at + sz + 2 { r.error = "chunk data truncated".into(); return r }
            r.body.extend_from_slice(&rest[at..at + sz]);
            if &rest[at + sz..at + sz + 2] != b"\r\n" { r.error = "chunk data not followed by CRLF".into(); return r }
            at += sz + 2;
        }
        r.consumed = he + 4 + at; return r
    }
    if cl.len() > 1 { r.error = "multiple content-length".into(); return r }
    if let Some(v) = cl.first() {
        let Ok(n) = v.parse::<usize>() else { r.error = format!("bad content-length {v:?}"); return r };
        if v.is_empty() || !v.bytes().all(|c| c.is_ascii_digit()) { r.error = format!("bad content-length {v:?}"); return r }
        r.framing = "cl".into();
        if rest.len() < n { r.error = format!("body truncated: content-length {n}, {} bytes follow", rest.len()); return r }
        r.body = rest[..n].to_vec(); r.consumed = he + 4 + n; return r
    }
    // neither: the client can only find the end by connection close
    r.framing = "close".into(); r.body = rest.to_vec(); r.consumed = b.len(); r
}

pub fn resp_to_json(r: &ParsedResponse) -> Value {
    json!({"status": r.status, "headers": r.headers.iter().map(|(k, v)| json!([k, v])).collect::<Vec<_>>(), "framing": r.framing, "blen": r.body.len(), "error": r.error})
}
