//! shard 4 of the generated C16 program: the types of src/gen/g4.rs (written by lib/props/c16.py)
#![allow(dead_code, non_snake_case, non_camel_case_types, unused_imports)]
#[path = "../rt.rs"] mod rt;
#[path = "../common.rs"] mod common;
#[path = "../gen/g4.rs"] mod generated;
fn main() { rt::run(generated::all()) }
