//! `cargo check --bin vhsprobe`: families of definitions suspected not to compile (derive panics, ill-typed expansion)
#![allow(dead_code, non_snake_case, non_camel_case_types, unused_imports)]
#[path = "../rt.rs"] mod rt;
#[path = "../common.rs"] mod common;
#[path = "../gen/probe.rs"] mod generated;
fn main() { rt::run(generated::all()) }
