//! Fixed helper types of the generated definitions (the nested derived struct used by `flatten`, nested fields and
//! newtype payloads) and value constructors.
pub use crate::rt::Ops;
pub use ohkami::openapi::{Schema, schema::SchemaRef};
pub use serde::{Deserialize, Serialize};
pub use serde_json::Value;

#[derive(Serialize, Deserialize, Schema, Default, Debug, Clone)]
pub struct Inner {
    // two required fields declared in non-alphabetical order, an optional one between them
    pub in_z: String,
    pub in_b: Option<i32>,
    pub in_a: String,
}
pub fn inner(some: bool) -> Inner { Inner { in_z: "s".to_string(), in_b: if some { Some(7) } else { None }, in_a: "s".to_string() } }
pub fn s() -> String { "s".to_string() }
/// `#[serde(default = "crate::common::dflt")]`: a default named by its function (any field type of the generated definitions)
pub fn dflt<T: Default>() -> T { T::default() }
pub fn ser<T: Serialize>(t: &T) -> Result<Value, String> { serde_json::to_value(t).map_err(|e| e.to_string()) }
pub fn schema_json<T: Schema>() -> Value {
    let r: SchemaRef = <T as Schema>::schema().into();
    serde_json::to_value(&r).expect("ohkami_openapi serialises its own schema")
}
