//! Run-time part of the generated C16 program (hand-written, not generated).
//!
//! For one generated type it (i) serialises `<T as ohkami::openapi::Schema>::schema()` through ohkami_openapi's own
//! `Serialize` impl and flattens the JSON into the node vocabulary of specs/SchemaRel.tla, (ii) serialises the
//! generated values with serde_json, (iii) probes requiredness: every object key of every serialized value is removed
//! in turn and `serde_json::from_value::<T>` is asked to read the rest.  Nothing is judged here: the line goes to
//! Trace_SchemaRel, which evaluates the relation.  Names travel as arrays of one-character strings because TLC cannot
//! index strings.
use serde_json::{json, Map, Value};

pub struct Ops {
    pub id: i64,
    /// `serde_json::to_value(SchemaRef::from(T::schema().into()))`
    pub schema: fn() -> Value,
    /// (variant index (1-based; 1 for structs), all-Some flag, serde_json::to_value(sample))
    pub samples: fn() -> Vec<(i64, bool, Result<Value, String>)>,
    /// from_value::<T> then the index of the variant that was read (structs: 1)
    pub reparse: fn(&Value) -> Option<i64>,
}

pub fn chars(s: &str) -> Value {
    Value::Array(s.chars().map(|c| Value::String(c.to_string())).collect())
}

const IGNORED: [&str; 8] = ["format", "description", "default", "example", "deprecated", "readOnly", "writeOnly", "title"];

/// JSON Schema object -> node record (every field always present; TLC needs total records)
pub fn node(v: &Value) -> Value {
    let empty = Map::new();
    let (o, nonobj) = match v.as_object() {
        Some(o) => (o, false),
        None => (&empty, true),
    };
    let ty = match o.get("type") {
        None => String::new(),
        Some(Value::String(s)) => s.clone(),
        Some(_) => "?non-string-type".to_string(),
    };
    let rf = match o.get("$ref") {
        None => String::new(),
        Some(Value::String(s)) => s.clone(),
        Some(_) => "?".to_string(),
    };
    let required: Vec<String> = o.get("required").and_then(|r| r.as_array())
        .map(|a| a.iter().map(|x| x.as_str().unwrap_or("?non-string").to_string()).collect()).unwrap_or_default();
    let mut props = vec![];
    let mut names = vec![];
    if let Some(p) = o.get("properties").and_then(|p| p.as_object()) {
        for (k, pv) in p {
            names.push(k.clone());
            props.push(json!({"name": chars(k), "required": required.contains(k), "node": node(pv)}));
        }
    }
    let reqextra: Vec<Value> = required.iter().filter(|r| !names.contains(r)).map(|r| chars(r)).collect();
    let mut other: Vec<Value> = vec![];
    let mut en = vec![];
    if let Some(e) = o.get("enum").and_then(|e| e.as_array()) {
        for x in e {
            match x.as_str() {
                Some(s) => en.push(chars(s)),
                None => other.push(json!("enum-non-string")),
            }
        }
    }
    let list = |k: &str| -> Vec<Value> {
        o.get(k).and_then(|x| x.as_array()).map(|a| a.iter().map(node).collect()).unwrap_or_default()
    };
    let items: Vec<Value> = o.get("items").map(|i| vec![node(i)]).unwrap_or_default();
    for k in o.keys() {
        let k = k.as_str();
        if !["type", "$ref", "required", "properties", "enum", "oneOf", "anyOf", "allOf", "items", "nullable"].contains(&k)
            && !IGNORED.contains(&k) {
            other.push(json!(k));
        }
    }
    if nonobj { other.push(json!("schema-not-an-object")); }
    json!({
        "type": ty, "ref": rf, "props": props, "reqextra": reqextra, "enum": en,
        "oneOf": list("oneOf"), "anyOf": list("anyOf"), "allOf": list("allOf"), "items": items,
        "nullable": o.get("nullable").and_then(|b| b.as_bool()).unwrap_or(false),
        "other": other,
    })
}

/// serde_json value -> jv record (kind, string content as chars, fields, items)
pub fn jv(v: &Value) -> Value {
    let (k, s, fields, items): (&str, Value, Vec<Value>, Vec<Value>) = match v {
        Value::Null => ("null", json!([]), vec![], vec![]),
        Value::Bool(_) => ("boolean", json!([]), vec![], vec![]),
        Value::Number(n) => (if n.is_i64() || n.is_u64() { "integer" } else { "number" }, json!([]), vec![], vec![]),
        Value::String(s) => ("string", chars(s), vec![], vec![]),
        Value::Array(a) => ("array", json!([]), vec![], a.iter().map(jv).collect()),
        Value::Object(o) => ("object", json!([]), o.iter().map(|(k, x)| json!({"name": chars(k), "v": jv(x)})).collect(), vec![]),
    };
    json!({"k": k, "s": s, "fields": fields, "items": items})
}

fn key_paths(v: &Value, prefix: &mut Vec<String>, out: &mut Vec<Vec<String>>, depth: usize) {
    if depth == 0 { return }
    if let Value::Object(o) = v {
        for (k, x) in o {
            prefix.push(k.clone());
            out.push(prefix.clone());
            key_paths(x, prefix, out, depth - 1);
            prefix.pop();
        }
    }
}

fn without(v: &Value, path: &[String]) -> Value {
    let mut v = v.clone();
    {
        let mut cur = &mut v;
        for k in &path[..path.len() - 1] {
            cur = cur.get_mut(k.as_str()).expect("path exists");
        }
        cur.as_object_mut().expect("object").remove(path[path.len() - 1].as_str());
    }
    v
}

pub fn observe(ops: &Ops) -> Value {
    let r = std::panic::catch_unwind(|| {
        let schema = (ops.schema)();
        let mut samples = vec![];
        for (vi, some, val) in (ops.samples)() {
            let val = match val {
                Ok(v) => v,
                Err(e) => { return json!({"kind": "tool-error", "what": format!("serde could not serialize a generated value: {e}")}) }
            };
            // sanity of the probe itself: the untouched value must be read back as the same variant
            let back = (ops.reparse)(&val);
            let mut paths = vec![];
            key_paths(&val, &mut vec![], &mut paths, 3);
            let probes: Vec<Value> = paths.iter().map(|p| {
                let reduced = without(&val, p);
                let ok = (ops.reparse)(&reduced) == Some(vi);
                json!({"path": p.iter().map(|k| chars(k)).collect::<Vec<_>>(), "ok": ok})
            }).collect();
            samples.push(json!({"v": vi, "some": some, "json": jv(&val), "raw": val.to_string(),
                                "roundtrip": back == Some(vi), "probes": probes}));
        }
        json!({"kind": "ok", "schema": node(&schema), "raw": schema.to_string(), "samples": samples})
    });
    let obs = match r {
        Ok(v) => v,
        Err(e) => {
            let msg = e.downcast_ref::<String>().cloned().or_else(|| e.downcast_ref::<&str>().map(|s| s.to_string())).unwrap_or_default();
            json!({"kind": "panic", "what": msg})
        }
    };
    json!({"id": ops.id, "obs": obs})
}

pub fn run(all: Vec<fn() -> Ops>) {
    std::panic::set_hook(Box::new(|_| {}));
    use std::io::Write;
    let out = std::io::stdout();
    let mut out = std::io::BufWriter::new(out.lock());
    for f in all {
        let line = observe(&f());
        writeln!(out, "{}", line).unwrap();
    }
    out.flush().unwrap();
}
