"""Common machinery of the /verif checks: TLC runner, harness runner, known findings, evidence.

Exit codes of a check: 0 property held on everything explored (known findings are reported, not failed),
1 violation (a `VIOLATION property=<id> replay=<path>` line was printed), 2 tool error.
"""
import json, os, re, shutil, subprocess, sys, time, hashlib

VERIF = os.path.dirname(os.path.dirname(os.path.abspath(__file__)))
SPECS = os.path.join(VERIF, "specs")
HARNESS = os.path.join(VERIF, "harness")
VH = os.path.join(HARNESS, "target", "vh", "vh")
VHCHK = os.path.join(HARNESS, "target", "vhchk", "vh")     # the same harness with overflow checks, debug assertions and std's unsafe-precondition checks
VHDBG = os.path.join(HARNESS, "target", "vhdbg", "vh")     # the same harness unoptimised (deep-run scenarios of C08)
TLA_CP = "/opt/veriftools/tla/tla2tools.jar:/opt/veriftools/tla/CommunityModules-deps.jar"


class ToolError(Exception):
    pass


def log(msg):
    print(msg, flush=True)


class TlcOut:
    def __init__(self):
        self.rc = None
        self.generated = 0
        self.distinct = 0
        self.depth = 0
        self.lines = []      # decoded JSON records printed by PrintT(ToJson(..))
        self.raw = ""
        self.violation = None  # text of an invariant / property violation, if any
        self.coverage = {}
        self.wall = 0.0


class Ctx:
    def __init__(self, prop, tier, seed):
        self.prop, self.tier, self.seed = prop, tier, seed
        self.t0 = time.time()
        self.work = os.path.join(VERIF, "work", "%s-%s-%d" % (prop, tier, os.getpid()))
        shutil.rmtree(self.work, ignore_errors=True)
        os.makedirs(self.work)
        self.states = 0
        self.transitions = 0
        self.tlc_runs = []
        self.evaluations = 0
        self.traces = 0
        self.nontrivial = set()
        self.samples = []
        self.notes = []
        self.violations = []     # dicts: sig, what, replay-doc
        self.known_hits = {}     # finding id -> count
        self.extra = {}
        self.quick = tier == "quick"

    # ------------------------------------------------------------------ build
    def build_harness(self, checked=False, dbg=False):
        global VH, VHCHK, VHDBG
        t = time.time()
        profiles = ["vh"] + (["vhchk"] if checked else []) + (["vhdbg"] if dbg else [])
        env = dict(os.environ, CARGO_NET_OFFLINE="true")
        alt = os.environ.get("VERIF_REPO")
        if alt and os.path.abspath(alt) != "/repo":
            # development aid (mutant runs while /repo is in use): build a copy of the harness against another checkout
            tag = hashlib.sha1(os.path.abspath(alt).encode()).hexdigest()[:8]
            hdir = os.path.join(VERIF, "work", "harness-alt-" + tag)
            os.makedirs(hdir, exist_ok=True)
            subprocess.run(["rsync", "-a", "--delete", "--exclude", "target", HARNESS + "/", hdir + "/"], check=True)
            ct = open(os.path.join(hdir, "Cargo.toml")).read().replace('"/repo/', '"%s/' % os.path.abspath(alt))
            open(os.path.join(hdir, "Cargo.toml"), "w").write(ct)
            for prof in profiles:
                p = subprocess.run(["cargo", "build", "--profile", prof, "--offline"], cwd=hdir, env=env,
                                   stdout=subprocess.PIPE, stderr=subprocess.STDOUT, text=True, timeout=1800)
                if p.returncode != 0:
                    sys.stdout.write(p.stdout[-6000:]); raise ToolError("alt harness build failed")
            VH = os.path.join(hdir, "target", "vh", "vh")
            VHCHK = os.path.join(hdir, "target", "vhchk", "vh")
            VHDBG = os.path.join(hdir, "target", "vhdbg", "vh")
            log("[build] ALT harness built against %s in %.1fs" % (alt, time.time() - t))
            return VH
        lock_src = "/repo/Cargo.lock"
        lock_dst = os.path.join(HARNESS, "Cargo.lock")
        if not os.path.exists(lock_dst) and os.path.exists(lock_src):
            shutil.copy(lock_src, lock_dst)
        for prof in profiles:
            p = subprocess.run(["cargo", "build", "--profile", prof, "--offline"], cwd=HARNESS, env=env,
                               stdout=subprocess.PIPE, stderr=subprocess.STDOUT, text=True, timeout=1800)
            if p.returncode != 0:
                sys.stdout.write(p.stdout[-6000:])
                raise ToolError("harness build failed (does /repo still compile with --cfg ohkami_verif?)")
        log("[build] harness built from /repo working tree in %.1fs" % (time.time() - t))
        return VH

    # ------------------------------------------------------------------ TLC
    def tlc(self, module, cfg, workers=None, timeout=600, env=None, simulate=None, depth=30, coverage=False,
            dfs=False, heap="6g", expect_violation=False, name=None, quiet=False):
        """Runs TLC on specs/<module>.tla with specs/<cfg>.  Returns TlcOut.  Any TLC error other than an
        invariant/property violation raises ToolError."""
        name = name or cfg.replace(".cfg", "")
        meta = os.path.join(self.work, "tlc-" + name)
        shutil.rmtree(meta, ignore_errors=True)
        if workers is None:
            workers = 8
        jopts = "-Xss1g"
        if dfs:
            jopts += " -Dtlc2.tool.queue.IStateQueue=StateDeque"
        e = dict(os.environ)
        e["JAVA_TOOL_OPTIONS"] = jopts
        if env:
            e.update({k: str(v) for k, v in env.items()})
        cmd = ["java", "-XX:+UseParallelGC", "-Xmx" + heap, "-cp", TLA_CP, "tlc2.TLC",
               "-workers", str(workers), "-metadir", meta, "-cleanup", "-noGenerateSpecTE",
               "-config", cfg]
        if coverage:
            cmd += ["-coverage", "1"]
        if simulate:
            cmd += ["-simulate", simulate, "-seed", str(self.seed), "-depth", str(depth)]
        cmd += [module + ".tla"]
        t = time.time()
        outp = os.path.join(self.work, "tlc-" + name + ".out")
        with open(outp, "w") as f:
            try:
                p = subprocess.run(cmd, cwd=SPECS, env=e, stdout=f, stderr=subprocess.STDOUT, timeout=timeout)
                rc = p.returncode
            except subprocess.TimeoutExpired:
                raise ToolError("TLC timed out after %ds on %s/%s" % (timeout, module, cfg))
        o = TlcOut()
        o.rc, o.wall = rc, time.time() - t
        raw_keep = []
        with open(outp, errors="replace") as f:
            for line in f:
                if line.startswith('"{') or line.startswith('"['):
                    try:
                        o.lines.append(json.loads(json.loads(line)))
                        continue
                    except Exception:
                        pass
                raw_keep.append(line)
        o.raw = "".join(raw_keep)
        m = re.findall(r"(\d+) states generated, (\d+) distinct states found", o.raw)
        if m:
            o.generated, o.distinct = int(m[-1][0]), int(m[-1][1])
        m = re.search(r"depth of the complete state graph search is (\d+)", o.raw)
        if m:
            o.depth = int(m.group(1))
        if coverage:
            for m in re.finditer(r"^<(\w+) line \d+, col \d+ to line \d+, col \d+ of module (\w+)>: (\d+):(\d+)", o.raw, re.M):
                o.coverage[m.group(2) + "." + m.group(1)] = [int(m.group(3)), int(m.group(4))]
        viol = re.search(r"Error: (Invariant (\w+) is violated|Temporal properties were violated|Temporal property (\w+) was violated|Action property (\w+) is violated|Deadlock reached)", o.raw)
        if viol:
            o.violation = viol.group(1)
        shutil.rmtree(meta, ignore_errors=True)
        self.states += o.distinct
        self.transitions += o.generated
        self.tlc_runs.append({"module": module, "cfg": cfg, "generated": o.generated, "distinct": o.distinct,
                              "depth": o.depth, "wall_s": round(o.wall, 1), "printed": len(o.lines),
                              "violation": o.violation})
        if not quiet:
            log("[tlc] %s/%s: %d generated, %d distinct, depth %d, %d records, %.1fs%s" % (
                module, cfg, o.generated, o.distinct, o.depth, len(o.lines), o.wall,
                (", " + o.violation) if o.violation else ""))
        bad_exit = (rc != 0 and not o.violation) or ("Error:" in o.raw and not o.violation)
        if bad_exit or (o.violation and not expect_violation) or (expect_violation and not o.violation):
            sys.stdout.write(o.raw[-4000:])
            if o.violation and not expect_violation:
                raise ToolError("the specification %s/%s does not satisfy its own properties (%s): "
                                "a defect of the model, not of /repo" % (module, cfg, o.violation))
            if expect_violation and not o.violation and not bad_exit:
                raise ToolError("%s/%s was expected to produce a counterexample (non-vacuity check) and did not" % (module, cfg))
            raise ToolError("TLC failed on %s/%s (rc=%s)" % (module, cfg, rc))
        return o

    # ------------------------------------------------------------------ harness
    @staticmethod
    def _tool_obs(o):
        return (o["obs"].get("kind") in ("tool-error", "unimplemented")
                or (o["obs"].get("kind") == "panic" and str(o["obs"].get("where", "")).startswith("src/")))

    def vh(self, sub, inp, outp, jobs=12, fresh=False, timeout_ms=10000, timeout=1800, checked=False, dbg=False, load=True):
        cmd = [VHDBG if dbg else (VHCHK if checked else VH), "run", sub, "--in", inp, "--out", outp, "--jobs", str(jobs), "--timeout-ms", str(timeout_ms)]
        if fresh:
            cmd.append("--fresh")
        t = time.time()
        p = subprocess.run(cmd, stdout=subprocess.PIPE, stderr=subprocess.STDOUT, text=True, timeout=timeout)
        if p.returncode != 0:
            sys.stdout.write(p.stdout[-3000:])
            raise ToolError("harness run %s failed rc=%d" % (sub, p.returncode))
        if not load:       # the caller streams the file (the second build of a million scenarios need not sit in memory next to the first)
            log("[vh] %s: scenarios executed on the real code%s in %.1fs" % (sub, " (unoptimised build)" if dbg else (" (checked build)" if checked else ""), time.time() - t))
            return outp
        obs = [json.loads(l) for l in open(outp)]
        # a panic inside the harness's own sources (a socket that could not be bound, an exhausted port range, a bug of ours) says nothing
        # about the code under test: a tool error, never a violation
        tool = [o for o in obs if o["obs"].get("kind") in ("tool-error", "unimplemented")
                or (o["obs"].get("kind") == "panic" and str(o["obs"].get("where", "")).startswith("src/"))]
        if tool:
            raise ToolError("harness reported a tool error: %s" % json.dumps(tool[0])[:600])
        log("[vh] %s: %d scenarios executed on the real code%s in %.1fs" % (sub, len(obs), " (unoptimised build)" if dbg else (" (checked build)" if checked else ""), time.time() - t))
        return obs

    def vh_gen(self, sub, outp, n, extra=()):
        cmd = [VH, "gen", sub, "--seed", str(self.seed), "--n", str(n), "--out", outp] + list(extra)
        p = subprocess.run(cmd, stdout=subprocess.PIPE, stderr=subprocess.STDOUT, text=True, timeout=600)
        if p.returncode != 0:
            sys.stdout.write(p.stdout[-3000:])
            raise ToolError("harness gen %s failed" % sub)

    def path(self, name):
        return os.path.join(self.work, name)

    def write_ndjson(self, name, rows):
        p = self.path(name)
        with open(p, "w") as f:
            for r in rows:
                f.write(json.dumps(r, separators=(",", ":")) + "\n")
        return p

    # ------------------------------------------------------------------ trace validation
    def validate(self, module, cfg, trace_path, n_lines, env=None, timeout=900, name=None, heap="4g"):
        """Runs a Trace_* spec over an ndjson file.  Returns the decoded VERDICT records."""
        e = {"TRACE": trace_path}
        if env:
            e.update(env)
        o = self.tlc(module, cfg, workers=1, dfs=True, env=e, timeout=timeout, name=name or ("trace-" + cfg.replace(".cfg", "")), heap=heap)
        self.traces += 1
        return o

    # ------------------------------------------------------------------ verdicts
    def sample(self, x, limit=6):
        if len(self.samples) < limit:
            self.samples.append(x)

    def note(self, msg):
        self.notes.append(msg)
        log("NOTE: " + msg)

    def violation(self, sig, what, replay):
        """sig: dict of strings/ints identifying the class of the violating scenario and its outcome."""
        o = replay.get("obs") if isinstance(replay, dict) else None
        if isinstance(o, dict) and o.get("kind") == "panic" and replay.get("scn", {}).get("build") in ("checked", "unoptimised"):
            # in the checked / unoptimised build the message of the panic is part of the signature (file names and line numbers removed)
            sig = dict(sig, build=replay["scn"]["build"], panic_msg=re.sub(r"^\S*\.rs:\d+(:\d+)?:\s*", "", str(o.get("msg", "")))[:80])
            sig.pop("where", None)
        self.violations.append({"sig": sig, "what": what, "replay": replay})


def load_findings():
    p = os.path.join(VERIF, "known_findings.json")
    if not os.path.exists(p):
        return []
    return json.load(open(p))["findings"]


def sig_matches(match, sig):
    for k, want in match.items():
        have = sig.get(k)
        if isinstance(want, list):
            if have not in want:
                return False
        elif have != want:
            return False
    return True


def finish(ctx, level="model_checking", rule="", assumptions=(), trusted=(), exhaustive=False, explanation=None):
    """Classifies violations against known_findings.json, prints KNOWN-FINDING / VIOLATION lines, writes evidence."""
    findings = [f for f in load_findings() if f["property"] == ctx.prop]
    open_f = [f for f in findings if f.get("status") == "open"]
    hits = {f["id"]: 0 for f in open_f}
    unknown = {}
    for v in ctx.violations:
        hit = None
        for f in open_f:
            if sig_matches(f["match"], v["sig"]):
                hit = f
                break
        if hit:
            hits[hit["id"]] += 1
        else:
            key = json.dumps(v["sig"], sort_keys=True)
            unknown.setdefault(key, []).append(v)
    for f in open_f:
        if hits[f["id"]]:
            log("KNOWN-FINDING: property=%s %s [%s, %d scenario(s) in this run]" % (ctx.prop, f["what"], f["id"], hits[f["id"]]))
        else:
            log("NOTE: known finding %s did not reproduce in this run (tier %s)" % (f["id"], ctx.tier))
    rc = 0
    replay_dir = os.path.join(VERIF, "work", "replay")
    os.makedirs(replay_dir, exist_ok=True)
    for key, vs in unknown.items():
        v = vs[0]
        h = hashlib.sha1(key.encode()).hexdigest()[:10]
        rp = os.path.join(replay_dir, "%s-%s.json" % (ctx.prop, h))
        with open(rp, "w") as f:
            json.dump({"property": ctx.prop, "tier": ctx.tier, "seed": ctx.seed, "signature": v["sig"], "what": v["what"],
                       "count": len(vs), "scenario": v["replay"]}, f, indent=1)
        log("  violating class %s (%d scenario(s)): %s" % (key, len(vs), v["what"]))
        log("VIOLATION property=%s replay=%s" % (ctx.prop, rp))
        rc = 1
    wall = time.time() - ctx.t0
    cov = {
        "states": ctx.states, "transitions": ctx.transitions,
        "traces_validated_against_impl": ctx.traces,
        "evaluations": ctx.evaluations,
        "distinct_nontrivial": len(ctx.nontrivial) if isinstance(ctx.nontrivial, set) else int(ctx.nontrivial),
        "rule": rule,
        "samples": ctx.samples[:8] if ctx.samples else ["(none)"],
        "exhaustive": bool(exhaustive),
        "tlc_runs": ctx.tlc_runs,
        "trusted_base": list(trusted),
        "known_findings_hit": {k: v for k, v in hits.items() if v},
        "notes": ctx.notes[:40],
    }
    if explanation:
        cov["explanation"] = explanation
    cov.update(ctx.extra)
    ev = {"property_id": ctx.prop, "tier": ctx.tier, "seed": ctx.seed, "level": level, "coverage": cov,
          "assumptions": list(assumptions), "wall_s": round(wall, 1), "violations": len(unknown)}
    evdir = os.path.join(VERIF, "evidence")
    if os.environ.get("VERIF_REPO") and os.path.abspath(os.environ["VERIF_REPO"]) != "/repo":
        evdir = os.path.join(VERIF, "work", "evidence-alt")     # runs against another checkout never touch the evidence
    os.makedirs(evdir, exist_ok=True)
    with open(os.path.join(evdir, ctx.prop + ".json"), "w") as f:
        json.dump(ev, f, indent=1)
    log("[done] %s tier=%s seed=%d: %d evaluations, %d states, %d violation class(es), %d known finding(s) hit, %.1fs" % (
        ctx.prop, ctx.tier, ctx.seed, ctx.evaluations, ctx.states, len(unknown), sum(1 for v in hits.values() if v), wall))
    if rc == 0 and not os.environ.get("VERIF_KEEP"):
        shutil.rmtree(ctx.work, ignore_errors=True)
    return rc


def standard_pipeline(ctx, *, sub, mc=(), gen=(), trace, random_n=0, random_extra=(), jobs=12, fresh=False,
                      timeout_ms=10000, nontrivial=None, dedupe_key=None, post_gen=None, trace_env=None,
                      trace_heap="4g", trace_timeout=1800, chunk=60000, random_filter=None, checked=False):
    """The pipeline shared by most properties (DESIGN §2):
      mc:    [(module, cfg, kwargs)]  exhaustive model checking of the design (layers a+b); must hold
      gen:   [(module, cfg, kwargs)]  TLC prints scenarios (one JSON record each, PrintT(ToJson(..)))
      sub:   harness subcommand that executes scenarios on the real code
      trace: (module, cfg)            Trace_* spec judging every {"id","scn","obs"} line; it must print one
                                      record {"t":"VERDICT","id":n,"ok":bool,"sig":{..}} per line
      random_n: additional scenarios from the harness's seeded random generator (`vh gen <sub>`), same vocabulary
    Violations (ok = false) are registered with their signature; the caller then calls finish()."""
    checked = checked or bool(os.environ.get("VERIF_CHECKED"))      # (experiments: force the second build for any property)
    ctx.build_harness(checked=checked)
    for module, cfg, kw in mc:
        ctx.tlc(module, cfg, **kw)
    scns = []
    for module, cfg, kw in gen:
        g = ctx.tlc(module, cfg, **kw)
        if not g.lines:
            raise ToolError("%s/%s generated no scenario" % (module, cfg))
        scns.extend(g.lines)
    if dedupe_key:
        seen, out = set(), []
        for s in scns:
            k = dedupe_key(s)
            if k not in seen:
                seen.add(k); out.append(s)
        scns = out
    if post_gen:
        scns = post_gen(scns)
    n_tlc = len(scns)
    if random_n:
        rp = ctx.path("random.ndjson")
        ctx.vh_gen(sub, rp, random_n, random_extra)
        for l in open(rp):
            d = json.loads(l); d["random"] = 1
            if random_filter is None or random_filter(d):
                scns.append(d)
    for n, d in enumerate(scns):
        d["id"] = n
    inp = ctx.write_ndjson("scenarios.ndjson", scns)
    obs = ctx.vh(sub, inp, ctx.path("observations.ndjson"), jobs=jobs, fresh=fresh, timeout_ms=timeout_ms)
    if checked:
        # the same scenarios on the build with overflow checks, debug assertions and std's unsafe-precondition checks; an observation
        # that differs from the optimised build's is judged as a scenario of its own (equal observations get equal verdicts)
        p2 = ctx.vh(sub, inp, ctx.path("observations-checked.ndjson"), jobs=jobs, fresh=fresh, timeout_ms=timeout_ms, checked=True, load=False)
        by = {o["id"]: o for o in obs}
        extra = []
        n2 = 0
        for l in open(p2):
            o2 = json.loads(l); n2 += 1
            if Ctx._tool_obs(o2):
                raise ToolError("harness reported a tool error: %s" % json.dumps(o2)[:600])
            if o2["obs"] != by[o2["id"]]["obs"]:
                extra.append({"id": len(obs) + len(extra), "scn": dict(o2["scn"], build="checked"), "obs": o2["obs"]})   # scn.id (the seed of the scenario) stays
        if n2 != len(obs):
            raise ToolError("the checked build answered %d scenarios, the optimised one %d" % (n2, len(obs)))
        ctx.extra["checked_build_differs"] = len(extra)
        ctx.evaluations += n2
        obs = obs + extra
    ctx.evaluations += len(obs) - (len(extra) if checked else 0)
    ctx.extra["scenarios_from_tlc"] = n_tlc
    ctx.extra["scenarios_random"] = len(scns) - n_tlc
    if nontrivial:
        for o in obs:
            k = nontrivial(o)
            if k:
                ctx.nontrivial.add(k if not isinstance(k, bool) else o["id"])
    for o in obs[:: max(1, len(obs) // 5)][:5]:
        ctx.sample(o)
    # trace validation in chunks (bounded memory, one JVM start per chunk)
    verdicts = {}
    module, cfg = trace
    for c in range(0, len(obs), chunk):
        part = obs[c:c + chunk]
        tp = ctx.write_ndjson("trace-%d.ndjson" % (c // chunk), part)
        t = ctx.validate(module, cfg, tp, len(part), env=trace_env, name="trace-%s-%d" % (cfg.replace(".cfg", ""), c // chunk),
                         heap=trace_heap, timeout=trace_timeout)
        for r in t.lines:
            if r.get("t") == "VERDICT":
                verdicts.setdefault(r["id"], []).append(r)
    ctx.traces = len(obs)
    nbad = 0
    for o in obs:
        vs = verdicts.get(o["id"])
        if not vs:
            raise ToolError("trace spec %s produced no verdict for line id=%s: %s" % (module, o["id"], json.dumps(o)[:400]))
        if any(v["ok"] for v in vs):
            continue
        nbad += 1
        sig = vs[0]["sig"]
        if not isinstance(sig, dict):
            sig = {"class": sig}
        ctx.violation(sig, json.dumps({"scn": o["scn"], "obs": o["obs"]})[:400], o)
    log("[judge] %d observation(s) judged by %s: %d outside the property" % (len(obs), module, nbad))
    return obs, verdicts


def standard_replay(ctx, path, *, sub, trace, fresh=False):
    doc = json.load(open(path))
    scn = doc["scenario"]["scn"]
    chk = scn.get("build") == "checked"
    ctx.build_harness(checked=chk)
    inp = ctx.write_ndjson("scenarios.ndjson", [scn])
    obs = ctx.vh(sub, inp, ctx.path("observations.ndjson"), jobs=1, fresh=fresh, checked=chk)
    print(json.dumps(obs[0], indent=1))
    tp = ctx.write_ndjson("trace.ndjson", obs)
    t = ctx.validate(trace[0], trace[1], tp, 1)
    vs = [r for r in t.lines if r.get("t") == "VERDICT"]
    print(vs)
    if not any(v["ok"] for v in vs):
        print("VIOLATION property=%s replay=%s" % (ctx.prop, path))
        return 1
    return 0
