#!/usr/bin/env python3
"""Regenerates section 14 of DESIGN.md (property-preserving changes) from benign/*/meta.json."""
import json, glob, os
V = os.path.dirname(os.path.dirname(os.path.abspath(__file__)))
rows = []
for d in sorted(glob.glob(os.path.join(V, "benign", "*"))):
    mp = os.path.join(d, "meta.json")
    if not os.path.exists(mp):
        continue
    m = json.load(open(mp)); r = m.get("run", {})
    def cell(x): return str(x).replace("|", "\\|").replace("\n", " ")
    checks = r.get("checks", {})
    res = ", ".join("`%s` %s" % (k, "**alarm**" if v["alarm"] else ("tool error" if v["tool_error"] else "quiet")) for k, v in checks.items())
    note = m.get("resolved", "")
    rows.append("| `%s` (%s) %s | %s%s |" % (os.path.basename(d), cell(m.get("kind", "")), cell(m.get("summary", ""))[:300], res, (" — " + cell(note)) if note else ""))
p = os.path.join(V, "DESIGN.md")
s = open(p).read()
a = s.index("<!-- BENIGN-BEGIN -->") + len("<!-- BENIGN-BEGIN -->"); b = s.index("<!-- BENIGN-END -->")
s = s[:a] + "\n| change | checks run against it |\n|---|---|\n" + "\n".join(rows) + "\n" + s[b:]
open(p, "w").write(s)
print(len(rows), "rows")
