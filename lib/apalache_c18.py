"""Unbounded safety of the interrupt protocol (C18) with Apalache: an inductive invariant of Shutdown.tla for ANY number of
arrivals, sessions, spurious wake-ups and signals.  The typed copy of the spec is generated from specs/Shutdown.tla so that
there is one source of truth.  Three obligations: Init => IndInv, IndInv /\\ Next => IndInv', IndInv => Safety."""
import os, re, subprocess, shutil

TYPES = {'catch': 'Bool', 'waker': 'Int', 'pcH': 'Str', 'hw': 'Int', 'sigs': 'Int', 'pcA': 'Str', 'woken': 'Bool', 'registered': 'Bool',
         'queue': 'Int', 'arrivals': 'Int', 'spurious': 'Int', 'wg': 'Int', 'inflight': 'Int'}
ORDER = ['catch', 'waker', 'pcH', 'hw', 'sigs', 'pcA', 'woken', 'registered', 'queue', 'arrivals', 'spurious', 'wg', 'inflight']
TAIL = r'''\* ---- for Apalache: constants are arbitrary (any number of arrivals, spurious wake-ups, signals)
ConstInit == RECHECK = TRUE /\ MaxArrivals \in Nat /\ MaxSpurious \in Nat /\ MaxSignals \in Nat
IndInv == /\ catch \in BOOLEAN /\ woken \in BOOLEAN /\ registered \in BOOLEAN
          /\ waker \in {0, 1} /\ hw \in {0, 1}
          /\ pcH \in {"idle", "store", "swap", "wake"}
          /\ pcA \in {"poll", "load", "publish", "ret", "suspended", "spawn", "drop", "wgwait", "returned"}
          /\ queue \in Nat /\ arrivals \in Nat /\ spurious \in Nat /\ sigs \in Nat /\ wg \in Nat /\ inflight \in Nat
          /\ wg = inflight
          /\ (pcA = "returned" => (inflight = 0 /\ catch))
          /\ (pcA \in {"drop", "wgwait"} => catch)
          /\ (pcH \in {"swap", "wake"} => catch)
IndInit == IndInv
NextS == Next \/ UNCHANGED vars
Safety == NoEarlyReturn /\ ReturnOnlyAfterInterrupt /\ WgExact
============================================================================='''

def generate(specs, out):
    s = open(os.path.join(specs, "Shutdown.tla")).read()
    s = s.replace("MODULE Shutdown ", "MODULE ShutdownApa ").replace("EXTENDS Naturals, TLC", "EXTENDS Naturals")
    a, b = s.index("CONSTANTS RECHECK"), s.index("VARIABLES")
    s = s[:a] + "CONSTANTS\n  \\* @type: Bool;\n  RECHECK,\n  \\* @type: Int;\n  MaxArrivals,\n  \\* @type: Int;\n  MaxSpurious,\n  \\* @type: Int;\n  MaxSignals\n\n" + s[b:]
    a, b = s.index("VARIABLES"), s.index("vars ==")
    s = s[:a] + "VARIABLES\n" + ",\n".join("  \\* @type: %s;\n  %s" % (TYPES[n], n) for n in ORDER) + "\n\n" + s[b:]
    s = s[:s.rindex("=====")].rstrip("=\n") + "\n" + TAIL + "\n"
    os.makedirs(out, exist_ok=True)
    open(os.path.join(out, "ShutdownApa.tla"), "w").write(s)

def run(specs, work, log):
    out = os.path.join(work, "apalache"); generate(specs, out)
    obligations = [("Init => IndInv", ["--init=Init", "--inv=IndInv", "--length=0"]),
                   ("IndInv /\\ Next => IndInv'", ["--init=IndInit", "--inv=IndInv", "--length=1"]),
                   ("IndInv => Safety", ["--init=IndInit", "--inv=Safety", "--length=0"])]
    done = 0
    for name, args in obligations:
        p = subprocess.run(["timeout", "900", "apalache-mc", "check", "--cinit=ConstInit", "--next=NextS", "--out-dir=" + os.path.join(out, "o")] + args + ["ShutdownApa.tla"],
                           cwd=out, stdout=subprocess.PIPE, stderr=subprocess.STDOUT, text=True)
        ok = "The outcome is: NoError" in p.stdout
        log("[apalache] %s: %s" % (name, "discharged" if ok else "NOT discharged"))
        if not ok:
            return done, len(obligations), p.stdout[-1500:]
        done += 1
    shutil.rmtree(os.path.join(out, "o"), ignore_errors=True)
    return done, len(obligations), ""
