"""C12 — JWT fang admits exactly the tokens signed with the configured key and valid now.  DESIGN §4 C12.
specs/Auth.tla (JwtClass = layer a, ImplJwt = layer b), specs/AuthGen.tla (row families), specs/MC_Auth.tla,
specs/Trace_Auth.tla; harness/src/auth.rs (`mod = jwt`)."""
import base64, hashlib, hmac, json, os
from vlib import standard_pipeline, standard_replay, finish, log, ToolError

RULE = ("TLC enumerates fact rows around the token `issue` writes for a configuration (3 algorithms x keys x token getter x payload "
        "type x mount): who signed with which key/algorithm x what the header names (F1), every mutation of the token string (F2), "
        "every transport (F2v), every combination of exp/nbf/iat kinds (F3), every header layout/typ/cty (F4), payload shapes x payload "
        "types (F5), claims x mutation x transport (F6, thorough); each row is concretised with real HMAC-SHA2 and position-quantified "
        "mutations are expanded to EVERY position; non-trivial = distinct rows other than the untouched issued token and 'no header', "
        "i.e. rows where exactly the facts named by the property decide")

TRACE = ("Trace_Auth", "Trace_Auth.cfg")


def _cs(seed, n):
    return (seed * 7919 + n * 104729 + 17) % 1000003


def selfcheck(ctx):
    """the harness's own HMAC-SHA2 / base64 code path against Python's hmac, hashlib, base64 (fixed vectors)"""
    vecs = []
    keys = [b"key", b"", b"k" * 64, b"L" * 200, "ключ-秘密-🔑".encode()]
    msgs = [b"The quick brown fox jumps over the lazy dog", b"", b"eyJ0eXAiOiJKV1QiLCJhbGciOiJIUzI1NiJ9.eyJuIjoxfQ"]
    for alg in ("HS256", "HS384", "HS512"):
        for k in keys:
            for m in msgs:
                vecs.append({"mod": "selfcheck", "alg": alg, "key_hex": k.hex(), "msg_hex": m.hex()})
    for n, v in enumerate(vecs):
        v["id"] = n
    inp = ctx.write_ndjson("selfcheck.ndjson", vecs)
    obs = ctx.vh("auth", inp, ctx.path("selfcheck-obs.ndjson"), jobs=1)
    h = {"HS256": hashlib.sha256, "HS384": hashlib.sha384, "HS512": hashlib.sha512}
    for o in obs:
        s, r = o["scn"], o["obs"]
        want = hmac.new(bytes.fromhex(s["key_hex"]), bytes.fromhex(s["msg_hex"]), h[s["alg"]]).digest()
        if (r.get("mac_hex") != want.hex() or r.get("b64url") != base64.urlsafe_b64encode(want).rstrip(b"=").decode()
                or r.get("b64std") != base64.b64encode(want).decode()):
            raise ToolError("the harness's HMAC/base64 code path disagrees with Python on %s" % json.dumps(s))
    ctx.extra["hmac_crosscheck_vectors"] = len(obs)
    log("[c12] harness HMAC-SHA2/base64 code path agrees with Python hmac/hashlib/base64 on %d vectors" % len(obs))


def _post(ctx):
    def post(scns):
        scns.sort(key=lambda s: json.dumps(s, sort_keys=True))
        for n, s in enumerate(scns):
            s["cs"] = _cs(ctx.seed, n)
            s["reps"] = 1 if ctx.quick else 2
        return scns
    return post


_BASE = {"skey": "same", "typ": "JWT", "cty": "absent", "hshape": "issue", "exp": "absent", "nbf": "absent", "iat": "absent",
         "pay": "obj", "mut": "none", "via": "std"}


def _nontrivial(o):
    scn = o["scn"]
    if scn.get("mod") != "jwt":
        return None
    t, c = scn["tok"], scn["cfg"]
    if t["via"] == "nohdr":
        return None
    if all(t[k] == v for k, v in _BASE.items()) and t["salg"] == c["alg"] and t["halg"] == c["alg"] and t["method"] != "OPTIONS":
        return None
    return json.dumps([c, t], sort_keys=True)


def run(ctx):
    q = ctx.quick
    os.environ["VH_AUTH_MOD"] = "jwt"
    ctx.build_harness()
    selfcheck(ctx)
    obs, verdicts = standard_pipeline(
        ctx, checked=True, sub="auth",
        mc=[("MC_Auth", "MC_Auth.cfg" if q else "MC_Auth_deep.cfg", dict(workers=4 if q else 8))],
        gen=[("AuthGen", "Gen_Auth_jwt.cfg" if q else "Gen_Auth_jwt_deep.cfg", dict(workers=1))],
        trace=TRACE, random_n=15000 if q else 200000, post_gen=_post(ctx), nontrivial=_nontrivial,
        dedupe_key=lambda s: json.dumps(s, sort_keys=True), jobs=12, timeout_ms=30000)
    reqs = sum(o["obs"].get("n", 0) for o in obs)
    ctx.evaluations = reqs + ctx.extra.get("hmac_crosscheck_vectors", 0)
    ctx.extra["rows"] = len(obs)
    ctx.extra["requests_sent_through_the_fang"] = reqs
    by_class = {}
    free_ran = 0
    for o in obs:
        vs = verdicts.get(o["id"], [])
        cl = vs[0]["sig"].get("class") if vs else "?"
        by_class[cl] = by_class.get(cl, 0) + 1
        if cl == "free":
            free_ran += 1 if o["obs"].get("ran_same", 0) > 0 else 0
    ctx.extra["rows_by_oracle_class"] = by_class
    ctx.extra["free_rows_admitted_by_the_code"] = free_ran
    diff = sum(1 for o in obs if o["obs"].get("issue_eq") == "diff")
    same = sum(1 for o in obs if o["obs"].get("issue_eq") == "same")
    ctx.extra["issue_vs_own_token"] = {"identical": same, "different": diff}
    if diff:
        ctx.note("%d row(s): the token written by the real JWT::issue differs textually from the harness's own construction "
                 "(both were sent and judged; e.g. number formatting of non-integer claims)" % diff)
    log("[c12] %d rows = %d requests through the real fang; oracle classes %s; free rows the code admits: %d; issue()==own token on %d rows"
        % (len(obs), reqs, json.dumps(by_class, sort_keys=True), free_ran, same))
    return finish(ctx, rule=RULE, exhaustive=True,
                  assumptions=["time claims within one hour of the real clock are not generated (the harness uses the real clock, as the fang does)",
                               "which error status a refusal gets is free (any status >= 400)",
                               "signing keys that are HMAC-equivalent to the configured one (zero-padded, or the hash of an over-long key) are not generated",
                               "properly MACed tokens that `issue` would not have written byte for byte (other header layout, typ/cty variations, lower-case "
                               "alg or scheme, claim values that are not JSON numbers, fields the payload type does not carry) are left free; if admitted the payload must still be the signed one",
                               "OPTIONS: only 'the handler does not run' is required"],
                  trusted=["harness/src/auth.rs: key/payload/header/claim tables, mutation expanders, own HMAC-SHA2 (hmac, sha2 crates) and base64 code "
                           "path cross-checked against Python per run, handler-ran counter and payload echo through Context<Payload>",
                           "harness/src/util.rs parse_response", "the system clock"])


def replay(ctx, path):
    return standard_replay(ctx, path, sub="auth", trace=TRACE)
