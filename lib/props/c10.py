"""C10 — multipart/form-data bodies decode to exactly the submitted fields and files.  DESIGN §4 C10."""
import json
from vlib import finish, log, ToolError, standard_pipeline, standard_replay

RULE = ("TLC enumerates forms (<= 3 parts over a part catalogue; every content of length <= 3 (thorough: 4) over the byte classes "
        "x/CR/LF/-/NUL/UTF-8/boundary-letter/high-byte in front of the closing and of an inner delimiter; every combination of the "
        "optional header variants) x boundary tokens x target structs, encodes each with the spec's own RFC 7578 encoder EncodeForm and "
        "the real decoder is run on those bytes; non-trivial (counted by the TLA+ predicate NonTrivial on every line) = a content that "
        "begins/ends with CR, LF, '-' or the boundary letter or holds NUL/high/multi-byte characters, a repeated name, an empty file, the "
        "empty-file-input convention, an empty text, or a field whose type does not fit the submitted parts")

def _cv(seed):
    def post(scns):
        for n, d in enumerate(scns):
            d["cv"] = (n * 7919 + seed * 104729) % 1000003
        return scns
    return post

def run(ctx):
    q = ctx.quick
    w = 4 if q else 8
    mc = [("MultipartGen", "MC_Multipart.cfg" if q else "MC_Multipart_deep.cfg", dict(workers=8, timeout=900)),
          ("MultipartGen", "MC_Multipart_delim.cfg" if q else "MC_Multipart_delim_deep.cfg", dict(workers=8, timeout=900)),
          ("MultipartGen", "MC_Multipart_headers.cfg", dict(workers=w))]
    sfx = "" if q else "_deep"
    gen = [("MultipartGen", "Gen_Multipart_delim%s.cfg" % sfx, dict(workers=8, timeout=900)),
           ("MultipartGen", "Gen_Multipart_headers%s.cfg" % sfx, dict(workers=w, timeout=900)),
           ("MultipartGen", "Gen_Multipart_shapes%s.cfg" % sfx, dict(workers=8, timeout=900))]
    ctx.build_harness()
    # non-vacuity of the refinement check: without the named deviations the model of the decoder is outside the property
    o = ctx.tlc("MultipartGen", "MC_Multipart_strict.cfg", workers=2, expect_violation=True)
    ctx.extra["nonvacuity"] = "RefineStrict (no deviation exempted) yields: " + str(o.violation)
    obs, verdicts = standard_pipeline(ctx, checked=True, sub="multipart", mc=mc, gen=gen, trace=("Trace_Multipart", "Trace_Multipart.cfg"),
                                      random_n=20000 if q else 200000, post_gen=_cv(ctx.seed), jobs=12, chunk=50000 if q else 100000,
                                      trace_timeout=1800)
    kinds = {}
    for o in obs:
        v = verdicts[o["id"]][0]
        if v["sig"].get("out", "").startswith("tool:"):
            raise ToolError("scenario %s: the wire used by the harness is not EncodeForm(form, opts): %s" % (o["id"], json.dumps(o["scn"])[:300]))
        if v.get("nt"):
            ctx.nontrivial.add(o["id"])
        k = o["obs"].get("kind")
        kinds[k] = kinds.get(k, 0) + 1
    ctx.extra["outcomes"] = kinds
    ctx.extra["families"] = {f: sum(1 for o in obs if o["scn"].get("fam") == f) for f in ("delim", "headers", "shapes", "random")}
    # drift of the implementation-shaped model is informational only
    return finish(ctx, rule=RULE, exhaustive=True,
                  assumptions=["contents never contain `--boundary` (with or without a preceding CRLF); names and filenames avoid \", CR, LF",
                               "the encoder writes `Content-Disposition: form-data; name=\"..\"[; filename=\"..\"]` in the canonical spelling every browser and curl use",
                               "text values are valid UTF-8; a part without Content-Type may decode to an empty or to the default text/plain media type",
                               "a zero-part body, extra parts not declared by the target, an empty text into Option<File>, and an empty file input next to other parts of the same name may be accepted or refused (the text does not say)",
                               "media type multipart/mixed (nested, deprecated by RFC 7578) is not generated"],
                  trusted=["harness/src/multipart.rs token->bytes table and its inverse", "the target struct catalogue (serde derive)",
                           "TLC's Json module"])

def replay(ctx, path):
    return standard_replay(ctx, path, sub="multipart", trace=("Trace_Multipart", "Trace_Multipart.cfg"))
