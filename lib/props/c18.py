"""C18 — graceful shutdown never loses the interrupt and waits for sessions.  DESIGN §4 C18."""
import json
from vlib import finish, log, ToolError

RULE = ("TLC enumerates every interleaving of the Shutdown spec up to quiescence (proto: handler steps x poll steps x "
        "spurious wake-ups; e2e: arrival/signal/session-end orders); each is forced on the real code in a fresh process; "
        "non-trivial = the signal handler runs concurrently with a poll (a handler step lies between two poll steps)")

def flatten(obs):
    """observations -> event lines for Trace_Shutdown"""
    ev = []
    for o in obs:
        scn, ob = o["scn"], o["obs"]
        ev.append({"ev": "reset", "id": scn["id"], "mode": scn["mode"]})
        if scn["mode"] == "proto":
            for st in scn["steps"]:
                ev.append({"ev": "act", "a": st[1]})
            ev.append({"ev": "end", "returned": bool(ob.get("returned")), "model_returned": scn["model"]["returned"]})
        else:
            for k, i in ob.get("events", []):
                ev.append({"ev": k, "i": i})
            ev.append({"ev": "end", "returned": bool(ob.get("returned")), "model_returned": scn["model"]["returned"]})
    return ev

def interleaved(steps):
    th = [s[0] for s in steps if s[0] in ("H", "A") and s[1] not in ("APollAccept", "AWgPoll", "ADrop")]
    # an H step strictly between two A steps of the same poll
    for i, t in enumerate(th):
        if t == "H" and "A" in th[:i] and "A" in th[i + 1:]:
            return True
    return False

def run(ctx):
    ctx.build_harness()
    q = ctx.quick
    # (a)+(b): the design satisfies the property (safety + liveness) within the constants
    ctx.tlc("Shutdown", "MC_Shutdown.cfg" if q else "MC_Shutdown_deep.cfg", workers=4 if q else 8, coverage=not q)
    # non-vacuity: without the re-check TLC must find the lost wake-up
    o = ctx.tlc("Shutdown", "MC_Shutdown_norecheck.cfg", workers=2, expect_violation=True)
    ctx.extra["nonvacuity"] = "RECHECK=FALSE yields: " + str(o.violation)
    if not q:
        # unbounded safety (any number of sessions / arrivals / signals): inductive invariant discharged by Apalache
        import apalache_c18
        from vlib import SPECS
        d, n, err = apalache_c18.run(SPECS, ctx.work, log)
        ctx.extra["apalache"] = {"obligations": n, "discharged": d, "what": "Init => IndInv; IndInv /\\ Next => IndInv'; IndInv => NoEarlyReturn /\\ ReturnOnlyAfterInterrupt /\\ WgExact, constants arbitrary naturals"}
        if d != n:
            raise ToolError("Apalache did not discharge the inductive invariant of Shutdown.tla: " + err[-600:])
    # scenario generation
    scns = []
    g = ctx.tlc("ShutdownGen", "Gen_Shutdown_proto.cfg" if q else "Gen_Shutdown_proto_deep.cfg", workers=4)
    for d in g.lines:
        scns.append(d)
    g2 = ctx.tlc("ShutdownGen", "Gen_Shutdown_e2e.cfg" if q else "Gen_Shutdown_e2e_deep.cfg", workers=4)
    seen = set()
    for d in g2.lines:
        k = json.dumps([s[0] for s in d["steps"]])
        if k not in seen:
            seen.add(k); d["crash"] = []; scns.append(d)
            # the same script with sessions that end by unwinding (handler panics): every session / the first one only
            nc = sum(1 for s in d["steps"] if s[0] == "C")
            for cr in ([list(range(nc))] if nc == 1 else [list(range(nc)), [0]]) if nc else []:
                d2 = json.loads(json.dumps(d)); d2["crash"] = cr; scns.append(d2)
            # the same script with sessions that are upgraded to a WebSocket (in flight until the WebSocket handler ends): the first one / all
            for w in ([[0]] if nc == 1 else [[0], list(range(nc))]) if nc else []:
                d3 = json.loads(json.dumps(d)); d3["crash"] = []; d3["ws"] = w; scns.append(d3)
            # all sessions WebSocket sessions, in flight after the interrupt for longer than the server's Keep-Alive deadline (which is not theirs)
            if nc:
                d4 = json.loads(json.dumps(d)); d4["crash"] = []; d4["ws"] = list(range(nc))
                d4["timers"] = {"keepalive": 1, "websocket": 60, "grace_ms": 1700}; scns.append(d4)
    # the in-flight counter under a storm of sessions that end while others are accepted (two threads on the real WaitGroup)
    for k in range(2 if q else 6):
        scns.append({"mode": "e2e", "steps": [["S", "Signal"]], "model": {"returned": True}, "storm": {"rounds": 20 if q else 60, "per": 100000 if q else 300000}})
    # bursts: a connection in the accept queue and the interrupt delivered between two polls of the accept loop (a runtime with one thread)
    for k in range(3 if q else 12):
        scns.append({"mode": "e2e", "steps": [["C", "Arrive"], ["S", "Signal"]], "model": {"returned": True}, "burst": True})
    for d in scns:
        d.setdefault("crash", []); d.setdefault("ws", [])
    for n, d in enumerate(scns):
        d["id"] = n
    inp = ctx.write_ndjson("scenarios.ndjson", scns)
    obs = ctx.vh("sd", inp, ctx.path("observations.ndjson"), jobs=12, fresh=True, timeout_ms=90000)
    ctx.evaluations = len(obs)
    for o in obs:
        if o["scn"]["mode"] == "proto" and interleaved(o["scn"]["steps"]):
            ctx.nontrivial.add(o["id"])
        if o["scn"]["mode"] == "e2e" and "S" in [s[0] for s in o["scn"]["steps"][:-1]]:
            ctx.nontrivial.add(o["id"])
    ctx.sample({"schedule": [s[1] for s in obs[len(obs) // 3]["scn"]["steps"]], "observed": {k: obs[len(obs) // 3]["obs"].get(k) for k in ("returned", "polls", "points")}})
    ctx.sample({"e2e-script": [s[0] for s in obs[-1]["scn"]["steps"]], "events": obs[-1]["obs"].get("events")})
    stuck = sum(1 for o in obs if o["obs"].get("stuck"))
    if stuck:
        ctx.note("%d schedule(s) could not be forced step by step (scheduling points moved: model drift); judged on their end state only" % stuck)
    # trace validation: every observation is judged by the spec
    by_id = {o["id"]: o for o in obs}
    crashed = [o for o in obs if o["obs"].get("kind") not in ("sd", "e2e")]
    for o in crashed:
        ctx.violation({"mode": o["scn"]["mode"], "class": o["obs"].get("kind"), "where": o["obs"].get("where", "")},
                      "process %s while executing the schedule" % o["obs"].get("kind"), o)
    good = [o for o in obs if o["obs"].get("kind") in ("sd", "e2e")]
    verdicts = {}
    CH = 2500          # runs per TLC invocation (the skip-to-next-run step of the trace spec is linear in the trace length)
    for c in range(0, len(good), CH):
        ev = flatten(good[c:c + CH])
        tp = ctx.write_ndjson("trace-%d.ndjson" % (c // CH), ev)
        t = ctx.validate("Trace_Shutdown", "Trace_Shutdown.cfg", tp, len(ev), name="trace-%d" % (c // CH), timeout=1800)
        for r in t.lines:
            if r.get("t") == "VERDICT":
                verdicts.setdefault(r["id"], []).append(r)
    ctx.traces = len(good)
    drift = 0
    for o in good:
        vs = verdicts.get(o["id"])
        if not vs:
            ctx.violation({"mode": o["scn"]["mode"], "class": "unexplained"},
                          "no behaviour of the Shutdown spec explains the events recorded from the real code", o)
            continue
        sigs = set(v["sig"] for v in vs)
        if all(v["drift"] for v in vs):
            drift += 1
        if "ok" in sigs:
            continue
        s = sorted(sigs)[0]
        if s == "model-drift":
            drift += 1; continue
        ctx.violation({"mode": o["scn"]["mode"], "class": s}, "%s: %s" % (s, json.dumps(o["scn"]["steps"])[:300]), o)
    if drift:
        ctx.note("%d run(s) ended differently from the model's prediction (model drift, not a violation)" % drift)
    return finish(ctx, rule=RULE, exhaustive=True,
                  assumptions=["rt_tokio on Linux; the glommio variant of the handler is not built",
                               "sessions terminate (handlers return, clients close)",
                               "wake-ups requested through a Waker are delivered by the runtime"],
                  trusted=["ctrlc crate delivering SIGINT to the closure", "harness/src/sd.rs turn-taking controller",
                           "tokio"])

def replay(ctx, path):
    doc = json.load(open(path))
    ctx.build_harness()
    scn = doc["scenario"]["scn"]
    inp = ctx.write_ndjson("scenarios.ndjson", [scn])
    obs = ctx.vh("sd", inp, ctx.path("observations.ndjson"), jobs=1, fresh=True)
    print(json.dumps(obs[0], indent=1))
    ev = flatten([o for o in obs if o["obs"].get("kind") in ("sd", "e2e")])
    tp = ctx.write_ndjson("trace.ndjson", ev)
    t = ctx.validate("Trace_Shutdown", "Trace_Shutdown.cfg", tp, len(ev))
    print([r for r in t.lines])
    bad = not any(r.get("sig") == "ok" for r in t.lines)
    if bad:
        print("VIOLATION property=C18 replay=%s" % path)
    return 1 if bad else 0
