"""C19 — a mounted directory serves exactly its files, byte-identical, and nothing else.  DESIGN §4 C19."""
import json, copy
from concurrent.futures import ThreadPoolExecutor
from vlib import finish, log, ToolError

RULE = ("TLC enumerates every directory tree within the bounds of the profile (files over named slots in ., sub, sub/deep, "
        "dotted directories; plus larger seed trees) x omit_extensions setting x mount route, and for each the request set "
        "Requests(scn) (every file in both spellings, every directory, near-miss names, traversal/encoding variants, files "
        "outside, GET/HEAD/POST); the harness adds seeded random trees beyond those bounds.  Each scenario is mounted with the "
        "real `.Dir(..)` and every request goes through the real Request::read -> Router::handle -> Response::send; "
        "Trace_DirMount judges the mount and every single response with layer (a) of DirMount.tla.  "
        "non-trivial = scenarios for which NonTrivial(scn) holds in the trace spec: at least two files and a nested directory, "
        "an index.html or a file whose extension is omitted (the route derivation is not the identity on a flat directory)")

ASSUMPTIONS = [
    "file and directory names are over ohkami's route alphabet and carry an extension of ohkami_lib::mime; text/* files are UTF-8 "
    "(for trees outside this domain a refused mount is accepted, requests that touch such a file are not judged)",
    "when two files are demanded at the same path (a.html + a.js with both extensions omitted; a.html + a/index.html) a refused "
    "mount or either file is accepted",
    "left open by the property text and therefore accepted either way: a single trailing slash after a served path, the "
    "extension-ful spelling of a file whose extension is omitted, percent-encoded unreserved characters, HEAD/POST on a served path "
    "answering 404/405",
    "regular files and directories only (no symlinks, devices); case-sensitive file system",
    "requests carry no conditional / range / accept-encoding headers (Dir has no such feature in this version)",
]
TRUSTED = ["harness/src/dirmount.rs: materialisation of the tree, content table (class -> bytes), projection `eq` = files whose bytes "
           "equal the framed body", "harness/src/util.rs parse_response (independent HTTP/1.1 response parser)",
           "the file system of the sandbox"]

CHUNK = 250   # scenarios per trace-validation run (lines are large)
PAR = 5       # concurrent trace-validation processes (each single-threaded)


def pipeline(ctx, scns, tag):
    """executes one batch of scenarios on the real code and has Trace_DirMount judge every response"""
    for n, d in enumerate(scns):
        d["id"] = n
    inp = ctx.write_ndjson("scenarios-%s.ndjson" % tag, scns)
    obs = ctx.vh("dir", inp, ctx.path("observations-%s.ndjson" % tag), jobs=12, timeout_ms=30000)
    nreq = sum(len(o["obs"].get("resps", [])) for o in obs)
    ctx.evaluations += nreq + len(obs)
    ctx.extra.setdefault("batches", {})[tag] = {"scenarios": len(scns), "requests_sent": nreq}
    # model drift: the implementation-shaped model (b) predicted status/file for every TLC-generated request
    drift = 0
    for o in obs:
        ob = o["obs"]
        if ob.get("kind") != "dir" or "mmount" not in o["scn"]:
            continue
        if (o["scn"]["mmount"] == "mounted") != bool(ob.get("mounted")):
            drift += 1
            continue
        for rq, rs in zip(o["scn"]["reqs"], ob.get("resps", [])):
            if "ms" not in rq:
                continue
            if rq["ms"] != rs["status"] or (rq["mf"] and rq["mf"] not in rs["eq"] + rs["eqall"] and rq["m"] != "HEAD"):
                drift += 1
    if drift:
        ctx.note("%d response(s) differ from the prediction of the implementation-shaped model (model drift, not a violation)" % drift)
    ctx.extra["model_drift"] = ctx.extra.get("model_drift", 0) + drift
    # trace validation: the spec judges the mount of every scenario and every response
    verdicts = {}
    def one(c):
        part = obs[c:c + CHUNK]
        sub = copy.copy(ctx)          # private counters: the chunks are validated by concurrent TLC processes
        sub.tlc_runs, sub.states, sub.transitions, sub.traces = [], 0, 0, 0
        tp = sub.write_ndjson("trace-%s-%d.ndjson" % (tag, c // CHUNK), part)
        t = sub.validate("Trace_DirMount", "Trace_DirMount.cfg", tp, len(part), name="trace-%s-%d" % (tag, c // CHUNK), heap="3g")
        return sub, t
    with ThreadPoolExecutor(max_workers=PAR) as ex:
        for sub, t in ex.map(one, range(0, len(obs), CHUNK)):
            ctx.states += sub.states; ctx.transitions += sub.transitions; ctx.tlc_runs.extend(sub.tlc_runs)
            for r in t.lines:
                if r.get("t") == "VERDICT":
                    verdicts[(r["id"], r["k"])] = r
    ctx.traces += len(obs)
    nbad = 0
    classes = ctx.extra.setdefault("verdict_classes", {})
    for o in obs:
        ob = o["obs"]
        v0 = verdicts.get((o["id"], 0))
        if v0 is None:
            raise ToolError("Trace_DirMount produced no verdict for scenario id=%s" % o["id"])
        if v0["nt"]:
            ctx.nontrivial.add((tag, o["id"]))
        n = len(ob.get("resps", [])) if ob.get("kind") == "dir" and ob.get("mounted") else 0
        for k in range(0, n + 1):
            v = verdicts.get((o["id"], k))
            if v is None:
                raise ToolError("Trace_DirMount produced no verdict for scenario id=%s request %d" % (o["id"], k))
            key = json.dumps(v["sig"], sort_keys=True)
            classes[key] = classes.get(key, 0) + 1
            if v["ok"]:
                continue
            nbad += 1
            scn = o["scn"]
            small = {"mount": scn["mount"], "omit": scn["omit"], "files": scn["files"], "late": scn.get("late", []),
                     "emptydirs": scn.get("emptydirs", []), "salt": scn.get("salt", 0), "id": scn["id"],
                     "reqs": [scn["reqs"][k - 1]] if k else []}
            what = ("mount of %s: %s" % (files_str(scn), ob.get("msg") or ob.get("kind"))) if k == 0 else \
                   ("%s %s on %s omit=%s mount=%s -> %s" % (scn["reqs"][k - 1]["m"], "".join(scn["reqs"][k - 1]["path"]), files_str(scn),
                                                              ["".join(e) for e in scn["omit"]], "/" + "/".join("".join(s) for s in scn["mount"]),
                                                              {x: ob["resps"][k - 1].get(x) for x in ("status", "mt", "eq", "eqall", "blen", "tail", "cl")}))
            ctx.violation(v["sig"], what[:500], {"scn": small, "obs": (ob["resps"][k - 1] if k else {kk: ob.get(kk) for kk in ("kind", "mounted", "refusal", "msg")})})
    log("[judge] %s: %d scenario(s), %d response(s) judged by Trace_DirMount: %d outside the property" % (tag, len(obs), nreq, nbad))
    for o in obs[:: max(1, len(obs) // 2)][:2]:
        ob = o["obs"]
        ctx.sample({"files": files_str(o["scn"]), "omit": ["".join(e) for e in o["scn"]["omit"]],
                    "mount": "/" + "/".join("".join(s) for s in o["scn"]["mount"]), "mounted": ob.get("mounted"),
                    "responses": [[r["target"], r["status"], r["mt"], r["eq"], r["eqall"]] for r in ob.get("resps", [])[:6]]})
    return obs


def files_str(scn):
    return ["/".join("".join(s) for s in f["path"]) + ":" + f["cls"] for f in scn["files"]]


def run(ctx):
    ctx.build_harness()
    q = ctx.quick
    # (a)+(b) and generation in one TLC run per profile: INVARIANTS Refines Emit — on every state (= scenario) the
    # implementation-shaped model must refine the oracle on every request (deviations named), then the scenario is printed.
    # (MC_DirMount*.cfg are the same runs without emission.)
    gens = ["Gen_DirMount.cfg"] if q else ["Gen_DirMount_deep.cfg", "Gen_DirMount_deep3.cfg"]
    # non-vacuity: without the named deviations / with the wrong sibling order TLC finds counterexamples
    o1 = ctx.tlc("DirMountGen", "MC_DirMount_nodev.cfg", workers=2, expect_violation=True, quiet=True)
    o2 = ctx.tlc("DirMountGen", "MC_DirMount_fwdsort.cfg", workers=4, expect_violation=True, quiet=True)
    ctx.extra["nonvacuity"] = {"KnownDeviations={}": str(o1.violation), "SORT=forward": str(o2.violation)}
    if not q:
        ctx.tlc("DirMountGen", "MC_DirMount_fixed.cfg", workers=8, timeout=600)           # the proposed repairs need no deviation
    seen = set()
    for cfg in gens:
        g = ctx.tlc("DirMountGen", cfg, workers=8, timeout=1500)
        if not g.lines:
            raise ToolError("%s generated no scenario" % cfg)
        scns = []
        for d in g.lines:
            key = json.dumps([d["mount"], d["omit"], d["files"]])
            if key not in seen:
                seen.add(key); scns.append(d)
        g.lines = None
        pipeline(ctx, scns, cfg.replace("Gen_DirMount", "tlc").replace(".cfg", ""))
    rp = ctx.path("random.ndjson")
    ctx.vh_gen("dir", rp, 300 if q else 6000)
    scns = []
    for l in open(rp):
        d = json.loads(l); d["random"] = 1
        scns.append(d)
    pipeline(ctx, scns, "random")
    ctx.extra["verdict_classes"] = dict(sorted(ctx.extra.get("verdict_classes", {}).items(), key=lambda kv: -kv[1])[:40])
    return finish(ctx, rule=RULE, exhaustive=True, assumptions=ASSUMPTIONS, trusted=TRUSTED)


def replay(ctx, path):
    doc = json.load(open(path))
    ctx.build_harness()
    scn = doc["scenario"]["scn"]
    inp = ctx.write_ndjson("scenarios.ndjson", [scn])
    obs = ctx.vh("dir", inp, ctx.path("observations.ndjson"), jobs=1)
    print(json.dumps(obs[0]["obs"], indent=1))
    tp = ctx.write_ndjson("trace.ndjson", obs)
    t = ctx.validate("Trace_DirMount", "Trace_DirMount.cfg", tp, 1)
    vs = [r for r in t.lines if r.get("t") == "VERDICT"]
    print(vs)
    if not all(v["ok"] for v in vs):
        print("VIOLATION property=C19 replay=%s" % path)
        return 1
    return 0
