"""C13 — BasicAuth fang admits exactly the configured credentials.  DESIGN §4 C13.
specs/Auth.tla (AllowedBasic = layer a, ImplBasic = layer b), specs/AuthGen.tla (row table), specs/MC_Auth.tla,
specs/Trace_Auth.tla; harness/src/auth.rs (`mod = basic`)."""
import json, os
from vlib import standard_pipeline, standard_replay, finish, log

RULE = ("TLC enumerates pair lists (parts: empty, plain, prefix of another, ':' inside the password, 2/3/4-byte UTF-8, case twin) x "
        "headers derived from the list (every user/password combination, one-token near misses, no colon, swapped, non-canonical "
        "base64, other schemes, invalid base64, non-UTF-8 payloads, missing); each row is sent through the real fang; "
        "non-trivial = distinct (pair list, header) rows that are neither 'no header' nor the one exact credential of a "
        "single plain ASCII pair, i.e. rows where mixing, first-colon split, prefixes, encodings or spelling decide")

TRACE = ("Trace_Auth", "Trace_Auth.cfg")


def _cs(seed, n):
    return (seed * 7919 + n * 104729 + 17) % 1000003


def _post(ctx):
    def post(scns):
        scns.sort(key=lambda s: json.dumps(s, sort_keys=True))
        for n, s in enumerate(scns):
            s["cs"] = _cs(ctx.seed, n)
        return scns
    return post


def _plain(part):
    return len(part) > 0 and all(t in ("a", "b", "A", "d") for t in part)


def _nontrivial(o):
    scn = o["scn"]
    if scn.get("mod") != "basic" or scn["hdr"]["kind"] == "missing":
        return None
    pairs, h = scn["pairs"], scn["hdr"]
    exact_single = (len(pairs) == 1 and h["kind"] == "basic" and _plain(pairs[0]["u"]) and _plain(pairs[0]["p"])
                    and h["cred"] == pairs[0]["u"] + [":"] + pairs[0]["p"])
    if exact_single:
        return None
    return json.dumps([pairs, h, scn.get("form"), scn.get("mount")], sort_keys=True)


def run(ctx):
    q = ctx.quick
    os.environ["VH_AUTH_MOD"] = "basic"
    obs, verdicts = standard_pipeline(
        ctx, checked=True, sub="auth",
        mc=[("MC_Auth", "MC_Auth_basic.cfg" if q else "MC_Auth_basic_deep.cfg", dict(workers=4 if q else 8))],
        gen=[("AuthGen", "Gen_Auth_basic.cfg" if q else "Gen_Auth_basic_deep.cfg", dict(workers=1))],
        trace=TRACE, random_n=20000 if q else 300000, post_gen=_post(ctx), nontrivial=_nontrivial,
        dedupe_key=lambda s: json.dumps(s, sort_keys=True), jobs=12)
    ran = sum(1 for o in obs if o["obs"].get("ran"))
    chal = sum(1 for o in obs if o["obs"].get("kind") == "basic" and not o["obs"].get("ran") and o["obs"].get("status") == 401)
    crashed = sum(1 for o in obs if o["obs"].get("kind") in ("panic", "abort", "hang"))
    ctx.extra["outcomes"] = {"handler_ran": ran, "challenged_401": chal, "panic_abort_hang": crashed}
    free = sum(1 for o in obs if any(v["sig"].get("expect") == "either" for v in verdicts.get(o["id"], [])))
    free_ran = sum(1 for o in obs if o["obs"].get("ran") and any(v["sig"].get("expect") == "either" for v in verdicts.get(o["id"], [])))
    ctx.extra["lenient_spellings"] = {"rows": free, "admitted_by_the_code": free_ran}
    log("[c13] handler ran %d, 401 challenge %d, crashed %d; RFC-lenient spellings (left free): %d rows, %d admitted" % (ran, chal, crashed, free, free_ran))
    return finish(ctx, rule=RULE, exhaustive=True,
                  assumptions=["user names contain no ':' (RFC 7617; the property quantifies over colons inside passwords only)",
                               "scheme in another case / several spaces after the scheme are left free (RFC 7235 treats them as the same credentials; the text says `Basic `)",
                               "one Authorization header per request"],
                  trusted=["harness/src/auth.rs: token->character table (injective, fixed byte length per token), base64 crate STANDARD engine for "
                           "building headers, handler-ran counter", "harness/src/util.rs parse_response"])


def replay(ctx, path):
    return standard_replay(ctx, path, sub="auth", trace=TRACE)
