"""C07 — typed path, query and body extraction delivers exact values or stops the handler.  DESIGN §4 C07.

specs/Extract.tla      oracle (Results / OutcomeOK: per declared item the SET of allowed results) + mechanism model
                       (byte_reader prefix parse with a 64-bit accumulator, percent_decode_utf8, FromBody Content-Type gate,
                       Option wrapper, IntoHandler all-or-nothing) with named deviations; catalogue of handler signatures
specs/MC_Extract.tla   exhaustive: oracle sanity, mechanism inside oracle up to the named deviations (MC_Extract.cfg), the
                       deviations are real (MC_Extract_nodev.cfg must produce a counterexample), the proposed whole-segment
                       checked parse has none (MC_Extract_fixed.cfg)
specs/ExtractGen.tla   scenarios: int / str token strings, bound literals, position binding (flat and nested mounts, fewer
                       declared params than captured), extractor decision table x signature catalogue
harness/src/extract.rs the signature catalogue compiled against the real IntoHandler impls; applications assembled through
                       ohkami::__verif; raw request bytes through the real Request::read, router, Response::send
specs/Trace_Extract.tla one VERDICT per observation line (OutcomeOK evaluated by TLC), harness echo checked against SpellTab
"""
import hashlib, json
from vlib import finish, standard_pipeline, standard_replay, log

SUB = "extract"
TRACE = ("Trace_Extract", "Trace_Extract.cfg")

RULE = ("TLC enumerates (int) every token string of length 1..3 (thorough: 1..4) over digits, signs, letter, escaped space / "
        "digit / letter and every bound literal (MAX, MAX+1, 2^w+1, MIN, MIN-1 of every width, 2^64-128, 2^64+255, 10^20, 2^65) "
        "with a sign / zero prefix and a garbage suffix, for all 10 integer param types; (str) token strings over plain, "
        "escaped ASCII, escaped multi-byte, %2F, %25, non-UTF-8 escapes for String / Cow<str> / &str; (bind) two-param routes, "
        "flat and split over a nested mount, handlers declaring fewer params than captured; (item) the signature catalogue "
        "(49 signatures with 1-4 extractors, 0-2 params) x the decision table query x Content-Type {none, other, matching, "
        "with parameters, case variant} x body format x payload class {valid-1, valid-2, extra key, bad syntax, wrong type, "
        "missing field, empty} x headers; the harness adds seeded random scenarios of the same vocabulary (digit strings up to "
        "22 digits, longer segments, all signatures, free combinations).  distinct = by content hash of the abstract scenario; "
        "non-trivial = NOT (every segment is made of the digits 1/7/9 or plain letters only, the handler declares exactly the "
        "captured params on a flat route, every extractor is required and the request carries a valid-1/valid-2 payload for it "
        "under the exact Content-Type)")

ASSUMPTIONS = [
    "64-bit target (usize = u64, isize = i64; the harness refuses to run otherwise)",
    "Content-Type near-misses (`application/jsonx`) are not generated; a case variant (`Application/JSON`) may match or not",
    "the error status is free: any status >= 400 with the handler not run is an error response",
    "requests are < 1 KiB, head and body arrive in one read, the first body byte is never 0x00 (request parser: C02/C06)",
    "non-canonical integer spellings (`+5`, `-0`, leading zeros, `%37`) may run with the right value or be refused",
    "a segment whose percent-decoding is not UTF-8 must be refused or rendered with U+FFFD; &str may refuse any escaped segment",
    "a handler declaring k < n params may receive the first k or the last k captured segments (the text says `at its position`)",
    "Option<Query<T>> without a query string may be None or refused (an absent query is also the empty query string); an unknown "
    "extra key may be ignored or refused; a matching Content-Type with an empty body counts as no body (Text: or as the empty text)",
    "multipart targets have string fields only (ohkami's multipart deserializer reads no numbers: C10's subject); cookie / query / "
    "urlencoded payloads avoid `=` inside values and empty values (C08 / C09 / C11 subjects)",
]
TRUSTED = [
    "harness/src/extract.rs: concretisation tables (token -> request-target spelling, payload class -> bytes per format, Content-Type "
    "variants), `literal` (bounds computed with i128, cross-checked against LitTab by the trace spec), projection of received values "
    "(`unchar`, `project`), the Echo* impls and the catalogue! table",
    "harness/src/util.rs parse_response", "serde derive for the catalogue structs AN / AO / AS; std u32::from_str for the harness' HNum header type",
    "TLC + CommunityModules Json (ndJsonDeserialize)",
]

PLAIN = {"1", "7", "9", "L"}
BODYX = {"JSON", "URLEncoded", "Multipart", "Text"}


def _key(s):
    return hashlib.sha1(json.dumps({k: v for k, v in s.items() if k not in ("id", "seed", "random")}, sort_keys=True).encode()).hexdigest()


def _trivial(s):
    if any(t not in PLAIN for seg in s["segs"] for t in seg):
        return False
    if s["mount"] != 0 or len(s["ptys"]) != len(s["segs"]):
        return False
    rq = s["rq"]
    for it in s["items"]:
        if it["opt"]:
            return False
        x = it["x"]
        if x == "Query":
            ok = rq["q"] in ("v1", "v2")
        elif x == "Auth":
            ok = rq["auth"] != "absent"
        elif x == "MaxFwd":
            ok = rq["mf"] == "valid"
        elif x == "Cookie":
            ok = rq["ck"] in ("v1", "v2")
        else:
            ok = rq["ct"]["mime"] == x and rq["ct"]["var"] == "exact" and rq["body"]["fmt"] == x and rq["body"]["pl"] in ("v1", "v2")
        if not ok:
            return False
    return True


def nontrivial(o):
    return None if _trivial(o["scn"]) else _key(o["scn"])


def pipeline(ctx):
    q = ctx.quick
    seed = ctx.seed

    def post(scns):
        for n, s in enumerate(scns):
            s["seed"] = seed * 1000003 + n
        return scns

    mc = [("MC_Extract", "MC_Extract.cfg" if q else "MC_Extract_deep.cfg", dict(workers=8, timeout=1500, coverage=not q)),
          ("MC_Extract", "MC_Extract_nodev.cfg", dict(workers=2, expect_violation=True)),
          ("MC_Extract", "MC_Extract_fixed.cfg", dict(workers=8, timeout=600))]
    gen = [("ExtractGen", "Gen_Extract.cfg" if q else "Gen_Extract_deep.cfg", dict(workers=1, timeout=900))]
    obs, verdicts = standard_pipeline(ctx, checked=True, sub=SUB, mc=mc, gen=gen, trace=TRACE, post_gen=post, dedupe_key=_key,
                                      random_n=6000 if q else 200000, nontrivial=nontrivial, jobs=12, chunk=50000)
    # model drift: the observation differs from the mechanism model although the model names no deviation (never a violation)
    drift = {}
    for o in obs:
        for v in verdicts.get(o["id"], []):
            if v.get("drift"):
                k = o["obs"].get("tag", "?")
                drift.setdefault(k, o)
    ctx.extra["model_drift"] = len(drift)
    if drift:
        k, o = sorted(drift.items())[0]
        ctx.note("model drift on %d signature(s): the real code differs from the mechanism model of Extract.tla without leaving the "
                 "property, e.g. %s %s -> ran=%s status=%s" % (len(drift), k, json.dumps(o["scn"]["rq"]), o["obs"].get("ran"), o["obs"].get("status")))
    fams = {}
    for o in obs:
        fams[o["scn"].get("fam", "?")] = fams.get(o["scn"].get("fam", "?"), 0) + 1
    ctx.extra["scenarios_by_family"] = fams
    ctx.extra["handler_ran"] = sum(1 for o in obs if o["obs"].get("ran") == 1)
    ctx.extra["refused"] = sum(1 for o in obs if o["obs"].get("ran") == 0)
    return obs


def run(ctx):
    pipeline(ctx)
    return finish(ctx, rule=RULE, exhaustive=True, assumptions=ASSUMPTIONS, trusted=TRUSTED)


def replay(ctx, path):
    return standard_replay(ctx, path, sub=SUB, trace=TRACE)
