"""C03 — responses on the wire are well-formed and never overrun their buffer.  DESIGN §4 C03."""
from vlib import standard_pipeline, standard_replay, finish

RULE = ("TLC enumerates every operation history of length <= MaxOps over the op alphabet of RespHeaders (set/append/remove of two "
        "standard and one custom header with values of different lengths, cookies, four payload kinds and a one-event stream, drop_content, statuses) x {GET, HEAD}; "
        "the harness adds seeded random histories of 8-40 operations over all standard headers; non-trivial = the history removes a "
        "header (or drops the content) and later sets it again, or ends with the content dropped, or mixes append with set")

def nontrivial(o):
    ops = o["scn"]["ops"]
    kinds = [op[0] for op in ops]
    return ("rem" in kinds or "crem" in kinds or "drop" in kinds or "app" in kinds or "capp" in kinds) and len(ops) >= 2

def run(ctx):
    q = ctx.quick
    mc = [("MC_RespHeaders", "MC_RespHeaders.cfg" if q else "MC_RespHeaders_deep.cfg", dict(workers=6, coverage=not q)),
          ("MC_RespHeaders", "MC_RespHeaders_slotonly.cfg", dict(workers=2, expect_violation=True)),
          ("MC_RespHeaders", "MC_RespHeaders_stalete.cfg", dict(workers=2, expect_violation=True))]
    if q:
        gen = [("RespHeadersGen", "Gen_RespHeaders.cfg", dict(workers=1))]
    else:
        gen = [("RespHeadersGen", "Gen_RespHeaders_deep.cfg", dict(workers=1, env={}, name="gen-%d" % k, timeout=1800)) for k in range(1)]
    standard_pipeline(ctx, checked=True, sub="resp", mc=mc, gen=gen, trace=("Trace_RespHeaders", "Trace_RespHeaders.cfg"),
                      random_n=1500 if q else 30000, nontrivial=nontrivial, jobs=12)
    return finish(ctx, rule=RULE, exhaustive=True,
                  assumptions=["framing headers (Content-Length, Transfer-Encoding, Content-Type) are only manipulated through the body operations and drop_content",
                               "header order and the Date value are not compared; statuses 1xx/304 are not generated",
                               "a custom header never re-uses the name of a standard header"],
                  trusted=["harness/src/util.rs parse_response (independent HTTP/1.1 response parser)",
                           "harness/src/resp.rs concretisation table (abstract header/value tokens <-> bytes; expected wire names)",
                           "cfg(ohkami_verif) capacity assertion in push_unchecked!"])

def replay(ctx, path):
    return standard_replay(ctx, path, sub="resp", trace=("Trace_RespHeaders", "Trace_RespHeaders.cfg"))
