"""C17 — server-sent event streams deliver every message intact and end properly.  DESIGN §4 C17.

specs/Sse.tla (poll/drain model of QueueStream + Response::send; WHATWG event-stream interpretation ParseES, encoder
model FrameImpl, wanted framing FrameWanted), MC_Sse (framing oracle against itself and against the encoder model),
SseGen (schedules; message lists), Trace_Sse (verdict per observation; every logged step of the real run is stepped
through the Sse actions), harness/src/sse.rs (scripted producer -> DataStream::new -> real Response::send, polled by hand)."""
import hashlib, json, random
from vlib import finish, standard_pipeline, standard_replay, log

RULE = ("TLC enumerates (sched) every script of pushes/yields up to MaxScript steps x every placement of the wake-up of each "
        "yield and of spurious wake-ups between the steps of the code, up to termination, and (frame) every message of <= MaxTok "
        "tokens over {text, multi-byte text, LF, CR, CRLF, SP, COLON, `data:`, `event:`, `id:`, `retry:`, BOM} plus every pair of "
        "short messages; the driver pairs them (every schedule carries message contents, every message list a schedule), the "
        "harness forces each schedule on the real DataStream/Response::send; seeded random scenarios add scripts of up to 30 "
        "steps, messages of up to 12 tokens with long and multi-byte texts (chunk sizes across 0xf/0xff/0xfff/0xffff), partial "
        "and not-ready writes, and the route through a real handler. non-trivial = distinct scenarios in which the real run "
        "delivered a message while the producer was suspended, or drained >= 2 messages after the producer had ended, or whose "
        "messages contain a line break, a field look-alike, a leading space/colon, a BOM, or are empty")

STRUCT = {"LF", "CR", "CRLF", "SP", "COLON", "DATA", "EV", "ID", "RETRY", "BOM"}


def _key(s):
    return hashlib.sha1(json.dumps({k: v for k, v in s.items() if k not in ("id", "random")}, sort_keys=True).encode()).hexdigest()


def nontrivial(o):
    scn, ob = o["scn"], o["obs"]
    if ob.get("kind") != "sse":
        return None
    ev = ob["events"]
    susp, ended, after_end, hit = False, False, 0, False
    for e in ev:
        if e == "PYield" or e == "PStill":
            susp = True
        elif e == "PCont":
            susp = False
        elif e == "PEnd":
            ended, susp = True, False
        elif e == "CDeliver":
            if susp:
                hit = True
            if ended:
                after_end += 1
    if after_end >= 2:
        hit = True
    for m in scn["msgs"]:
        if not m or any(t in STRUCT for t in m):
            hit = True
    return _key(scn) if hit else None


def has_lone_cr(m):
    """a CR token that is not completed to CR LF by a following LF token"""
    return any(t == "CR" and not (i + 1 < len(m) and m[i + 1] == "LF") for i, t in enumerate(m))


def pair(ctx, scns):
    """(script, hist) records x (msgs) records -> executable scenarios (seeded, deterministic)."""
    rnd = random.Random(ctx.seed * 7919 + 17)
    # TLC prints in worker order: sort, so that the pairing depends on VERIF_SEED only
    sched = sorted((s for s in scns if "hist" in s), key=lambda s: json.dumps(s, sort_keys=True))
    frame = sorted((s for s in scns if "msgs" in s and "hist" not in s), key=lambda s: json.dumps(s, sort_keys=True))
    singles = [f["msgs"][0] for f in frame if len(f["msgs"]) == 1]
    clean = [m for m in singles if not has_lone_cr(m)]
    by_push = {}
    for s in sched:
        by_push.setdefault(s["script"].count("P"), []).append(s)
    out = []
    for s in sched:
        n = s["script"].count("P")
        pool = clean if rnd.random() < 0.75 else singles
        msgs = [rnd.choice(pool) for _ in range(n)]
        out.append({"script": s["script"], "hist": s["hist"], "msgs": msgs, "origin": "sched"})
    for f in frame:
        cands = by_push.get(len(f["msgs"]))
        if not cands:
            continue
        s = rnd.choice(cands)
        out.append({"script": s["script"], "hist": s["hist"], "msgs": f["msgs"], "origin": "frame"})
    for i, d in enumerate(out):
        d["seed"] = (ctx.seed * 1000003 + i * 7 + 1) % (1 << 30)
        d["pol"] = {"delay": [-1], "spur": [0]}
        d["wmode"] = i % 3
        d["via"] = "router" if i % 4 == 3 else "direct"
    return out


def pipeline(ctx):
    q = ctx.quick
    mc = [("Sse", "MC_Sse.cfg" if q else "MC_Sse_deep.cfg", dict(workers=8, coverage=not q, timeout=900)),
          ("Sse", "MC_Sse_nowaker.cfg", dict(workers=2, expect_violation=True)),
          ("Sse", "MC_Sse_nodrain.cfg", dict(workers=2, expect_violation=True)),
          ("MC_Sse", "MC_Sse_frame.cfg" if q else "MC_Sse_frame_deep.cfg", dict(workers=8, timeout=900))]
    gen = [("SseGen", "Gen_Sse_sched.cfg" if q else "Gen_Sse_sched_deep.cfg", dict(workers=4, timeout=900)),
           ("SseGen", "Gen_Sse_frame.cfg" if q else "Gen_Sse_frame_deep.cfg", dict(workers=4, timeout=900))]
    obs, verdicts = standard_pipeline(ctx, sub="sse", mc=mc, gen=gen, trace=("Trace_Sse", "Trace_Sse.cfg"),
                                      post_gen=lambda s: pair(ctx, s), random_n=2500 if q else 40000,
                                      nontrivial=nontrivial, jobs=12, chunk=20000, trace_timeout=1800)
    ctx.extra["nonvacuity"] = ("FORWARD_WAKER=FALSE violates Terminates; READY_DRAINS=FALSE violates DoneInv "
                               "(both counterexamples found by TLC in this run)")
    drift = fdrift = stuck = 0
    digits, via, wm = {}, {}, {}
    for o in obs:
        ob = o["obs"]
        if ob.get("kind") != "sse":
            continue
        vs = verdicts.get(o["id"], [])
        if vs and vs[0].get("drift"):
            drift += 1
        if vs and vs[0].get("fdrift"):
            fdrift += 1
        if ob["forced"] not in ("ok", "free"):
            stuck += 1
        digits[str(ob["maxdigits"])] = digits.get(str(ob["maxdigits"]), 0) + 1
        via[ob["via"]] = via.get(ob["via"], 0) + 1
        wm[str(o["scn"].get("wmode", 0))] = wm.get(str(o["scn"].get("wmode", 0)), 0) + 1
    ctx.extra["steps_of_real_runs_checked_against_Sse_actions"] = sum(len(o["obs"].get("events", [])) for o in obs)
    ctx.extra["max_hex_digits_of_chunk_size_histogram"] = digits
    ctx.extra["via"] = via
    ctx.extra["writer_modes"] = wm
    ctx.extra["model_drift"] = {"schedule_unexplained": drift, "schedule_not_forcible": stuck, "bytes_differ_from_FrameImpl": fdrift}
    if drift:
        ctx.note("%d run(s) logged a step that the Sse actions do not explain (model drift of the poll/drain model, not a violation)" % drift)
    if stuck:
        ctx.note("%d TLC schedule(s) could not be forced step by step on the real code (model drift); they ran on under the default policy and were judged on their bytes" % stuck)
    if fdrift:
        ctx.note("%d run(s) produced bytes that differ from the encoder model FrameImpl (model drift: has the framing been changed?); judged by ParseES only" % fdrift)
    return obs, verdicts


def run(ctx):
    pipeline(ctx)
    return finish(ctx, rule=RULE, exhaustive=True,
                  assumptions=["the connection accepts every byte eventually (in-memory writer; partial and not-ready writes are exercised, write errors are not)",
                               "the producer's awaited events do fire and wake the waker the producer was last polled with (fair waking); a producer that never completes is outside the property",
                               "event-stream semantics are the WHATWG interpretation rules as written in Sse.tla (ParseES); NUL inside an `id` value is not modelled",
                               "HTTP status and headers other than Transfer-Encoding / Content-Length / Content-Type are not asserted here (C03)"],
                  trusted=["harness/src/util.rs parse_response (strict de-chunker: hex sizes, CRLFs, terminating zero chunk)",
                           "harness/src/sse.rs: token -> text table `concrete` and `tokenise` (prefix-free representatives), the hand-written executor "
                           "(flag waker, Fire/Spurious placement), classification of flushed units into CHead/CDeliver/CFinish",
                           "TLC's Json module"])


def replay(ctx, path):
    return standard_replay(ctx, path, sub="sse", trace=("Trace_Sse", "Trace_Sse.cfg"))
