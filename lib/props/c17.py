"""C17 — server-sent event streams deliver every message intact and end properly.  DESIGN §4 C17.

specs/Sse.tla (poll/drain model of QueueStream + Response::send; WHATWG event-stream interpretation ParseES, encoder
model FrameImpl, wanted framing FrameWanted), MC_Sse (framing oracle against itself and against the encoder model),
SseGen (schedules; message lists), Trace_Sse (verdict per observation; every logged step of the real run is stepped
through the Sse actions), harness/src/sse.rs (scripted producer -> DataStream::new -> real Response::send, polled by hand)."""
import concurrent.futures, copy, hashlib, json, os, random
from vlib import finish, standard_replay, log, ToolError

RULE = ("TLC enumerates (sched) every script of pushes/yields up to MaxScript steps x every placement of the wake-up of each "
        "yield and of spurious wake-ups between the steps of the code, up to termination, and (frame) every message of <= MaxTok "
        "tokens over {text, multi-byte text, LF, CR, CRLF, SP, COLON, `data:`, `event:`, `id:`, `retry:`, BOM} plus every pair of "
        "short messages; the driver pairs them (every schedule carries message contents, every message list a schedule), the "
        "harness forces each schedule on the real DataStream/Response::send; seeded random scenarios add scripts of up to 30 "
        "steps, messages of up to 12 tokens with long and multi-byte texts (chunk sizes across 0xf/0xff/0xfff/0xffff), partial "
        "and not-ready writes, and the route through a real handler. non-trivial = distinct scenarios in which the real run "
        "delivered a message while the producer was suspended, or drained >= 2 messages after the producer had ended, or whose "
        "messages contain a line break, a field look-alike, a leading space/colon, a BOM, or are empty")

STRUCT = {"LF", "CR", "CRLF", "SP", "COLON", "DATA", "EV", "ID", "RETRY", "BOM"}


def _key(s):
    return hashlib.sha1(json.dumps({k: v for k, v in s.items() if k not in ("id", "random")}, sort_keys=True).encode()).hexdigest()


def nontrivial(o):
    scn, ob = o["scn"], o["obs"]
    if ob.get("kind") != "sse":
        return None
    ev = ob["events"]
    susp, ended, after_end, hit = False, False, 0, False
    for e in ev:
        if e == "PYield" or e == "PStill":
            susp = True
        elif e == "PCont":
            susp = False
        elif e == "PEnd":
            ended, susp = True, False
        elif e == "CDeliver":
            if susp:
                hit = True
            if ended:
                after_end += 1
    if after_end >= 2:
        hit = True
    for m in scn["msgs"]:
        if not m or any(t in STRUCT for t in m):
            hit = True
    return _key(scn) if hit else None


def has_lone_cr(m):
    """a CR token that is not completed to CR LF by a following LF token"""
    return any(t == "CR" and not (i + 1 < len(m) and m[i + 1] == "LF") for i, t in enumerate(m))


def pair(ctx, scns):
    """(script, hist) records x (msgs) records -> executable scenarios (seeded, deterministic)."""
    rnd = random.Random(ctx.seed * 7919 + 17)
    # TLC prints in worker order: sort, so that the pairing depends on VERIF_SEED only
    sched = sorted((s for s in scns if "hist" in s), key=lambda s: json.dumps(s, sort_keys=True))
    frame = sorted((s for s in scns if "msgs" in s and "hist" not in s), key=lambda s: json.dumps(s, sort_keys=True))
    singles = [f["msgs"][0] for f in frame if len(f["msgs"]) == 1]
    clean = [m for m in singles if not has_lone_cr(m)]
    by_push = {}
    for s in sched:
        by_push.setdefault(s["script"].count("P") + s["script"].count("T"), []).append(s)
    out = []
    for s in sched:
        n = s["script"].count("P") + s["script"].count("T")      # ("T": the closing message of a chained second stream)
        pool = clean if rnd.random() < 0.75 else singles
        msgs = [rnd.choice(pool) for _ in range(n)]
        out.append({"script": s["script"], "hist": s["hist"], "msgs": msgs, "origin": "sched"})
    for f in frame:
        cands = by_push.get(len(f["msgs"]))
        if not cands:
            continue
        s = rnd.choice(cands)
        out.append({"script": s["script"], "hist": s["hist"], "msgs": f["msgs"], "origin": "frame"})
    for i, d in enumerate(out):
        d["seed"] = (ctx.seed * 1000003 + i * 7 + 1) % (1 << 30)
        d["pol"] = {"delay": [-1], "spur": [0]}
        d["wmode"] = i % 3
        d["via"] = ("direct", "from", "direct", "router", "direct", "router-from")[i % 6]
        if d["script"] and d["script"][-1] == "T":      # a schedule of the model with the chain adapter
            d["via"] = ("chain", "router-chain")[i % 2]
        if "PDecoy" in d["hist"]:        # a schedule of the model with the filter adapter: rejected items are pushed where it says
            d["via"] = ("filter", "router-filter")[i % 2]
    return out


TRACE_OBS_FIELDS = ("kind", "where", "events", "toks", "te", "cl", "ct", "dechunk", "trailing", "utf8", "stalled", "finished")


def project(o):
    """what Trace_Sse reads of an observation line (the rest — concrete texts, counters, the schedule as generated —
    stays in observations.ndjson for the reader and for replay files)"""
    return {"id": o["id"], "scn": {"script": o["scn"].get("script", []), "msgs": o["scn"].get("msgs", []), "pace": o["scn"].get("pace", "scripted")},
            "obs": {k: o["obs"][k] for k in TRACE_OBS_FIELDS if k in o["obs"]}}


def validate_parallel(ctx, obs, chunk, par):
    """Trace_Sse over the observations, `par` TLC processes (one worker each) side by side; every line gets a verdict."""
    parts = [obs[c:c + chunk] for c in range(0, len(obs), chunk)]
    subs, errs = [], []

    def work(n, part):
        sub = copy.copy(ctx)
        sub.states, sub.transitions, sub.tlc_runs, sub.traces = 0, 0, [], 0
        subs.append((n, sub))
        try:
            tp = ctx.write_ndjson("trace-%d.ndjson" % n, [project(o) for o in part])
            sub.out = sub.validate("Trace_Sse", "Trace_Sse.cfg", tp, len(part), name="trace-Sse-%d" % n, timeout=1800, heap="3g")
            os.remove(tp)
        except Exception as e:          # re-raised in the main thread
            errs.append(e)

    with concurrent.futures.ThreadPoolExecutor(max_workers=par) as ex:
        list(ex.map(lambda a: work(*a), enumerate(parts)))
    if errs:
        raise errs[0]
    verdicts = {}
    for n, sub in sorted(subs, key=lambda x: x[0]):
        ctx.states += sub.states
        ctx.transitions += sub.transitions
        ctx.tlc_runs.extend(sub.tlc_runs)
        for r in sub.out.lines:
            if r.get("t") == "VERDICT":
                verdicts.setdefault(r["id"], []).append(r)
    return verdicts


def pipeline(ctx):
    q = ctx.quick
    ctx.build_harness()
    # (a)+(b): the design satisfies the property within the constants; the mutated designs do not (non-vacuity)
    ctx.tlc("Sse", "MC_Sse.cfg" if q else "MC_Sse_deep.cfg", workers=8, coverage=not q, timeout=900)
    ctx.tlc("Sse", "MC_Sse_nowaker.cfg", workers=1, expect_violation=True)
    ctx.tlc("Sse", "MC_Sse_nodrain.cfg", workers=1, expect_violation=True)
    # the same design behind the adapter StreamExt::filter (rejected items in the queue); an adapter that answers a rejected item with Pending never ends
    ctx.tlc("Sse", "MC_Sse_filter.cfg", workers=4, timeout=900)
    ctx.tlc("Sse", "MC_Sse_filterpending.cfg", workers=1, expect_violation=True)
    # ... and followed, through the adapter StreamExt::chain, by a second stream; an adapter that takes Pending for exhaustion loses and reorders messages
    ctx.tlc("Sse", "MC_Sse_chain.cfg", workers=4, timeout=900)
    ctx.tlc("Sse", "MC_Sse_chaineager.cfg", workers=1, expect_violation=True)
    ctx.tlc("MC_Sse", "MC_Sse_frame.cfg" if q else "MC_Sse_frame_deep.cfg", workers=8, timeout=900)
    # scenarios
    scns = []
    for cfg in (("Gen_Sse_sched.cfg", "Gen_Sse_sched_filter.cfg", "Gen_Sse_sched_chain.cfg", "Gen_Sse_frame.cfg") if q else ("Gen_Sse_sched_deep.cfg", "Gen_Sse_sched_filter.cfg", "Gen_Sse_sched_chain.cfg", "Gen_Sse_frame_deep.cfg")):
        g = ctx.tlc("SseGen", cfg, workers=4, timeout=900)
        if not g.lines:
            raise ToolError("SseGen/%s generated no scenario" % cfg)
        scns.extend(g.lines)
    # longer scripts (<= 9 steps, <= 3 spurious wake-ups): random behaviours of the same spec (TLC -simulate, seeded)
    g = ctx.tlc("SseGen", "Gen_Sse_sched_sim.cfg", workers=4, timeout=900, simulate="num=%d" % (300 if q else 4000), depth=150, name="Gen_Sse_sched_sim")
    seen = set(json.dumps(s, sort_keys=True) for s in scns)
    for s in g.lines:
        k = json.dumps(s, sort_keys=True)
        if k not in seen:
            seen.add(k); scns.append(s)
    scns = pair(ctx, scns)
    n_tlc = len(scns)
    rp = ctx.path("random.ndjson")
    ctx.vh_gen("sse", rp, 2500 if q else 60000)
    for l in open(rp):
        d = json.loads(l); d["random"] = 1
        scns.append(d)
    # "at any pace": the same streams served by the real Session::manage over a socket, one message every `gap_ms` milliseconds, with the
    # session's deadline (OHKAMI_KEEPALIVE_TIMEOUT) at 3 s -- streams that are over long before it (<= 0.2 s), and one that outlives it (4.8 s)
    for k, (pace, gap) in enumerate([("within-the-session-deadline", 40), ("beyond-the-session-deadline", 1200), ("within-the-session-deadline", 5)]):
        scns.append({"script": ["P"] * 4, "msgs": [["x"], ["y", "LF", "x"], ["u"], ["x", "SP", "y"]] if k % 2 == 0 else [["n"], ["x"], ["y"], ["u", "CR", "x"]],
                     "via": "session", "pace": pace, "gap_ms": gap, "hist": [], "pol": {"delay": [], "spur": []}, "wmode": 0, "seed": ctx.seed + k})
    for n, d in enumerate(scns):
        d["id"] = n
    inp = ctx.write_ndjson("scenarios.ndjson", scns)
    obs = ctx.vh("sse", inp, ctx.path("observations.ndjson"), jobs=12, timeout_ms=40000)
    ctx.evaluations += len(obs)
    ctx.extra["scenarios_from_tlc"] = n_tlc
    ctx.extra["scenarios_random"] = len(scns) - n_tlc
    for o in obs:
        k = nontrivial(o)
        if k:
            ctx.nontrivial.add(k)
    for o in obs[:: max(1, len(obs) // 5)][:5]:
        ctx.sample(o)
    verdicts = validate_parallel(ctx, obs, chunk=5000 if q else 8000, par=3 if q else 4)
    ctx.traces = len(obs)
    nbad = 0
    for o in obs:
        vs = verdicts.get(o["id"])
        if not vs:
            raise ToolError("Trace_Sse produced no verdict for line id=%s: %s" % (o["id"], json.dumps(o)[:400]))
        if any(v["ok"] for v in vs):
            continue
        nbad += 1
        ctx.violation(vs[0]["sig"], json.dumps({"scn": o["scn"], "obs": o["obs"]})[:600], o)
    log("[judge] %d observation(s) judged by Trace_Sse: %d outside the property" % (len(obs), nbad))
    ctx.extra["nonvacuity"] = ("FORWARD_WAKER=FALSE violates Terminates; READY_DRAINS=FALSE violates DoneInv "
                               "(both counterexamples found by TLC in this run)")
    drift = fdrift = stuck = 0
    digits, via, wm = {}, {}, {}
    for o in obs:
        ob = o["obs"]
        if ob.get("kind") != "sse":
            continue
        vs = verdicts.get(o["id"], [])
        if vs and vs[0].get("drift"):
            drift += 1
        if vs and vs[0].get("fdrift"):
            fdrift += 1
        if ob["forced"] not in ("ok", "free"):
            stuck += 1
        digits[str(ob["maxdigits"])] = digits.get(str(ob["maxdigits"]), 0) + 1
        via[ob["via"]] = via.get(ob["via"], 0) + 1
        wm[str(o["scn"].get("wmode", 0))] = wm.get(str(o["scn"].get("wmode", 0)), 0) + 1
    ctx.extra["steps_of_real_runs_checked_against_Sse_actions"] = sum(len(o["obs"].get("events", [])) for o in obs)
    ctx.extra["max_hex_digits_of_chunk_size_histogram"] = digits
    ctx.extra["via"] = via
    ctx.extra["writer_modes"] = wm
    ctx.extra["model_drift"] = {"schedule_unexplained": drift, "schedule_not_forcible": stuck, "bytes_differ_from_FrameImpl": fdrift}
    if drift:
        ctx.note("%d run(s) logged a step that the Sse actions do not explain (model drift of the poll/drain model, not a violation)" % drift)
    if stuck:
        ctx.note("%d TLC schedule(s) could not be forced step by step on the real code (model drift); they ran on under the default policy and were judged on their bytes" % stuck)
    if fdrift:
        ctx.note("%d run(s) produced bytes that differ from the encoder model FrameImpl (model drift: has the framing been changed?); judged by ParseES only" % fdrift)
    return obs, verdicts


def run(ctx):
    pipeline(ctx)
    return finish(ctx, rule=RULE, exhaustive=True,
                  assumptions=["the connection accepts every byte eventually (in-memory writer; partial and not-ready writes are exercised, write errors are not)",
                               "the producer's awaited events do fire and wake the waker the producer was last polled with (fair waking); a producer that never completes is outside the property",
                               "event-stream semantics are the WHATWG interpretation rules as written in Sse.tla (ParseES); NUL inside an `id` value is not modelled",
                               "HTTP status and headers other than Transfer-Encoding / Content-Length / Content-Type are not asserted here (C03)"],
                  trusted=["harness/src/util.rs parse_response (strict de-chunker: hex sizes, CRLFs, terminating zero chunk)",
                           "harness/src/sse.rs: token -> text table `concrete` and `tokenise` (prefix-free representatives), the hand-written executor "
                           "(flag waker, Fire/Spurious placement), classification of flushed units into CHead/CDeliver/CFinish",
                           "TLC's Json module"])


def replay(ctx, path):
    return standard_replay(ctx, path, sub="sse", trace=("Trace_Sse", "Trace_Sse.cfg"))
