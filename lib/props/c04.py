"""C04 — fangs run in onion order and exactly within their application's scope.  DESIGN §4 C04."""
import json
from vlib import standard_pipeline, standard_replay, finish

RULE = ("TLC builds application trees with exclusive mount prefixes (exhaustive: 2 applications, fangs on either, one early-answering fang; "
        "`-simulate`: 3 applications, up to 2 fangs each, local fangs, mount prefixes of 1-2 static/param segments) and derives requests "
        "(hits, misses inside and outside each mount prefix, byte-prefix near misses of the prefix, registered and unregistered methods); "
        "instrumented fangs log enter/leave; non-trivial = at least one mounted application carries a fang")
TRACE = ("Trace_Router", "Trace_Router_c04.cfg")

def nontrivial(o):
    apps = o["scn"]["apps"]
    return len(apps) > 1 and any(a["fangs"] for a in apps[1:])

def run(ctx):
    q = ctx.quick
    mc = [("MC_Router", "MC_Router.cfg" if q else "MC_Router_deep.cfg", dict(workers=8, timeout=3000)),
          ("MC_Router", "MC_Router_origrule.cfg", dict(workers=2, expect_violation=True))]
    gen = [("RouterGen", "Gen_Router_c04.cfg" if q else "Gen_Router_c04_deep.cfg", dict(workers=6, timeout=1800)),
           ("RouterGen", "Gen_Router_c04_sim.cfg", dict(workers=4, simulate="num=%d" % (8 if q else 150), depth=18, name="gen-sim", timeout=1200))]
    obs, _ = standard_pipeline(ctx, sub="router", mc=mc, gen=gen, trace=TRACE, random_n=400 if q else 6000,
                               nontrivial=nontrivial, dedupe_key=lambda s: json.dumps([s["apps"], s["early"]], sort_keys=True),
                               post_gen=lambda scns: [s for s in scns if True], chunk=4000)
    # the random generator interleaves c01/c04 applications: only those that satisfy the side condition were generated with fangs
    ctx.extra["requests"] = sum(len(o["scn"]["reqs"]) for o in obs)
    # the composition: the same property on end-to-end runs of the real session loop, validated event by event against Server.tla
    import props.server as server
    server.composition(ctx, {"fangs"})
    return finish(ctx, rule=RULE, exhaustive=True,
                  assumptions=["every mount prefix is used by one application and nothing else is registered under it (side condition of the property)",
                               "the fang identity and early-answer behaviour are carried by the harness's TraceFang; its enter/leave log is the observation",
                               "fang tuples of every arity (1..8) and local fang tuples of arity 1..4 are exercised by the random applications"],
                  trusted=["harness/src/router.rs (TraceFang, application assembly through ohkami::__verif)"])

def replay(ctx, path):
    doc = json.load(open(path))
    if isinstance(doc.get("scenario"), dict) and doc["scenario"].get("composition"):
        import props.server as server
        rc = server.replay_composition(ctx, doc)
        if rc:
            print("VIOLATION property=%s replay=%s" % (ctx.prop, path))
        return rc
    return standard_replay(ctx, path, sub="router", trace=TRACE)
