"""C15 — the generated OpenAPI document is valid and describes exactly the application.  DESIGN §4 C15."""
import json, hashlib
from vlib import standard_pipeline, standard_replay, finish, ToolError, log

RULE = ("TLC emits applications in the RouterApp vocabulary extended with handler-signature tags, named path params and fang kinds: "
        "(i) every signature of the catalogue, flat and below a param-prefixed mount (OpenApiCat), (ii) every registration order of a parent "
        "and a mounted child with one route each / of two routes of one application (exhaustive, signatures rotating; quick tier: a seeded sample), "
        "(iii) -simulate walks over up to 3 nested applications x 3 routes with any signature, method set and fang combination; the harness adds seeded "
        "random applications (up to 4 applications). Each is assembled on the real code, the real generator's document is flattened into facts and "
        "judged in TLA+ (DocValid, DocMatchesApp, Reachable), one request per documented operation is derived from the document and sent. "
        "non-trivial = the scenario has a mount, or a handler declaring fewer params than its route, or an authentication fang, or a component schema")
TRACE = ("Trace_OpenApi", "Trace_OpenApi.cfg")
COMPONENT_TAGS = {"jc", "qc", "jsonc", "jvec", "resultc"}
NP = {"p0": 0, "n0": 0, "us": 2, "si": 2}


def _routes(apps, idx=1, above=0):
    for it in apps[idx - 1]["items"]:
        np = sum(1 for sg in it["segs"] if sg["k"] == "P")
        if it["t"] == "route":
            yield it, above + np
        else:
            yield from _routes(apps, it["app"], above + np)


def nontrivial(o):
    apps = o["scn"]["apps"]
    if len(apps) > 1:
        return True
    if any(f in ("jwt", "jwth", "jwtc", "basic") for a in apps for f in a["fangs"]):
        return True
    for it, total in _routes(apps):
        sg = it["sig"]
        if NP.get(sg["pv"], 1) < total or sg["ex"] in COMPONENT_TAGS or sg["rt"] in COMPONENT_TAGS:
            return True
        if any(f in ("jwt", "jwth", "jwtc", "basic") for f in it["local"]):
            return True
    return False


def run(ctx):
    q = ctx.quick
    mc = [("MC_OpenApi", "MC_OpenApi.cfg", dict(workers=8, timeout=900)),
          ("MC_OpenApi", "MC_OpenApi_nodev.cfg", dict(workers=4, expect_violation=True))]
    if not q:
        mc.insert(1, ("MC_OpenApi", "MC_OpenApi_flat.cfg", dict(workers=8, timeout=1500)))
    gen = [("OpenApiCat", "Gen_OpenApi_cat.cfg", dict(workers=1)),
           ("OpenApiGen", "Gen_OpenApi.cfg" if q else "Gen_OpenApi_deep.cfg", dict(workers=6, timeout=1200)),
           ("OpenApiGen", "Gen_OpenApi_flat.cfg", dict(workers=6, timeout=1200)),
           ("OpenApiGen", "Gen_OpenApi_sim.cfg", dict(workers=4, simulate="num=%d" % (60 if q else 1800), depth=16, name="gen-sim", timeout=1500)),
           ("OpenApiGen", "Gen_OpenApi_sim2.cfg", dict(workers=4, simulate="num=%d" % (40 if q else 1000), depth=14, name="gen-sim2", timeout=1500))]
    cap = 2500 if q else None

    def sample(scns):
        """quick tier: the exhaustive ("rot") scenarios are cut to a seeded sample; everything else is kept"""
        if cap is None:
            return scns
        rot = [s for s in scns if s.get("src") == "rot"]
        rest = [s for s in scns if s.get("src") != "rot"]
        rot.sort(key=lambda s: hashlib.sha1(("%d|" % ctx.seed + json.dumps(s["apps"], sort_keys=True)).encode()).hexdigest())
        ctx.extra["exhaustive_scenarios_generated"] = len(rot)
        return rest + rot[:cap] + shared_path(rest + rot[:cap])

    def shared_path(scns):
        """derived family: a path whose methods come from two registrations -- a route of the parent exactly at a mount prefix,
        written before the mount, with a method the mounted application's `/` route does not use (the build accepts it;
        the document must list the operations of both)"""
        out = []
        for s in scns:
            if len(out) >= (150 if q else 3000):
                break
            apps = s["apps"]
            for a in apps:
                for k, it in enumerate(a["items"]):
                    if it["t"] != "mount" or any(sg["k"] == "P" for sg in it["segs"]):
                        continue
                    child = apps[it["app"] - 1]
                    if child["fangs"]:
                        continue     # fangs of an application apply to its mount node, hence to a parent route there too: not the text's business
                    used = set(m for c in child["items"] if c["t"] == "route" and c["segs"] == [] for m in c["methods"])
                    if any(o["t"] == "route" and o["segs"] == it["segs"] for o in a["items"]):
                        continue
                    free = [m for m in ("GET", "PUT", "POST") if m not in used]
                    if not free or not used:
                        continue
                    d = json.loads(json.dumps(s))
                    maxh = max([i2["h"] for a2 in d["apps"] for i2 in a2["items"]] + [0])
                    tgt = d["apps"][apps.index(a)]["items"]
                    tgt.insert(k, {"t": "route", "app": 0, "segs": it["segs"], "methods": [free[0]], "local": [], "h": maxh + 1,
                                   "sig": {"pv": "p0", "ex": "none", "rt": "text"}})
                    d["src"] = "shared-path"
                    out.append(d)
                    break
                else:
                    continue
                break
        ctx.extra["shared_path_scenarios"] = len(out)
        return out

    obs, verdicts = standard_pipeline(ctx, sub="openapi", mc=mc, gen=gen, trace=TRACE, random_n=400 if q else 15000, nontrivial=nontrivial,
                                      dedupe_key=lambda s: json.dumps(s["apps"], sort_keys=True), post_gen=sample, chunk=3000, jobs=12)
    # one VERDICT per violation class of a line: every class is classified on its own (standard_pipeline kept only the first)
    ctx.violations = []
    drift, nbad, inconsistent = {}, 0, 0
    for o in obs:
        vs = verdicts[o["id"]]
        for w in vs[0].get("warn", []):
            drift[w] = drift.get(w, 0) + 1
        if not all(v.get("consistent", False) for v in vs):
            inconsistent += 1
        bad = [v for v in vs if not v["ok"]]
        if bad:
            nbad += 1
        for v in bad:
            slim = {"scn": o["scn"], "obs": {k: o["obs"].get(k) for k in ("kind", "where", "reach", "probes", "table") if k in o["obs"]}}
            ctx.violation(v["sig"], json.dumps(slim)[:500], o)
    if inconsistent:
        raise ToolError("Trace_OpenApi: Violations(..) = {} and Holds(..) disagree on %d line(s): a defect of the specification" % inconsistent)
    probes = [p for o in obs if o["obs"].get("kind") == "openapi" for p in o["obs"]["probes"]]
    reached = sum(1 for p in probes if p["ran"] == p["h"])
    if probes and reached < 0.98 * len(probes):
        raise ToolError("only %d of %d scenario-derived requests reached their handler: the request builder of the harness is off" % (reached, len(probes)))
    ops = sum(len(p["ops"]) for o in obs if o["obs"].get("kind") == "openapi" for p in o["obs"]["paths"])
    ctx.extra.update({"documents": len(obs), "documented_operations": ops, "requests_from_documents": ops, "requests_from_scenarios": len(probes),
                      "scenario_requests_reaching_their_handler": reached, "lines_with_a_violation_class": nbad,
                      "schema_nodes_judged": sum(n["cnt"] for o in obs if o["obs"].get("kind") == "openapi" for n in o["obs"]["nodes"]),
                      "drift_notes": drift})
    for k, n in sorted(drift.items()):
        ctx.note("drift (not asserted by the property): %s on %d document(s)" % (k, n))
    return finish(ctx, rule=RULE, exhaustive=True,
                  assumptions=["handler signatures from the catalogue compiled into harness/src/openapi.rs (7 param forms x 11 extractor sets x 9 return types, "
                               "full product for () and (u32), core subset otherwise; two named-fn handlers)",
                               "routes with at most two path parameters (documented limit of the framework); a handler never declares more params than its route (the framework refuses that at start-up)",
                               "no route is guarded by both a Bearer-JWT fang and BasicAuth (both read `Authorization`: no request at all can pass both)",
                               "JSON Schema validity is judged for the closed keyword set RawSchema can emit, not against the full 2020-12 meta-schema",
                               "response statuses: the return type's statuses must be listed, further statuses are only noted; tags, operationId, descriptions, `required` of bodies and query parameters are recorded, not asserted",
                               "`required` naming a key without a property schema is valid JSON Schema: noted as drift, not a violation"],
                  trusted=["harness/src/openapi.rs: concretisation table, the catalogue types and the table of their meaning in specs/OpenApi.tla, flatten/schema_nodes/kwfact, "
                           "the JSON-pointer resolver, the instance builder deriving a request from the document, the Erased handler wrapper (same pattern as #[openapi::operation])",
                           "serde_json (parsing the document)", "JWT::issue of /repo (produces the valid credential)", "harness/src/util.rs parse_response"])


def replay(ctx, path):
    return standard_replay(ctx, path, sub="openapi", trace=TRACE)
