"""C14 — the CORS fang applies the configured policy to every response and preflight.  DESIGN §4 C14.

Pipeline: MC_Cors (mechanism model against the property-level oracle, named deviations; the repaired mechanism
without deviations; a non-vacuity run) -> CorsGen (applications x policies x requests) + seeded random scenarios ->
`vh run cors` on the real code -> Trace_Cors (one VERDICT per scenario line listing every request outside the
property with its own signature) -> known findings."""
import json
from vlib import ToolError, finish, log

RULE = ("TLC builds applications item by item (exhaustive: every order of <=2/3 route items of depth <=1 with method subsets, the same path "
        "in several items, one mount level with prefixes incl. '/' and a route of the parent; `-simulate`: 3 applications, two mount levels, "
        "<=3 items each, depth <=2, all 15 method subsets) x policies (the 2^5 basic ones rotating over the applications, every policy on the "
        "single-route applications; the rich set in the deep configs) x requests derived from the routes (a preflight for each of GET POST PUT "
        "DELETE HEAD OPTIONS FOO [PATCH get] and a simple request for every method, at instances of every pattern / mount prefix and at near "
        "misses, with and without Access-Control-Request-Headers and Origin); the harness adds seeded random scenarios (<=4 applications, two "
        "mount levels, <=8 routes, 8 header names); non-trivial = the application registers some path more than once (split registration or "
        "merged applications), or has a mount, or two different patterns match one of the requested paths")
TRACE = ("Trace_Cors", "Trace_Cors_repair.cfg")   # the mechanism model with the repair of dd0cb62 (drift is measured against it)
SUB = "cors"


def _routes(apps, a=1, prefix=(), chain=(1,)):
    out = []
    for it in apps[a - 1]["items"]:
        segs = tuple(json.dumps(s, sort_keys=True) for s in it["segs"])
        if it["t"] == "route":
            out.append((prefix + segs, chain))
        else:
            out.extend(_routes(apps, it["app"], prefix + segs, chain + (it["app"],)))
    return out


def nontrivial(o):
    apps = o["scn"]["apps"]
    rts = _routes(apps)
    pats = [r for r, _ in rts]
    if len(pats) != len(set(pats)):
        return True
    if any(it["t"] == "mount" for it in apps[0]["items"]):
        return True
    # a static and a param alternative at the same position of two patterns of equal length
    ps = list(set(pats))
    for x in ps:
        for y in ps:
            if x != y and len(x) == len(y) and all(a == b or '"P"' in a or '"P"' in b for a, b in zip(x, y)):
                return True
    return False


def pipeline(ctx, mc, gen, random_n, chunk=1500, jobs=12):
    ctx.build_harness()
    for module, cfg, kw in mc:
        ctx.tlc(module, cfg, **kw)
    scns, seen = [], set()
    for module, cfg, kw in gen:
        g = ctx.tlc(module, cfg, **kw)
        if not g.lines:
            raise ToolError("%s/%s generated no scenario" % (module, cfg))
        for s in g.lines:
            k = json.dumps([s["policy"], s["apps"]], sort_keys=True)
            if k not in seen:
                seen.add(k)
                scns.append(s)
    scns.sort(key=lambda s: json.dumps(s, sort_keys=True))      # TLC's worker interleaving must not decide ids / concretisation
    n_tlc = len(scns)
    if random_n:
        rp = ctx.path("random.ndjson")
        ctx.vh_gen(SUB, rp, random_n)
        for l in open(rp):
            d = json.loads(l); d["random"] = 1
            scns.append(d)
    for n, d in enumerate(scns):
        d["id"] = n
        d.setdefault("seed", (n * 7 + ctx.seed * 13) % 1000)
    inp = ctx.write_ndjson("scenarios.ndjson", scns)
    obs = ctx.vh(SUB, inp, ctx.path("observations.ndjson"), jobs=jobs)
    ctx.extra["scenarios_from_tlc"] = n_tlc
    ctx.extra["scenarios_random"] = len(scns) - n_tlc
    nreq = sum(len(o["scn"]["reqs"]) for o in obs)
    ctx.evaluations += nreq
    ctx.extra["requests"] = nreq
    for o in obs:
        if o["obs"].get("kind") == "cors" and nontrivial(o):
            ctx.nontrivial.add(o["id"])
    for o in obs[:: max(1, len(obs) // 4)][:4]:
        small = {"id": o["id"], "scn": dict(o["scn"], reqs=o["scn"]["reqs"][:3]), "obs": dict(o["obs"], res=o["obs"].get("res", [])[:3])}
        ctx.sample(small)
    verdicts = judge(ctx, obs, chunk)
    return obs, verdicts


def judge(ctx, obs, chunk=1500):
    verdicts = {}
    for c in range(0, len(obs), chunk):
        part = obs[c:c + chunk]
        tp = ctx.write_ndjson("trace-%d.ndjson" % (c // chunk), part)
        t = ctx.validate(TRACE[0], TRACE[1], tp, len(part), name="trace-Cors-%d" % (c // chunk), timeout=1800)
        for r in t.lines:
            if r.get("t") == "VERDICT":
                verdicts[r["id"]] = r
    ctx.traces = len(obs)
    nbad = nbadreq = drift = nobuild = nobuild_unexp = 0
    classes = {}
    for o in obs:
        v = verdicts.get(o["id"])
        if v is None:
            raise ToolError("trace spec produced no verdict for line id=%s: %s" % (o["id"], json.dumps(o)[:300]))
        drift += v.get("drift", 0)
        cls = v["sig"].get("class", "")
        if cls.startswith("nobuild"):
            nobuild += 1
            nobuild_unexp += cls == "nobuild-unexpected"
            continue
        if v["ok"]:
            continue
        nbad += 1
        if not v["bad"]:
            ctx.violation(v["sig"], json.dumps({"obs": o["obs"]})[:300], o)
            continue
        for b in v["bad"]:
            k = b["k"] - 1
            nbadreq += 1
            one = {"id": o["id"], "scn": dict(o["scn"], reqs=[o["scn"]["reqs"][k]]), "obs": dict(o["obs"], res=[o["obs"]["res"][k]])}
            classes[json.dumps(b["sig"], sort_keys=True)] = classes.get(json.dumps(b["sig"], sort_keys=True), 0) + 1
            ctx.violation(b["sig"], json.dumps({"policy": o["scn"]["policy"], "apps": o["scn"]["apps"], "req": o["scn"]["reqs"][k],
                                                "obs": o["obs"]["res"][k]})[:700], one)
    log("[judge] %d scenario line(s), %d request(s) judged by %s: %d request(s) in %d scenario(s) outside the property" % (
        len(obs), sum(len(o["scn"]["reqs"]) for o in obs), TRACE[0], nbadreq, nbad))
    ctx.extra["requests_outside_property_by_signature"] = classes
    ctx.extra["model_drift_requests"] = drift
    ctx.extra["applications_not_built"] = nobuild
    if drift:
        ctx.note("model drift: on %d request(s) the mechanism model of Cors.tla and the code differ (not a violation by itself)" % drift)
    if nobuild:
        ctx.note("%d generated application(s) were refused by the framework at construction (%d not predicted by the model); not judged" % (nobuild, nobuild_unexp))
    if nobuild * 5 > len(obs):
        raise ToolError("more than 20%% of the generated applications do not build (%d of %d): the generator no longer matches the framework" % (nobuild, len(obs)))
    return verdicts


def run(ctx):
    q = ctx.quick
    w = dict(workers=8, timeout=1500)
    mc = [("MC_Cors", "MC_Cors.cfg" if q else "MC_Cors_deep.cfg", dict(w)),
          ("MC_Cors", "MC_Cors_mount.cfg" if q else "MC_Cors_mount_deep.cfg", dict(w)),
          ("MC_Cors", "MC_Cors_repair_flat.cfg", dict(w, name="mc-repair-flat")),
          ("MC_Cors", "MC_Cors_repair.cfg", dict(w, name="mc-repair")),
          ("MC_Cors", "MC_Cors_nodev.cfg", dict(workers=2, expect_violation=True))]
    if q:
        mc = [m for m in mc if m[1] != "MC_Cors_repair.cfg"]
    else:
        mc.append(("MC_Cors", "MC_Cors_sim.cfg", dict(workers=1, simulate="num=80", depth=16, name="mc-sim", timeout=1500)))
    gen = [("CorsGen", "Gen_Cors.cfg" if q else "Gen_Cors_deep.cfg", dict(workers=6, timeout=1500)),
           ("CorsGen", "Gen_Cors_mount.cfg" if q else "Gen_Cors_mount_deep.cfg", dict(workers=6, timeout=1500)),
           ("CorsGen", "Gen_Cors_gate.cfg", dict(workers=4, timeout=1500, name="gen-gate")),
           ("CorsGen", "Gen_Cors_pol.cfg" if q else "Gen_Cors_pol_deep.cfg", dict(workers=4, timeout=1500)),
           ("CorsGen", "Gen_Cors_sim.cfg", dict(workers=1, simulate="num=%d" % (60 if q else 300), depth=14, name="gen-sim", timeout=1500))]
    pipeline(ctx, mc, gen, random_n=300 if q else 4000)
    return finish(ctx, rule=RULE, exhaustive=True,
                  assumptions=["the CORS fang is a fang of the served (top) application: Ohkami::with((CORS::new(..)..,), ..)",
                               "applications the framework refuses to construct (conflicting registrations) are outside the quantifier; "
                               "mounts that put a second param node next to an existing one are not generated (routing below them is C01's subject)",
                               "where several registered patterns match a path, a preflight may be answered for the best match among all patterns or among "
                               "those of the requested method, with or without backtracking (as in C01)",
                               "a preflight asking for HEAD (GET registered) or OPTIONS may be accepted or refused; Vary is not compared; header lists and "
                               "method lists are compared as sets of comma-separated tokens; header names case-insensitively",
                               "requests are well-formed HTTP/1.1; responses produced before routing (malformed request) are not CORS's subject",
                               "routes with at most two path parameters"],
                  trusted=["harness/src/cors.rs (policy construction through the public CORS builder, application assembly through ohkami::__verif, "
                           "concretisation of origins / header names / path characters, projection of Access-Control-* values to tokens)",
                           "harness/src/util.rs parse_response"])


def replay(ctx, path):
    doc = json.load(open(path))
    ctx.build_harness()
    scn = doc["scenario"]["scn"]
    inp = ctx.write_ndjson("scenarios.ndjson", [scn])
    obs = ctx.vh(SUB, inp, ctx.path("observations.ndjson"), jobs=1)
    print(json.dumps(obs[0], indent=1))
    judge(ctx, obs)
    for v in ctx.violations:
        print("signature:", json.dumps(v["sig"], sort_keys=True))
    if ctx.violations:
        print("VIOLATION property=%s replay=%s" % (ctx.prop, path))
        return 1
    return 0
