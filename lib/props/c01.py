"""C01 — routing dispatches each request to the handler of the matching route.  DESIGN §4 C01."""
import json
from vlib import standard_pipeline, standard_replay, finish

RULE = ("TLC builds applications item by item (every registration order is a distinct behaviour; exhaustive for <=2/3 routes of depth <=2 "
        "and for one mount level, `-simulate` for up to 3 applications x 3 routes with method subsets) and derives the request set from the "
        "routes (instances, one byte more/less at every segment, extra/missing/empty segments, trailing slashes, every method); the harness adds "
        "seeded random applications; non-trivial = the application has two routes that share a first segment, or a param sibling of a static "
        "segment, or a mount")
TRACE = ("Trace_Router", "Trace_Router_c01.cfg")

def nontrivial(o):
    apps = o["scn"]["apps"]
    if len(apps) > 1:
        return True
    items = apps[0]["items"]
    firsts = [json.dumps(it["segs"][0]) if it["segs"] else "" for it in items]
    kinds = set(it["segs"][0]["k"] for it in items if it["segs"])
    return len(firsts) != len(set(firsts)) or kinds == {"S", "P"}

def run(ctx):
    q = ctx.quick
    mc = [("MC_Router", "MC_Router_flat2.cfg" if q else "MC_Router_flat.cfg", dict(workers=8, timeout=1800)),
          ("MC_Router", "MC_Router.cfg" if q else "MC_Router_deep.cfg", dict(workers=8, timeout=3000)),
          ("MC_Router", "MC_Router_noboundary.cfg", dict(workers=2, expect_violation=True)),
          # routes of the parent below the prefix at which it mounts a child: the repaired merge (param children merged) dispatches as
          # the property allows in every order; the merge before the repair (two param siblings) must give a counterexample
          ("MC_Router", "MC_Router_overlap.cfg" if q else "MC_Router_overlap_deep.cfg", dict(workers=8, timeout=3000)),
          ("MC_Router", "MC_Router_nopmerge.cfg", dict(workers=4, expect_violation=True))]
    gen = [("RouterGen", "Gen_Router_c01.cfg" if q else "Gen_Router_c01_deep.cfg", dict(workers=6, timeout=1200)),
           ("RouterGen", "Gen_Router_c01_dash.cfg" if q else "Gen_Router_c01_dash_deep.cfg", dict(workers=6, timeout=1200, name="gen-dash")),
           ("RouterGen", "Gen_Router_c01_m.cfg", dict(workers=4)),
           ("RouterGen", "Gen_Router_c01_mount.cfg", dict(workers=6, timeout=1200)),
           ("RouterGen", "Gen_Router_c01_overlap.cfg" if q else "Gen_Router_c01_overlap_deep.cfg", dict(workers=6, timeout=1200, name="gen-overlap")),
           ("RouterGen", "Gen_Router_c01_overlap3.cfg", dict(workers=6, timeout=1200, name="gen-overlap3")),     # depth 3: params merged two levels deep
           ("RouterGen", "Gen_Router_c01_sim.cfg", dict(workers=4, simulate="num=%d" % (8 if q else 150), depth=16, name="gen-sim", timeout=1200))]
    obs, _ = standard_pipeline(ctx, sub="router", mc=mc, gen=gen, trace=TRACE, random_n=400 if q else 6000, random_extra=(),
                               nontrivial=nontrivial, dedupe_key=lambda s: json.dumps([s["apps"], s["early"]], sort_keys=True),
                               post_gen=lambda scns: [s for s in scns], chunk=4000)
    ctx.extra["requests"] = sum(len(o["scn"]["reqs"]) for o in obs)
    # the composition: the same property on end-to-end runs of the real session loop, validated event by event against Server.tla
    import props.server as server
    server.composition(ctx, {"dispatch"})
    return finish(ctx, rule=RULE, exhaustive=True,
                  assumptions=["routes with at most two path parameters (documented limit of the framework)",
                               "percent-escapes in paths are not generated here (C07 covers decoding of params)",
                               "where a route registered only for other methods shadows a param sibling, both the param route and 404 are accepted",
                               "where greedy descent dead-ends and a backtracking match exists, both outcomes are accepted"],
                  trusted=["harness/src/router.rs (application assembly through ohkami::__verif, concretisation of abstract characters)",
                           "harness/src/util.rs parse_response"])

def replay(ctx, path):
    doc = json.load(open(path))
    if isinstance(doc.get("scenario"), dict) and doc["scenario"].get("composition"):
        import props.server as server
        rc = server.replay_composition(ctx, doc)
        if rc:
            print("VIOLATION property=%s replay=%s" % (ctx.prop, path))
        return rc
    return standard_replay(ctx, path, sub="router", trace=TRACE)
