"""SERVER — composition check (not one of the listed properties): end-to-end socket traces of the real Session::manage serving
TLC-built / random applications with fangs are validated event by event against specs/Server.tla (Router + RouterApp + the
session loop).  Run: bin/check SERVER [--tier thorough].  Writes no evidence file."""
import json, time
from vlib import log, ToolError

def run(ctx):
    ctx.build_harness()
    q = ctx.quick
    scns = []
    g = ctx.tlc("RouterGen", "Gen_Router_c04.cfg", workers=6, timeout=1800)
    g2 = ctx.tlc("RouterGen", "Gen_Router_c04_sim.cfg", workers=4, simulate="num=%d" % (6 if q else 80), depth=18, name="gen-sim", timeout=1200)
    seen = set()
    for d in g.lines + g2.lines:
        key = json.dumps([d["apps"], d["early"]], sort_keys=True)
        if key in seen:
            continue
        seen.add(key)
        reqs = d["reqs"]
        if not reqs:
            continue
        # a connection: up to 4 requests spread over the derived request set, the last one maybe with Connection: close
        n = 1 + (len(seen) % 4)
        conn = [{"req": reqs[(len(seen) * 7 + j * 13) % len(reqs)], "close": (j == n - 1 and len(seen) % 3 == 0)} for j in range(n)]
        scns.append({"apps": d["apps"], "early": d["early"], "conn": conn, "reqs": []})
    rp = ctx.path("random.ndjson")
    ctx.vh_gen("server", rp, 300 if q else 5000)
    scns += [json.loads(l) for l in open(rp)]
    for n, d in enumerate(scns):
        d["id"] = n
    obs = ctx.vh("server", ctx.write_ndjson("scenarios.ndjson", scns), ctx.path("observations.ndjson"), jobs=12, timeout_ms=90000)
    bad, CH = [], 1500
    for c in range(0, len(obs), CH):
        ev = []
        for o in obs[c:c + CH]:
            if o["obs"].get("kind") != "server":
                bad.append((o["id"], o["obs"].get("kind"))); continue
            ev.append({"ev": "reset", "id": o["id"], "apps": o["scn"]["apps"], "conn": o["scn"]["conn"], "early": o["scn"]["early"], "a": 0, "b": 0})
            ev += o["obs"]["events"]
            ev.append({"ev": "end", "statuses": o["obs"]["statuses"], "a": 0, "b": 0})
        t = ctx.validate("Trace_Server", "Trace_Server.cfg", ctx.write_ndjson("trace-%d.ndjson" % (c // CH), ev), len(ev), name="trace-%d" % (c // CH))
        ok = {r["id"] for r in t.lines if r.get("t") == "VERDICT" and r["ok"]}
        for r in t.lines:
            if r.get("t") == "VERDICT" and not r["ok"] and r["id"] not in ok:
                bad.append((r["id"], r["sig"]["class"]))
        for o in obs[c:c + CH]:
            if o["obs"].get("kind") == "server" and o["id"] not in ok and not any(b[0] == o["id"] for b in bad):
                bad.append((o["id"], "event-sequence-not-a-behaviour-of-Server"))
    log("[server] %d connections (%d events) validated against Server.tla: %d rejected" % (len(obs), sum(len(o["obs"].get("events", [])) for o in obs), len(bad)))
    for i, why in bad[:5]:
        log("  rejected id=%s: %s" % (i, why))
    if bad:
        by = {o["id"]: o for o in obs}
        rp = ctx.path("server-rejected.json")
        json.dump(by[bad[0][0]], open(rp, "w"), indent=1)
        log("VIOLATION property=SERVER replay=%s" % rp)
        return 1
    return 0

def replay(ctx, path):
    raise ToolError("no replay for the composition check")
