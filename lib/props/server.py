"""SERVER — the composition: end-to-end socket traces of the real Session::manage serving TLC-built / random applications with
fangs are validated event by event against specs/Server.tla (Router + RouterApp + the session loop).

`bin/check SERVER [--tier thorough]` runs it on its own (no evidence file: it is not one of the listed properties).  The checks
of C01, C04 and C05 call `composition(ctx, classes)`: a run that Server.tla does not explain is attributed, from the STUCK /
VERDICT record of Trace_Server, to
   dispatch  the handler that ran is not one the routing property allows (`handler` event without explanation, DispatchInv)  -> C01
   fangs     an enter / leave event that is not the next one of an onion trace of the request, an incomplete onion           -> C04
   session   the loop itself: an event out of order, a response out of order, a read after `Connection: close`, the statuses
             the client saw differ from those the machine counted; also a crash or hang of the server                        -> C05
and only the classes asked for become violations of the calling property (the others are noted)."""
import json, time
from vlib import log, ToolError

TRACE = ("Trace_Server", "Trace_Server.cfg")

def classify(rec):
    """rec: STUCK or failed VERDICT record of Trace_Server -> (class, short reason)"""
    if rec.get("t") == "STUCK":
        why, ev = rec["why"], rec["ev"]
        if why.startswith("invariant:"):
            return ("dispatch" if why == "invariant:DispatchInv" else "session"), why
        if ev in ("enter", "leave", "handled"):
            return "fangs", "unexplained-%s-in-phase-%s" % (ev, rec["phase"])
        if ev == "handler":
            return "dispatch", "unexplained-handler-in-phase-%s" % rec["phase"]
        return "session", "unexplained-%s-in-phase-%s" % (ev, rec["phase"])
    c = rec["sig"]["class"]
    return ("dispatch" if c == "invariant:DispatchInv" else "session"), c

def scenarios(ctx):
    q = ctx.quick
    scns = []
    g = ctx.tlc("RouterGen", "Gen_Router_c04.cfg", workers=6, timeout=1800, name="comp-gen")
    g2 = ctx.tlc("RouterGen", "Gen_Router_c04_sim.cfg", workers=4, simulate="num=%d" % (6 if q else 80), depth=18, name="comp-gen-sim", timeout=1200)
    seen = set()
    for d in g.lines + g2.lines:
        key = json.dumps([d["apps"], d["early"]], sort_keys=True)
        if key in seen:
            continue
        seen.add(key)
        reqs = d["reqs"]
        if not reqs:
            continue
        # a connection: up to 4 requests spread over the derived request set, the last one maybe with Connection: close
        n = 1 + (len(seen) % 4)
        conn = [{"req": reqs[(len(seen) * 7 + j * 13) % len(reqs)], "close": (j == n - 1 and len(seen) % 3 == 0)} for j in range(n)]
        scns.append({"apps": d["apps"], "early": d["early"], "conn": conn, "reqs": []})
    rp = ctx.path("comp-random.ndjson")
    ctx.vh_gen("server", rp, 300 if q else 5000)
    scns += [json.loads(l) for l in open(rp)]
    for n, d in enumerate(scns):
        d["id"] = n
    return scns

def judge(ctx, obs, tag="comp"):
    """-> list of (id, class, reason)"""
    bad, CH = [], 1500
    for c in range(0, len(obs), CH):
        ev = []
        for o in obs[c:c + CH]:
            if o["obs"].get("kind") != "server":
                bad.append((o["id"], "session", "server-" + str(o["obs"].get("kind")))); continue
            ev.append({"ev": "reset", "id": o["id"], "apps": o["scn"]["apps"], "conn": o["scn"]["conn"], "early": o["scn"]["early"], "a": 0, "b": 0})
            ev += o["obs"]["events"]
            ev.append({"ev": "end", "statuses": o["obs"]["statuses"], "a": 0, "b": 0})
        t = ctx.validate(TRACE[0], TRACE[1], ctx.write_ndjson("%s-trace-%d.ndjson" % (tag, c // CH), ev), len(ev), name="%s-trace-%d" % (tag, c // CH))
        done = set()
        for r in t.lines:
            if r.get("t") == "STUCK" or (r.get("t") == "VERDICT" and not r["ok"]):
                cls, why = classify(r); bad.append((r["id"], cls, why)); done.add(r["id"])
            elif r.get("t") == "VERDICT":
                done.add(r["id"])
        for o in obs[c:c + CH]:
            if o["obs"].get("kind") == "server" and o["id"] not in done:
                raise ToolError("Trace_Server produced neither a verdict nor a STUCK record for run %s" % o["id"])
    return bad

def composition(ctx, classes):
    """Runs the composition and registers, as violations of ctx.prop, the rejected runs whose class is in `classes`."""
    scns = scenarios(ctx)
    obs = ctx.vh("server", ctx.write_ndjson("comp-scenarios.ndjson", scns), ctx.path("comp-observations.ndjson"), jobs=12, timeout_ms=90000)
    bad = judge(ctx, obs)
    nev = sum(len(o["obs"].get("events", [])) for o in obs)
    ctx.evaluations += len(obs)
    ctx.extra["composition"] = {"connections": len(obs), "events": nev, "rejected": len(bad), "classes_decided_here": sorted(classes)}
    log("[composition] %d connections (%d events of the real session loop, fangs and handlers) validated against Server.tla: %d rejected" % (len(obs), nev, len(bad)))
    by = {o["id"]: o for o in obs}
    other = {}
    for i, cls, why in bad:
        if cls in classes:
            ctx.violation({"composition": cls, "why": why}, json.dumps({"conn": by[i]["scn"]["conn"], "events": by[i]["obs"].get("events", [])[:30]})[:400],
                          {"composition": True, "scn": by[i]["scn"], "obs": by[i]["obs"]})
        else:
            other[(cls, why)] = other.get((cls, why), 0) + 1
    for (cls, why), n in sorted(other.items()):
        ctx.note("composition: %d run(s) not explained by Server.tla for a reason that belongs to another property's check (%s: %s)" % (n, cls, why))
    return bad

def replay_composition(ctx, doc):
    """doc: the replay document of a composition violation.  Returns 1 if the run is still rejected."""
    ctx.build_harness()
    scn = dict(doc["scenario"]["scn"], id=0)
    obs = ctx.vh("server", ctx.write_ndjson("comp-scenarios.ndjson", [scn]), ctx.path("comp-observations.ndjson"), jobs=1, timeout_ms=90000)
    print(json.dumps(obs[0])[:3000])
    bad = judge(ctx, obs)
    print(bad)
    return 1 if bad else 0

def run(ctx):
    ctx.build_harness()
    bad = composition(ctx, {"dispatch", "fangs", "session"})
    for i, cls, why in bad[:5]:
        log("  rejected id=%s: %s %s" % (i, cls, why))
    if ctx.violations:
        rp = ctx.path("server-rejected.json")
        json.dump(ctx.violations[0]["replay"], open(rp, "w"), indent=1)
        log("VIOLATION property=SERVER replay=%s" % rp)
        return 1
    return 0

def replay(ctx, path):
    return replay_composition(ctx, json.load(open(path)))
