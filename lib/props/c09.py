"""C09 — URL-encoded serialization round-trips and decodes per percent-encoding rules.  DESIGN §4 C09.

specs/UrlEnc.tla (byte-level reference: UTF-8, RFC 3986 percent-coding, split on raw `&`/`=`; ohkami's section walker),
MC_UrlEnc (spec against itself + walker against oracle), UrlEncGen (scenarios), Trace_UrlEnc (verdicts),
harness/src/urlenc.rs (real to_string / from_bytes / Request::query)."""
import hashlib, json
from vlib import finish, standard_pipeline, standard_replay

RULE = ("TLC enumerates (rt) every value of a 13-type catalogue with strings over 16 character classes, (dec) wire texts with "
        "raw/%XX/%xx spellings, every field order, unknown extra pairs, absent options, for body and request-line context, "
        "(iter) query texts for Request::query.iter(); seeded random scenarios of the same vocabulary beyond those bounds; "
        "non-trivial = the scenario contains a character outside [A-Za-z0-9], a percent-escape, a boundary/special number, "
        "an Option/sequence/map field, or more than one pair")

SPECIAL_SYMS = {"#min", "#max", "#nan", "#inf", "#-inf", "#-0", "#dark_red", "#minpos"}

def _key(s):
    return hashlib.sha1(json.dumps({k: v for k, v in s.items() if k not in ("id", "seed", "random")}, sort_keys=True).encode()).hexdigest()

def nontrivial(o):
    """key (content hash) of the scenario when it is non-trivial by RULE, else None: distinct scenarios are counted, not ids"""
    return _key(o["scn"]) if _nontrivial(o) else None

def _nontrivial(o):
    s = o["scn"]
    if s["mode"] == "rt":
        if s["ty"] in ("Map", "OMap", "Opt", "OptEnd", "SeqS", "SeqN", "Seq2", "TupSeq", "TsSeq"):
            return True
        for f in s["val"]:
            for e in f["v"]:
                for t in e:
                    if t in SPECIAL_SYMS or (not t.startswith("#") and t != "al"):
                        return True
        return False
    if len(s["pairs"]) > 1:
        return True
    for p in s["pairs"]:
        for t in p["k"] + p["v"]:
            if t["e"] != "r" or t["c"] not in ("al", "sym"):
                return True
    return False

def pipeline(ctx):
    q = ctx.quick
    seed = ctx.seed
    def post(scns):
        for s in scns:
            s["seed"] = seed
        return scns
    return standard_pipeline(
        ctx, checked=True, sub="urlenc",
        mc=[("MC_UrlEnc", "MC_UrlEnc.cfg" if q else "MC_UrlEnc_deep.cfg", dict(workers=8, timeout=600))],
        gen=[("UrlEncGen", "Gen_UrlEnc.cfg" if q else "Gen_UrlEnc_deep.cfg", dict(workers=2, timeout=600))],
        trace=("Trace_UrlEnc", "Trace_UrlEnc.cfg"), post_gen=post,
        random_n=4000 if q else 60000, nontrivial=nontrivial, jobs=12)

def run(ctx):
    pipeline(ctx)
    return finish(ctx, rule=RULE, exhaustive=True,
                  assumptions=["texts outside `key=value&...` well-formedness (dangling `%`, missing `=`, second raw `=`, empty key), escapes that are not UTF-8, "
                               "duplicate keys and non-canonical number literals are not asserted here (totality on them is C08)",
                               "an empty value into an Option field may decode to None or Some(\"\") (the decoding sentence does not say)",
                               "sequences are only asserted in the round-trip half (their comma syntax is ohkami's own, not part of the decoding sentence); tuples are not in the catalogue",
                               "query context: raw spellings are restricted to characters legal in a request target"],
                  trusted=["harness/src/urlenc.rs: class -> code point table `reps`, `spell` (%XX writer), boundary-number table, projection of typed values onto Display strings",
                           "serde derive for the catalogue types", "Rust float Display being the shortest round-tripping text"])

def replay(ctx, path):
    return standard_replay(ctx, path, sub="urlenc", trace=("Trace_UrlEnc", "Trace_UrlEnc.cfg"))
