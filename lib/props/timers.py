"""TIMERS — extension check (not one of the listed properties): the time-dependent behaviour of a connection.
specs/Timers.tla specifies, with explicit discrete time, the ONE session deadline of Session::manage (OHKAMI_KEEPALIVE_TIMEOUT,
armed once per session: PER_REQUEST_DEADLINE = FALSE), the builtin Timeout fang (eager cancellation of the inner part, nested
timers, 500 "timeout") and the tie rule of util::timeout_in.  TLC checks the step machine against the oracle exhaustively in
small bounds (plus two variants that must fail), generates Robust scenarios, the harness runs them on the REAL Session::manage
over loopback TCP with sleeping handlers / fangs, and specs/Trace_Timers.tla judges every timed observation.
Run: bin/check TIMERS [--tier thorough].  Writes no evidence file (unregistered extension, like SERVER)."""
import json, os, collections
from vlib import log, ToolError, load_findings, sig_matches, VERIF

ROUNDS = 3          # a scenario is only a violation if it is rejected in every round ...
QUIET_NEEDED = 2    # ... and at least this many of the rejecting runs were quiet (metronome lateness <= JITMAX of Trace_Timers.cfg)
PROBE = {"kind": "probe", "sv": [], "cl": [], "late": [], "jit": 0, "unit": 100, "reads": 0}


def cls_key(c):
    return "".join(c["per"]) + "/" + c["end"] + ("/nested" if c["nested"] else "") + ("/zero" if c["zero"] else "")


def stratified(items, n, seed):
    """items: [(class key, scenario)] -> at most n scenarios, round-robin over the classes (deterministic for a seed)"""
    by = collections.defaultdict(list)
    for k, s in items:
        by[k].append(s)
    keys = sorted(by)
    for k in keys:
        by[k].sort(key=lambda s: json.dumps(s, sort_keys=True))
        r = seed % max(1, len(by[k]))
        by[k] = by[k][r:] + by[k][:r]
    out, i = [], 0
    while len(out) < n and any(by[k] for k in keys):
        k = keys[i % len(keys)]; i += 1
        if by[k]:
            out.append(by[k].pop(0))
    return out, len(keys)


def judge(ctx, obs, name, cfg="Trace_Timers.cfg"):
    tp = ctx.write_ndjson("trace-%s.ndjson" % name, obs)
    t = ctx.validate("Trace_Timers", cfg, tp, len(obs), name="trace-" + name)
    v = {r["id"]: r for r in t.lines if r.get("t") == "VERDICT"}
    for o in obs:
        if o["id"] not in v:
            raise ToolError("Trace_Timers produced no verdict for line id=%s" % o["id"])
    return v


def execute(ctx, scns, name, jobs):
    """one harness run per session deadline value: OHKAMI_KEEPALIVE_TIMEOUT is read once per process"""
    obs = []
    for S in sorted({s["S"] for s in scns}):
        part = [s for s in scns if s["S"] == S]
        inp = ctx.write_ndjson("scenarios-%s-S%d.ndjson" % (name, S), part)
        env_before = os.environ.pop("OHKAMI_KEEPALIVE_TIMEOUT", None)
        try:
            obs += ctx.vh("timers", inp, ctx.path("observations-%s-S%d.ndjson" % (name, S)), jobs=jobs, timeout_ms=15000)
        finally:
            if env_before is not None:
                os.environ["OHKAMI_KEEPALIVE_TIMEOUT"] = env_before
    return sorted(obs, key=lambda o: o["id"])


def run(ctx):
    ctx.build_harness()
    q = ctx.quick
    # ---- (a)+(b): the step machine refines the oracle and satisfies the invariants, exhaustively within small constants
    ctx.tlc("MC_Timers", "MC_Timers.cfg", workers=8, timeout=600)
    ctx.tlc("MC_Timers", "MC_Timers_conn.cfg", workers=8, timeout=600)
    if not q:
        ctx.tlc("MC_Timers", "MC_Timers_deep.cfg", workers=8, timeout=900)
        ctx.tlc("MC_Timers", "MC_Timers_conn_deep.cfg", workers=8, timeout=1500)
    # non-vacuity: a Timeout fang that only looks at its clock when the inner part returns; a session deadline restarted per request
    o1 = ctx.tlc("MC_Timers", "MC_Timers_lazy.cfg", workers=4, expect_violation=True, timeout=300)
    o2 = ctx.tlc("MC_Timers", "MC_Timers_perreq.cfg", workers=4, expect_violation=True, timeout=300)
    log("[nonvacuity] EAGER_CANCEL=FALSE: %s; PER_REQUEST_DEADLINE=TRUE: %s" % (o1.violation, o2.violation))
    # ---- scenarios: TLC simulation of TimersGen (only Robust scenarios are printed), sampled evenly over the oracle's outcome classes
    want = {10: 60 if q else 420, 20: 36 if q else 240}
    scns, nclasses = [], 0
    for S, cfg in ((10, "Gen_Timers.cfg" if q else "Gen_Timers_deep.cfg"), (20, "Gen_Timers_s20.cfg" if q else "Gen_Timers_s20_deep.cfg")):
        g = ctx.tlc("TimersGen", cfg, workers=4, simulate="num=%d" % (150 if q else 900), depth=12, name="gen-S%d" % S, timeout=900)
        seen, items = set(), []
        for d in g.lines:
            key = json.dumps(d["scn"], sort_keys=True)
            if key not in seen:
                seen.add(key); items.append((cls_key(d["cls"]), d["scn"]))
        if not items:
            raise ToolError("TimersGen/%s generated no scenario" % cfg)
        pick, nc = stratified(items, want[S], ctx.seed)
        nclasses += nc
        log("[gen] S=%d: %d distinct robust scenarios in %d classes, %d taken" % (S, len(items), nc, len(pick)))
        scns += pick
    n_tlc = len(scns)
    # ---- seeded random scenarios of the harness (deeper onions, longer scripts); the specification decides which are Robust
    rp = ctx.path("random.ndjson")
    ctx.vh_gen("timers", rp, 600 if q else 5000)
    rnd = [json.loads(l) for l in open(rp)]
    pv = judge(ctx, [{"id": n, "scn": s, "obs": PROBE} for n, s in enumerate(rnd)], "probe")
    robust = [(pv[n]["sig"]["shape"], s) for n, s in enumerate(rnd) if pv[n]["ok"]]
    pick, nc = stratified(robust, 36 if q else 300, ctx.seed)
    log("[gen] random: %d of %d are Robust (%d classes), %d taken" % (len(robust), len(rnd), nc, len(pick)))
    scns += pick
    for n, s in enumerate(scns):
        s["id"] = n
    # ---- the real code, judged by Trace_Timers; rejected scenarios are repeated (real time is noisy)
    by = {s["id"]: s for s in scns}
    todo, rejected, first_obs, worst_jit, all_dev = list(by), collections.defaultdict(list), {}, 0, []
    for rnd_no in range(ROUNDS):
        if not todo:
            break
        obs = execute(ctx, [by[i] for i in todo], "r%d" % rnd_no, 12 if rnd_no == 0 else 4)
        v = judge(ctx, obs, "r%d" % rnd_no)
        nxt = []
        for o in obs:
            if rnd_no == 0:
                first_obs[o["id"]] = o
                worst_jit = max(worst_jit, o["obs"].get("jit", 0))
            r = v[o["id"]]
            if rnd_no == 0 and r.get("dev", -1) >= 0:
                all_dev.append(r["dev"])
            if r["sig"]["class"].startswith("tool:"):
                raise ToolError("Trace_Timers: %s (id %s)" % (r["sig"]["class"], o["id"]))
            if not r["ok"]:
                rejected[o["id"]].append((r["sig"], o)); nxt.append(o["id"])
        log("[judge] round %d: %d observation(s) judged by Trace_Timers, %d rejected%s" % (
            rnd_no + 1, len(obs), len(nxt), (" (repeated: " + ", ".join("%s[%s]" % (rejected[i][-1][0]["class"], rejected[i][-1][0]["noise"]) for i in nxt[:4]) + ")") if nxt else ""))
        todo = nxt
    obs0 = [first_obs[i] for i in sorted(first_obs)]
    nev = sum(len(o["obs"].get("sv", [])) + len(o["obs"].get("cl", [])) for o in obs0)
    all_dev.sort()
    pct = lambda p: all_dev[min(len(all_dev) - 1, int(p * len(all_dev)))] if all_dev else -1
    log("[timers] %d scenarios (%d from TLC, %d random) on the real Session::manage: %d timed events" % (len(obs0), n_tlc, len(scns) - n_tlc, nev))
    log("[jitter] largest distance between an observed and a specified instant per scenario: median %d ms, p90 %d ms, max %d ms (tolerance 100 ms, "
        "margin of the scenarios 200 ms); worst metronome lateness %d ms" % (pct(0.5), pct(0.9), all_dev[-1] if all_dev else -1, worst_jit))
    # ---- the binding binds: the same observations against the oracle with the deadline restarted per request must be rejected
    # wherever the two readings differ (a session that is ended by the deadline after a request was parsed later than tick 0)
    pr = judge(ctx, obs0, "perreq", cfg="Trace_Timers_perreq.cfg")
    nrej = sum(1 for r in pr.values() if not r["ok"])
    log("[binding] against the oracle with PER_REQUEST_DEADLINE = TRUE %d of %d observations are rejected" % (nrej, len(obs0)))
    if nrej == 0:
        raise ToolError("no observation distinguishes the per-session deadline from a per-request one: the scenarios do not bind")
    # ---- verdict
    findings = [f for f in load_findings() if f["property"] == "TIMERS" and f.get("status") == "open"]
    rc, inconclusive, hits = 0, 0, collections.Counter()
    for i in todo:      # rejected in every round
        runs = rejected[i]
        quiet = [s for s, _ in runs if s["noise"] == "quiet"]
        if len(quiet) < QUIET_NEEDED:
            inconclusive += 1
            log("NOTE: scenario %d was rejected in every round but the machine was noisy (%s): not judged" % (i, [s["class"] + "/" + s["noise"] for s, _ in runs]))
            continue
        sig = quiet[-1]
        f = next((f for f in findings if sig_matches(f["match"], sig)), None)
        if f:
            hits[f["id"]] += 1
            continue
        rdir = os.path.join(VERIF, "work", "replay"); os.makedirs(rdir, exist_ok=True)
        rp = os.path.join(rdir, "TIMERS-%d.json" % i)
        json.dump({"property": "TIMERS", "signature": sig, "scenario": runs[-1][1]}, open(rp, "w"), indent=1)
        log("  rejected in %d rounds: %s" % (ROUNDS, json.dumps(sig)))
        log("VIOLATION property=TIMERS replay=%s" % rp)
        rc = 1
    for fid, n in hits.items():
        log("KNOWN-FINDING: property=TIMERS %s [%d scenario(s)]" % (fid, n))
    if inconclusive > max(2, len(scns) // 10):
        raise ToolError("%d scenarios could not be judged: the machine is too loaded for a timing check" % inconclusive)
    log("[done] TIMERS tier=%s seed=%d: %d scenarios, %d states model-checked, %d rejected after %d rounds, %d not judged (noise)" % (
        ctx.tier, ctx.seed, len(scns), ctx.states, sum(1 for i in todo) - inconclusive, ROUNDS, inconclusive))
    return rc


def replay(ctx, path):
    doc = json.load(open(path))
    scn = doc["scenario"]["scn"] if "scn" in doc.get("scenario", {}) else doc["scenario"]
    ctx.build_harness()
    scn["id"] = scn.get("id", 0)
    bad = 0
    for r in range(ROUNDS):
        obs = execute(ctx, [scn], "replay%d" % r, 1)
        v = judge(ctx, obs, "replay%d" % r)
        print(json.dumps(obs[0]["obs"]))
        print(v[obs[0]["id"]])
        bad += 0 if v[obs[0]["id"]]["ok"] else 1
    if bad == ROUNDS:
        print("VIOLATION property=TIMERS replay=%s" % path)
        return 1
    return 0
