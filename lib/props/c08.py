"""C08 — network-facing decoders are total and memory-safe on arbitrary bytes.  DESIGN §4 C08 (level: exploration)."""
import json
from vlib import finish, log, ToolError, standard_pipeline, standard_replay

RULE = ("TLC walks the grammar of each decoder's input language (urlencoded/query, Cookie, multipart, Set-Cookie, percent-decoding) with "
        "fault transitions: every token string of <= 4 (thorough: 5) tokens with <= 2 faults, every prefix, x the target-type catalogue; "
        "plus seeded byte-level mutations of a sample and grammar-blind random token strings; non-trivial = the input carries at least one "
        "fault label, a mutation, or is random (i.e. it is not a plain well-formed sentence)")

def _post(seed, quick):
    def post(scns):
        # deterministic order and de-duplication (different walks can spell the same token string: keep the smallest label)
        best = {}
        for d in scns:
            k = (d["dec"], tuple(d["toks"]), d["target"]["tag"])
            if k not in best or (len(d["faults"]), d["faults"]) < (len(best[k]["faults"]), best[k]["faults"]):
                best[k] = d
        out = [best[k] for k in sorted(best)]
        n0 = len(out)
        for n, d in enumerate(out):
            d["cv"] = (n * 7919 + seed * 104729) % 1000
        # seeded byte-level mutations of a sample of the enumerated inputs
        step = 4 if quick else 2
        for n in range(seed % step, n0, step):
            d = dict(out[n]); d["mut"] = 1 + (n * 2654435761 + seed * 97) % 1000003
            out.append(d)
        return out
    return post

def run(ctx):
    q = ctx.quick
    mc = [("DecodersGen", "MC_Decoders.cfg", dict(workers=4))]
    gen = [("DecodersGen", "Gen_Decoders.cfg" if q else "Gen_Decoders_deep.cfg", dict(workers=8, timeout=1500, heap="8g")),
           # Set-Cookie directives only start at the fifth token: longer walks for that decoder alone
           ("DecodersGen", "Gen_Decoders_setcookie.cfg" if q else "Gen_Decoders_setcookie_deep.cfg", dict(workers=4, timeout=900))]
    obs, verdicts = standard_pipeline(ctx, sub="decoders", mc=mc, gen=gen, trace=("Trace_Decoders", "Trace_Decoders.cfg"),
                                      random_n=30000 if q else 400000, post_gen=_post(ctx.seed, q), jobs=12, timeout_ms=5000,
                                      chunk=100000 if q else 250000, trace_timeout=1800, trace_heap="6g", checked=True)
    # deep runs: sentences of the same grammars with one token standing for 100 000 / 200 000 repetitions, on the optimised and on the
    # unoptimised build of the harness (a decoder whose recursion depth grows with the input overflows the stack in the latter first)
    ctx.build_harness(dbg=True)
    g = ctx.tlc("DecodersGen", "Gen_Decoders_deepruns.cfg", workers=2, timeout=600, name="gen-deepruns")
    deep = [d for d in g.lines if any(str(t).startswith("DEEP:") for t in d["toks"])]
    seen, dd = set(), []
    for d in deep:
        k = (d["dec"], tuple(d["toks"]), d["target"]["tag"])
        if k not in seen:
            seen.add(k); d["cv"] = len(dd) % 1000; dd.append(d)
    base = len(obs)
    for n, d in enumerate(dd):
        d["id"] = base + n
    dobs = []
    for dbg in (False, True):
        part = ctx.vh("decoders", ctx.write_ndjson("deep-scenarios.ndjson", dd), ctx.path("deep-observations-%d.ndjson" % dbg), jobs=12, timeout_ms=60000, dbg=dbg)
        for o in part:
            if dbg:
                o = {"id": o["id"] + len(dd), "scn": dict(o["scn"], build="unoptimised"), "obs": o["obs"]}
            dobs.append(o)
    ctx.evaluations += len(dobs)
    ctx.extra["deep_run_scenarios"] = len(dd)
    t = ctx.validate("Trace_Decoders", "Trace_Decoders.cfg", ctx.write_ndjson("deep-trace.ndjson", dobs), len(dobs), name="trace-deepruns", heap="6g", timeout=1800)
    dv = {}
    for r in t.lines:
        if r.get("t") == "VERDICT":
            dv.setdefault(r["id"], []).append(r)
    nbad = 0
    for o in dobs:
        vs = dv.get(o["id"])
        if not vs:
            raise ToolError("Trace_Decoders produced no verdict for deep-run line id=%s" % o["id"])
        verdicts[o["id"]] = vs
        if not any(v["ok"] for v in vs):
            nbad += 1
            sig = dict(vs[0]["sig"], build=o["scn"].get("build", "optimised"), run="deep")
            ctx.violation(sig, json.dumps({"scn": {k: (v if k != "toks" else v) for k, v in o["scn"].items()}, "obs": o["obs"]})[:400], o)
    log("[judge] %d deep-run observation(s) (two builds) judged by Trace_Decoders: %d outside the property" % (len(dobs), nbad))
    obs = obs + dobs
    kinds, per = {}, {}
    for o in obs:
        s = o["scn"]
        if s["faults"] or s.get("mut"):
            ctx.nontrivial.add(o["id"])
        k = o["obs"].get("kind")
        kinds[k] = kinds.get(k, 0) + 1
        per[s["dec"]] = per.get(s["dec"], 0) + 1
    ctx.extra["outcomes"] = kinds
    ctx.extra["per_decoder"] = per
    sites = sorted(set(v["sig"].get("where", "") for o in obs for v in verdicts[o["id"]] if not v["ok"] and v["sig"].get("where")))
    ctx.extra["panic_sites"] = sites
    return finish(ctx, level="exploration", rule=RULE, exhaustive=False,
                  explanation=("TLA+ contributes the systematic, grammar-complete input space and the totality oracle; undefined behaviour that does not "
                               "surface as a panic, abort, hang, invalid UTF-8 or an out-of-range slice in the release-like run, nor as an overflow / debug-assertion / unsafe-precondition panic in the checked run, is not seen"),
                  assumptions=["every scenario runs on two builds of the harness: release-like (no debug assertions, no overflow checks) and checked (overflow checks, debug assertions, std's unsafe-precondition checks)",
                               "Cookie header values reach serde_cookie as &str (valid UTF-8); Set-Cookie strings reach from_raw through the public header builder",
                               "path and query inputs are delivered inside a well-formed request line (no space, control byte, '?' or '#')"],
                  trusted=["harness/src/decoders.rs token->bytes table, mutation operator, Probe impls (range check before use, from_utf8 re-validation)",
                           "worker framework of harness/src/main.rs (panic/abort/hang capture)"])

def replay(ctx, path):
    return standard_replay(ctx, path, sub="decoders", trace=("Trace_Decoders", "Trace_Decoders.cfg"))
