"""C08 — network-facing decoders are total and memory-safe on arbitrary bytes.  DESIGN §4 C08 (level: exploration)."""
import json
from vlib import finish, log, ToolError, standard_pipeline, standard_replay

RULE = ("TLC walks the grammar of each decoder's input language (urlencoded/query, Cookie, multipart, Set-Cookie, percent-decoding) with "
        "fault transitions: every token string of <= 4 (thorough: 5) tokens with <= 2 faults, every prefix, x the target-type catalogue; "
        "plus seeded byte-level mutations of a sample and grammar-blind random token strings; non-trivial = the input carries at least one "
        "fault label, a mutation, or is random (i.e. it is not a plain well-formed sentence)")

def _post(seed, quick):
    def post(scns):
        # deterministic order and de-duplication (different walks can spell the same token string: keep the smallest label)
        best = {}
        for d in scns:
            k = (d["dec"], tuple(d["toks"]), d["target"]["tag"])
            if k not in best or (len(d["faults"]), d["faults"]) < (len(best[k]["faults"]), best[k]["faults"]):
                best[k] = d
        out = [best[k] for k in sorted(best)]
        n0 = len(out)
        for n, d in enumerate(out):
            d["cv"] = (n * 7919 + seed * 104729) % 1000
        # seeded byte-level mutations of a sample of the enumerated inputs
        step = 4 if quick else 2
        for n in range(seed % step, n0, step):
            d = dict(out[n]); d["mut"] = 1 + (n * 2654435761 + seed * 97) % 1000003
            out.append(d)
        return out
    return post

def run(ctx):
    q = ctx.quick
    mc = [("DecodersGen", "MC_Decoders.cfg", dict(workers=4))]
    gen = [("DecodersGen", "Gen_Decoders.cfg" if q else "Gen_Decoders_deep.cfg", dict(workers=8, timeout=1500, heap="8g")),
           # Set-Cookie directives only start at the fifth token: longer walks for that decoder alone
           ("DecodersGen", "Gen_Decoders_setcookie.cfg" if q else "Gen_Decoders_setcookie_deep.cfg", dict(workers=4, timeout=900))]
    obs, verdicts = standard_pipeline(ctx, sub="decoders", mc=mc, gen=gen, trace=("Trace_Decoders", "Trace_Decoders.cfg"),
                                      random_n=30000 if q else 400000, post_gen=_post(ctx.seed, q), jobs=12, timeout_ms=5000,
                                      chunk=100000 if q else 250000, trace_timeout=1800, trace_heap="6g", checked=True)
    kinds, per = {}, {}
    for o in obs:
        s = o["scn"]
        if s["faults"] or s.get("mut"):
            ctx.nontrivial.add(o["id"])
        k = o["obs"].get("kind")
        kinds[k] = kinds.get(k, 0) + 1
        per[s["dec"]] = per.get(s["dec"], 0) + 1
    ctx.extra["outcomes"] = kinds
    ctx.extra["per_decoder"] = per
    sites = sorted(set(v["sig"].get("where", "") for o in obs for v in verdicts[o["id"]] if not v["ok"] and v["sig"].get("where")))
    ctx.extra["panic_sites"] = sites
    return finish(ctx, level="exploration", rule=RULE, exhaustive=False,
                  explanation=("TLA+ contributes the systematic, grammar-complete input space and the totality oracle; undefined behaviour that does not "
                               "surface as a panic, abort, hang, invalid UTF-8 or an out-of-range slice in the release-like run, nor as an overflow / debug-assertion / unsafe-precondition panic in the checked run, is not seen"),
                  assumptions=["every scenario runs on two builds of the harness: release-like (no debug assertions, no overflow checks) and checked (overflow checks, debug assertions, std's unsafe-precondition checks)",
                               "Cookie header values reach serde_cookie as &str (valid UTF-8); Set-Cookie strings reach from_raw through the public header builder",
                               "path and query inputs are delivered inside a well-formed request line (no space, control byte, '?' or '#')"],
                  trusted=["harness/src/decoders.rs token->bytes table, mutation operator, Probe impls (range check before use, from_utf8 re-validation)",
                           "worker framework of harness/src/main.rs (panic/abort/hang capture)"])

def replay(ctx, path):
    return standard_replay(ctx, path, sub="decoders", trace=("Trace_Decoders", "Trace_Decoders.cfg"))
