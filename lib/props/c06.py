"""C06 — responses depend on the byte stream, not on how TCP segmented it.  DESIGN §4 C06."""
import json
from vlib import standard_pipeline, standard_replay, finish

RULE = ("TLC enumerates every sequence of <=2 requests (heads of 1-2 cells, bodies of 0-2/3 cells incl. beyond the buffer, Connection: close) x every "
        "segmentation with <=2/3 cuts at cell granularity (1 cell = 256 bytes, buffer = 4 cells; cuts inside a head or body are jittered by up to 20 "
        "bytes); the harness adds random sequences of 2-5 requests with random cuts; each scenario is executed twice on the real code (session-loop "
        "steps over a scripted reader, and the real Session::manage over a loopback socket); non-trivial = at least one cut that is not a request boundary, "
        "or two requests in one segment")
TRACE = ("Trace_Conn", "Trace_Conn.cfg")

def nontrivial(o):
    s = o["scn"]
    ends, tot = set(), 0
    for r in s["reqs"]:
        tot += r["h"] + r["b"]; ends.add(tot)
    cuts = set(s["cuts"])
    return bool(cuts - ends) or bool((ends - {tot}) - cuts)

def run(ctx):
    q = ctx.quick
    mc = [("MC_Conn", "MC_Conn.cfg", dict(workers=8)),
          ("MC_Conn", "MC_Conn_nocarry.cfg", dict(workers=2, expect_violation=True)),
          ("MC_Conn", "MC_Conn_noheadloop.cfg", dict(workers=2, expect_violation=True))]
    gen = [("ConnGen", "Gen_Conn_c06.cfg" if q else "Gen_Conn_c06_deep.cfg", dict(workers=6, timeout=1800))]
    obs, _ = standard_pipeline(ctx, sub="conn", mc=mc, gen=gen, trace=TRACE, random_n=300 if q else 6000, nontrivial=nontrivial,
                               post_gen=None, jobs=12, timeout_ms=90000, chunk=20000)
    obs = [o for o in obs]
    drift = sum(1 for o in obs if o["scn"].get("model", {}).get("resp") and o["obs"].get("kind") == "conn"
                and [r["k"] for r in o["obs"]["mem"]["resp"]] != o["scn"]["model"]["resp"])
    if drift:
        ctx.note("%d scenario(s): the real code answered differently from the Conn model's prediction (model drift, not a violation)" % drift)
    return finish(ctx, rule=RULE, exhaustive=True,
                  assumptions=["request heads fit the 1 KiB buffer; bodies up to 6 cells",
                               "on the socket the kernel may merge segments written back to back: a response is awaited after every segment that ends a request, otherwise a 2 ms pause separates writes; the verdict does not depend on the kernel honouring it",
                               "after `Connection: close` whatever the client still sends is not read (reset/write error at the client is accepted)"],
                  trusted=["harness/src/conn.rs (cell concretisation with exact padding, session-loop mirror for the in-memory execution, response splitter)",
                           "harness/src/util.rs ScriptedReader and parse_response", "tokio loopback TCP"])

def replay(ctx, path):
    return standard_replay(ctx, path, sub="conn", trace=TRACE)
