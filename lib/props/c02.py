"""C02 — HTTP/1.1 request bytes are parsed faithfully, malformed bytes are refused.  DESIGN §4 C02."""
import json
from vlib import standard_pipeline, standard_replay, finish

RULE = ("every complete behaviour of the HttpParse grammar machine, one dimension exhaustively per family (header lines: names in four letter "
        "cases, repeated names, long and spaced values; every one of the 39 non-framing standard header names in four cases through its typed accessor and get(); targets x queries x methods; bodies: four sizes around the 1 KiB buffer x first byte "
        "NUL or not x NUL inside x Content-Length spelling; 30 fault actions on three base requests; deliveries: whole, cut in two reads at every position of the head, after an earlier request on the same connection object), `-simulate` over the full product and "
        "seeded random requests with up to 6 header lines; non-trivial = a fault, or a body, or a header name in unusual case, or a repeated name")
TRACE = ("Trace_HttpParse", "Trace_HttpParse.cfg")

def nontrivial(o):
    q = o["scn"]["req"]
    hs = q["headers"]
    return (q["fault"] != "none" or q["body"]["size"] != "none" or any(h["c"] in ("upper", "mixed") for h in hs)
            or len(set(h["n"] for h in hs)) < len(hs))

def run(ctx):
    q = ctx.quick
    gen = [("HttpParseGen", "Gen_HttpParse_headers.cfg", dict(workers=4)),
           ("HttpParseGen", "Gen_HttpParse_names.cfg", dict(workers=4)),
           ("HttpParseGen", "Gen_HttpParse_target_q.cfg" if q else "Gen_HttpParse_target.cfg", dict(workers=6, timeout=1200)),
           ("HttpParseGen", "Gen_HttpParse_body.cfg", dict(workers=2)),
           ("HttpParseGen", "Gen_HttpParse_faults.cfg", dict(workers=4)),
           ("HttpParseGen", "Gen_HttpParse_delivery.cfg", dict(workers=4)),
           ("HttpParseGen", "Gen_HttpParse_sim.cfg", dict(workers=4, simulate="num=%d" % (150 if q else 3000), depth=40, name="gen-sim", timeout=1200))]
    standard_pipeline(ctx, checked=True, sub="parse", gen=gen, trace=TRACE, random_n=3000 if q else 60000, nontrivial=nontrivial,
                      dedupe_key=lambda s: json.dumps(s["req"], sort_keys=True), chunk=30000)
    return finish(ctx, rule=RULE, exhaustive=True,
                  assumptions=["only clearly malformed inputs are generated (no optional-whitespace variants, no obsolete line folding, no conflicting duplicate Content-Length)",
                               "a bare-LF head may be accepted or refused; which error status is returned is free; closing the connection is always acceptable for malformed input",
                               "well-formed header values carry no leading or trailing white space",
                               "beyond the first read of a connection, only two deliveries are exercised here: the head cut in two reads, and the read after one earlier request (arbitrary segmentations and request sequences are C06's and C05's business)"],
                  trusted=["harness/src/parse.rs: concretisation table and fault applier (pure concatenation, no parsing), reverse table for observed values",
                           "harness/src/util.rs ScriptedReader (records starvation)"])

def replay(ctx, path):
    return standard_replay(ctx, path, sub="parse", trace=TRACE)
