"""C16 — derive(Schema) describes the JSON shape that serde actually reads and writes.  DESIGN §4 C16.

The scenarios of this property are *programs* (type definitions), so the pipeline differs from standard_pipeline:

  TLC (SchemaRelGen)  --definitions-->  render()  -->  harness-schema/src/gen/*.rs  --cargo check / build-->
  generated program(s) run  --one observation line per definition-->  Trace_SchemaRel (TLC)  --verdicts-->  finish()

The Rust side (harness-schema/src/rt.rs) only serialises `schema()`, serialises generated values with serde_json and
probes `from_value`; the relation is evaluated by TLC on every line.  Definitions whose derive does not compile are
observations too (`derive-panic` / `derive-compile-error`), attributed through rustc's JSON diagnostics.
"""
import json, os, re, shutil, subprocess, sys, time
from vlib import finish, log, ToolError, VERIF

HS = os.path.join(VERIF, "harness-schema")
_alt = os.environ.get("VERIF_REPO")
if _alt and os.path.abspath(_alt) != "/repo":
    # development aid (seeded changes in a scratch checkout): a copy of the generated crate built against that checkout
    import hashlib, subprocess as _sp
    _hs = os.path.join(VERIF, "work", "harness-schema-alt-" + hashlib.sha1(os.path.abspath(_alt).encode()).hexdigest()[:8])
    os.makedirs(_hs, exist_ok=True)
    _sp.run(["rsync", "-a", "--delete", "--exclude", "target", HS + "/", _hs + "/"], check=True)
    _ct = open(os.path.join(_hs, "Cargo.toml")).read().replace('"/repo/', '"%s/' % os.path.abspath(_alt))
    open(os.path.join(_hs, "Cargo.toml"), "w").write(_ct)
    HS = _hs
GEN = os.path.join(HS, "src", "gen")
NSHARDS = 8

RULE = ("TLC enumerates type definitions of the attribute grammar of SchemaRel.tla; each is rendered to Rust, compiled against "
        "/repo's derive and observed at run time; non-trivial = the definition carries at least one attribute or shape that "
        "changes serde's wire form (rename/rename_all on a multi-word name, skip*, default, Option, flatten, nested struct, "
        "any enum that is not an externally tagged all-unit enum without rename_all)")

# ---------------------------------------------------------------------------------------------- rendering
def S(chars):
    return "".join(chars)

def rust_str(s):
    return json.dumps(s)

# Concretisation of the attribute SPELLING (same definition for serde and for the oracle): how the serde attributes of one item are
# distributed over `#[serde(..)]` attributes (serde accepts any distribution), and whether `default` names its function.  Chosen from
# the id of the definition, so every definition has one spelling per run and every spelling occurs in every family.
KEYWORDS = {"type"}
def ident(name):
    return ("r#" + name) if name in KEYWORDS else name
def attr_lines(attrs, did, salt=0):
    """-> list of `#[serde(..)]` attributes carrying `attrs`: all in one (did % 3 == 0), one each (1), first alone + rest (2)"""
    if not attrs:
        return []
    k = (did + salt) % 3
    if k == 0 or len(attrs) == 1:
        groups = [attrs]
    elif k == 1:
        groups = [[a] for a in attrs]
    else:
        groups = [attrs[:1], attrs[1:]]
    return ["#[serde(%s)]" % ", ".join(g) for g in groups]
def default_attr(did, salt=0):
    return 'default = "crate::common::dflt"' if (did + salt) % 2 == 1 else "default"

def render_struct(d):
    did = d["id"]
    cattrs = []
    if d["ra"] != "none":
        cattrs.append('rename_all = %s' % rust_str(d["ra"]))
    if d["cdefault"]:
        cattrs.append("default")
    proxy = d.get("proxy", "none")
    if proxy != "none":
        cattrs.append('into = "Out"')
        if proxy == "both":
            cattrs.append('from = "In"')
    out = ["#[derive(Serialize, Deserialize, Schema, Default%s)]" % (", Clone" if proxy != "none" else "")]
    out += attr_lines(cattrs, did)
    out.append("pub struct T {")
    inits = []
    for f in d["fields"]:
        a = []
        if f["rclass"] != "none":
            a.append("rename = %s" % rust_str(S(f["rename"])))
        if f["flatten"]:
            a.append("flatten")
        if f["skip"] == "skip":
            a.append("skip")
        elif f["skip"] == "ser":
            a.append("skip_serializing")
        elif f["skip"] == "de":
            a.append("skip_deserializing")
        if f["ssif"]:
            a.append('skip_serializing_if = "Option::is_none"')
        base = {"str": "String", "int": "i32", "inner": "Inner", "bool": "bool"}[f["ty"]]
        if f["fdefault"]:
            a.append(default_attr(did, len(inits)) if not f["opt"] else "default")
        val = {"str": "s()", "int": "7", "inner": "inner(some)", "bool": "true"}[f["ty"]]
        if f["opt"]:
            base = "Option<%s>" % base
            val = "if some { Some(%s) } else { None }" % val
        name = ident(S(f["name"]))
        out.append("    %spub %s: %s," % ("".join(x + " " for x in attr_lines(a, did, len(inits))), name, base))
        inits.append("%s: %s" % (name, val))
    out.append("}")
    if proxy != "none":
        f0 = ident(S(d["fields"][0]["name"]))
        out.append("#[derive(Serialize, Deserialize, Schema, Default, Clone)] pub struct Out { pub out_a: String }")
        out.append("impl From<T> for Out { fn from(t: T) -> Out { Out { out_a: t.%s } } }" % f0)
        if proxy == "both":
            out.append("#[derive(Serialize, Deserialize, Schema, Default, Clone)] pub struct In { pub in_b: i32, pub in_c: i32 }")
            out.append("impl From<In> for T { fn from(i: In) -> T { T { %s: (i.in_b + i.in_c).to_string() } } }" % f0)
    out.append("fn mk(some: bool) -> T { let _ = some; T { %s } }" % ", ".join(inits))
    out.append("fn samples() -> Vec<(i64, bool, Result<Value, String>)> { vec![(1, true, ser(&mk(true))), (1, false, ser(&mk(false)))] }")
    out.append("fn variant(_t: &T) -> i64 { 1 }")
    return out

def render_enum(d):
    cattrs = []
    if d["ra"] != "none":
        cattrs.append('rename_all = %s' % rust_str(d["ra"]))
    if d["tagging"] == "internal":
        cattrs.append('tag = "t"')
    elif d["tagging"] == "adjacent":
        cattrs.append('tag = "t", content = "c"')
    elif d["tagging"] == "untagged":
        cattrs.append("untagged")
    out = ["#[derive(Serialize, Deserialize, Schema)]"]
    out += attr_lines(cattrs, d["id"])
    out.append("pub enum T {")
    samples, arms = [], []
    for i, v in enumerate(d["variants"], 1):
        a = []
        if v["rclass"] != "none":
            a.append("rename = %s" % rust_str(S(v["rename"])))
        if v.get("vra", "none") != "none":
            a.append("rename_all = %s" % rust_str(v["vra"]))
        name = S(v["name"])
        pre = "".join(x + " " for x in attr_lines(a, d["id"], i))
        if v["shape"] == "unit":
            out.append("    %s%s," % (pre, name))
            mk = "T::%s" % name
            arms.append("T::%s => %d" % (name, i))
        elif v["shape"] == "newtype":
            ty, val = {"str": ("String", "s()"), "inner": ("Inner", "inner(some)")}[v["payload"]]
            out.append("    %s%s(%s)," % (pre, name, ty))
            mk = "T::%s(%s)" % (name, val)
            arms.append("T::%s(..) => %d" % (name, i))
        elif v["shape"] == "empty":
            out.append("    %s%s {}," % (pre, name))
            mk = "T::%s {}" % name
            arms.append("T::%s { .. } => %d" % (name, i))
        else:
            out.append("    %s%s { my_field: String, n: Option<i32> }," % (pre, name))
            mk = "T::%s { my_field: s(), n: if some { Some(7) } else { None } }" % name
            arms.append("T::%s { .. } => %d" % (name, i))
        for some in ("true", "false"):
            samples.append("(%d, %s, { let some = %s; let _ = some; ser(&%s) })" % (i, some, some, mk))
    out.append("}")
    out.append("fn samples() -> Vec<(i64, bool, Result<Value, String>)> { vec![%s] }" % ", ".join(samples))
    out.append("fn variant(t: &T) -> i64 { match t { %s } }" % ", ".join(arms))
    return out

def render_def(d):
    body = render_struct(d) if d["kind"] == "struct" else render_enum(d)
    lines = ["pub mod t%d { use crate::common::*;" % d["id"]]
    lines += body
    lines.append("pub fn ops() -> Ops { Ops { id: %d, schema: schema_json::<T>, samples, "
                 "reparse: |v| serde_json::from_value::<T>(v.clone()).ok().map(|t| variant(&t)) } }" % d["id"])
    lines.append("}")
    return lines

def write_module(path, defs):
    """Writes one generated module; returns [(first_line, last_line, id)] (1-based, inclusive)."""
    lines = ["// generated by lib/props/c16.py from definitions emitted by TLC (SchemaRelGen); do not edit",
             "use crate::common::*;"]
    spans = []
    for d in defs:
        a = len(lines) + 1
        lines += render_def(d)
        spans.append((a, len(lines), d["id"]))
    lines.append("pub fn all() -> Vec<fn() -> Ops> { vec![%s] }" % ", ".join("t%d::ops" % d["id"] for d in defs))
    with open(path, "w") as f:
        f.write("\n".join(lines) + "\n")
    return spans

# ---------------------------------------------------------------------------------------------- cargo
def cargo(args, timeout):
    env = dict(os.environ, CARGO_NET_OFFLINE="true")
    lock_dst = os.path.join(HS, "Cargo.lock")
    if os.path.exists("/repo/Cargo.lock"):
        shutil.copy("/repo/Cargo.lock", lock_dst)
    try:
        p = subprocess.run(["cargo"] + args + ["--offline", "--message-format=json"], cwd=HS, env=env,
                           stdout=subprocess.PIPE, stderr=subprocess.PIPE, text=True, timeout=timeout)
    except subprocess.TimeoutExpired:
        raise ToolError("cargo %s timed out after %ds" % (" ".join(args), timeout))
    msgs = []
    for l in p.stdout.splitlines():
        if l.startswith("{"):
            try:
                msgs.append(json.loads(l))
            except Exception:
                pass
    return p.returncode, msgs, p.stderr

def call_site(span):
    """Outermost (user-code) span of a diagnostic span: follows macro expansions back to the file we generated."""
    while span.get("expansion") and span["expansion"].get("span"):
        nxt = span["expansion"]["span"]
        if not os.path.normpath(nxt.get("file_name", "")).startswith("src/gen/"):
            break
        span = nxt
    return span

def macro_of(span):
    names = []
    while span.get("expansion"):
        names.append(span["expansion"].get("macro_decl_name", ""))
        span = span["expansion"].get("span") or {}
    return names

def attribute_errors(msgs, spans_by_file):
    """rustc error diagnostics -> {def id: {"kind","what","macro"}}; errors that cannot be attributed -> list."""
    per, loose = {}, []
    for m in msgs:
        if m.get("reason") != "compiler-message":
            continue
        dm = m["message"]
        if dm.get("level") != "error":
            continue
        text = dm.get("message", "")
        if text.startswith("aborting due to") or text.startswith("could not compile"):
            continue
        prim = [s for s in dm.get("spans", []) if s.get("is_primary")] or dm.get("spans", [])
        hit = None
        for sp in prim:
            cs = call_site(sp)
            fn = os.path.normpath(cs.get("file_name", ""))
            for (a, b, i) in spans_by_file.get(fn, []):
                if a <= cs.get("line_start", 0) <= b:
                    hit = (i, sp, cs)
                    break
            if hit:
                break
        if not hit:
            loose.append(text)
            continue
        i, sp, cs = hit
        helps = " ".join(c.get("message", "") for c in dm.get("children", []))
        derive_text = (cs.get("text") or [{}])[0].get("text", "")[cs.get("column_start", 1) - 1: cs.get("column_end", 1) - 1] if cs.get("text") else ""
        macros = macro_of(sp)
        if "proc-macro derive panicked" in text:
            kind, who = "derive-panic", derive_text
        else:
            kind, who = "derive-compile-error", (macros[0] if macros else derive_text)
        code = (dm.get("code") or {}).get("code", "") or ""
        per.setdefault(i, []).append({"kind": kind, "who": who, "code": code, "what": (text + " | " + helps)[:300]})
    return per, loose

def classify_compile_failure(errs):
    """Projects rustc's message onto a short outcome class (the text is kept in `what`)."""
    e = errs[0]
    w = e["what"]
    if e["kind"] == "derive-panic":
        if "is not a valid Ident" in w or "not a valid identifier" in w.lower() or "Ident" in w:
            cls = "invalid-ident"
        elif "byte index" in w or "out of range" in w or "out of bounds" in w:
            cls = "index-out-of-range"
        else:
            cls = "other-panic"
    else:
        m = re.search(r"no method named `(\w+)`", w)
        if m:
            cls = "no-method-" + m.group(1)
        elif "is not satisfied" in w or "not implemented for" in w:
            m = re.search(r"`([^`]+): ([\w:]+)`", w)
            cls = "trait-unsatisfied" + ("-" + m.group(1).split("::")[-1] if m else "")
        elif "cannot parse a serde attribute" in w:
            cls = "serde-attribute-not-parsed"
        else:
            cls = "E:" + (e["code"] or "other")
    return cls


# ---------------------------------------------------------------------------------------------- seeded random definitions
RULES = ["none", "lowercase", "UPPERCASE", "PascalCase", "camelCase", "snake_case", "SCREAMING_SNAKE_CASE", "kebab-case",
         "SCREAMING-KEBAB-CASE"]

def random_defs(seed, n):
    """Definitions in the vocabulary of SchemaRelGen but beyond its bounds: 2-4 fields / variants, every attribute drawn
    independently, further name styles.  Well-formedness (what serde_derive accepts, distinct keys, distinguishable
    untagged shapes) is kept by construction, as in WFStruct / WFEnum."""
    import random
    rng = random.Random(1000003 * seed + 17)
    fstyles = ["a", "x2_y", "b_c3", "long_name_here", "zz", "q9"]
    vstyles = ["A", "FooBar", "Nt2X", "HTTPOk", "Ab", "Zz9Y"]
    out = []
    for _ in range(n):
        ra = rng.choice(RULES) if rng.random() < 0.7 else "none"
        if rng.random() < 0.6:
            nf = rng.randint(2, 4)
            names = rng.sample(fstyles + [rng.choice(["my_field", "myField"])], nf)
            fields, have_flat = [], False
            for i, nm in enumerate(names, 1):
                f = {"name": list(nm), "style": nm, "ty": rng.choice(["str", "str", "int", "inner"]), "opt": rng.random() < 0.4,
                     "rclass": rng.choice(["none"] * 8 + ["plain", "plain", "dash"]), "skip": rng.choice(["none"] * 6 + ["skip", "ser", "de", "de"]),
                     "ssif": False, "fdefault": rng.random() < 0.25, "flatten": False}
                f["ssif"] = f["opt"] and rng.random() < 0.5
                if not have_flat and rng.random() < 0.06:
                    have_flat = True
                    f.update(ty="inner", opt=False, rclass="none", skip="none", ssif=False, fdefault=False, flatten=True)
                if f["ty"] == "inner" and f["skip"] == "de":
                    f["skip"] = "none"
                f["rename"] = {"none": [], "plain": ["r", str(i)], "dash": ["r", "-", str(i)]}[f["rclass"]]
                fields.append(f)
            out.append({"kind": "struct", "ra": ra, "cdefault": rng.random() < 0.3, "fields": fields})
        else:
            tg = rng.choice(["external", "internal", "adjacent", "untagged"])
            nv = rng.randint(2, 4)
            names = rng.sample(vstyles, nv)
            vs, seen = [], set()
            for i, nm in enumerate(names, 1):
                sh, pl = rng.choice([("unit", "none"), ("newtype", "str"), ("newtype", "inner"), ("struct", "none"), ("empty", "none")])
                if tg == "internal" and (sh, pl) == ("newtype", "str"):
                    pl = "inner"
                if tg == "untagged":
                    if (sh, pl) in seen and sh != "unit":      # (several unit variants are all `null`: allowed)
                        continue
                    objs = {("newtype", "inner"), ("struct", "none"), ("empty", "none")}
                    if ((sh, pl) == ("empty", "none") and seen & objs) or ((sh, pl) in objs and ("empty", "none") in seen):
                        continue      # an untagged `V {}` reads any object: it only goes with variants that are not objects
                    seen.add((sh, pl))
                rc = "plain" if rng.random() < 0.15 else "none"
                vra = rng.choice(RULES) if sh == "struct" and rng.random() < 0.3 else "none"      # a struct variant's own rename_all
                vs.append({"name": list(nm), "style": nm, "shape": sh, "payload": pl, "rclass": rc,
                           "rename": ["r", str(i)] if rc == "plain" else [], "vra": vra})
            out.append({"kind": "enum", "ra": ra, "tagging": tg, "variants": vs})
    for d in out:
        d["random"] = True
        if d["kind"] == "struct":
            d["nontrivial"] = d["cdefault"] or any(f["opt"] or f["skip"] != "none" or f["fdefault"] or f["flatten"] or f["ty"] == "inner"
                                                    or f["rclass"] != "none" for f in d["fields"])
        else:
            d["nontrivial"] = d["tagging"] != "external" or any(v["shape"] != "unit" or v["rclass"] != "none" for v in d["variants"])
    return out

# ---------------------------------------------------------------------------------------------- pipeline
def suspicious(d):
    """Families suspected not to compile (DESIGN §5).  Only an optimisation: they are compiled first with `cargo check`
    so that the main build does not fail; whatever compiles there joins the main build and is judged like the rest,
    and a definition that unexpectedly fails in the main build is attributed and excluded the same way."""
    if d["kind"] == "struct":
        return (any(f["flatten"] or f["rclass"] == "dash" or f["ty"] == "bool" for f in d["fields"])
                or "KEBAB" in d["ra"].upper()
                or any(S(f["name"]).startswith("_") or S(f["name"]).endswith("_") or "__" in S(f["name"]) for f in d["fields"]))
    return ("KEBAB" in d["ra"].upper() or "SNAKE" in d["ra"].upper()
            or (d["tagging"] == "internal" and any(v["shape"] == "newtype" for v in d["variants"])))

def empty_all_modules():
    os.makedirs(GEN, exist_ok=True)
    for k in range(NSHARDS):
        write_module(os.path.join(GEN, "g%d.rs" % k), [])
    write_module(os.path.join(GEN, "probe.rs"), [])

def compile_filter(ctx, defs, mode, failed, max_rounds=6):
    """Compiles `defs` (mode 'probe': cargo check of one module; mode 'build': cargo build of the shards).  Definitions
    whose Schema derive panics or expands to ill-typed code are moved to `failed` {id: obs}; returns the survivors."""
    defs = list(defs)
    for rnd in range(max_rounds):
        t = time.time()
        spans = {}
        if mode == "probe":
            spans["src/gen/probe.rs"] = write_module(os.path.join(GEN, "probe.rs"), defs)
            rc, msgs, err = cargo(["check", "--bin", "vhsprobe"], 900)
        else:
            n = len(defs)
            k_used = max(1, min(NSHARDS, (n + 39) // 40))
            for k in range(NSHARDS):
                part = defs[k::k_used] if k < k_used else []
                spans["src/gen/g%d.rs" % k] = write_module(os.path.join(GEN, "g%d.rs" % k), part)
            rc, msgs, err = cargo(["build", "--bins"], 1500)
        log("[cargo] %s round %d: %d definition(s), rc=%d, %.1fs" % (mode, rnd + 1, len(defs), rc, time.time() - t))
        if rc == 0:
            return defs
        per, loose = attribute_errors(msgs, spans)
        if not per:
            sys.stdout.write(err[-4000:])
            raise ToolError("harness-schema does not build and the errors cannot be attributed to a generated definition "
                            "(does /repo still compile with features rt_tokio,openapi?): %s" % "; ".join(loose[:3]))
        for i, errs in per.items():
            e = errs[0]
            # syn's bare "unexpected token" on a token of a `#[serde(..)]` attribute: an attribute parser that stopped in the middle of serde's
            # grammar.  serde_derive names what it refuses ("unknown serde ... attribute", "malformed ... attribute"); the spellings the renderer
            # writes are serde's own (they compile without derive(Schema)), so the parser that gave up is derive(Schema)'s.
            if "Schema" not in e["who"] and e["what"].startswith("unexpected token") and e["kind"] == "derive-compile-error":
                e["who"] = "Schema (its parser of serde attributes)"
                errs[0]["what"] = "derive(Schema) cannot parse a serde attribute: " + e["what"]
            if "Schema" not in e["who"]:
                raise ToolError("definition %d is rejected by %s, not by derive(Schema): the generator left serde's grammar: %s"
                                % (i, e["who"], e["what"]))
            failed[i] = {"kind": e["kind"], "cls": classify_compile_failure(errs), "what": e["what"], "nerrors": len(errs)}
        defs = [d for d in defs if d["id"] not in per]
    raise ToolError("harness-schema still does not build after %d rounds of excluding failing definitions" % max_rounds)

def observe(ctx, defs):
    """definitions (with ids) -> observation lines {"id","scn","obs"} in id order"""
    failed = {}
    empty_all_modules()
    sus = [d for d in defs if suspicious(d)]
    rest = [d for d in defs if not suspicious(d)]
    ok_sus = compile_filter(ctx, sus, "probe", failed) if sus else []
    write_module(os.path.join(GEN, "probe.rs"), [])
    ctx.extra["suspicious_precompiled"] = len(sus)
    good = compile_filter(ctx, sorted(rest + ok_sus, key=lambda d: d["id"]), "build", failed)
    out = {}
    t = time.time()
    n = len(good)
    k_used = max(1, min(NSHARDS, (n + 39) // 40))
    for k in range(k_used):
        p = subprocess.run([os.path.join(HS, "target", "debug", "vhs%d" % k)], stdout=subprocess.PIPE, stderr=subprocess.PIPE,
                           text=True, timeout=600)
        if p.returncode != 0:
            raise ToolError("generated program shard %d exited with %d: %s" % (k, p.returncode, p.stderr[-1500:]))
        for l in p.stdout.splitlines():
            r = json.loads(l)
            out[r["id"]] = r["obs"]
    log("[run] %d generated type(s) observed at run time in %.1fs; %d definition(s) did not compile" % (len(out), time.time() - t, len(failed)))
    lines = []
    for d in defs:
        i = d["id"]
        scn = {k: v for k, v in d.items() if k not in ("id", "nontrivial", "random")}
        if i in failed:
            obs = failed[i]
        elif i in out:
            obs = out[i]
            if obs.get("kind") == "tool-error":
                raise ToolError("generated program: %s (definition %s)" % (obs.get("what"), json.dumps(scn)))
            if obs.get("kind") == "panic":
                obs = {"kind": "panic", "cls": "schema()-panicked", "what": obs.get("what", "")[:200]}
        else:
            raise ToolError("no observation for definition %d" % i)
        lines.append({"id": i, "scn": scn, "obs": obs})
    return lines

def judge(ctx, lines, chunk=1200):
    verdicts = {}
    for c in range(0, len(lines), chunk):
        part = lines[c:c + chunk]
        tp = ctx.write_ndjson("trace-%d.ndjson" % (c // chunk), part)
        t = ctx.validate("Trace_SchemaRel", "Trace_SchemaRel.cfg", tp, len(part), name="trace-%d" % (c // chunk), heap="6g", timeout=1500)
        for r in t.lines:
            if r.get("t") == "VERDICT":
                verdicts[r["id"]] = r
    ctx.traces = len(lines)
    nbad = 0
    for o in lines:
        v = verdicts.get(o["id"])
        if v is None:
            raise ToolError("Trace_SchemaRel produced no verdict for line id=%s: %s" % (o["id"], json.dumps(o)[:500]))
        if not v["refok"]:
            raise ToolError("the spec's reference of serde (RefValue/RefProbeOk) disagrees with what serde did - a defect of "
                            "SchemaRel.tla, not of /repo: %s" % json.dumps({"scn": o["scn"], "samples": [
                                {"v": s["v"], "some": s["some"], "raw": s["raw"], "roundtrip": s["roundtrip"],
                                 "probes": [["/".join(S(k) for k in p["path"]), p["ok"]] for p in s["probes"]]}
                                for s in o["obs"].get("samples", [])]})[:1500])
        if v["ok"]:
            continue
        nbad += 1
        for sig in v["fails"]:
            sig = {k: x for k, x in sig.items() if x != "-"}
            what = {"def": describe(o["scn"]), "schema": o["obs"].get("raw", o["obs"].get("what", ""))[:300],
                    "serde": [s["raw"] for s in o["obs"].get("samples", [])][:4]}
            ctx.violation(sig, json.dumps(what)[:700], o)
    log("[judge] %d observation line(s) judged by Trace_SchemaRel: %d outside the property" % (len(lines), nbad))
    return verdicts

def describe(scn):
    """one-line Rust-ish rendering of a definition for messages"""
    d = dict(scn); d["id"] = 0
    body = render_struct(d) if d["kind"] == "struct" else render_enum(d)
    txt = " ".join(l.strip() for l in body)
    return txt[:txt.index("fn ")].strip() if "fn " in txt else txt

def run(ctx):
    q = ctx.quick
    ctx.tlc("MC_SchemaRel", "MC_SchemaRel.cfg", workers=8, timeout=600)
    g = ctx.tlc("SchemaRelGen", "Gen_SchemaRel.cfg" if q else "Gen_SchemaRel_deep.cfg", workers=1, timeout=600)
    if not g.lines:
        raise ToolError("SchemaRelGen emitted no definition")
    # deterministic order independent of TLC's set enumeration
    defs = sorted(g.lines, key=lambda d: json.dumps(d, sort_keys=True))
    n_tlc = len(defs)
    defs += random_defs(ctx.seed, 150 if q else 900)
    ctx.extra["scenarios_from_tlc"] = n_tlc
    ctx.extra["scenarios_random"] = len(defs) - n_tlc
    for i, d in enumerate(defs):
        d["id"] = i
        if d.get("nontrivial"):
            ctx.nontrivial.add(i)
    ctx.extra["definitions"] = len(defs)
    ctx.extra["structs"] = sum(1 for d in defs if d["kind"] == "struct")
    ctx.extra["enums"] = sum(1 for d in defs if d["kind"] == "enum")
    lines = observe(ctx, defs)
    ctx.evaluations = sum(len(o["obs"].get("samples", [])) + sum(len(s["probes"]) for s in o["obs"].get("samples", [])) + 1 for o in lines)
    ctx.extra["values_serialized"] = sum(len(o["obs"].get("samples", [])) for o in lines)
    ctx.extra["from_value_probes"] = sum(len(s["probes"]) for o in lines for s in o["obs"].get("samples", []))
    ctx.extra["definitions_not_compiling"] = sum(1 for o in lines if o["obs"]["kind"] != "ok")
    for o in lines[:: max(1, len(lines) // 5)][:5]:
        ctx.sample({"def": describe(o["scn"]), "schema": o["obs"].get("raw", o["obs"].get("cls")),
                    "serde": [s["raw"] for s in o["obs"].get("samples", [])][:2]})
    judge(ctx, lines)
    return finish(ctx, rule=RULE, exhaustive=False,
                  assumptions=["serde / serde_derive / serde_json of /repo's Cargo.lock are the reference for what serde does; "
                               "the spec's own reference (RefValue, RefProbeOk) is cross-checked against them on every line",
                               "field types String, i32, Option<_>, a nested derived struct; tag/content keys `t`/`c`",
                               "values: all Options Some / all None",
                               "a key is 'needed' iff from_value fails (or reads another variant) once it is removed",
                               "`nullable: true` is read as admitting null; `$ref` inside a bare schema() is unresolvable"],
                  trusted=["harness-schema/src/rt.rs (schema JSON -> node facts, value -> kind tree, key-removal probes)",
                           "lib/props/c16.py render_struct/render_enum (definition -> Rust source) and rustc diagnostic attribution",
                           "serde, serde_derive, serde_json", "rustc/cargo"])

def replay(ctx, path):
    doc = json.load(open(path))
    scn = doc["scenario"]["scn"]
    d = dict(scn); d["id"] = 0
    lines = observe(ctx, [d])
    print(json.dumps({"def": describe(scn), "obs": {k: v for k, v in lines[0]["obs"].items() if k in ("kind", "cls", "what", "raw")},
                      "serde": [s["raw"] for s in lines[0]["obs"].get("samples", [])]}, indent=1))
    v = judge(ctx, lines)
    print(json.dumps(v[0]))
    want = doc.get("signature")
    sigs = [{k: x for k, x in s.items() if x != "-"} for s in v[0]["fails"]]
    bad = (not v[0]["ok"]) and (want is None or want in sigs)
    if bad:
        print("VIOLATION property=C16 replay=%s" % path)
    return 1 if bad else 0
