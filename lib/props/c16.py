"""C16 — derive(Schema) describes the JSON shape that serde actually reads and writes.  DESIGN §4 C16.

The scenarios of this property are *programs* (type definitions), so the pipeline differs from standard_pipeline:

  TLC (SchemaRelGen)  --definitions-->  render()  -->  harness-schema/src/gen/*.rs  --cargo check / build-->
  generated program(s) run  --one observation line per definition-->  Trace_SchemaRel (TLC)  --verdicts-->  finish()

The Rust side (harness-schema/src/rt.rs) only serialises `schema()`, serialises generated values with serde_json and
probes `from_value`; the relation is evaluated by TLC on every line.  Definitions whose derive does not compile are
observations too (`derive-panic` / `derive-compile-error`), attributed through rustc's JSON diagnostics.
"""
import json, os, re, shutil, subprocess, sys, time
from vlib import finish, log, ToolError, VERIF

HS = os.path.join(VERIF, "harness-schema")
GEN = os.path.join(HS, "src", "gen")
NSHARDS = 8

RULE = ("TLC enumerates type definitions of the attribute grammar of SchemaRel.tla; each is rendered to Rust, compiled against "
        "/repo's derive and observed at run time; non-trivial = the definition carries at least one attribute or shape that "
        "changes serde's wire form (rename/rename_all on a multi-word name, skip*, default, Option, flatten, nested struct, "
        "any enum that is not an externally tagged all-unit enum without rename_all)")

# ---------------------------------------------------------------------------------------------- rendering
def S(chars):
    return "".join(chars)

def rust_str(s):
    return json.dumps(s)

def render_struct(d):
    cattrs = []
    if d["ra"] != "none":
        cattrs.append('rename_all = %s' % rust_str(d["ra"]))
    if d["cdefault"]:
        cattrs.append("default")
    out = ["#[derive(Serialize, Deserialize, Schema, Default)]"]
    if cattrs:
        out.append("#[serde(%s)]" % ", ".join(cattrs))
    out.append("pub struct T {")
    inits = []
    for f in d["fields"]:
        a = []
        if f["rclass"] != "none":
            a.append("rename = %s" % rust_str(S(f["rename"])))
        if f["flatten"]:
            a.append("flatten")
        if f["skip"] == "skip":
            a.append("skip")
        elif f["skip"] == "ser":
            a.append("skip_serializing")
        elif f["skip"] == "de":
            a.append("skip_deserializing")
        if f["ssif"]:
            a.append('skip_serializing_if = "Option::is_none"')
        if f["fdefault"]:
            a.append("default")
        base = {"str": "String", "int": "i32", "inner": "Inner", "bool": "bool"}[f["ty"]]
        val = {"str": "s()", "int": "7", "inner": "inner(some)", "bool": "true"}[f["ty"]]
        if f["opt"]:
            base = "Option<%s>" % base
            val = "if some { Some(%s) } else { None }" % val
        name = S(f["name"])
        out.append("    %spub %s: %s," % (("#[serde(%s)] " % ", ".join(a)) if a else "", name, base))
        inits.append("%s: %s" % (name, val))
    out.append("}")
    out.append("fn mk(some: bool) -> T { let _ = some; T { %s } }" % ", ".join(inits))
    out.append("fn samples() -> Vec<(i64, bool, Result<Value, String>)> { vec![(1, true, ser(&mk(true))), (1, false, ser(&mk(false)))] }")
    out.append("fn variant(_t: &T) -> i64 { 1 }")
    return out

def render_enum(d):
    cattrs = []
    if d["ra"] != "none":
        cattrs.append('rename_all = %s' % rust_str(d["ra"]))
    if d["tagging"] == "internal":
        cattrs.append('tag = "t"')
    elif d["tagging"] == "adjacent":
        cattrs.append('tag = "t", content = "c"')
    elif d["tagging"] == "untagged":
        cattrs.append("untagged")
    out = ["#[derive(Serialize, Deserialize, Schema)]"]
    if cattrs:
        out.append("#[serde(%s)]" % ", ".join(cattrs))
    out.append("pub enum T {")
    samples, arms = [], []
    for i, v in enumerate(d["variants"], 1):
        a = []
        if v["rclass"] != "none":
            a.append("rename = %s" % rust_str(S(v["rename"])))
        name = S(v["name"])
        pre = ("#[serde(%s)] " % ", ".join(a)) if a else ""
        if v["shape"] == "unit":
            out.append("    %s%s," % (pre, name))
            mk = "T::%s" % name
            arms.append("T::%s => %d" % (name, i))
        elif v["shape"] == "newtype":
            ty, val = {"str": ("String", "s()"), "inner": ("Inner", "inner(some)")}[v["payload"]]
            out.append("    %s%s(%s)," % (pre, name, ty))
            mk = "T::%s(%s)" % (name, val)
            arms.append("T::%s(..) => %d" % (name, i))
        else:
            out.append("    %s%s { my_field: String, n: Option<i32> }," % (pre, name))
            mk = "T::%s { my_field: s(), n: if some { Some(7) } else { None } }" % name
            arms.append("T::%s { .. } => %d" % (name, i))
        for some in ("true", "false"):
            samples.append("(%d, %s, { let some = %s; let _ = some; ser(&%s) })" % (i, some, some, mk))
    out.append("}")
    out.append("fn samples() -> Vec<(i64, bool, Result<Value, String>)> { vec![%s] }" % ", ".join(samples))
    out.append("fn variant(t: &T) -> i64 { match t { %s } }" % ", ".join(arms))
    return out

def render_def(d):
    body = render_struct(d) if d["kind"] == "struct" else render_enum(d)
    lines = ["pub mod t%d { use crate::common::*;" % d["id"]]
    lines += body
    lines.append("pub fn ops() -> Ops { Ops { id: %d, schema: schema_json::<T>, samples, "
                 "reparse: |v| serde_json::from_value::<T>(v.clone()).ok().map(|t| variant(&t)) } }" % d["id"])
    lines.append("}")
    return lines

def write_module(path, defs):
    """Writes one generated module; returns [(first_line, last_line, id)] (1-based, inclusive)."""
    lines = ["// generated by lib/props/c16.py from definitions emitted by TLC (SchemaRelGen); do not edit",
             "use crate::common::*;"]
    spans = []
    for d in defs:
        a = len(lines) + 1
        lines += render_def(d)
        spans.append((a, len(lines), d["id"]))
    lines.append("pub fn all() -> Vec<fn() -> Ops> { vec![%s] }" % ", ".join("t%d::ops" % d["id"] for d in defs))
    with open(path, "w") as f:
        f.write("\n".join(lines) + "\n")
    return spans

# ---------------------------------------------------------------------------------------------- cargo
def cargo(args, timeout):
    env = dict(os.environ, CARGO_NET_OFFLINE="true")
    lock_dst = os.path.join(HS, "Cargo.lock")
    if os.path.exists("/repo/Cargo.lock"):
        shutil.copy("/repo/Cargo.lock", lock_dst)
    try:
        p = subprocess.run(["cargo"] + args + ["--offline", "--message-format=json"], cwd=HS, env=env,
                           stdout=subprocess.PIPE, stderr=subprocess.PIPE, text=True, timeout=timeout)
    except subprocess.TimeoutExpired:
        raise ToolError("cargo %s timed out after %ds" % (" ".join(args), timeout))
    msgs = []
    for l in p.stdout.splitlines():
        if l.startswith("{"):
            try:
                msgs.append(json.loads(l))
            except Exception:
                pass
    return p.returncode, msgs, p.stderr

def call_site(span):
    """Outermost (user-code) span of a diagnostic span: follows macro expansions back to the file we generated."""
    while span.get("expansion") and span["expansion"].get("span"):
        nxt = span["expansion"]["span"]
        if not nxt.get("file_name", "").startswith("src/gen/"):
            break
        span = nxt
    return span

def macro_of(span):
    names = []
    while span.get("expansion"):
        names.append(span["expansion"].get("macro_decl_name", ""))
        span = span["expansion"].get("span") or {}
    return names

def attribute_errors(msgs, spans_by_file):
    """rustc error diagnostics -> {def id: {"kind","what","macro"}}; errors that cannot be attributed -> list."""
    per, loose = {}, []
    for m in msgs:
        if m.get("reason") != "compiler-message":
            continue
        dm = m["message"]
        if dm.get("level") != "error":
            continue
        text = dm.get("message", "")
        if text.startswith("aborting due to") or text.startswith("could not compile"):
            continue
        prim = [s for s in dm.get("spans", []) if s.get("is_primary")] or dm.get("spans", [])
        hit = None
        for sp in prim:
            cs = call_site(sp)
            fn = cs.get("file_name", "")
            for (a, b, i) in spans_by_file.get(fn, []):
                if a <= cs.get("line_start", 0) <= b:
                    hit = (i, sp, cs)
                    break
            if hit:
                break
        if not hit:
            loose.append(text)
            continue
        i, sp, cs = hit
        helps = " ".join(c.get("message", "") for c in dm.get("children", []))
        derive_text = (cs.get("text") or [{}])[0].get("text", "")[cs.get("column_start", 1) - 1: cs.get("column_end", 1) - 1] if cs.get("text") else ""
        macros = macro_of(sp)
        if "proc-macro derive panicked" in text:
            kind, who = "derive-panic", derive_text
        else:
            kind, who = "derive-compile-error", (macros[0] if macros else derive_text)
        code = (dm.get("code") or {}).get("code", "") or ""
        per.setdefault(i, []).append({"kind": kind, "who": who, "code": code, "what": (text + " | " + helps)[:300]})
    return per, loose

def classify_compile_failure(errs):
    """Projects rustc's message onto a short outcome class (the text is kept in `what`)."""
    e = errs[0]
    w = e["what"]
    if e["kind"] == "derive-panic":
        if "is not a valid Ident" in w or "not a valid identifier" in w.lower() or "Ident" in w:
            cls = "invalid-ident"
        elif "byte index" in w or "out of range" in w or "out of bounds" in w:
            cls = "index-out-of-range"
        else:
            cls = "other-panic"
    else:
        m = re.search(r"no method named `(\w+)`", w)
        if m:
            cls = "no-method-" + m.group(1)
        elif "is not satisfied" in w or "not implemented for" in w:
            m = re.search(r"`([^`]+): ([\w:]+)`", w)
            cls = "trait-unsatisfied" + ("-" + m.group(1).split("::")[-1] if m else "")
        else:
            cls = "E:" + (e["code"] or "other")
    return cls
