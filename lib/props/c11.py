"""C11 — Cookie header decoding and Set-Cookie building.  DESIGN §4 C11.

specs/Cookie.tla (byte-level reference: RFC 6265 cookie-string / set-cookie-string grammar, 5.2 parser, percent-coding and
UTF-8 from UrlEnc; ohkami's Name/Value walker), MC_Cookie, CookieGen, Trace_Cookie, harness/src/cookie.rs."""
import hashlib, json
from vlib import finish, standard_pipeline, standard_replay

RULE = ("TLC enumerates (dec) jars of 1-3 cookies in every spelling RFC 6265 allows (each character raw where it is a cookie-octet, "
        "%XX or %xx; value optionally double-quoted) x 7 target types (field subsets, orders, Option, renamed token-punctuation names, "
        "number, string map) x unknown cookies at every position, sent in a real request; (iter) the same through "
        "Request.headers.Cookies(); (set) all 768 directive combinations x value classes x name shapes, 1-2 SetCookie calls, the response "
        "really sent; seeded random scenarios beyond those bounds; non-trivial = a value with a character outside [A-Za-z0-9], an escape "
        "or quotes, more than one cookie, or at least one directive")

def _key(s):
    return hashlib.sha1(json.dumps({k: v for k, v in s.items() if k not in ("id", "seed", "random")}, sort_keys=True).encode()).hexdigest()

def nontrivial(o):
    """key (content hash) of the scenario when it is non-trivial by RULE, else None: distinct scenarios are counted, not ids"""
    return _key(o["scn"]) if _nontrivial(o) else None

def _nontrivial(o):
    s = o["scn"]
    if s["mode"] == "set":
        for c in s["cookies"]:
            d = c["d"]
            if any(t != "al" for t in c["v"]) or any(d[k] not in ("none", "n") for k in d) or len(s["cookies"]) > 1:
                return True
        return False
    if len(s["jar"]) > 1:
        return True
    for c in s["jar"]:
        if c["q"] == "y" or any(t["e"] != "r" or t["c"] not in ("al", "sym") for t in c["v"]):
            return True
    return False

def run(ctx):
    q = ctx.quick
    seed = ctx.seed
    def post(scns):
        for s in scns:
            s["seed"] = seed
        return scns
    standard_pipeline(
        ctx, checked=True, sub="cookie",
        mc=[("MC_Cookie", "MC_Cookie.cfg" if q else "MC_Cookie_deep.cfg", dict(workers=8, timeout=900))],
        gen=[("CookieGen", "Gen_Cookie.cfg" if q else "Gen_Cookie_deep.cfg", dict(workers=2, timeout=600))],
        trace=("Trace_Cookie", "Trace_Cookie.cfg"), post_gen=post,
        random_n=4000 if q else 80000, nontrivial=nontrivial, jobs=12)
    return finish(ctx, rule=RULE, exhaustive=True,
                  assumptions=["Cookie headers outside the RFC 6265 4.2.1 grammar (no `; ` separator, non cookie-octets unescaped, dangling `%`), escapes that are not UTF-8 "
                               "and duplicate names are not asserted (totality on them is C08)",
                               "a plain value never contains `%` (it would be indistinguishable from an escape); an empty value into an Option field may be None or Some(\"\")",
                               "directive values given to the builder are RFC 6265 av-octets (no `;`, no control characters); names are RFC tokens",
                               "Expires is compared as text, not as a date"],
                  trusted=["harness/src/cookie.rs: class -> code point table `ck_reps`, `spell`, the CRLF split of the sent header block", "util::parse_response",
                           "serde derive for the catalogue types"])

def replay(ctx, path):
    return standard_replay(ctx, path, sub="cookie", trace=("Trace_Cookie", "Trace_Cookie.cfg"))
