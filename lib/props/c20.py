"""C20 — date and number formatters are exact for every input.  DESIGN §4 C20.

Pipeline (a batch pipeline: a scenario is a *range / list / seeded-sample description*, see harness/src/fmt.rs):
  1. MC_Fmt*.cfg     TLC checks the two formulations of the calendar (day-by-day machine vs closed forms), of the clock
                     and of decimal / hexadecimal rendering (odometers vs long division / Horner / nibble extraction)
                     against each other: quick = 1970..2500 + 400-year jumps + 9970..9999, n <= 10^5;
                     thorough = EVERY day number 0..2932896, n <= 10^6.
  2. Gen_Fmt*.cfg    TLC prints the batch descriptions (every number in them computed by the spec).
  3. vh gen fmt      seeded random batches in the same vocabulary (VERIF_SEED).
  4. vh run fmt      the real imf_fixdate / itoa / hexized / hexized_bytes on every element; parsed fields / byte codes.
                     wire-cl / wire-chunk batches: real responses through the real Response::send (Content-Length, Date,
                     chunk-size line), i.e. the formatters as their callers use them.
  5. Trace_Fmt       judges every element of every batch inside TLC; one VERDICT per batch whose signature names the
                     class of the first element outside the property.  Chunks are validated by several TLC processes.
"""
import json, os, threading
from concurrent.futures import ThreadPoolExecutor
from vlib import finish, log, ToolError

SUB = "fmt"
TRACE = ("Trace_Fmt", "Trace_Fmt.cfg")
PAR = 8                 # TLC trace-validation processes at a time (one worker each)
CHUNK_WEIGHT = 200000   # upper bound on the weighted elements per TLC process (bounded memory, ~20 s each)

RULE = ("a scenario is a batch: a range of day numbers at one second of day, a list of calendar-boundary days, a range of "
        "seconds of one day, a range / boundary list of unsigned values, a seeded random sample, or a list of body / chunk sizes "
        "of real responses (Content-Length, Date, chunk-size on the wire), emitted by TLC from "
        "Gen_Fmt*.cfg (plus `vh gen fmt` random batches); the real function is called for EVERY element and every element is "
        "judged by Trace_Fmt inside TLC (evaluations = elements judged). distinct = batches are de-duplicated by their "
        "description; non-trivial = the batch contains at least one irregular element, counted by the trace spec on the "
        "judged elements: 28/29 Feb, 1 Mar, 31 Dec, 1 Jan, an hour roll-over (mm:ss = 00:00 or 59:59), a value that is "
        "0, base^k, base^k+1, base^k-1 (all digits maximal) or >= 2^31")

ASSUMPTIONS = ["64-bit target (usize = u64; hexized width 16)",
               "proleptic Gregorian calendar, no leap seconds (RFC 9110 HTTP-date / POSIX time)",
               "hexized / hexized_bytes are judged by their public contract: fixed width 2*size_of::<usize>(), left-padded "
               "with '0'; the canonical value is what remains after the caller strips the padding (as the chunk-size writer does)"]
TRUSTED = ["harness/src/fmt.rs: timestamp = 86400*day + sod; u64 <-> four 16-bit limbs by shifts; cutting the output string at "
           "the fixed field positions with a strict all-digit field parser; seeded SplitMix64 sampler",
           "TLC + CommunityModules Json (ndJsonDeserialize)"]


def weight(s):
    k = s["kind"]
    if k == "days" or k == "secs":
        n = s["to"] - s["from"] + 1
    elif k == "daylist":
        n = len(s["days"])
    elif k == "num-range":
        n = s["to"] - s["from"] + 1
    elif k == "num-list":
        n = len(s["vals"])
    elif k.startswith("wire-"):
        n = len(s["sizes"])
    else:
        n = s["n"]
    w = n
    if s.get("full") == 1:
        w = n * 2
    if k.startswith("num-"):
        w = n * (3 if k != "num-range" else 2)
    return n, w


def chunks_of(scns):
    """greedy packing of batches into chunks of about CHUNK_WEIGHT, in id order (deterministic)"""
    total = sum(weight(s)[1] for s in scns)
    rounds = -(-total // (PAR * CHUNK_WEIGHT))
    target = total / float(PAR * rounds) + 1
    out, cur, cw = [], [], 0
    for s in scns:
        _, w = weight(s)
        if cur and cw + w > target and len(out) < PAR * rounds - 1:
            out.append(cur); cur, cw = [], 0
        cur.append(s); cw += w
    if cur:
        out.append(cur)
    return out


def element(o, i):
    """the i-th (1-based) element of an observation line, written out (for samples / violation reports)"""
    scn, ob = o["scn"], o["obs"]
    k = i - 1
    if ob.get("kind") == "dates":
        kind = scn["kind"]
        day = scn["from"] + k if kind == "days" else scn["days"][k] if kind == "daylist" else scn["day"] if kind == "secs" else ob["day"][k]
        sod = scn["sod"] if kind in ("days", "daylist") else scn["from"] + k if kind == "secs" else ob["sod"][k]
        e = {"fn": "imf_fixdate", "day": day, "sod": sod, "unix_timestamp": 86400 * day + sod}
        for f in ("wd", "dd", "mon", "yy", "hh", "mi", "ss", "len", "frame"):
            e[f] = ob[f][k]
        if "chars" in ob:
            e["string"] = "".join(chr(c) if 32 <= c < 127 else "?" for c in ob["chars"][k])
        return e
    if ob.get("kind") == "nums":
        kind = scn["kind"]
        if kind == "num-range":
            v = scn["from"] + k
        else:
            l = scn["vals"][k] if kind == "num-list" else ob["vals"][k]
            v = l[0] | l[1] << 16 | l[2] << 32 | l[3] << 48
        return {"fn": scn["fn"], "n": str(v), "output": "".join(chr(c) if 32 <= c < 127 else "?" for c in ob["out"][k])}
    if ob.get("kind") == "wire":
        e = {"fn": "Response::send", "size": scn["sizes"][k], "field_bytes": "".join(chr(c) if 32 <= c < 127 else "?" for c in ob["out"][k]), "err": ob["err"][k]}
        if scn["kind"] == "wire-cl":
            e["header"] = "Content-Length"
            e["date_header_fields"] = {f: ob[f][k] for f in ("wd", "dd", "mon", "yy", "hh", "mi", "ss", "len", "frame")}
            e["harness_clock"] = [86400 * ob["t0day"][k] + ob["t0sod"][k], 86400 * ob["t1day"][k] + ob["t1sod"][k]]
        else:
            e["header"] = "chunk-size"; e["bytes_following"] = ob["follow"][k]
        return e
    return {"obs": ob}


def split(scn):
    """the one-element batches of a range / list batch"""
    k = scn["kind"]
    base = {a: b for a, b in scn.items() if a not in ("id", "random", "from", "to", "days", "vals")}
    if k in ("days", "secs", "num-range"):
        return [dict(base, **{"from": v, "to": v}) for v in range(scn["from"], scn["to"] + 1)]
    if k == "daylist":
        return [dict(base, days=[v]) for v in scn["days"]]
    return [dict(base, vals=[v]) for v in scn["vals"]]


def judge_chunk(ctx, idx, scns, results, lock):
    inp = ctx.write_ndjson("scn-%03d.ndjson" % idx, scns)
    outp = ctx.path("obs-%03d.ndjson" % idx)
    obs = ctx.vh(SUB, inp, outp, jobs=2, timeout_ms=60000)
    t = ctx.validate(TRACE[0], TRACE[1], outp, len(obs), name="trace-%03d" % idx, heap="3g", timeout=1200)
    verdicts = {}
    for r in t.lines:
        if r.get("t") == "VERDICT":
            verdicts.setdefault(r["id"], []).append(r)
    res = []
    for o in obs:
        vs = verdicts.get(o["id"])
        if not vs or len(vs) != 1:
            raise ToolError("Trace_Fmt printed %d verdicts for batch id=%s" % (len(vs or []), o["id"]))
        v = vs[0]
        item = {"id": o["id"], "scn": o["scn"], "ok": v["ok"], "n": v["n"], "nt": v["nt"], "sig": v["sig"], "first": v["first"], "skip": v.get("skip", 0)}
        if not v["ok"]:
            item["elem"] = element(o, v["first"]) if v["first"] >= 1 else {"obs": {k: o["obs"][k] for k in list(o["obs"])[:4]}}
        elif o["id"] % 97 == 0 or o["scn"]["kind"] in ("num-list", "wire-cl", "wire-chunk"):
            item["sample"] = element(o, 1 + (o["id"] * 7919) % max(1, v["n"]))
        res.append(item)
    os.remove(outp)
    with lock:
        results.extend(res)


def run(ctx):
    ctx.build_harness()
    q = ctx.quick
    # (a)+(b): the formulations agree on every day / second / n of the configuration
    mc = ctx.tlc("Fmt", "MC_Fmt.cfg" if q else "MC_Fmt_deep.cfg", workers=6 if q else 8, timeout=1500)
    ctx.extra["mc"] = ("calendar machine vs closed forms on %s; clock machine on all 86400 seconds; number odometers vs "
                       "limb arithmetic on every n <= %s" % ("1970-01-01..2500-12-31, 400-year jumps, 9970-01-01..9999-12-31" if q
                                                              else "EVERY day number 0..2932896 (1970-01-01..9999-12-31)",
                                                              "10^5" if q else "10^6"))
    # non-vacuity: with the Julian leap rule TLC must find the machine / closed-form disagreement on 2100-02-29
    nv = ctx.tlc("Fmt", "MC_Fmt_julian.cfg", workers=1, expect_violation=True, timeout=300)
    ctx.extra["nonvacuity"] = "LeapRule=julian yields: " + str(nv.violation)
    # scenarios
    g = ctx.tlc("FmtGen", "Gen_Fmt.cfg" if q else "Gen_Fmt_deep.cfg", workers=1, env={"VERIF_SEED": ctx.seed}, timeout=600)
    scns = list(g.lines)
    if not scns:
        raise ToolError("Gen_Fmt generated no scenario")
    n_tlc = len(scns)
    rp = ctx.path("random.ndjson")
    ctx.vh_gen(SUB, rp, 60 if q else 1500)
    for l in open(rp):
        d = json.loads(l); d["random"] = 1
        scns.append(d)
    seen, uniq = set(), []
    for s in scns:
        k = json.dumps({a: b for a, b in s.items() if a != "random"}, sort_keys=True)
        if k not in seen:
            seen.add(k); uniq.append(s)
    scns = uniq
    for n, d in enumerate(scns):
        d["id"] = n
    ctx.extra["scenarios_from_tlc"] = n_tlc
    ctx.extra["scenarios_random"] = len(scns) - n_tlc
    parts = chunks_of(scns)
    log("[plan] %d batches (%d from TLC, %d random), %d elements, %d trace chunks, %d TLC processes at a time" % (
        len(scns), n_tlc, len(scns) - n_tlc, sum(weight(s)[0] for s in scns), len(parts), PAR))
    results, lock = [], threading.Lock()
    with ThreadPoolExecutor(max_workers=PAR) as ex:
        futs = [ex.submit(judge_chunk, ctx, i, p, results, lock) for i, p in enumerate(parts)]
        for f in futs:
            f.result()
    # counters touched from several threads: recompute from the append-only run list
    ctx.states = sum(r["distinct"] for r in ctx.tlc_runs)
    ctx.transitions = sum(r["generated"] for r in ctx.tlc_runs)
    trace_runs = [r for r in ctx.tlc_runs if r["module"] == TRACE[0]]
    ctx.tlc_runs = [r for r in ctx.tlc_runs if r["module"] != TRACE[0]] + [
        {"module": TRACE[0], "cfg": TRACE[1], "runs": len(trace_runs), "generated": sum(r["generated"] for r in trace_runs),
         "distinct": sum(r["distinct"] for r in trace_runs), "wall_s": round(sum(r["wall_s"] for r in trace_runs), 1),
         "printed": sum(r["printed"] for r in trace_runs), "violation": None}]
    results.sort(key=lambda r: r["id"])
    if len(results) != len(scns):
        raise ToolError("%d batches planned, %d judged" % (len(scns), len(results)))
    ctx.traces = len(results)
    ctx.evaluations = sum(r["n"] for r in results)
    per_kind, irregular = {}, 0
    for r in results:
        key = r["scn"]["kind"] + ("/" + r["scn"]["fn"] if "fn" in r["scn"] else "")
        per_kind[key] = per_kind.get(key, 0) + r["n"]
        irregular += r["nt"]
        if r["nt"] > 0:
            ctx.nontrivial.add(r["id"])
    ctx.extra["elements_judged_by_kind"] = per_kind
    ctx.extra["irregular_elements"] = irregular
    ctx.extra["batches"] = len(results)
    skipped = sum(r["skip"] for r in results)
    if skipped:
        ctx.note("%d real response(s) could not be cut into head / single chunk by the harness (framing, decided by C03/C17): "
                 "their Content-Length / chunk-size fields were not judged" % skipped)
    kinds_seen = set()
    for r in results:
        if "sample" in r and r["scn"]["kind"] + r["scn"].get("fn", "") not in kinds_seen and len(ctx.samples) < 8:
            kinds_seen.add(r["scn"]["kind"] + r["scn"].get("fn", ""))
            scn = {k: (v if not isinstance(v, list) else v[:3] + ["..."]) for k, v in r["scn"].items()}
            ctx.samples.append({"batch": scn, "elements": r["n"], "one_element": r["sample"]})
    # a crash (panic caught per element never gets here; abort / hang / panic of the worker) loses the whole batch:
    # re-run such batches element by element so that the signature names the class of the crashing element
    crashed = [r for r in results if not r["ok"] and r["sig"].get("elem") == "batch" and r["sig"].get("field") in ("abort", "hang", "panic")
               and r["scn"]["kind"] in ("days", "daylist", "secs", "num-range", "num-list")]
    located = set()
    if crashed:
        singles = []
        for r in crashed[:5]:
            for e in split(r["scn"]):
                e["id"] = len(scns) + len(singles); e["split_of"] = r["id"]
                singles.append(e)
        sres = []
        for i, part in enumerate(chunks_of(singles)):
            judge_chunk(ctx, 900 + i, part, sres, lock)
        for x in sorted(sres, key=lambda x: x["id"]):
            if not x["ok"]:
                located.add(x["scn"]["split_of"])
                ctx.violation(x["sig"], "element %s of batch #%d (re-run alone): %s" % (
                    json.dumps({k: v for k, v in x["scn"].items() if k not in ("id", "split_of")}), x["scn"]["split_of"], json.dumps(x.get("elem"))),
                    {"scn": {k: v for k, v in x["scn"].items() if k != "split_of"}, "first": x["first"], "elem": x.get("elem")})
    nbad = 0
    for r in results:
        if r["ok"]:
            continue
        nbad += 1
        if r["id"] in located:
            continue
        what = "first element outside the property: #%d of batch %s: %s" % (
            r["first"], json.dumps({k: v for k, v in r["scn"].items() if not isinstance(v, list)}), json.dumps(r["elem"]))
        ctx.violation(r["sig"], what[:600], {"scn": r["scn"], "first": r["first"], "elem": r["elem"]})
    log("[judge] %d element(s) in %d batch(es) judged by Trace_Fmt: %d batch(es) outside the property" % (
        ctx.evaluations, len(results), nbad))
    ctx.extra["exhaustive_subspaces"] = (
        "day numbers: %s; seconds of day: all 86400 (on %d day(s)); unsigned values: all n < %s for each of itoa / hexized / "
        "hexized_bytes; the product day x second and the values >= %s are sampled (boundaries + seeded random), hence "
        "exhaustive=false for the whole input space" % (
            "0..157419 (to 2400-12-31) plus 5 boundary days of every year to 9999" if q else "ALL 0..2932896 (1970-01-01..9999-12-31)",
            1 if q else 5, "10^5" if q else "10^6", "10^5" if q else "10^6"))
    return finish(ctx, rule=RULE, assumptions=ASSUMPTIONS, trusted=TRUSTED, exhaustive=False)


def replay(ctx, path):
    doc = json.load(open(path))
    ctx.build_harness()
    scn = doc["scenario"]["scn"]
    scn["id"] = 0
    inp = ctx.write_ndjson("scenarios.ndjson", [scn])
    outp = ctx.path("observations.ndjson")
    obs = ctx.vh(SUB, inp, outp, jobs=1, timeout_ms=60000)
    t = ctx.validate(TRACE[0], TRACE[1], outp, 1)
    vs = [r for r in t.lines if r.get("t") == "VERDICT"]
    print(json.dumps(vs))
    if len(vs) != 1:
        raise ToolError("no verdict")
    if not vs[0]["ok"]:
        if vs[0]["first"] >= 1:
            print(json.dumps(element(obs[0], vs[0]["first"])))
        print("VIOLATION property=%s replay=%s" % (ctx.prop, path))
        return 1
    return 0
