"""C05 — requests on a keep-alive connection are handled independently and in order.  DESIGN §4 C05."""
import json
from vlib import standard_pipeline, standard_replay, finish

RULE = ("TLC enumerates every history of <=2/3 requests over the shapes of the Conn model (heads of 1-2 cells, bodies of 0-5 cells i.e. up to beyond the "
        "1 KiB buffer, Connection: close anywhere) with one segment per request; the extras (NUL as first body byte and in the middle, many headers, a "
        "context-setting marker) rotate with the scenario; the harness adds random histories of 2-10 requests; every request's response is compared "
        "byte for byte (Date excluded) with the response of the same request alone on a fresh connection; non-trivial = at least two requests "
        "answered on the same connection")
TRACE = ("Trace_Conn", "Trace_Conn.cfg")

def nontrivial(o):
    rs = o["scn"]["reqs"]
    return len(rs) >= 2 and not rs[0]["close"]

def run(ctx):
    q = ctx.quick
    mc = [("MC_Conn", "MC_Conn.cfg", dict(workers=8))]
    gen = [("ConnGen", "Gen_Conn_c05.cfg" if q else "Gen_Conn_c05_deep.cfg", dict(workers=6, timeout=1800))]
    standard_pipeline(ctx, sub="conn", mc=mc, gen=gen, trace=TRACE, random_n=600 if q else 12000, nontrivial=nontrivial,
                      post_gen=None, jobs=12, timeout_ms=90000, chunk=20000,
                      random_filter=lambda d: d["mode"] == "c05")
    # the composition: connections of several requests to applications with fangs, every event of the real session loop (read, parsed,
    # handled, sent, rejected, close; cfg(ohkami_verif) hooks) a step of Server.tla -- order of responses, nothing read after `close`
    import props.server as server
    server.composition(ctx, {"session"})
    return finish(ctx, rule=RULE, exhaustive=True,
                  assumptions=["each request is delivered as one segment (the quantifier of the property); a response is awaited before the next request is written on the socket",
                               "the echo handler returns everything observable of the request: method, path, query, all headers (Debug of the header map), payload digest, path param, context entry",
                               "random scenarios of the generator that use free segmentations (C06's vocabulary) are left to C06"],
                  trusted=["harness/src/conn.rs", "harness/src/util.rs", "tokio loopback TCP"])

def replay(ctx, path):
    doc = json.load(open(path))
    if isinstance(doc.get("scenario"), dict) and doc["scenario"].get("composition"):
        import props.server as server
        rc = server.replay_composition(ctx, doc)
        if rc:
            print("VIOLATION property=%s replay=%s" % (ctx.prop, path))
        return rc
    return standard_replay(ctx, path, sub="conn", trace=TRACE)
