#!/usr/bin/env python3
"""Regenerates /verif/MANIFEST.json from the table below (one entry per claimed property)."""
import json, os, subprocess
V = os.path.dirname(os.path.dirname(os.path.abspath(__file__)))
props = [json.loads(l) for l in open(os.path.join(V, "properties.jsonl"))]

MC = "model_checking"
CHECKS = {
 "C18": dict(level=MC, design="§4 C18, Appendix A",
   technique="TLA+ spec Shutdown.tla model-checked with TLC (safety + liveness under weak fairness); every TLC behaviour forced on the real SIGINT handler / until_interrupt via scheduling points and on a real howl; events validated by Trace_Shutdown.tla",
   text="TLC proves within the constants that the interrupt protocol (handler: store/swap/wake; poll: accept/load/publish/re-check; wait group) never returns early and never loses the interrupt, and shows the counterexample without the re-check. Every interleaving TLC enumerates is then forced on the real code in a fresh process (real SIGINT, real closure, real poll) and every end-to-end arrival/signal/completion order is run against a real howl; the recorded events are judged by the trace spec. Right level: the property quantifies over schedules, which only exhaustive interleaving exploration settles.",
   note="assumes rt_tokio/Linux, terminating sessions, wakers delivered by the runtime; trusted: ctrlc crate, tokio, the turn-taking controller in harness/src/sd.rs; bounds: <=3 arrivals, <=3 spurious wake-ups, <=2 signals; end-to-end runs also start with SIGINT ignored / handled by somebody else, and burst runs on a one-thread runtime require every connection the accept loop reports as accepted (hook event) to be served before howl returns"),
 "C03": dict(level=MC, design="§4 C03",
   technique="TLA+ spec RespHeaders.tla: TLC checks exhaustively that the header-map mechanism (slots/values/size, complete(), HEAD rule) refines the ideal response over all operation histories; the same histories and seeded random ones are replayed on a real Response (header block snapshotted after every operation, bytes through router+send re-parsed) and judged step by step by Trace_RespHeaders.tla",
   text="Within the bounds (all histories of <=4/5 operations over set/append/remove of standard and custom headers with values of different lengths, cookies, body kinds, drop_content, statuses; GET and HEAD) TLC proves that the modelled mechanism keeps `size` exact and emits each live header once; TLC's histories plus random ones (8-40 ops over all 37 user-settable standard headers) are executed on the real code and every intermediate header block and the final wire are judged by the TLA+ oracle `HeadersOK`/`WireOK`; buffer overruns are observed through the guarded capacity assertion. Right level: the property quantifies over operation histories.",
   note="trusted: harness HTTP response parser, concretisation table, the capacity assertion hook; not compared: header order, Date value; framing headers only manipulated through body operations; 1xx/304 not generated; for a value with a line break only well-formedness, at-most-once and the absence of the injected line are asserted (any sanitisation fits); a standard name given by name is only touched by name within one history"),
 "C01": dict(level=MC, design="§4 C01",
   technique="TLA+ spec Router.tla: TLC checks the radix-tree mechanism (register/merge, compression, child sort, take_through, search) against the segment-wise oracle over all registration orders; TLC-built applications (exhaustive + -simulate) and seeded random ones are assembled on the real router and every request's observation is judged by Trace_Router.tla (AllowedHandlers, ExpectedParams) Composition: end-to-end runs of the real Session::manage over loopback serving TLC-built and random applications are validated event by event (cfg(ohkami_verif) events of the session loop, fang/handler log) against Server.tla by Trace_Server; unexplained `handler` events and DispatchInv count for this property.",
   text="Within the bounds TLC proves that the modelled tree dispatches every bounded path as the oracle allows, whatever the registration order, and shows the byte-prefix counterexample without the segment-boundary condition. Applications emitted by TLC (every order of <=2/3 routes of depth <=2, method subsets, one mount level; simulated trees of up to 3 applications) plus random ones are built through the public API on the real code; requests derived from the routes (instances, one byte more/less per segment, extra/missing/empty segments, trailing slashes, every method) are parsed by the real Request::read and handled by the real router; handler identity, params, status and HEAD body are judged in TLA+. The composition adds ~1 900 (quick) / ~7 000 (thorough) connections whose every event is a step of Server.tla.",
   note="routes with <=2 params; where the text leaves backtracking / method shadowing open both outcomes are accepted; of percent-escapes only the escaped slash is generated (one segment, never equal to a static one; whether another escape makes a segment identical to a static one is not asserted); routes of the parent below its own mount prefix are included except the trees the framework refuses at start-up; trusted: harness application assembly and concretisation table, response parser"),
 "C04": dict(level=MC, design="§4 C04",
   technique="TLA+ spec Router.tla/RouterApp.tla: TLC checks that the fang lists of the finalised tree equal the applications covering each path (scope and onion order) for every registration order; TLC-built application trees with instrumented fangs are run on the real router and the enter/leave log of every request is judged against OnionTrace by Trace_Router.tla Composition: the same end-to-end traces validated against Server.tla (every enter/leave event must extend a prefix of an onion trace of the request; the onion is complete when Router::handle returns); unexplained enter/leave/handled events count for this property.",
   text="TLC proves within the bounds that with the inherit+guarded-merge compression every path is wrapped by exactly the fangs of the applications whose mount prefix covers it, outermost first, and shows the counterexample for the original merge rule. Application trees emitted by TLC (exhaustive 2 applications, simulated 3 applications with up to 2 fangs each, local fangs, param/static mount prefixes, one early-answering fang) and random ones are assembled on the real code with logging fangs; for every request (hits, misses inside/outside each mount, near misses of the prefix, unregistered methods) the log must equal the onion trace computed in TLA+. The composition adds ~1 900 (quick) / ~7 000 (thorough) connections whose fang events are stepped through Server.tla.",
   note="side condition of the property enforced by the generators (exclusive mount prefixes, no static sibling of a param prefix segment); fang tuples up to arity 4, local tuples up to 2; trusted: TraceFang in harness/src/router.rs"),
 "C02": dict(level=MC, design="§4 C02",
   technique="TLA+ spec HttpParse.tla: the supported request grammar as a machine (one action per grammar token, 30 fault actions); every complete behaviour is a request whose meaning Denotes() and whose allowed treatment ObsOK() are TLA+ operators; behaviours enumerated by TLC (exhaustive per family + -simulate) and seeded random requests are concretised and presented as the first read of a connection to the real Request::read; Trace_HttpParse.tla judges every observation",
   text="TLC enumerates the grammar machine: header lines in four letter cases with repeated names and long values, every method x target x query shape, bodies of four sizes around the 1 KiB buffer x NUL first byte x NUL inside x Content-Length spelling, and every fault action (truncation at seven places, bad versions, missing separators, non-numeric/overflowing/empty Content-Length, NUL and non-UTF-8 bytes in target and values, unknown methods, non-origin-form targets, over-long lines) on three base requests. The real parser is run on the concrete bytes; for well-formed requests every public accessor (method, path.str(), query.iter(), typed header accessors, headers.get in two spellings, payload(), Debug) must return what the request denotes, without accessor panics and without waiting for input that had arrived; malformed bytes must be answered >= 400 or by closing.",
   note="only clearly malformed inputs generated; bare LF may be accepted or refused; error status free; first read only (segmentation is C06); trusted: concretisation table / fault applier / reverse table in harness/src/parse.rs, ScriptedReader"),
 "C05": dict(level=MC, design="§4 C05",
   technique="TLA+ spec Conn.tla (session loop + reads as actions over byte cells; Ideal(reqs) as oracle) model-checked with TLC; TLC-enumerated request histories (one segment per request) and random longer ones are executed on the real code twice (session-loop steps over a scripted reader via ohkami::__verif; the real Session::manage over a loopback socket); Trace_Conn.tla judges order, per-request payload, equality with the fresh-connection response and the end of the session Composition: connections of up to 4 requests to applications with fangs over the real Session::manage, every hook event (read-start, read, parsed(close), handled, sent, rejected, close) a step of Server.tla with InOrder / NoReadAfterClose checked in every state; events of the loop that Server.tla does not explain, responses out of order and crashes count for this property.",
   text="TLC proves within the bounds that the modelled loop answers every request of a keep-alive connection in order with its own payload when each request arrives as one segment, and enumerates all histories of <=2/3 requests over heads of 1-2 cells and bodies from none to beyond the 1 KiB buffer, with Connection: close anywhere, NUL bytes at the start and inside bodies, many headers and a context-setting marker rotating through the scenarios; random histories have up to 10 requests. On the real code every response is compared byte for byte (Date excluded) with the response the same request gets alone on a fresh connection, from a handler that echoes everything observable (method, path, query, header map, payload digest, path param, context entry). The composition adds ~1 900 (quick) / ~7 000 (thorough) connections validated event by event against the session-loop machine of Server.tla.",
   note="quantifier of the property: one segment per request; on the socket a response is awaited before the next request is written; trusted: harness/src/conn.rs (padding to exact cell sizes, loop mirror for the in-memory execution, response splitter), ScriptedReader, parse_response, tokio loopback"),
 "C06": dict(level=MC, design="§4 C06",
   technique="TLA+ spec Conn.tla: segmentation as data; TLC checks that the modelled reads (first read, head loop, payload from buffer, read_exact, discarded leftovers) produce Ideal(reqs) for every request sequence x segmentation in bounds except where two requests share a segment (named deviation), and that with carry-over the property holds everywhere; every scenario of the model plus random ones is executed on the real code (scripted in-memory reader and real Session::manage over loopback TCP) and judged by Trace_Conn.tla; the recorded finding is matched by scenario class and outcome",
   text="TLC enumerates every sequence of <=2 requests x every segmentation with <=2/3 cuts (inside the head, between head and body, inside the body, bodies larger than the remaining buffer, two requests in one segment) and proves the refinement with the single named deviation; the same scenarios (cuts jittered by up to 20 bytes inside a part) and random sequences of 2-5 requests with random cuts run on the real parser/session loop; the responses must be those of the unsegmented byte stream: one per request, in order, own payload, identical to the fresh-connection response. The open finding (requests sharing a segment are dropped) is reported as KNOWN-FINDING; any other class or outcome fails the check.",
   note="heads fit the buffer; kernel may merge back-to-back writes (verdict independent of it; responses awaited at request boundaries); trusted: harness/src/conn.rs, ScriptedReader, parse_response, tokio loopback"),
}

# entries proposed in notes/Cnn.md (written by the builders of those checks) are picked up unless overridden above
import re, glob
EXP = "exploration"
for nf in sorted(glob.glob(os.path.join(V, "notes", "C*.md"))):
    txt = open(nf).read()
    m = re.search(r"roposed MANIFEST.*?```(?:python)?\n(.*?)```", txt, re.S)
    if not m:
        continue
    try:
        d = eval("{" + m.group(1) + "}", {"MC": MC, "EXP": EXP, "dict": dict, "exploration": EXP, "model_checking": MC})
    except Exception as e:
        print("cannot read manifest entry in", nf, e); continue
    for k, v in d.items():
        CHECKS.setdefault(k, v)

def commits():
    out = subprocess.run(["git", "-C", "/repo", "log", "--format=%h %s"], stdout=subprocess.PIPE, text=True).stdout
    return [l.split()[0] for l in out.splitlines() if l.split(" ", 1)[1].startswith("verif hook")][::-1]

m = {"version": 1, "setup_cmd": "bin/setup",
     "hooks": {"guard": "ohkami_verif",
               "enable": "rustflags --cfg ohkami_verif in /verif/harness/.cargo/config.toml; the harness crate has path dependencies on /repo/ohkami, /repo/ohkami_lib, /repo/ohkami_openapi and is rebuilt from the working tree by every check",
               "baseline_off_cmd": "cd /repo && cargo nextest run --workspace --no-fail-fast --offline",
               "source_commits": commits(), "add_only": True},
     "engines": [{"name": "tlc+vh", "path": "bin/check", "serves_properties": sorted(CHECKS),
                  "kind_free_text": "explicit TLA+ specification (specs/) checked with TLC; TLC-generated scenarios replayed on the real code by the Rust harness (harness/); observations and random-driver traces validated against Trace_* specs; known_findings.json classifies recorded defects"}],
     "checks": [], "notes": "DESIGN.md explains the approach; known_findings.json lists recorded defects and fixes.",
     "not_applicable": []}
for p in props:
    i = p["id"]
    c = CHECKS.get(i)
    if not c:
        m["not_applicable"].append({"property_id": i, "reason": "check not built yet (work in progress, see DESIGN.md §9)"})
        continue
    m["checks"].append({"property_id": i, "quick_cmd": "bin/check %s --tier quick" % i,
                        "thorough_cmd": "bin/check %s --tier thorough" % i,
                        "evidence_file": "evidence/%s.json" % i,
                        "replay_cmd_template": "bin/check %s --replay {path}" % i,
                        "engine": "tlc+vh",
                        "level_claimed": {"category": c["level"], "text": c["text"], "design_ref": c["design"]},
                        "level_note": c["note"], "technique": c["technique"]})
json.dump(m, open(os.path.join(V, "MANIFEST.json"), "w"), indent=1)
print("claimed:", [c["property_id"] for c in m["checks"]])
