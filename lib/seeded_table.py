#!/usr/bin/env python3
"""Regenerates the table of section 13 of DESIGN.md from seeded/*/meta.json."""
import json, glob, os, re
V = os.path.dirname(os.path.dirname(os.path.abspath(__file__)))
rows = []
for d in sorted(glob.glob(os.path.join(V, "seeded", "*"))):
    mp = os.path.join(d, "meta.json")
    if not os.path.exists(mp):
        continue
    m = json.load(open(mp)); c = m.get("confirmation", {})
    sid = os.path.basename(d)
    classes = c.get("violating_classes", [])
    how = ""
    if classes:
        mm = re.search(r"violating class (\{.*?\}) \(", classes[0])
        how = mm.group(1) if mm else classes[0][:120]
    also = [k for k, v in (c.get("also") or {}).items() if v]
    caught = "`bin/check %s`" % m.get("property") if c.get("caught") else ("`bin/check %s`" % also[0] if also else "**missed**")
    note = m.get("strengthened", "")
    def cell(x): return str(x).replace("|", "\\|").replace("\n", " ")
    rows.append("| `%s` %s | %s | %s | %s%s | %s |" % (sid, cell(m.get("summary", ""))[:230], m.get("property"), cell(m.get("needs", ""))[:230], caught,
                                                   (" (after: " + cell(note) + ")") if note else "", cell(how)[:200]))
p = os.path.join(V, "DESIGN.md")
s = open(p).read()
head = "| seeded change | property | needs | caught by | how it shows |\n|---|---|---|---|---|\n"
a = s.index(head)
rest = s[a + len(head):]
# drop old rows (lines starting with '| `')
lines = rest.split("\n")
i = 0
while i < len(lines) and lines[i].startswith("| `"):
    i += 1
s = s[:a] + head + "\n".join(rows) + ("\n" if rows else "") + "\n".join(lines[i:])
open(p, "w").write(s)
print(len(rows), "rows")

# ---- section 11: fix commits and open findings
import subprocess
log = subprocess.run(["git", "-C", "/repo", "log", "--format=%h %s"], stdout=subprocess.PIPE, text=True).stdout.splitlines()
fixes = [l for l in log if l.split(" ", 1)[1].startswith("fix:")][::-1]
kf = json.load(open(os.path.join(V, "known_findings.json")))["findings"]
byc = {}
for f in kf:
    if f.get("status") == "fixed":
        byc.setdefault(f.get("commit", "")[:7], []).append(f["id"])
lines = ["Repaired: %d `fix:` commits in /repo (each with the 43 baseline tests and the 44 feature-gated unit tests of `ohkami` passing), in order:" % len(fixes), ""]
for l in fixes:
    h, msg = l.split(" ", 1)
    lines.append("* `%s` %s%s" % (h, msg[5:].replace("|", "\\|"), (" — " + ", ".join(byc[h])) if h in byc else ""))
s = open(os.path.join(V, "DESIGN.md")).read()
a = s.index("<!-- FIXLIST-BEGIN -->") + len("<!-- FIXLIST-BEGIN -->"); b = s.index("<!-- FIXLIST-END -->")
s = s[:a] + "\n" + "\n".join(lines) + "\n" + s[b:]
op = ["* `%s` (%s): %s" % (f["id"], f["property"], f["what"][:260]) for f in kf if f.get("status") == "open"]
a = s.index("<!-- OPENLIST-BEGIN -->") + len("<!-- OPENLIST-BEGIN -->"); b = s.index("<!-- OPENLIST-END -->")
s = s[:a] + "\n" + "\n".join(op) + "\n" + s[b:]
open(os.path.join(V, "DESIGN.md"), "w").write(s)
print(len(fixes), "fix commits,", len(op), "open findings")
