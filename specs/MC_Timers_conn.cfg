SPECIFICATION Spec
CONSTANTS
  PER_REQUEST_DEADLINE = FALSE
  EAGER_CANCEL = TRUE
  MARGIN = 0
  SS = {5}
  TD = {0, 2}
  PRE = {0}
  POST = {0, 1}
  SD = {1, 3}
  ATS = {0, 1}
  GAPS = {0, 2}
  FINS = {0, 2}
  NAPP = 1
  NSUB = 0
  NLOC = 0
  NSCRIPT = 1
  NREQ = 3
  MNT = FALSE
INVARIANTS TimeoutBound SessionBound HistoryInv Refines
CHECK_DEADLOCK FALSE
