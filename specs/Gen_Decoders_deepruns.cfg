SPECIFICATION GSpec
CONSTANTS
  MaxLen = 4
  MaxFaults = 0
  TOPLEN = 3
  PCTLEN = 2
  RICH = FALSE
  DECS = {"urlenc", "cookie", "setcookie", "pct"}
  DeepOn <- DeepOnTrue
INVARIANT Emit
CHECK_DEADLOCK FALSE
