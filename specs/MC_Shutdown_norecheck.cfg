SPECIFICATION Spec
CONSTANTS
  RECHECK = FALSE
  MaxArrivals = 1
  MaxSpurious = 1
  MaxSignals = 1
INVARIANTS TypeOK NoEarlyReturn ReturnOnlyAfterInterrupt WgExact
PROPERTIES NoLostInterrupt
CHECK_DEADLOCK FALSE
