SPECIFICATION Spec
CONSTANTS
  BOUNDARY = TRUE
  RULE = "precise"
  REPAIR = FALSE
  NApps = 1
  MaxRoutes = 3
  MaxDepth = 1
  MSETS = "small"
  PSIB = TRUE
  NPOL = 1
  RICHPOL = FALSE
  RICHREQ = FALSE
  KnownDeviations = {"split-registration", "merged-apps", "param-sibling"}
INVARIANTS Refines Builds ClassAgrees
CHECK_DEADLOCK FALSE
