SPECIFICATION Spec
CONSTANTS
  BOUNDARY = TRUE
  RULE = "precise"
  NApps = 1
  MaxRoutes = 2
  MaxDepth = 2
  MaxMountDepth = 1
  SEGSTR <- SegAB
  PNAMES = {"x", "y"}
  METHODSETS <- MsGP
  APPFANGS <- AfJwt
  LOCALS <- LfNone
  SIGMODE = "rot"
  SALT = 3
INVARIANT Emit
CHECK_DEADLOCK FALSE
