SPECIFICATION GSpec
CONSTANTS
  FAMILY = "delim"
  MaxParts = 2
  MaxLen = 4
  BNDS = {"b", "-b", "b-", "--", "bb"}
  FULLTARGETS = TRUE
INVARIANT Emit
CHECK_DEADLOCK FALSE
