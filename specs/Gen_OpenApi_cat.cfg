CONSTANTS
  BOUNDARY = TRUE
  RULE = "precise"
