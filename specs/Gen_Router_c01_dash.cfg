SPECIFICATION Spec
CONSTANTS
  BOUNDARY = TRUE
  RULE = "precise"
  NApps = 1
  MaxRoutes = 2
  MaxDepth = 2
  MODE = "c01"
  FANGS = FALSE
  METHODS = FALSE
  RICH = FALSE
  SegStr <- SegStrDash
INVARIANT Emit
CHECK_DEADLOCK FALSE
