SPECIFICATION Spec
CONSTANTS
  BOUNDARY = TRUE
  RULE = "precise"
  NApps = 2
  MaxRoutes = 1
  MaxDepth = 1
  MaxMountDepth = 2
  SEGSTR <- SegA
  PNAMES = {"x", "y"}
  METHODSETS <- MsGet
  APPFANGS <- AfJwt
  LOCALS <- LfNone
  SIGMODE = "rot"
  SALT = 0
INVARIANT Emit
CHECK_DEADLOCK FALSE
