---------------------------- MODULE SchemaRelGen ----------------------------
(***************************************************************************)
(* Enumeration of the type definitions for C16 (the scenarios are          *)
(* programs).  TIER = "quick": base-choice pairwise over all attribute     *)
(* pairs of a one-field struct (every pair of attribute values occurs      *)
(* together, the other attributes at their base value), curated 2- and     *)
(* 3-field structs, and for every tagging mode x rename_all rule a mixed   *)
(* and an all-unit enum.  TIER = "deep": every name computation            *)
(* (rule x style x rename), every presence/requiredness combination for 1  *)
(* and 2 fields, every enum of 1-2 variants (shape x rename) in every      *)
(* tagging mode x rule.  TIER = "mc": a cross-section for MC_SchemaRel.    *)
(***************************************************************************)
EXTENDS SchemaRel, Json
CONSTANT TIER

\* ------------------------------------------------------------------ names
StyleName(st) == CASE st = "a" -> <<"a">>
                   [] st = "my_field" -> MyField
                   [] st = "myField" -> <<"m","y","F","i","e","l","d">>
                   [] st = "x2_y" -> <<"x","2","_","y">>
                   [] st = "type" -> <<"t","y","p","e">>      \* a keyword: written `r#type` in the program, `type` on the wire
                   [] st = "_p" -> <<"_","p">>
                   [] st = "p__q" -> <<"p","_","_","q">>
                   [] st = "q_" -> <<"q","_">>
                   [] st = "A" -> <<"A">>
                   [] st = "FooBar" -> <<"F","o","o","B","a","r">>
                   [] st = "Nt2X" -> <<"N","t","2","X">>
                   [] st = "HTTPOk" -> <<"H","T","T","P","O","k">>
FieldStyles == {"a", "my_field", "myField", "x2_y", "type"}
OddStyles == {"_p", "p__q", "q_"}            \* legal Rust field names with empty words
Digit(i) == <<"1", "2", "3", "4">>[i]
RenameOf(rclass, i) == CASE rclass = "none" -> <<>> [] rclass = "plain" -> <<"r", Digit(i)>> [] rclass = "dash" -> <<"r", "-", Digit(i)>>

\* ------------------------------------------------------------------ structs
BaseF == [style |-> "my_field", ty |-> "str", opt |-> FALSE, rclass |-> "none", skip |-> "none", ssif |-> FALSE,
          fdefault |-> FALSE, flatten |-> FALSE]
MkField(v, i) == [name |-> StyleName(v.style), style |-> v.style, ty |-> v.ty, opt |-> v.opt, rename |-> RenameOf(v.rclass, i),
                  rclass |-> v.rclass, skip |-> v.skip, ssif |-> v.ssif, fdefault |-> v.fdefault, flatten |-> v.flatten]
MkStruct(ra, cd, vs) == [kind |-> "struct", ra |-> ra, cdefault |-> cd, fields |-> [i \in DOMAIN vs |-> MkField(vs[i], i)]]
WFStruct(d) ==
  /\ \A i \in DOMAIN d.fields : WFField(d.fields[i])
  /\ \A i, j \in DOMAIN d.fields : i # j => d.fields[i].name # d.fields[j].name
  /\ Len(StructFieldsFrom(d, 1, TRUE)) = Cardinality(ExpectedKeys(d))           \* no two fields write the same key
  /\ ReadOnlyKeys(d) \cap ExpectedKeys(d) = {}
  /\ Cardinality({i \in DOMAIN d.fields : d.fields[i].flatten}) <= 1

\* base-choice pairwise over container + field attributes of a one-field struct
Base1 == [ra |-> "none", cdefault |-> FALSE] @@ BaseF
Vals1 == [ra |-> Rules, cdefault |-> BOOLEAN, style |-> FieldStyles \cup OddStyles, ty |-> FieldTypes, opt |-> BOOLEAN,
          rclass |-> {"none", "plain", "dash"}, skip |-> {"none", "skip", "ser", "de"}, ssif |-> BOOLEAN,
          fdefault |-> BOOLEAN, flatten |-> BOOLEAN]
Fix(v) == [v EXCEPT !.opt = v.opt \/ v.ssif, !.ty = IF v.flatten THEN "inner" ELSE v.ty]
PairVecs == UNION {UNION {{Fix([[Base1 EXCEPT ![p] = x] EXCEPT ![q] = y]) : x \in Vals1[p], y \in Vals1[q]}
                          : q \in DOMAIN Base1 \ {p}} : p \in DOMAIN Base1}
Struct1(v) == MkStruct(v.ra, v.cdefault, <<v>>)
PairStructs == {d \in {Struct1(v) : v \in PairVecs} : WFStruct(d)}

\* field kinds for multi-field structs
Kind(k) == CASE k = "plain" -> BaseF
             [] k = "int" -> [BaseF EXCEPT !.ty = "int"]
             [] k = "opt" -> [BaseF EXCEPT !.opt = TRUE]
             [] k = "optssif" -> [BaseF EXCEPT !.opt = TRUE, !.ssif = TRUE]
             [] k = "fdefault" -> [BaseF EXCEPT !.fdefault = TRUE]
             [] k = "skip" -> [BaseF EXCEPT !.skip = "skip"]
             [] k = "skipser" -> [BaseF EXCEPT !.skip = "ser"]
             [] k = "skipde" -> [BaseF EXCEPT !.skip = "de"]
             [] k = "renamed" -> [BaseF EXCEPT !.rclass = "plain"]
             [] k = "inner" -> [BaseF EXCEPT !.ty = "inner"]
             [] k = "optinner" -> [BaseF EXCEPT !.ty = "inner", !.opt = TRUE]
             [] k = "flatten" -> [BaseF EXCEPT !.ty = "inner", !.flatten = TRUE]
Kinds2 == {"plain", "int", "opt", "optssif", "fdefault", "skip", "skipser", "skipde", "renamed", "inner", "optinner", "flatten"}
Kinds3 == {"plain", "opt", "skipde", "fdefault", "flatten"}
PosStyle == <<"my_field", "x2_y", "a">>
Styled(v, i) == [v EXCEPT !.style = PosStyle[i]]
Structs2(cfgs) == {d \in {MkStruct(c[1], c[2], <<Styled(Kind(k1), 1), Styled(Kind(k2), 2)>>) : c \in cfgs, k1 \in Kinds2, k2 \in Kinds2}
                     : WFStruct(d)}
Structs3(cfgs) == {d \in {MkStruct(c[1], c[2], <<Styled(Kind(k1), 1), Styled(Kind(k2), 2), Styled(Kind(k3), 3)>>)
                            : c \in cfgs, k1 \in Kinds3, k2 \in Kinds3, k3 \in Kinds3} : WFStruct(d)}

\* deep: every name computation, every presence combination
NameStructs == {d \in {Struct1([BaseF EXCEPT !.style = st, !.rclass = rc] @@ [ra |-> ra, cdefault |-> FALSE])
                         : ra \in Rules, st \in FieldStyles \cup OddStyles, rc \in {"none", "plain", "dash"}} : WFStruct(d)}
PresenceVecs == {v \in {[BaseF EXCEPT !.ty = ty, !.opt = o, !.skip = sk, !.ssif = ss, !.fdefault = fd, !.flatten = fl]
                          : ty \in FieldTypes, o \in BOOLEAN, sk \in {"none", "skip", "ser", "de"}, ss \in BOOLEAN,
                            fd \in BOOLEAN, fl \in BOOLEAN} : WFField(MkField(v, 1))}
PresenceStructs1 == {Struct1(v @@ [ra |-> ra, cdefault |-> cd]) : v \in PresenceVecs, ra \in {"none", "camelCase"}, cd \in BOOLEAN}
PresenceVecsStr == {v \in PresenceVecs : v.ty = "str" \/ v.flatten}
PresenceStructs2 == {d \in {MkStruct(ra, cd, <<Styled(v1, 1), Styled(v2, 2)>>)
                              : v1 \in PresenceVecsStr, v2 \in PresenceVecsStr, ra \in {"PascalCase"}, cd \in BOOLEAN} : WFStruct(d)}

\* ------------------------------------------------------------------ enums
Taggings == {"external", "internal", "adjacent", "untagged"}
MkVariant(v, i) == [name |-> StyleName(v.style), style |-> v.style, shape |-> v.shape, payload |-> v.payload,
                    rename |-> RenameOf(v.rclass, i), rclass |-> v.rclass, vra |-> v.vra]
MkEnum(ra, tg, vs) == [kind |-> "enum", ra |-> ra, tagging |-> tg, variants |-> [i \in DOMAIN vs |-> MkVariant(vs[i], i)]]
VShape(sh, pl) == [style |-> "A", shape |-> sh, payload |-> pl, rclass |-> "none", vra |-> "none"]
VShapes == {VShape("unit", "none"), VShape("newtype", "str"), VShape("newtype", "inner"), VShape("struct", "none"), VShape("empty", "none")}
VPosStyle == <<"FooBar", "A", "Nt2X">>
VStyled(v, i) == [v EXCEPT !.style = VPosStyle[i]]
WFEnum(d) ==
  /\ \A i \in DOMAIN d.variants : LET v == d.variants[i] IN
        /\ (v.shape = "newtype") = (v.payload # "none")
        /\ (v.vra # "none" => v.shape = "struct")
        /\ (d.tagging = "internal" /\ v.shape = "newtype" => v.payload = "inner")   \* serde cannot tag a string
  /\ \A i, j \in DOMAIN d.variants : i # j => VariantTag(d, i) # VariantTag(d, j)
  \* untagged: reading picks the first variant that fits, so the shapes must be distinguishable
  \* (several unit variants are all written `null` and all read back as the first of them: nothing to tell apart, and nothing is probed)
  /\ (d.tagging = "untagged" => \A i, j \in DOMAIN d.variants : i # j /\ ~(d.variants[i].shape = "unit" /\ d.variants[j].shape = "unit") =>
          /\ <<d.variants[i].shape, d.variants[i].payload>> # <<d.variants[j].shape, d.variants[j].payload>>
          \* (an untagged `V {}` reads any object: it only goes with variants that are not objects)
          /\ (d.variants[i].shape = "empty" => d.variants[j].shape = "unit" \/ d.variants[j].payload = "str"))
EnumsMixed(ras) == {d \in {MkEnum(ra, tg, <<VStyled(VShape("struct", "none"), 1), VStyled(VShape("unit", "none"), 2),
                                             VStyled(VShape("newtype", pl), 3)>>) : ra \in ras, tg \in Taggings, pl \in {"str", "inner"}}
                      : WFEnum(d)}
EnumsUnit(ras) == {d \in {MkEnum(ra, tg, <<VStyled(VShape("unit", "none"), 1), VStyled(VShape("unit", "none"), 2),
                                           VStyled(VShape("unit", "none"), 3)>>) : ra \in ras, tg \in Taggings} : WFEnum(d)}
\* two struct variants, one of them with a `rename_all` of its own (first or second), and a unit variant behind them
EnumsVra(ras, vras) == {d \in {MkEnum(ra, tg, <<VStyled([VShape("struct", "none") EXCEPT !.vra = r1], 1), VStyled([VShape("struct", "none") EXCEPT !.vra = r2], 2),
                                              VStyled(VShape("unit", "none"), 3)>>)
                              : ra \in ras, tg \in Taggings, r1 \in vras \cup {"none"}, r2 \in vras \cup {"none"}} : WFEnum(d) /\ (\E i \in DOMAIN d.variants : d.variants[i].vra # "none")}
\* an untagged enum with two unit variants among others
EnumsNulls == {d \in {MkEnum("none", "untagged", <<VStyled(VShape("unit", "none"), 1), VStyled(v, 2), VStyled(VShape("unit", "none"), 3)>>) : v \in VShapes} : WFEnum(d)}
Enums1(ras, rcs, styles) == {d \in {MkEnum(ra, tg, <<[v EXCEPT !.rclass = rc, !.style = st]>>)
                                      : ra \in ras, tg \in Taggings, v \in VShapes, rc \in rcs, st \in styles} : WFEnum(d)}
Enums2(ras, rcs) == {d \in {MkEnum(ra, tg, <<VStyled([v1 EXCEPT !.rclass = rc], 1), VStyled(v2, 2)>>)
                              : ra \in ras, tg \in Taggings, v1 \in VShapes, v2 \in VShapes, rc \in rcs} : WFEnum(d)}

\* container attributes `into = "Out"` (serde writes the value through the type Out) alone and together with `from = "In"` (and reads it
\* through In, a type of another shape): what serde writes are Out's keys.  The relation is judged on the written values as for every other
\* definition; the reference of serde's behaviour (RefValue ..) does not model proxy types and is not consulted (field `proxy`).
ProxyStructs == {MkStruct(ra, FALSE, <<BaseF>>) @@ [proxy |-> p] : ra \in {"none", "camelCase"}, p \in {"into", "both"}}
\* ------------------------------------------------------------------ tiers
QuickDefs == PairStructs \cup ProxyStructs
             \cup Structs2({<<"camelCase", FALSE>>, <<"none", TRUE>>})
             \cup Structs3({<<"PascalCase", FALSE>>})
             \cup EnumsMixed(Rules) \cup EnumsUnit(Rules)
             \cup Enums1({"none"}, {"none", "plain"}, {"FooBar"})
             \cup EnumsVra({"none", "snake_case"}, {"camelCase", "SCREAMING_SNAKE_CASE"}) \cup EnumsNulls
DeepDefs == QuickDefs
            \cup EnumsVra(Rules, {"camelCase", "PascalCase", "kebab-case"})
            \cup NameStructs \cup PresenceStructs1 \cup PresenceStructs2
            \cup Structs2({<<"SCREAMING_SNAKE_CASE", TRUE>>, <<"none", FALSE>>})
            \cup Structs3({<<"camelCase", TRUE>>})
            \cup Enums1(Rules, {"none", "plain"}, {"A", "FooBar", "Nt2X", "HTTPOk"})
            \cup Enums2(Rules, {"none", "plain"})
McDefs == PairStructs \cup Structs2({<<"camelCase", TRUE>>}) \cup Structs3({<<"PascalCase", FALSE>>})
          \cup EnumsMixed(Rules) \cup EnumsUnit({"none", "snake_case"}) \cup Enums2({"none", "kebab-case"}, {"none", "plain"})
          \cup EnumsVra({"none"}, {"camelCase"}) \cup EnumsNulls
Defs == CASE TIER = "quick" -> QuickDefs [] TIER = "deep" -> DeepDefs [] TIER = "mc" -> McDefs

\* non-trivial by a stated rule: the definition carries an attribute or shape that changes serde's wire form
NonTrivial(d) ==
  IF d.kind = "struct"
    THEN d.cdefault \/ \E i \in DOMAIN d.fields : LET f == d.fields[i] IN
            f.opt \/ f.skip # "none" \/ f.fdefault \/ f.flatten \/ f.ty = "inner" \/ f.rclass # "none"
            \/ (d.ra # "none" /\ SerdeField(d.ra, f.name) # f.name)
    ELSE d.tagging # "external" \/ (\E i \in DOMAIN d.variants : d.variants[i].shape # "unit" \/ d.variants[i].rclass # "none")
         \/ (\E i \in DOMAIN d.variants : SerdeVariant(d.ra, d.variants[i].name) # d.variants[i].name)

ASSUME TIER = "mc" \/ \A d \in Defs : PrintT(ToJson(d @@ [nontrivial |-> NonTrivial(d)]))

VARIABLE x
GInit == x = 0
GNext == UNCHANGED x
GSpec == GInit /\ [][GNext]_x
=============================================================================
