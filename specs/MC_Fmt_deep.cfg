\* thorough: EVERY day number 0 .. 2932896 (no jump), every second of a day, every n <= 10^6
SPECIFICATION Spec
CONSTANTS
  LastDay = 2932896
  StepUntil = 2932896
  TailFrom = 2932896
  MaxN = 1000000
  LeapRule = "gregorian"
  StartDay = 0
  NumLane = 50000
INVARIANTS CalAgree CalEnd ClockAgree NumAgree
CHECK_DEADLOCK FALSE
