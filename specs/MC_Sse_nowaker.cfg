SPECIFICATION Spec
CONSTANTS
  MaxScript = 3
  MaxSpurious = 1
  FORWARD_WAKER = FALSE
  READY_DRAINS = TRUE
  FILTER_MODE = "none"
  CHAIN_MODE = "none"
INVARIANTS TypeOK PrefixInv QueueInv DoneInv
PROPERTIES Terminates
CHECK_DEADLOCK FALSE
