CONSTANTS
  REPAIRED = TRUE
  IntLen = 4
  IntAlpha = {"0", "1", "7", "9", "-", "+", "L", "sp", "e0", "e7", "eL"}
  LitPre <- LitPreD
  LitSuf <- LitSufD
  IntStyles = {"bare", "tuple"}
  StrLen = 3
  StrAlpha = {"L", "7", "-", "+", "eL", "sp", "mb", "sl", "pc", "ff", "c3", "bz"}
  StrLen2 = 4
  StrAlpha2 = {"L", "7", "eL", "mb", "sl", "ff", "c3", "bz"}
  BindRoutes <- BindRoutesD
  BindDeep = TRUE
  FullUpTo = 3
  WithCase = TRUE
