---------------------------- MODULE HttpParseGen ----------------------------
(* Scenario emission for C02: every complete behaviour of the HttpParse machine (within the family). *)
EXTENDS HttpParse, Json
Emit == r.phase = "end" => PrintT(ToJson([req |-> r]))
=============================================================================
