CONSTANTS
  WHAT = "basic"
  DEEP = TRUE
  EMIT = FALSE
SPECIFICATION MSpec
INVARIANT RowsOK
CHECK_DEADLOCK FALSE
