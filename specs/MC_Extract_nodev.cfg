SPECIFICATION Spec
CONSTANTS
  REPAIRED = FALSE
  MaxLen = 2
  FullUpTo = 1
  KnownDev = {}
INVARIANTS SegInv
CHECK_DEADLOCK FALSE
