---------------------------- MODULE Trace_UrlEnc ----------------------------
(***************************************************************************)
(* Verdicts for C09.  Input (IOEnv.TRACE): ndjson, one line                *)
(* {"id", "scn", "obs"} per scenario executed on the real code.            *)
(*                                                                         *)
(*  rt    obs.ser = "ok"  =>  obs.de = "ok" /\ obs.vout = obs.vin          *)
(*        (a value the serializer refuses is outside the property)         *)
(*  dec   WellFormed(obs.text) etc. =>  obs.de = "ok" and every field of   *)
(*        the target equals the value RefPairs(obs.text) gives its key     *)
(*        (RefPairs = split on raw `&`/`=` + RFC 3986 percent-decoding +   *)
(*        UTF-8, evaluated here by TLC on the concrete bytes)              *)
(*  iter  obs.pairs = RefPairs(obs.text), in order                         *)
(*                                                                         *)
(* Besides, ClassesOf(...) of what the harness concretised must be the     *)
(* abstract scenario ("harness-mismatch" otherwise).                       *)
(***************************************************************************)
EXTENDS UrlEnc, TLC, Json, IOUtils

Rec == ndJsonDeserialize(IOEnv.TRACE)
VARIABLE l

\* ------------------------------------------------------------------ features of the abstract scenario (for signatures)
StrFeat(s) == IF s = <<>> THEN "empty" ELSE IF \A i \in 1..Len(s) : s[i] = "al" THEN "alnum" ELSE "special"
Feat(fr) == CASE fr.k = "char" -> fr.v[1][1]
              [] fr.k \in {"str", "ntstr"} -> StrFeat(fr.v[1])
              [] fr.k = "optstr" -> IF fr.v = <<>> THEN "none" ELSE "some-" \o StrFeat(fr.v[1])
              [] fr.k = "optu32" -> IF fr.v = <<>> THEN "none" ELSE "some"
              [] fr.k = "vecstr" -> IF Len(fr.v) = 0 THEN "len0" ELSE IF Len(fr.v) = 1 THEN "len1-" \o StrFeat(fr.v[1]) ELSE "len2+"
              [] fr.k = "vecu32" -> IF Len(fr.v) = 0 THEN "len0" ELSE IF Len(fr.v) = 1 THEN "len1" ELSE "len2+"
              [] fr.k = "tup2u32" -> "tuple2"
              [] fr.k = "enum" -> fr.v[1][1]
              [] fr.k = "entry" -> IF fr.key = <<>> THEN "emptykey" ELSE "key"
              [] OTHER -> "num"
RECURSIVE FeatRec(_, _)
FeatRec(val, i) == IF i >= Len(val) THEN (("f_" \o val[i].f) :> Feat(val[i]))
                   ELSE (("f_" \o val[i].f) :> Feat(val[i])) @@ FeatRec(val, i + 1)
RtFeats(scn) == IF scn.ty \in {"Map", "OMap"}
                  THEN [f_keys |-> IF \E i \in 1..Len(scn.val) : scn.val[i].key = <<>> THEN "emptykey" ELSE "key"]
                  ELSE FeatRec(scn.val, 1)

\* ------------------------------------------------------------------ rt
RtBinding(scn, obs) ==
  \/ scn.ty \in {"Map", "OMap"}
  \/ /\ Len(obs.vin) = Len(scn.val)
     /\ \A i \in 1..Len(scn.val) :
          /\ obs.vin[i].n = NameCp[scn.val[i].f]
          /\ Len(obs.vin[i].v) = Len(scn.val[i].v)
          /\ ((scn.val[i].k \notin SymKinds) => (\A e \in 1..Len(scn.val[i].v) : ClassesOf(obs.vin[i].v[e]) = scn.val[i].v[e]))
FirstDiff(a, b) == IF Len(a) # Len(b) THEN "len"
                   ELSE IF \E i \in 1..Len(a) : a[i] # b[i]
                     THEN LET i == CHOOSE i \in 1..Len(a) : a[i] # b[i] /\ \A j \in 1..(i - 1) : a[j] = b[j] IN "#" \o ToString(i)
                     ELSE "none"
RtJudge(scn, obs) ==
  IF obs.ser # "ok" THEN [ok |-> TRUE, sig |-> [mode |-> "rt", ty |-> scn.ty, out |-> "ser-rejected"]]
  ELSE IF ~RtBinding(scn, obs) THEN [ok |-> FALSE, sig |-> [mode |-> "rt", ty |-> scn.ty, out |-> "harness-mismatch"]]
  ELSE IF obs.de # "ok" THEN [ok |-> FALSE, sig |-> [mode |-> "rt", ty |-> scn.ty, out |-> "de-err:" \o obs.errc] @@ RtFeats(scn)]
  ELSE IF obs.vout # obs.vin THEN [ok |-> FALSE, sig |-> [mode |-> "rt", ty |-> scn.ty, out |-> "differs", at |-> FirstDiff(obs.vin, obs.vout)] @@ RtFeats(scn)]
  ELSE [ok |-> TRUE, sig |-> [mode |-> "rt", ty |-> scn.ty, out |-> "ok"]]

\* ------------------------------------------------------------------ dec
HasEsc(w) == \E j \in 1..Len(w) : w[j].e # "r"
HasSym(w) == \E j \in 1..Len(w) : w[j].c = "sym"
\* some non-string (symbol-valued) field is spelled with an escape
NumEsc(scn) == \E i \in 1..Len(scn.pairs) : HasSym(scn.pairs[i].v) /\ HasEsc(scn.pairs[i].v)
DecBinding(scn, ref) ==
  /\ Len(ref) = Len(scn.pairs)
  /\ \A i \in 1..Len(ref) :
       /\ ((~HasSym(scn.pairs[i].k)) => (ClassesOf(ref[i].k.v) = [j \in 1..Len(scn.pairs[i].k) |-> scn.pairs[i].k[j].c]))
       /\ ((~HasSym(scn.pairs[i].v)) => (ClassesOf(ref[i].v.v) = [j \in 1..Len(scn.pairs[i].v) |-> scn.pairs[i].v[j].c]))
Got(vout, name) == IF \E i \in 1..Len(vout) : vout[i].n = name THEN (vout[CHOOSE i \in 1..Len(vout) : vout[i].n = name]).v ELSE <<<<-1>>>>
DecSig(scn, out) == [mode |-> "dec", ctx |-> scn.ctx, ty |-> scn.ty, out |-> out, numesc |-> IF NumEsc(scn) THEN "yes" ELSE "no"]
DecJudge(scn, obs) ==
  IF obs.de = "noreq" THEN [ok |-> TRUE, sig |-> DecSig(scn, "unasserted-no-request")] ELSE
  LET text == obs.text
      ref == RefPairs(text)
      fs == Catalogue[scn.ty]
      KeyIdx(f) == {i \in 1..Len(ref) : ref[i].k.v = NameCp[f]}
      \* every key is text; the values of the target's own fields are text (what an unknown extra pair carries is never looked at:
      \* "independent of unknown extra fields" -- its escapes need not even form UTF-8)
      KnownKey(i) == \E j \in 1..Len(fs) : ref[i].k.v = NameCp[fs[j].f]
      textual == IF scn.ty = "Map" THEN AllUtf8(ref) ELSE \A i \in 1..Len(ref) : ref[i].k.ok /\ (KnownKey(i) => ref[i].v.ok)
      asserted == /\ WellFormed(text) /\ textual
                  /\ IF scn.ty = "Map" THEN \A i \in 1..Len(ref) : \A j \in 1..Len(ref) : i # j => ref[i].k.v # ref[j].k.v
                     ELSE \A i \in 1..Len(fs) : \/ Cardinality(KeyIdx(fs[i].f)) = 1
                                                \/ (fs[i].k \in OptKinds /\ KeyIdx(fs[i].f) = {})
      FieldOK(fld) == LET ix == KeyIdx(fld.f)
                          got == Got(obs.vout, NameCp[fld.f]) IN
                      IF ix = {} THEN got = <<>>
                      ELSE LET v == ref[CHOOSE i \in ix : TRUE].v.v IN
                           IF fld.k \in OptKinds /\ v = <<>> THEN got \in {<<>>, <<v>>} ELSE got = <<v>>
      MapOK == {<<obs.vout[i].n, obs.vout[i].v>> : i \in 1..Len(obs.vout)} = {<<ref[i].k.v, <<ref[i].v.v>>>> : i \in 1..Len(ref)}
  IN IF ~asserted THEN [ok |-> TRUE, sig |-> DecSig(scn, "unasserted")]
     ELSE IF ~DecBinding(scn, ref) THEN [ok |-> FALSE, sig |-> DecSig(scn, "harness-mismatch")]
     ELSE IF obs.de # "ok" THEN [ok |-> FALSE, sig |-> DecSig(scn, "de-err:" \o obs.errc)]
     ELSE IF scn.ty = "Map" THEN (IF MapOK THEN [ok |-> TRUE, sig |-> DecSig(scn, "ok")] ELSE [ok |-> FALSE, sig |-> DecSig(scn, "differs")])
     ELSE IF \A i \in 1..Len(fs) : FieldOK(fs[i]) THEN [ok |-> TRUE, sig |-> DecSig(scn, "ok")]
     ELSE LET i == CHOOSE i \in 1..Len(fs) : ~FieldOK(fs[i]) IN
          [ok |-> FALSE, sig |-> DecSig(scn, "differs") @@ [fld |-> fs[i].f, kind |-> fs[i].k]]

\* ------------------------------------------------------------------ iter
IterSig(out) == [mode |-> "iter", ctx |-> "query", ty |-> "Iter", out |-> out]
IterJudge(scn, obs) ==
  IF obs.de = "noreq" THEN [ok |-> TRUE, sig |-> IterSig("unasserted-no-request")] ELSE
  LET ref == RefPairs(obs.text) IN
  IF ~(WellFormed(obs.text) /\ AllUtf8(ref)) THEN [ok |-> TRUE, sig |-> IterSig("unasserted")]
  ELSE IF ~DecBinding(scn, ref) THEN [ok |-> FALSE, sig |-> IterSig("harness-mismatch")]
  ELSE IF obs.pairs = Plain(ref) THEN [ok |-> TRUE, sig |-> IterSig("ok")]
  ELSE [ok |-> FALSE, sig |-> IterSig(IF Len(obs.pairs) # Len(ref) THEN "pair-count" ELSE "differs")]

Judge(r) == IF r.obs.kind # "urlenc"
              THEN [ok |-> FALSE, sig |-> [mode |-> r.scn.mode, ty |-> r.scn.ty, out |-> r.obs.kind, where |-> r.obs.where]]
            ELSE IF r.scn.mode = "rt" THEN RtJudge(r.scn, r.obs)
            ELSE IF r.scn.mode = "dec" THEN DecJudge(r.scn, r.obs)
            ELSE IterJudge(r.scn, r.obs)

TInit == l = 1
TNext == /\ l <= Len(Rec)
         /\ l' = l + 1
         /\ LET j == Judge(Rec[l]) IN PrintT(ToJson([t |-> "VERDICT", id |-> Rec[l].id, ok |-> j.ok, sig |-> j.sig]))
TSpec == TInit /\ [][TNext]_l
=============================================================================
