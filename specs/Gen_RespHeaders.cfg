SPECIFICATION MCSpec
CONSTANTS
  DELETE_MODE = "swap-remove"
  COMPLETE_ZERO = TRUE
  STRIP_TE = TRUE
  MaxOps = 3
  SHARD = 0
  NSHARDS = 1
CHECK_DEADLOCK FALSE
