SPECIFICATION Spec
CONSTANTS
  BOUNDARY = TRUE
  RULE = "precise"
  NApps = 2
  MaxRoutes = 1
  MaxDepth = 3
  MODE = "c01"
  FANGS = FALSE
  METHODS = FALSE
  RICH = FALSE
  OVERLAP <- TrueConst
  SegStr <- SegStrA
INVARIANT Emit
CHECK_DEADLOCK FALSE
