------------------------------ MODULE RouterGen ------------------------------
(* Scenario generation for C01 / C04: applications are built item by item (every registration order is a
   different behaviour); a finished application tree is emitted together with the request set derived
   from its routes (instances, near misses at every segment, extra / missing / empty segments, trailing
   slashes, every method).  Exhaustive for the small configs, `-simulate` for the larger ones. *)
EXTENDS RouterApp, Json

CONSTANTS NApps,      \* number of applications (app k >= 2 is mounted once, inside an app with a smaller index)
          MaxRoutes,  \* route items per application
          MaxDepth,   \* segments per route / mount prefix
          MODE,       \* "c01": any tree that builds; "c04": mount prefixes exclusive (side condition of C04)
          FANGS,      \* applications may carry fangs, routes local fangs, one fang may answer early
          METHODS,    \* TRUE: method subsets of {GET, POST}; FALSE: GET only
          RICH        \* TRUE: up to two fangs per application and local fangs; FALSE: at most one, no local fangs

SegStr  == {<<"a">>, <<"b">>, <<"a", "b">>}
\* alphabet with characters that sort below the separator `/` (configs replace SegStr by it: a sibling `a-b` of `a` comes
\* before `a` in every byte order although `a-b` < `a/...`; a segment may not end with `-` or `.`)
SegStrA == {<<"a">>}                         \* one static word: room for depth 3 (two consecutive params and a continuation below them)
SegStrDash == {<<"a">>, <<"a", "-", "b">>, <<"a", ".", "b">>}
Segs    == {SSeg(w) : w \in SegStr} \cup {PSeg}
RoutesN == UNION {[1..n -> Segs] : n \in 0..MaxDepth}
MountPres == UNION {[1..n -> Segs] : n \in 0..MaxDepth}     \* <<>>: mounted at the root, `"/".By(child)`
NParams(r) == Cardinality({i \in DOMAIN r : r[i].k = "P"})
MethodSets == IF METHODS THEN {<<"GET">>, <<"POST">>, <<"GET", "POST">>} ELSE {<<"GET">>}
AppFangs(a) == IF ~FANGS THEN {<<>>} ELSE IF RICH THEN {<<>>, <<10 * a + 1>>, <<10 * a + 1, 10 * a + 2>>} ELSE {<<>>, <<10 * a + 1>>}
Locals == IF FANGS /\ RICH THEN {<<>>, <<7>>, <<7, 8>>} ELSE {<<>>}

VARIABLES apps, mountedSet, nextH, early, done
vars == <<apps, mountedSet, nextH, early, done>>

Init == /\ apps \in [1..NApps -> {[fangs |-> <<>>, items |-> <<>>]}]
        /\ mountedSet = {} /\ nextH = 1 /\ early = 0 /\ done = FALSE

Compat(x, y) == x.k = "P" \/ y.k = "P" \/ x = y
\* x lies at or below prefix pre in the same tree nodes (registration conflict) / as patterns (C04 exclusivity)
SameUnder(x, pre) == Len(x) >= Len(pre) /\ \A i \in DOMAIN pre : SameSeg(x[i], pre[i])
PatUnder(x, pre)  == Len(x) >= Len(pre) /\ \A i \in DOMAIN pre : Compat(x[i], pre[i])
\* C04 quantifies over trees in which a mount prefix is exclusive.  With greedy static-first descent that is only
\* well defined when every sibling item leaves the prefix at a position where the prefix is static (a static
\* sibling of a param prefix segment would capture paths that lie under the prefix): x diverges from pre at the
\* first differing position with static-vs-other-static or param-vs-static, or x ends above the mount point.
Diverges(x, pre) ==
  \/ \E i \in 1..(IF Len(x) < Len(pre) THEN Len(x) ELSE Len(pre)) :
        /\ \A j \in 1..(i - 1) : SameSeg(x[j], pre[j])
        /\ pre[i].k = "S" /\ (x[i].k = "P" \/ x[i] # pre[i])
  \/ (Len(x) < Len(pre) /\ \A j \in DOMAIN x : SameSeg(x[j], pre[j]))
\* OVERLAP (a cfg overrides it with TRUE, C01 only): an application may register routes of its own below the prefix at which it
\* mounts another one -- C01 quantifies over every nesting.  Excluded are the trees the framework refuses at start-up in one of
\* the two registration orders (`Conflicting route definition`: walking down from the mount point through params of both
\* sides, the route and a route of the mounted application continue with the same static segment, or they are the same path);
\* the mounted application then has routes only.  Checked on the finished tree (NoRefusal in Finish).
OVERLAP == FALSE
TrueConst == TRUE
Clash(x, pre) == IF MODE = "c04" THEN ~Diverges(x, pre) ELSE SameUnder(x, pre)
RECURSIVE StaticClash(_, _)
StaticClash(x, y) == IF x = <<>> \/ y = <<>> THEN x = y
                     ELSE IF x[1].k = "P" /\ y[1].k = "P" THEN StaticClash(Tail(x), Tail(y))
                     ELSE x[1].k = "S" /\ y[1] = x[1]
Items(a) == SeqToSet(apps[a].items)
\* full depth of params from the root is limited to 2 (documented limit of the framework)
RECURSIVE ParamsAbove(_)
ParamsAbove(a) == IF a = 1 THEN 0
                  ELSE LET par == CHOOSE j \in 1..NApps : \E it \in Items(j) : it.t = "mount" /\ it.app = a
                           it == CHOOSE it \in Items(par) : it.t = "mount" /\ it.app = a
                       IN ParamsAbove(par) + NParams(it.segs)
Placed(a) == a = 1 \/ a \in mountedSet

SetFangs(a, f) == /\ ~done /\ apps[a].fangs = <<>> /\ apps[a].items = <<>> /\ f # <<>>
                  /\ apps' = [apps EXCEPT ![a].fangs = f] /\ UNCHANGED <<mountedSet, nextH, early, done>>
AddRoute(a, r, ms, lf) ==
  /\ ~done /\ Placed(a) /\ Cardinality({it \in Items(a) : it.t = "route"}) < MaxRoutes
  /\ \A it \in Items(a) : IF it.t = "route" THEN it.segs # r ELSE (OVERLAP /\ MODE = "c01") \/ ~Clash(r, it.segs)
  /\ ParamsAbove(a) + NParams(r) =< 2
  /\ apps' = [apps EXCEPT ![a].items = Append(@, [t |-> "route", segs |-> r, methods |-> ms, local |-> lf, h |-> nextH, app |-> 0])]
  /\ nextH' = nextH + 1 /\ UNCHANGED <<mountedSet, early, done>>
\* (children are mounted as soon as declared; their own items are added afterwards, which yields the same
\*  application value as building the child first -- the harness builds recursively from the final record)
AddMount(a, pre, b) ==
  /\ ~done /\ Placed(a) /\ b > a /\ b \notin mountedSet /\ b = NApps - Cardinality(mountedSet \ {1})
  /\ \A it \in Items(a) : ((OVERLAP /\ MODE = "c01" /\ it.t = "route") \/ ~Clash(it.segs, pre)) /\ (it.t = "mount" => ~Clash(pre, it.segs))
  /\ ParamsAbove(a) + NParams(pre) =< 2
  /\ apps' = [apps EXCEPT ![a].items = Append(@, [t |-> "mount", segs |-> pre, methods |-> <<>>, local |-> <<>>, h |-> 0, app |-> b])]
  /\ mountedSet' = mountedSet \cup {b} /\ UNCHANGED <<nextH, early, done>>
UsedFangs == UNION {SeqToSet(apps[a].fangs) : a \in 1..NApps} \cup UNION {SeqToSet(it.local) : it \in UNION {Items(a) : a \in 1..NApps}}
NoRefusal == \A a \in 1..NApps : \A mt \in {it \in Items(a) : it.t = "mount"} : \A rt \in {it \in Items(a) : it.t = "route"} :
               SameUnder(rt.segs, mt.segs) =>
                  /\ \A y \in Items(mt.app) : y.t = "route" /\ ~StaticClash(SubSeq(rt.segs, Len(mt.segs) + 1, Len(rt.segs)), y.segs)
HasOverlap == \E a \in 1..NApps : \E mt \in {it \in Items(a) : it.t = "mount"} : \E rt \in {it \in Items(a) : it.t = "route"} : SameUnder(rt.segs, mt.segs)
Finish(e) == /\ ~done /\ mountedSet = 2..NApps /\ (OVERLAP => NoRefusal /\ HasOverlap)
             /\ \A a \in 1..NApps : \/ \E it \in Items(a) : it.t = "route" \/ (it.t = "mount" /\ it.segs = <<>>)   \* (a root mount leaves no room for a route)
                                    \/ (MODE = "c04" /\ a > 1 /\ apps[a].fangs # <<>>)     \* a wall: a mounted application with fangs and no route at all
             /\ (e = 0 \/ (FANGS /\ e \in UsedFangs))
             /\ early' = e /\ done' = TRUE /\ UNCHANGED <<apps, mountedSet, nextH>>

Next == \/ \E a \in 1..NApps : \E f \in AppFangs(a) : SetFangs(a, f)
        \/ \E a \in 1..NApps : \E r \in RoutesN : \E ms \in MethodSets : \E lf \in Locals : AddRoute(a, r, ms, lf)
        \/ \E a \in 1..NApps : \E pre \in MountPres : \E b \in 2..NApps : AddMount(a, pre, b)
        \/ \E e \in 0..38 : Finish(e)
Spec == Init /\ [][Next]_vars

\* ------------------------------------------------------------------------------------------ requests
InstWith(r, w) == [i \in DOMAIN r |-> IF r[i].k = "S" THEN r[i].s ELSE w]
Front1(s) == SubSeq(s, 1, Len(s) - 1)
\* "%" stands for an escaped slash (`%2F`) inside a segment: to the router the two halves and the escape are ONE segment, which no static
\* segment equals (a static segment cannot contain a slash) -- only a param can take it
JoinAt(p, i) == SubSeq(p, 1, i - 1) \o <<p[i] \o <<"%">> \o p[i + 1]>> \o SubSeq(p, i + 2, Len(p))
Perturb(p) == {p, Append(p, <<"a">>), Append(p, <<>>)}
              \cup {JoinAt(p, i) : i \in 1..(Len(p) - 1)}
              \cup (IF p = <<>> THEN {} ELSE {Front1(p)})
              \cup {[p EXCEPT ![i] = @ \o <<"a">>] : i \in DOMAIN p}
              \cup {[p EXCEPT ![i] = Front1(@)] : i \in {j \in DOMAIN p : p[j] # <<>>}}
PathsFor(ap) == LET rts == {x.route : x \in AllRoutes(ap)} \cup {mt.prefix : mt \in AllMounts(ap)} IN
                UNION {Perturb(InstWith(r, w)) : r \in rts, w \in {<<"a">>, <<"b", "b">>}} \cup {<<>>, <<<<"b">>, <<"a">>>>}
                \cup {InstWith(r, <<"b", "%", "b">>) : r \in {x \in rts : \E i \in DOMAIN x : x[i].k = "P"}}
\* (C04 also sends OPTIONS: the default handler of that method lives in a tree of its own, and the fangs of the covering applications wrap it
\*  like any other; C01 does not -- what an OPTIONS request is answered with is CORS's business, C14)
ReqMethods == IF METHODS THEN (IF MODE = "c04" THEN <<"GET", "POST", "HEAD", "PUT", "OPTIONS">> ELSE <<"GET", "POST", "HEAD", "PUT">>)
              ELSE IF MODE = "c04" THEN <<"GET", "POST", "OPTIONS">> ELSE <<"GET", "HEAD">>
\* near-miss paths get one method and one trailing-slash variant each (rotating), route instances get every method
Reqs(ap) == LET ps == SetToSeq(PathsFor(ap))
                nm == Len(ReqMethods)
                rot == {[method |-> ReqMethods[(i % nm) + 1], path |-> ps[i], trailing |-> IF ps[i] = <<>> THEN 1 ELSE (i \div nm) % 2] : i \in DOMAIN ps}
                inst == {InstWith(x.route, <<"a">>) : x \in AllRoutes(ap)}
                every == {[method |-> ReqMethods[k], path |-> p, trailing |-> IF p = <<>> THEN 1 ELSE 0] : k \in DOMAIN ReqMethods, p \in inst}
                slashes == {[method |-> "GET", path |-> p, trailing |-> t] : p \in inst, t \in {1, 2}}
            IN rot \cup every \cup slashes

SetToSeqD(S) == SetToSeq(S)
Emit == done => PrintT(ToJson([mode |-> MODE, apps |-> apps, early |-> early, reqs |-> SetToSeqD(Reqs(apps))]))
=============================================================================
