----------------------------- MODULE Trace_Fmt -----------------------------
(***************************************************************************)
(* Trace validation for C20.  Input (IOEnv.TRACE): one ndjson line per     *)
(* batch {"id","scn","obs"} recorded by `vh run fmt` from the real         *)
(* imf_fixdate / itoa / hexized / hexized_bytes.  The batch is judged      *)
(* ELEMENT BY ELEMENT here (nothing is compared on the Rust side): for     *)
(* every element the operators of Fmt say what the property allows, the    *)
(* first element outside it determines the verdict's signature             *)
(*   [kind, fn, elem (class of the input), field (what differs)].          *)
(* One VERDICT per line; the run never stops at a mismatch.                *)
(***************************************************************************)
EXTENDS Fmt, Json, IOUtils

Rec == ndJsonDeserialize(IOEnv.TRACE)

VARIABLE l
tvars == <<vars, l>>
TInit == Init /\ l = 1

DateKinds == {"days", "daylist", "secs", "ts-random"}
NumKinds  == {"num-range", "num-list", "num-random"}
MinOf(S) == CHOOSE x \in S : \A z \in S : x <= z

\* ------------------------------------------------------------------ dates
\* number of elements the batch description denotes
DateCount(scn) == CASE scn.kind = "days"    -> scn.to - scn.from + 1
                    [] scn.kind = "daylist" -> Len(scn.days)
                    [] scn.kind = "secs"    -> scn.to - scn.from + 1
                    [] OTHER                -> scn.n
DayAt(r, i) == CASE r.scn.kind = "days"    -> r.scn.from + i - 1
                 [] r.scn.kind = "daylist" -> r.scn.days[i]
                 [] r.scn.kind = "secs"    -> r.scn.day
                 [] OTHER                  -> r.obs.day[i]
SodAt(r, i) == CASE r.scn.kind = "days"    -> r.scn.sod
                 [] r.scn.kind = "daylist" -> r.scn.sod
                 [] r.scn.kind = "secs"    -> r.scn.from + i - 1
                 [] OTHER                  -> r.obs.sod[i]

\* the observed date / time of element i as the machine's records (only called when the names are known)
MonthNo(name) == CHOOSE k \in 1..12 : MonthName[k] = name
WeekdayNo(name) == CHOOSE k \in 0..6 : WeekdayName[k + 1] = name
KnownNames(o, i) == (\E k \in 1..12 : MonthName[k] = o.mon[i]) /\ (\E k \in 1..7 : WeekdayName[k] = o.wd[i])
ObsDate(o, i) == [y |-> o.yy[i], m |-> MonthNo(o.mon[i]), d |-> o.dd[i], wd |-> WeekdayNo(o.wd[i])]
ObsClock(o, i) == [h |-> o.hh[i], mi |-> o.mi[i], s |-> o.ss[i]]

\* "" when element i is what the property allows, else the name of the first field that is not
DateField(r, i) ==
  LET o == r.obs
      dn == DayAt(r, i)
      sd == SodAt(r, i)
  IN IF ~(dn \in 0..2932896 /\ sd \in 0..86399) THEN "input-out-of-range"
     ELSE LET e == ImfFields(dn, sd) IN
     IF o.len[i] = -1 THEN "panic"
     ELSE IF o.len[i] # ImfLen THEN "length"
     ELSE IF o.frame[i] # ImfFrame THEN "frame"
     ELSE IF o.wd[i] # e.wd THEN "weekday"
     ELSE IF o.dd[i] # e.dd THEN "day"
     ELSE IF o.mon[i] # e.mon THEN "month"
     ELSE IF o.yy[i] # e.yy THEN "year"
     ELSE IF o.hh[i] # e.hh THEN "hour"
     ELSE IF o.mi[i] # e.mi THEN "minute"
     ELSE IF o.ss[i] # e.ss THEN "second"
     ELSE IF r.scn.full = 1 /\ o.chars[i] # ImfBytes(dn, sd) THEN "bytes"
     \* the second formulation on the observations themselves: consecutive outputs are a behaviour of the machines
     \* (a predecessor with unknown names is itself an earlier failing element, and only the first one is reported)
     ELSE IF r.scn.kind = "days" /\ i > 1 /\ KnownNames(o, i - 1) /\ ObsDate(o, i) # StepDate(ObsDate(o, i - 1)) THEN "successor"
     ELSE IF r.scn.kind = "secs" /\ i > 1 /\ ObsClock(o, i) # StepClock(ObsClock(o, i - 1)) THEN "successor"
     ELSE ""

\* irregular elements (month/year boundaries, leap days, hour roll-overs), counted on observations already found exact
IrregularObs(o, i) == \/ (o.mon[i] = "Feb" /\ o.dd[i] >= 28) \/ (o.mon[i] = "Mar" /\ o.dd[i] = 1)
                      \/ (o.mon[i] = "Dec" /\ o.dd[i] = 31) \/ (o.mon[i] = "Jan" /\ o.dd[i] = 1)
                      \/ (o.mi[i] = 0 /\ o.ss[i] = 0) \/ (o.mi[i] = 59 /\ o.ss[i] = 59)
TimeFields == {"hour", "minute", "second"}
\* every column has one entry per element (a malformed observation is rejected, it does not stop the run)
DateShape(r, n) == LET o == r.obs IN
  /\ Len(o.wd) = n /\ Len(o.dd) = n /\ Len(o.mon) = n /\ Len(o.yy) = n /\ Len(o.hh) = n /\ Len(o.mi) = n /\ Len(o.ss) = n
  /\ Len(o.len) = n /\ Len(o.frame) = n /\ (r.scn.full = 1 => Len(o.chars) = n)
  /\ (r.scn.kind = "ts-random" => (Len(o.day) = n /\ Len(o.sod) = n))
JudgeDates(r) ==
  LET n == IF DateShape(r, r.obs.n) THEN r.obs.n ELSE -1
      want == DateCount(r.scn)
      bad == IF n = want THEN {i \in 1..n : DateField(r, i) # ""} ELSE {}
  IN IF n # want THEN [ok |-> FALSE, n |-> 0, first |-> 0, nt |-> 0, skip |-> 0,
                       sig |-> [kind |-> r.scn.kind, fn |-> "imf_fixdate", elem |-> "batch", field |-> "count"]]
     ELSE IF bad = {} THEN [ok |-> TRUE, n |-> n, first |-> 0, skip |-> 0,
                            nt |-> Cardinality({i \in 1..n : IrregularObs(r.obs, i)}),
                            sig |-> [kind |-> r.scn.kind, fn |-> "imf_fixdate", elem |-> "all", field |-> "none"]]
     ELSE LET i == MinOf(bad)
              f == DateField(r, i)
              c == CivilFromDays(DayAt(r, i))
          IN [ok |-> FALSE, n |-> n, first |-> i, nt |-> 0, skip |-> 0,
              sig |-> [kind |-> r.scn.kind, fn |-> "imf_fixdate", field |-> f,
                       elem |-> IF f = "input-out-of-range" THEN "none"
                                ELSE IF f \in TimeFields THEN ClockClass(SodAt(r, i))
                                ELSE YearClass(c.y) \o "/" \o DateClass(c)]]

\* ------------------------------------------------------------------ numbers
NumCount(scn) == CASE scn.kind = "num-range" -> scn.to - scn.from + 1
                   [] scn.kind = "num-list"  -> Len(scn.vals)
                   [] OTHER                  -> scn.n
LimbsAt(r, i) == CASE r.scn.kind = "num-range" -> LimbsOfInt(r.scn.from + i - 1)
                   [] r.scn.kind = "num-list"  -> r.scn.vals[i]
                   [] OTHER                    -> r.obs.vals[i]
Vals(bs, F(_)) == [k \in 1..Len(bs) |-> F(bs[k])]

DecField(L, bs) ==
  LET ds == Vals(bs, DecVal) IN
  IF bs = <<-1>> THEN "panic"
  ELSE IF bs = <<>> THEN "empty"
  ELSE IF \E k \in 1..Len(ds) : ds[k] = -1 THEN "non-digit"
  ELSE IF ~Canonical(ds) THEN "leading-zero"
  ELSE IF bs # DecBytes(L) THEN "value"                                   \* long division of the limbs
  ELSE IF DecToLimbs(ds) # [ok |-> TRUE, limbs |-> L] THEN "value"         \* Horner evaluation of the output
  ELSE ""
\* hexized / hexized_bytes return [u8; 2*size_of::<usize>()] = 16 digits, left-padded with '0'; their callers (the
\* chunk-size writer in ohkami/src/response/mod.rs, the crate's own test) strip the padding.  Allowed: exactly the 16
\* lower-case nibbles of n (formulation 1: nibble extraction from the limbs); and the stripped output - what reaches
\* the wire - is a canonical digit string that denotes n (formulation 2: Horner evaluation).  A canonical lower-case
\* digit string denoting n is THE canonical hexadecimal of n (= HexCanonBytes(L), which MC_Fmt ties to the odometer).
HexField(L, bs) ==
  LET ds == Vals(bs, HexVal) IN
  IF bs = <<-1>> THEN "panic"
  ELSE IF Len(bs) # 16 THEN "width"
  ELSE IF \E k \in 1..16 : ds[k] = -1 THEN (IF \E k \in 1..16 : bs[k] \in 65..70 THEN "upper-case" ELSE "non-digit")
  ELSE IF bs # HexFixedBytes(L) THEN "value"
  ELSE LET cs == Strip(ds, 0) IN
       IF ~Canonical(cs) THEN "canonical"
       ELSE IF HexToLimbs(cs) # [ok |-> TRUE, limbs |-> L] THEN "value"
       ELSE ""
NumField(r, i) ==
  LET L == LimbsAt(r, i) IN
  IF ~IsLimbs(L) THEN "input-out-of-range"
  ELSE IF r.scn.fn = "itoa" THEN DecField(L, r.obs.out[i]) ELSE HexField(L, r.obs.out[i])

Base(fn) == IF fn = "itoa" THEN 10 ELSE 16
NumClass(fn, L) == LET ds == IF fn = "itoa" THEN LimbsToDec(L) ELSE LimbsToHex(L)
                   IN DigitClass(ds, Base(fn) - 1) \o "/" \o ToString(Len(ds)) \o "-digits"
NumShape(r, n) == Len(r.obs.out) = n /\ (r.scn.kind = "num-random" => Len(r.obs.vals) = n)
JudgeNums(r) ==
  LET n == IF NumShape(r, r.obs.n) THEN r.obs.n ELSE -1
      want == NumCount(r.scn)
      fn == r.scn.fn
      bad == IF n = want THEN {i \in 1..n : NumField(r, i) # ""} ELSE {}
  IN IF n # want \/ fn \notin {"itoa", "hexized", "hexized_bytes"}
       THEN [ok |-> FALSE, n |-> 0, first |-> 0, nt |-> 0, skip |-> 0, sig |-> [kind |-> r.scn.kind, fn |-> fn, elem |-> "batch", field |-> "count"]]
     ELSE IF bad = {} THEN [ok |-> TRUE, n |-> n, first |-> 0, skip |-> 0,
                            nt |-> Cardinality({i \in 1..n : IrregularNum(LimbsAt(r, i), Base(fn))}),
                            sig |-> [kind |-> r.scn.kind, fn |-> fn, elem |-> "all", field |-> "none"]]
     ELSE LET i == MinOf(bad)
              f == NumField(r, i)
          IN [ok |-> FALSE, n |-> n, first |-> i, nt |-> 0, skip |-> 0,
              sig |-> [kind |-> r.scn.kind, fn |-> fn, field |-> f,
                       elem |-> IF f = "input-out-of-range" THEN "none" ELSE NumClass(fn, LimbsAt(r, i))]]

\* ------------------------------------------------------------------ the same formatters observed on the wire
\* wire-cl: a real Response::OK().with_text(<size bytes>) written by the real Response::send.  Content-Length must be
\* the canonical decimal of the size.  The Date header cannot be compared with a chosen instant (it is `now`); it must
\* be a well-formed IMF-fixdate of an existing instant whose weekday belongs to its date (closed forms, both
\* directions), lying between the harness's own clock readings around the construction (2 s slack).
WireKinds == {"wire-cl", "wire-chunk"}
WireDateField(o, i) ==
  IF o.len[i] # ImfLen THEN "date-length"
  ELSE IF o.frame[i] # ImfFrame THEN "date-frame"
  ELSE IF ~KnownNames(o, i) THEN "date-names"
  ELSE LET c == ObsDate(o, i) IN
       IF ~(c.y \in 1970..9999 /\ c.d \in 1..DaysIn(c.y, c.m) /\ o.hh[i] \in 0..23 /\ o.mi[i] \in 0..59 /\ o.ss[i] \in 0..59)
         THEN "date-range"
       ELSE LET dn == DaysFromCivil(c.y, c.m, c.d)
                Rel(dd, sd) == (dd - o.t0day[i]) * 86400 + sd
                t == Rel(dn, 3600 * o.hh[i] + 60 * o.mi[i] + o.ss[i])
            IN IF CivilFromDays(dn) # c THEN "date-weekday"
               ELSE IF (dn - o.t0day[i]) \notin -1..1 \/ (o.t1day[i] - o.t0day[i]) \notin 0..1 THEN "date-not-now"
               ELSE IF t < Rel(o.t0day[i], o.t0sod[i]) - 2 \/ t > Rel(o.t1day[i], o.t1sod[i]) + 2 THEN "date-not-now"
               ELSE ""
\* wire-chunk: a real one-message event stream.  The chunk-size line (hexized_bytes, padding stripped by the writer)
\* must be the canonical lower-case hexadecimal of the number of bytes that follow up to the chunk's closing CRLF
\* (counted by the harness from both ends of the body, independently of the size line).
ChunkField(L, bs) ==
  LET ds == Vals(bs, HexVal) IN
  IF bs = <<>> THEN "empty"
  ELSE IF \E k \in 1..Len(ds) : ds[k] = -1 THEN (IF \E k \in 1..Len(bs) : bs[k] \in 65..70 THEN "upper-case" ELSE "non-digit")
  ELSE IF ~Canonical(ds) THEN "leading-zero"
  ELSE IF bs # HexCanonBytes(L) THEN "value"
  ELSE IF HexToLimbs(ds) # [ok |-> TRUE, limbs |-> L] THEN "value"
  ELSE ""
\* "unobservable": the response could not be cut into head / single chunk by the harness (a framing matter of C03/C17,
\* not of the formatters): counted as skipped, reported by the driver as a NOTE, never a violation of C20
WireField(r, i) ==
  LET o == r.obs IN
  IF o.err[i] = "panic" THEN "panic"
  ELSE IF o.err[i] # "" THEN "unobservable"
  ELSE IF r.scn.kind = "wire-cl"
         THEN LET f == DecField(LimbsOfInt(r.scn.sizes[i]), o.out[i]) IN IF f # "" THEN f ELSE WireDateField(o, i)
         ELSE ChunkField(LimbsOfInt(o.follow[i]), o.out[i])
WireShape(r, n) == LET o == r.obs IN
  /\ Len(o.out) = n /\ Len(o.err) = n
  /\ (r.scn.kind = "wire-cl" => /\ Len(o.wd) = n /\ Len(o.dd) = n /\ Len(o.mon) = n /\ Len(o.yy) = n /\ Len(o.hh) = n /\ Len(o.mi) = n
                                 /\ Len(o.ss) = n /\ Len(o.len) = n /\ Len(o.frame) = n
                                 /\ Len(o.t0day) = n /\ Len(o.t0sod) = n /\ Len(o.t1day) = n /\ Len(o.t1sod) = n)
  /\ (r.scn.kind = "wire-chunk" => Len(o.follow) = n)
JudgeWire(r) ==
  LET n == IF WireShape(r, r.obs.n) THEN r.obs.n ELSE -1
      fn == IF r.scn.kind = "wire-cl" THEN "itoa+imf_fixdate" ELSE "hexized_bytes"
      SizeAt(i) == IF r.scn.kind = "wire-cl" THEN r.scn.sizes[i] ELSE r.obs.follow[i]
      bad == IF n = Len(r.scn.sizes) THEN {i \in 1..n : WireField(r, i) \notin {"", "unobservable"}} ELSE {}
      skipped == IF n = Len(r.scn.sizes) THEN Cardinality({i \in 1..n : WireField(r, i) = "unobservable"}) ELSE 0
  IN IF n # Len(r.scn.sizes) \/ \E i \in 1..Len(r.scn.sizes) : r.scn.sizes[i] \notin 0..2000000000
       THEN [ok |-> FALSE, n |-> 0, first |-> 0, nt |-> 0, skip |-> 0, sig |-> [kind |-> r.scn.kind, fn |-> fn, elem |-> "batch", field |-> "count"]]
     ELSE IF bad = {} THEN [ok |-> TRUE, n |-> n - skipped, first |-> 0, skip |-> skipped,
                            nt |-> Cardinality({i \in 1..n : WireField(r, i) = "" /\ IrregularNum(LimbsOfInt(SizeAt(i)), IF r.scn.kind = "wire-cl" THEN 10 ELSE 16)}),
                            sig |-> [kind |-> r.scn.kind, fn |-> fn, elem |-> "all", field |-> "none"]]
     ELSE LET i == MinOf(bad)
          IN [ok |-> FALSE, n |-> n, first |-> i, nt |-> 0, skip |-> skipped,
              sig |-> [kind |-> r.scn.kind, fn |-> fn, field |-> WireField(r, i),
                       elem |-> NumClass(IF r.scn.kind = "wire-cl" THEN "itoa" ELSE "hexized", LimbsOfInt(SizeAt(i)))]]

\* ------------------------------------------------------------------ one verdict per line
Judge(r) ==
  IF r.obs.kind = "dates" /\ r.scn.kind \in DateKinds THEN JudgeDates(r)
  ELSE IF r.obs.kind = "nums" /\ r.scn.kind \in NumKinds THEN JudgeNums(r)
  ELSE IF r.obs.kind = "wire" /\ r.scn.kind \in WireKinds THEN JudgeWire(r)
  \* panic / abort / hang of the worker (the whole batch is lost), or an observation of the wrong shape.  The driver
  \* re-runs such a batch element by element; for a one-element batch the signature names the element's class.
  ELSE [ok |-> FALSE, n |-> 0, first |-> 0, nt |-> 0, skip |-> 0,
        sig |-> [kind |-> r.scn.kind, fn |-> IF r.scn.kind \in NumKinds THEN r.scn.fn ELSE "any", field |-> r.obs.kind,
                 elem |-> IF r.scn.kind \in {"days", "daylist", "secs"} /\ DateCount(r.scn) = 1
                               /\ DayAt(r, 1) \in 0..2932896 /\ SodAt(r, 1) \in 0..86399
                            THEN LET c == CivilFromDays(DayAt(r, 1)) IN YearClass(c.y) \o "/" \o DateClass(c) \o "/" \o ClockClass(SodAt(r, 1))
                          ELSE IF r.scn.kind \in {"num-range", "num-list"} /\ NumCount(r.scn) = 1 /\ IsLimbs(LimbsAt(r, 1))
                            THEN NumClass(r.scn.fn, LimbsAt(r, 1))
                          ELSE "batch"]]

TNext == /\ l <= Len(Rec) /\ l' = l + 1 /\ UNCHANGED vars
         /\ LET j == Judge(Rec[l])
            IN PrintT(ToJson([t |-> "VERDICT", id |-> Rec[l].id, ok |-> j.ok, n |-> j.n, first |-> j.first, nt |-> j.nt, skip |-> j.skip, sig |-> j.sig]))
TSpec == TInit /\ [][TNext]_tvars
=============================================================================
