-------------------------------- MODULE Auth --------------------------------
(***************************************************************************)
(* C12 (JWT fang) and C13 (BasicAuth fang), symbolic (Dolev-Yao style).    *)
(*                                                                         *)
(* Layer (a): AllowedBasic / JwtClass state what the property texts allow, *)
(*   over FACTS about a request, never over bytes: which key and algorithm *)
(*   produced the MAC, what the header names, how the time claims relate   *)
(*   to now, which mutation was applied to the issued token, how the token *)
(*   travels.  Where the text leaves a choice the class is "free".         *)
(* Layer (b): ImplBasic / ImplJwt follow basicauth.rs / jwt.rs function by *)
(*   function; BasicRefines / JwtRefines say that the mechanism stays      *)
(*   inside (a) except for NAMED deviations (MC_Auth checks that the list  *)
(*   is complete for every row of the tables).                             *)
(* The harness (harness/src/auth.rs) turns a row into real bytes (real     *)
(* HMAC-SHA2, base64, JSON, UTF-8), expands position-quantified mutations  *)
(* into every position, and reports what the real fang did.                *)
(***************************************************************************)
EXTENDS Naturals, Sequences, FiniteSets

(***************************************************************************)
(*                              C13  BasicAuth                             *)
(* A credential is a sequence of character tokens; the harness maps each   *)
(* token injectively to one character ("c2"/"c3"/"c4": a 2/3/4-byte UTF-8  *)
(* character, "A": the upper case of "a", "sp": a space).                  *)
(* scenario: pairs = <<[u, p], ..>>, hdr = [kind, cred]                     *)
(***************************************************************************)
ByteLen1(t) == CASE t = "c2" -> 2 [] t = "c3" -> 3 [] t = "c4" -> 4 [] OTHER -> 1
RECURSIVE ByteLen(_)
ByteLen(c) == IF Len(c) = 0 THEN 0 ELSE ByteLen1(Head(c)) + ByteLen(Tail(c))

CredOf(pr) == pr.u \o <<":">> \o pr.p
\* "the base64 of `user:password` for one of the configured pairs exactly"
CredOK(pairs, c) == \E i \in 1..Len(pairs) : c = CredOf(pairs[i])

\* does the base64 text of this credential end in padding / unused trailing bits?
Padded(h) == ByteLen(h.cred) % 3 # 0

\* How the header spells `Basic <base64(cred)>`:
\*  exact   - literally "Basic " followed by the canonical base64 of the credential
\*  lenient - spellings RFC 7235 treats as the same credentials (scheme case, several spaces): the property text
\*            says `Basic `; an implementation may accept them or not, both are left free
\*  other   - anything else (other scheme, no header, not base64, not canonical base64, not UTF-8, trailing bytes ..)
BasicSpelling(h) ==
  CASE h.kind = "basic" -> "exact"
    [] h.kind \in {"nopad", "noncanon"} -> IF Padded(h) THEN "other" ELSE "exact"   \* identical text when nothing to strip / alter
    [] h.kind \in {"lower", "upper", "twospace"} -> "lenient"
    [] OTHER -> "other"

\* outcomes: "ran" = the protected handler ran; "challenge" = not run, 401, WWW-Authenticate starting with Basic;
\* "bad-request" = not run, 400: allowed only for a header value that is not text at all (raw non-UTF-8 bytes in the
\* field value): the HTTP layer may refuse such a request before any fang sees it (C02), the fang may also challenge it
AllowedBasic(pairs, h) ==
  LET sp == BasicSpelling(h) IN
  IF h.kind = "rawff" THEN {"challenge", "bad-request"}
  ELSE IF CredOK(pairs, h.cred) /\ sp = "exact" THEN {"ran"}
  ELSE IF CredOK(pairs, h.cred) /\ sp = "lenient" THEN {"ran", "challenge"}
  ELSE {"challenge"}

\* ---- layer (b): basicauth.rs -------------------------------------------------------------------------------------
\* basic_credential_of: headers.Authorization() [expects UTF-8], strip_prefix("Basic "), STANDARD.decode (canonical
\* padding and trailing bits required), String::from_utf8 [the error mapper indexes as_bytes()[valid_up_to + 1]]
ImplBasicDecode(h) ==
  CASE h.kind = "rawff" -> [t |-> "panic"]
    [] h.kind = "basic" -> [t |-> "some", cred |-> h.cred]
    [] h.kind \in {"nopad", "noncanon"} -> IF Padded(h) THEN [t |-> "none"] ELSE [t |-> "some", cred |-> h.cred]
    [] h.kind \in {"nonutf8_last", "nonutf8_trunc"} -> [t |-> "panic"]
    [] OTHER -> [t |-> "none"]

FirstColon(c) == IF \E i \in 1..Len(c) : c[i] = ":"
                   THEN CHOOSE i \in 1..Len(c) : c[i] = ":" /\ \A j \in 1..(i - 1) : c[j] # ":"
                   ELSE 0
\* fore(): split_once(':'), any(candidate.matches(username, password))
ImplBasic(pairs, h) ==
  LET d == ImplBasicDecode(h) IN
  IF d.t = "panic" THEN "panic" ELSE IF d.t = "none" THEN "challenge" ELSE
  LET k == FirstColon(d.cred) IN
  IF k = 0 THEN "challenge" ELSE
  LET u == SubSeq(d.cred, 1, k - 1)
      p == SubSeq(d.cred, k + 1, Len(d.cred)) IN
  IF \E i \in 1..Len(pairs) : pairs[i].u = u /\ pairs[i].p = p THEN "ran" ELSE "challenge"

BasicDeviation(h) == IF h.kind \in {"nonutf8_last", "nonutf8_trunc"} THEN "utf8-error-index"
                     ELSE IF h.kind = "rawff" THEN "header-accessor" ELSE "none"
KnownBasicDeviations == {"utf8-error-index", "header-accessor"}
BasicRefines(pairs, h) == ImplBasic(pairs, h) \in AllowedBasic(pairs, h) \/ BasicDeviation(h) \in KnownBasicDeviations
\* the property quantifies over user names without ':' (RFC 7617); the first-colon split is only then the inverse of u:p
NoColonInUsers(pairs) == \A i \in 1..Len(pairs) : \A j \in 1..Len(pairs[i].u) : pairs[i].u[j] # ":"

(***************************************************************************)
(*                                C12  JWT                                 *)
(* scenario: cfg = [alg, key, getter, ptype, mount]                         *)
(*           tok = [skey, salg, halg, typ, cty, hshape, exp, nbf, iat,      *)
(*                  pay, mut, via, method]                                  *)
(*  skey   relation of the signing key to the configured one               *)
(*  salg   the HMAC actually used over header.payload                      *)
(*  halg   what the header's "alg" says; typ / cty / hshape: rest of it    *)
(*  exp/nbf/iat  kind of the claim value (relation to now, representation) *)
(*  pay    payload shape; mut: mutation of the token string; via: transport *)
(***************************************************************************)
Algs       == {"HS256", "HS384", "HS512"}
SKeys      == {"same", "other", "near", "empty"}
HAlgs      == Algs \cup {"none", "absent", "lower", "space", "num", "null", "arr"}
Typs       == {"JWT", "absent", "jwt", "other", "num"}
Ctys       == {"absent", "JWT", "other"}
HShapes    == {"issue", "algfirst", "extra", "ws"}
ClaimKinds == {"absent", "past", "future", "pastf", "futuref", "neg", "big", "str", "null", "junk"}
Pays       == {"obj", "nested", "arr", "str", "num", "notjson", "empty"}
PosMuts    == {"flip1", "flip2", "flip3", "del1", "del2", "del3", "ins1", "ins2", "ins3",    \* at EVERY position of part p
               "flipall1", "flipall2", "flipall3"}                                          \* .. with EVERY other symbol
Muts       == {"none"} \cup PosMuts \cup {"trunc", "extra", "siglen", "sigstd", "sigpad", "sigbits", "parts", "garbage"}
Vias       == {"std", "nohdr", "wronghdr", "basic", "token", "lcscheme", "ucscheme", "nospace", "twospace", "tab", "rawff"}
Methods    == {"GET", "POST", "HEAD", "OPTIONS"}

\* relation of a claim value to the current time (values within an hour of now are never generated)
ClaimRel(k) == CASE k = "absent" -> "none"
                 [] k \in {"past", "pastf", "neg"} -> "before"      \* integer, non-integer number, negative number
                 \* "lapsed" (exp only): a moment after the token was made and before it is presented -- the client has exchanged a request with
                 \* the server, stays idle for more than two seconds, and then presents the token one second after its `exp`
                 [] k = "lapsed" -> "before"
                 [] k \in {"future", "futuref", "big"} -> "after"   \* integer, non-integer number, number >= 2^64
                 [] OTHER -> "malformed"                            \* not a JSON number: the text does not say
\* Does the claim admit the current time?  "yes" only for an absent claim or a plain non-negative integer on the right
\* side of now; "no" for any JSON number on the wrong side; "unspecified" for a number on the right side that is not a
\* plain integer below 2^64 (an implementation may refuse it as malformed) and for values that are not numbers.
Plain(k) == k \in {"past", "future", "lapsed"}
ExpAdmits(k)    == CASE ClaimRel(k) = "none" -> "yes" [] ClaimRel(k) = "before" -> "no"
                     [] ClaimRel(k) = "after" -> (IF Plain(k) THEN "yes" ELSE "unspecified") [] OTHER -> "unspecified"
NotYetAdmits(k) == CASE ClaimRel(k) = "none" -> "yes" [] ClaimRel(k) = "after" -> "no"
                     [] ClaimRel(k) = "before" -> (IF Plain(k) THEN "yes" ELSE "unspecified") [] OTHER -> "unspecified"
HasClaims(tok)  == tok.pay \in {"obj", "nested"}      \* the harness writes claims into object payloads only
ClaimVerdicts(tok) == IF HasClaims(tok) THEN {ExpAdmits(tok.exp), NotYetAdmits(tok.nbf), NotYetAdmits(tok.iat)} ELSE {"yes"}

\* "whose signature is the HMAC, under the configured secret and algorithm, of its header and payload parts"
SigOK(cfg, tok) == tok.skey = "same" /\ tok.salg = cfg.alg
\* "whose header names that algorithm" (a lower-case spelling of the right name is left free)
AlgClass(cfg, tok) == IF tok.halg = cfg.alg THEN "ok" ELSE IF tok.halg = "lower" THEN "lenient" ELSE "bad"
\* the token reaches the fang where the configuration looks for it
ViaClass(cfg, tok) == IF tok.via = "std" THEN "ok"
                      ELSE IF cfg.getter = "default" /\ tok.via \in {"lcscheme", "ucscheme", "twospace"} THEN "lenient"
                      ELSE "bad"
PayloadIsJSON(tok) == tok.pay \notin {"notjson", "empty"}
\* can the handler's payload type hold the signed payload?  "value": any JSON; "typed": a struct {sub, n and
\* optional exp/nbf/iat: u64} - unknown fields are ignored by serde, `null` is an absent option
Decodable(cfg, tok) == /\ PayloadIsJSON(tok)
                       /\ \/ cfg.ptype = "value"
                          \/ HasClaims(tok) /\ \A c \in {tok.exp, tok.nbf, tok.iat} : c \in {"absent", "past", "future", "null", "lapsed"}
\* could `issue` of this configuration have written the payload?  (a struct never writes fields it does not have)
IssuablePayload(cfg, tok) == cfg.ptype = "value" \/ tok.pay = "obj"
\* header exactly as `issue` writes it for this configuration
IssuedHeader(cfg, tok) == tok.hshape = "issue" /\ tok.typ = "JWT" /\ tok.cty = "absent" /\ tok.halg = cfg.alg

\* every fact that, by the property text, obliges the fang to refuse (each one suffices)
Refusal(cfg, tok) ==
       (IF ViaClass(cfg, tok) = "bad" THEN {"via=" \o tok.via} ELSE {})
  \cup (IF tok.mut # "none" THEN {"mut=" \o tok.mut} ELSE {})
  \cup (IF tok.skey # "same" THEN {"key=" \o tok.skey} ELSE {})
  \cup (IF tok.salg # cfg.alg THEN {"mac=" \o tok.salg} ELSE {})
  \cup (IF AlgClass(cfg, tok) = "bad" THEN {"alg=" \o tok.halg} ELSE {})
  \cup (IF ~PayloadIsJSON(tok) THEN {"pay=" \o tok.pay} ELSE IF ~Decodable(cfg, tok) THEN {"pay=undecodable"} ELSE {})
  \cup (IF HasClaims(tok) /\ ExpAdmits(tok.exp) = "no" THEN {"exp=" \o tok.exp} ELSE {})
  \cup (IF HasClaims(tok) /\ NotYetAdmits(tok.nbf) = "no" THEN {"nbf=" \o tok.nbf} ELSE {})
  \cup (IF HasClaims(tok) /\ NotYetAdmits(tok.iat) = "no" THEN {"iat=" \o tok.iat} ELSE {})

\* facts on which the text is silent or ambiguous: a correctly MACed token that `issue` would not have written
\* byte for byte (other header layout, typ/cty variations), lenient spellings, malformed claim values
Unspecified(cfg, tok) == \/ ViaClass(cfg, tok) = "lenient" \/ AlgClass(cfg, tok) = "lenient"
                         \/ "unspecified" \in ClaimVerdicts(tok) \/ ~IssuedHeader(cfg, tok) \/ ~IssuablePayload(cfg, tok)

\* admit  - an issued, untouched, currently valid token: the handler runs and sees exactly the signed payload
\* refuse - the handler does not run and the response is an error response (which status: free)
\* free   - either of the two (if the handler runs it still sees exactly the signed payload)
\* norun  - OPTIONS: the fang answers by itself, the only obligation is that the handler does not run
JwtClass(cfg, tok) == IF tok.method = "OPTIONS" THEN "norun"
                      ELSE IF Refusal(cfg, tok) # {} THEN "refuse"
                      ELSE IF Unspecified(cfg, tok) THEN "free" ELSE "admit"
JwtAllowed(class) == CASE class = "admit" -> {"ran"} [] class = "refuse" -> {"err"}
                       [] class = "free" -> {"ran", "err"} [] class = "norun" -> {"err", "noerr"}

\* One row stands for n concrete requests (every position, every representative); the observation counts outcomes:
\* ran_same (ran, saw exactly the signed payload), ran_diff, err (not run, status >= 400), noerr (not run, < 400), panic
JwtObsOK(class, o) == CASE class = "admit"  -> o.ran_same = o.n
                        [] class = "refuse" -> o.err = o.n
                        [] class = "free"   -> o.ran_same + o.err = o.n
                        [] class = "norun"  -> o.err + o.noerr = o.n
                        [] OTHER -> FALSE
JwtOutcome(class, o) == IF o.panic > 0 THEN "panic"
                        ELSE IF o.ran_diff > 0 THEN "ran-with-other-payload"
                        ELSE IF class \in {"refuse", "norun"} /\ o.ran_same > 0 THEN "ran"
                        ELSE IF class # "norun" /\ o.noerr > 0 THEN "no-error-status"
                        ELSE IF class = "admit" /\ o.err > 0 THEN "refused"
                        ELSE "ok"

\* first reason in a fixed order (transport, mutation, key, MAC algorithm, header alg, payload, exp, nbf, iat)
WhyOrder == <<"via", "mut", "key", "mac", "alg", "pay", "exp", "nbf", "iat">>
ReasonOf(cfg, tok, cat) ==
  CASE cat = "via" -> IF ViaClass(cfg, tok) = "bad" THEN "via=" \o tok.via ELSE ""
    [] cat = "mut" -> IF tok.mut # "none" THEN "mut=" \o tok.mut ELSE ""
    [] cat = "key" -> IF tok.skey # "same" THEN "key=" \o tok.skey ELSE ""
    [] cat = "mac" -> IF tok.salg # cfg.alg THEN "mac=" \o tok.salg ELSE ""
    [] cat = "alg" -> IF AlgClass(cfg, tok) = "bad" THEN "alg=" \o tok.halg ELSE ""
    [] cat = "pay" -> IF ~PayloadIsJSON(tok) THEN "pay=" \o tok.pay ELSE IF ~Decodable(cfg, tok) THEN "pay=undecodable" ELSE ""
    [] cat = "exp" -> IF HasClaims(tok) /\ ExpAdmits(tok.exp) = "no" THEN "exp=" \o tok.exp ELSE ""
    [] cat = "nbf" -> IF HasClaims(tok) /\ NotYetAdmits(tok.nbf) = "no" THEN "nbf=" \o tok.nbf ELSE ""
    [] cat = "iat" -> IF HasClaims(tok) /\ NotYetAdmits(tok.iat) = "no" THEN "iat=" \o tok.iat ELSE ""
FirstWhy(cfg, tok) == IF \E i \in 1..Len(WhyOrder) : ReasonOf(cfg, tok, WhyOrder[i]) # ""
                        THEN ReasonOf(cfg, tok, WhyOrder[CHOOSE i \in 1..Len(WhyOrder) :
                                 ReasonOf(cfg, tok, WhyOrder[i]) # "" /\ \A j \in 1..(i - 1) : ReasonOf(cfg, tok, WhyOrder[j]) = ""])
                        ELSE "-"

\* ---- layer (b): jwt.rs `verified` -------------------------------------------------------------------------------
U64(k) == k \in {"past", "future", "lapsed"}     \* serde_json `as_u64()` is Some(..) only for non-negative integers below 2^64
ImplJwt(cfg, tok) ==
  IF tok.method = "OPTIONS" THEN "noerr"                                  \* Err(Response::OK()) before anything else
  ELSE IF tok.via = "rawff" THEN "panic"                                  \* header accessor expects UTF-8
  ELSE IF tok.via # "std" THEN "err"                                      \* get_token: None, or a first part that is not base64url
  ELSE IF tok.mut \notin {"none", "extra"} THEN "err"                     \* some step below fails for every variant
  ELSE IF tok.typ \in {"other", "num"} THEN "err"                         \* typ present and not (case-insensitively) JWT
  ELSE IF tok.cty = "other" THEN "err"
  ELSE IF tok.halg # cfg.alg THEN "err"                                   \* absent: 401, different value: 400
  ELSE IF ~PayloadIsJSON(tok) THEN "err"
  ELSE IF HasClaims(tok) /\ U64(tok.nbf) /\ tok.nbf = "future" THEN "err" \* as_u64().unwrap_or(0) > now
  ELSE IF HasClaims(tok) /\ U64(tok.exp) /\ tok.exp \in {"past", "lapsed"} THEN "err"   \* as_u64().unwrap_or(u64::MAX) <= now
  ELSE IF HasClaims(tok) /\ U64(tok.iat) /\ tok.iat = "future" THEN "err"
  ELSE IF ~SigOK(cfg, tok) THEN "err"                                     \* third element of split('.') compared; a fourth is never looked at
  ELSE IF ~Decodable(cfg, tok) THEN "err"                                 \* from_value fails: 500
  ELSE "ran"

NonU64Miss(tok) == /\ HasClaims(tok)
                   /\ \/ ExpAdmits(tok.exp) = "no" /\ ~U64(tok.exp)
                      \/ NotYetAdmits(tok.nbf) = "no" /\ ~U64(tok.nbf)
                      \/ NotYetAdmits(tok.iat) = "no" /\ ~U64(tok.iat)
JwtDeviation(cfg, tok) ==
  IF tok.method = "OPTIONS" THEN "none"
  ELSE IF tok.via = "rawff" THEN "header-accessor"
  ELSE IF tok.mut = "extra" /\ NonU64Miss(tok) THEN "extra-part+non-u64-claim"
  ELSE IF tok.mut = "extra" THEN "extra-part"
  ELSE IF NonU64Miss(tok) THEN "non-u64-claim"
  ELSE "none"
KnownJwtDeviations == {"extra-part", "non-u64-claim", "extra-part+non-u64-claim", "header-accessor"}
JwtRefines(cfg, tok) == ImplJwt(cfg, tok) \in JwtAllowed(JwtClass(cfg, tok)) \/ JwtDeviation(cfg, tok) \in KnownJwtDeviations
\* a named deviation must really be needed somewhere (non-vacuity of the list) - checked per row family in MC_Auth
JwtDeviates(cfg, tok) == ImplJwt(cfg, tok) \notin JwtAllowed(JwtClass(cfg, tok))
=============================================================================
