SPECIFICATION Spec
CONSTANTS
  BOUNDARY = TRUE
  RULE = "precise"
  REPAIR = FALSE
  NApps = 2
  MaxRoutes = 2
  MaxDepth = 1
  MSETS = "one"
  PSIB = FALSE
  NPOL = 1
  RICHPOL = TRUE
  RICHREQ = FALSE
INVARIANT Emit
CHECK_DEADLOCK FALSE
