SPECIFICATION TSpec
CONSTANTS
  INDEX_OWN_PATH = TRUE
  FIX_INDEX_OWN = FALSE
  FIX_DIRNAME = FALSE
  FIX_LENGTH = FALSE
  SORT = "reverse"
CHECK_DEADLOCK FALSE
