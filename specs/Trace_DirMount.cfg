SPECIFICATION TSpec
CONSTANTS
  INDEX_OWN_PATH = TRUE
  FIX_INDEX_OWN = TRUE
  FIX_DIRNAME = TRUE
  FIX_LENGTH = TRUE
  SORT = "reverse"
CHECK_DEADLOCK FALSE
