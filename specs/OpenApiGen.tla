------------------------------ MODULE OpenApiGen ------------------------------
(* Scenario generation for C15: applications in the RouterApp vocabulary, built item by item (every
   registration order is a different behaviour), extended per route by a handler-signature tag of the
   catalogue, named path parameters, and fang KINDS (authentication / tag / plain) on applications and routes.
   Exhaustive for the small configs (SIGMODE = "rot": every handler arity, extractor / return tags rotating;
   "mc": arity only), `-simulate` for the larger ones (SIGMODE = "all": any signature of the catalogue). *)
EXTENDS OpenApi, Json

CONSTANTS NApps,          \* number of applications (app k >= 2 is mounted once, inside an app with a smaller index)
          MaxRoutes,      \* route items per application
          MaxDepth,       \* segments per route
          MaxMountDepth,  \* segments per mount prefix
          SEGSTR,         \* static segment strings
          PNAMES,         \* parameter name tokens
          METHODSETS,     \* method sequences a route item may register
          APPFANGS,       \* non-empty fang-kind sequences an application may carry (none is always possible)
          LOCALS,         \* fang-kind sequences a route may carry
          SIGMODE,        \* "all" | "rot" | "mc"
          SALT            \* rotates the (ex, rt) assignment in "rot" mode

Segs      == {SSeg(w) : w \in SEGSTR} \cup {[k |-> "P", s |-> <<n>>] : n \in PNAMES}
RoutesN   == UNION {[1..n -> Segs] : n \in 0..MaxDepth}
MountPres == UNION {[1..n -> Segs] : n \in 0..MaxMountDepth}     \* <<>>: mounted at the root, `"/".By(child)`

VARIABLES apps, mountedSet, nextH, done
vars == <<apps, mountedSet, nextH, done>>

Init == /\ apps \in [1..NApps -> {[fangs |-> <<>>, items |-> <<>>]}]
        /\ mountedSet = {} /\ nextH = 1 /\ done = FALSE

\* same tree nodes (a param matches any param whatever its name)
TreeSame(x, y)   == Len(x) = Len(y) /\ \A i \in DOMAIN x : SameSeg(x[i], y[i])
SameUnder(x, pre) == Len(x) >= Len(pre) /\ \A i \in DOMAIN pre : SameSeg(x[i], pre[i])
Items(a) == SeqToSet(apps[a].items)
ParentOf(a) == CHOOSE j \in 1..NApps : \E it \in Items(j) : it.t = "mount" /\ it.app = a
MountItem(a) == CHOOSE it \in Items(ParentOf(a)) : it.t = "mount" /\ it.app = a
\* full depth of params from the root is limited to 2 (documented limit of the framework)
RECURSIVE ParamsAbove(_), FangsAbove(_)
ParamsAbove(a) == IF a = 1 THEN 0 ELSE ParamsAbove(ParentOf(a)) + NParamsOf(MountItem(a).segs)
\* fang kinds of the application and of every application around it
FangsAbove(a) == SeqToSet(apps[a].fangs) \cup (IF a = 1 THEN {} ELSE FangsAbove(ParentOf(a)))
Placed(a) == a = 1 \/ a \in mountedSet
\* both read the Authorization header: a route behind both can be reached by no request at all
Satisfiable(G) == ~({"jwt", "basic"} \subseteq G)

Rot(pv, k) == LET exs == SetToSeq(IF pv \in {"p0", "u"} THEN ExFull ELSE ExCore)
                  rts == SetToSeq(IF pv \in {"p0", "u"} THEN RtFull ELSE RtCore)
              IN Sig(pv, exs[(k % Len(exs)) + 1], rts[((k \div Len(exs)) % Len(rts)) + 1])
SigChoices(tot, k) ==
  IF SIGMODE = "all" THEN {RandomElement({sg \in Catalogue : HandlerNP(sg.pv) =< tot})}
  ELSE IF SIGMODE = "mc" THEN {Sig(pv, "none", "text") : pv \in {q \in {"p0", "u", "us"} : HandlerNP(q) =< tot}}
  ELSE {LET pvs == SetToSeq({q \in PVs : HandlerNP(q) = np}) IN Rot(pvs[(k % Len(pvs)) + 1], k \div 4) : np \in 0..tot}

Finishable == mountedSet = 2..NApps /\ \A a \in 1..NApps : \E it \in Items(a) : it.t = "route" \/ (it.t = "mount" /\ it.segs = <<>>)
SetFangs(a, f) == /\ ~done /\ apps[a].fangs = <<>> /\ apps[a].items = <<>>
                  /\ (a # 1 => a \in mountedSet /\ Satisfiable(FangsAbove(ParentOf(a)) \cup SeqToSet(f)))
                  /\ apps' = [apps EXCEPT ![a].fangs = f] /\ UNCHANGED <<mountedSet, nextH, done>>
AddRoute(a, r, ms, lf) ==
  /\ ~done /\ Placed(a) /\ Cardinality({it \in Items(a) : it.t = "route"}) < MaxRoutes
  /\ \A it \in Items(a) : IF it.t = "route" THEN ~(TreeSame(it.segs, r) /\ (it.segs = r \/ SeqToSet(it.methods) \cap SeqToSet(ms) # {}))
                                            ELSE ~SameUnder(r, it.segs)
  /\ ParamsAbove(a) + NParamsOf(r) =< 2
  /\ Satisfiable(FangsAbove(a) \cup SeqToSet(lf))
  /\ \E sg \in SigChoices(ParamsAbove(a) + NParamsOf(r), nextH * 7 + Len(r) * 3 + Len(ms) * 5 + a + SALT) :
       apps' = [apps EXCEPT ![a].items = Append(@, [t |-> "route", segs |-> r, methods |-> ms, local |-> lf, h |-> nextH, app |-> 0, sig |-> sg])]
  /\ nextH' = nextH + 1 /\ UNCHANGED <<mountedSet, done>>
AddMount(a, pre, b) ==
  /\ ~done /\ Placed(a) /\ b > a /\ b \notin mountedSet /\ b = NApps - Cardinality(mountedSet \ {1})
  /\ \A it \in Items(a) : ~SameUnder(it.segs, pre) /\ (it.t = "mount" => ~SameUnder(pre, it.segs))
  /\ ParamsAbove(a) + NParamsOf(pre) =< 2
  /\ apps' = [apps EXCEPT ![a].items = Append(@, [t |-> "mount", segs |-> pre, methods |-> <<>>, local |-> <<>>, h |-> 0, app |-> b, sig |-> Sig("p0", "none", "text")])]
  /\ mountedSet' = mountedSet \cup {b} /\ UNCHANGED <<nextH, done>>
Finish == /\ ~done /\ Finishable
          /\ done' = TRUE /\ UNCHANGED <<apps, mountedSet, nextH>>

Next == \/ \E a \in 1..NApps : \E f \in APPFANGS : SetFangs(a, f)
        \/ \E a \in 1..NApps : \E r \in RoutesN : \E ms \in METHODSETS : \E lf \in LOCALS : AddRoute(a, r, ms, lf)
        \/ \E a \in 1..NApps : \E pre \in MountPres : \E b \in 2..NApps : AddMount(a, pre, b)
        \/ Finish
Spec == Init /\ [][Next]_vars

\* ------------------------------------------------------------------------------------------ values for the .cfg files
SegA    == {<<"a">>}
SegAB   == {<<"a">>, <<"a", "b">>}
SegABB  == {<<"a">>, <<"b">>, <<"a", "b">>}
MsGet   == {<<"GET">>}
MsGP    == {<<"GET">>, <<"POST">>, <<"GET", "POST">>}
MsAll   == {<<"GET">>, <<"POST">>, <<"GET", "POST">>, <<"PUT", "DELETE">>, <<"PATCH">>, <<"GET", "PUT", "POST", "PATCH", "DELETE">>}
AfJwt   == {<<"jwt">>}
AfSome  == {<<"jwt">>, <<"tag", "basic">>}
AfMc    == {<<"jwt">>, <<"plain">>}
AfAll   == {<<"jwt">>, <<"jwth">>, <<"jwtc">>, <<"basic">>, <<"tag">>, <<"plain">>, <<"tag", "jwt">>, <<"basic", "plain">>, <<"jwth", "jwtc">>, <<"plain", "tag">>}
LfNone  == {<<>>}
LfH     == {<<>>, <<"jwth">>}
LfMc    == {<<>>, <<"basic">>}
LfAll   == {<<>>, <<>>, <<"jwt">>, <<"jwth">>, <<"jwtc">>, <<"basic">>, <<"tag">>, <<"plain">>, <<"plain", "jwt">>, <<"basic", "tag">>, <<"jwth", "jwtc">>}

\* non-trivial for C15 (counted by the driver from the observations, same rule): a mount, a handler with fewer params
\* than its route, an authentication fang, or a component schema
\* exhaustive configs: the finished applications.  Simulation ("all"): TLC evaluates the invariant on every successor it
\* generates along a random walk, so every finishable application met on the way is emitted (sizes vary; the driver dedupes)
Emit == (IF SIGMODE = "all" THEN ~done /\ Finishable ELSE done) => PrintT(ToJson([apps |-> apps, src |-> SIGMODE]))
=============================================================================
