\* quick: every day up to 2400-12-31, the year boundaries / leap-day neighbourhood of every year 1970..9999, every second
\* of 2000-02-29 and of 9999-12-31, every n < 10^5 for each function, boundary lists, seeded random batches
SPECIFICATION GSpec
CONSTANTS
  LastDay = 2932896
  StepUntil = 0
  TailFrom = 2932896
  MaxN = 0
  LeapRule = "gregorian"
  StartDay = 0
  NumLane = 1
  Batch = 2000
  DaysTo = 157419
  DayPasses = 1
  YearsFrom = 1970
  YearsTo = 9999
  SecDays = {11016, 2932896}
  NumTo = 99999
  RandTs = 10
  RandNum = 5
  WireTo = 300
  WireBig = {999, 1000, 1001, 4095, 4096, 4097, 9999, 10000, 10001, 65535, 65536, 65537, 99999, 100000, 100001, 999999, 1000000, 1000001, 1048575, 1048576, 1048577}
CHECK_DEADLOCK FALSE
