SPECIFICATION Spec
CONSTANTS
  BOUNDARY = TRUE
  RULE = "precise"
  REPAIR = TRUE
  NApps = 1
  MaxRoutes = 2
  MaxDepth = 1
  MSETS = "small"
  PSIB = FALSE
  NPOL = 1
  RICHPOL = FALSE
  RICHREQ = FALSE
  KnownDeviations = {}
INVARIANTS Refines Builds ClassAgrees
CHECK_DEADLOCK FALSE
