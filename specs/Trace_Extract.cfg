SPECIFICATION TSpec
CONSTANTS
  REPAIRED = TRUE
CHECK_DEADLOCK FALSE
