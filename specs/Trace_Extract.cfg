SPECIFICATION TSpec
CONSTANTS
  REPAIRED = FALSE
CHECK_DEADLOCK FALSE
