SPECIFICATION GSpec
CONSTANTS
  PROFILE = "quick"
  MaxFiles = 2
  INDEX_OWN_PATH = TRUE
  FIX_INDEX_OWN = TRUE
  FIX_DIRNAME = TRUE
  FIX_LENGTH = TRUE
  SORT = "reverse"
  KnownDeviations = {}
  MOUNT_SET = "all"
  EMIT_MIN = 1
INVARIANTS Refines Emit
CHECK_DEADLOCK FALSE
