SPECIFICATION Spec
CONSTANTS
  BOUNDARY = TRUE
  RULE = "precise"
  NApps = 2
  MaxRoutes = 1
  MaxDepth = 2
  MODE = "c01"
  FANGS = FALSE
  METHODS = FALSE
  RICH = FALSE
  OVERLAP <- TrueConst
INVARIANT Emit
CHECK_DEADLOCK FALSE
