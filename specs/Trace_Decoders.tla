--------------------------- MODULE Trace_Decoders ---------------------------
(***************************************************************************)
(* Verdicts for C08: one per observation line {"id","scn","obs"}.          *)
(* ok = Total(scn, obs): the decoder call ended with a value or an error,  *)
(* every yielded string was valid UTF-8, every borrowed slice lay inside   *)
(* the input, and no Max-Age came out of a wrapped fold.  The target class *)
(* is looked up in the catalogue of Decoders.tla (an unknown target tag is *)
(* a TLC error, i.e. a tool error), not taken from the line.               *)
(***************************************************************************)
EXTENDS Decoders, Json, IOUtils

Rec == ndJsonDeserialize(IOEnv.TRACE)
VARIABLE l

ClassOf(d, tag) == (CHOOSE t \in Targets(d) : t.tag = tag).cls
Norm(scn) == [dec |-> scn.dec, toks |-> scn.toks, faults |-> scn.faults, mut |-> scn.mut,
              target |-> [tag |-> scn.target.tag, cls |-> ClassOf(scn.dec, scn.target.tag)]]
Judge(r) == LET scn == Norm(r.scn) IN [ok |-> Total(scn, r.obs), sig |-> Signature(scn, r.obs)]

TInit == l = 1
TNext == /\ l <= Len(Rec) /\ l' = l + 1
         /\ LET j == Judge(Rec[l]) IN PrintT(ToJson([t |-> "VERDICT", id |-> Rec[l].id, ok |-> j.ok, sig |-> j.sig]))
TSpec == TInit /\ [][TNext]_l
=============================================================================
