CONSTANTS
  Families = {"dec", "iter", "set"}
  DecLen = 1
  IterLen = 1
  SetLen = 1
