\* non-vacuity: with the Julian leap rule the machine and the closed form must disagree (on 2100-02-29; the machine starts on 2100-01-01)
SPECIFICATION Spec
CONSTANTS
  LastDay = 2932896
  StepUntil = 193943
  TailFrom = 2921940
  MaxN = 0
  LeapRule = "julian"
  StartDay = 47482
  NumLane = 10000
INVARIANTS CalAgree CalEnd ClockAgree NumAgree
CHECK_DEADLOCK FALSE
