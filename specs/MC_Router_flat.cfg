SPECIFICATION Spec
CONSTANTS
  BOUNDARY = TRUE
  RULE = "precise"
  MaxP = 3
  MaxC = 0
  WithMount = FALSE
INVARIANTS Dispatch ScopeAndOrder
CHECK_DEADLOCK FALSE
