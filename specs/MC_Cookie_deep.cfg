SPECIFICATION Spec
CONSTANTS
  MaxLen = 2
  MaxCookies = 2
INVARIANTS JarInv SetInv
CHECK_DEADLOCK FALSE
