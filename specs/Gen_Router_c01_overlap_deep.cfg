SPECIFICATION Spec
CONSTANTS
  BOUNDARY = TRUE
  RULE = "precise"
  NApps = 2
  MaxRoutes = 2
  MaxDepth = 1
  MODE = "c01"
  FANGS = FALSE
  METHODS = FALSE
  RICH = FALSE
  OVERLAP <- TrueConst
INVARIANT Emit
CHECK_DEADLOCK FALSE
