----------------------------- MODULE HttpParse -----------------------------
(***************************************************************************)
(* The HTTP/1.1 request grammar ohkami supports, as a machine (C02).       *)
(*                                                                         *)
(* Every behaviour of the machine writes one request, token by token:      *)
(*   Method SP Target [? Query] SP Version CRLF (HeaderLine CRLF)* CRLF Body*)
(* A behaviour may take exactly one fault action; it then writes a byte    *)
(* string outside the grammar.  The state is the request written so far    *)
(* (abstract tokens; the harness owns the table token -> bytes).           *)
(*                                                                         *)
(* Layer (a): Denotes(r) -- what a well-formed request means (method, path,*)
(*   ordered query pairs, header map with names folded and repeated values *)
(*   joined in order, payload) -- and ObsOK(r, o), what the property allows *)
(*   the server to do with the bytes.                                      *)
(* Layer (b): the parser of ohkami/src/request/mod.rs is modelled in       *)
(*   Conn.tla (reads, buffer, payload cases); here only its verdict on one *)
(*   complete first read matters.                                          *)
(***************************************************************************)
EXTENDS Naturals, Sequences, FiniteSets, TLC

Methods   == {"GET", "PUT", "POST", "PATCH", "DELETE", "HEAD", "OPTIONS"}
SegToks   == {"s1", "s2", "se"}            \* plain, with - . _ and digits, percent-escaped (denotes the decoded text)
QKeys     == {"k1", "k2"}
QVals     == {"v1", "ve", "e", "vq", "vh"}       \* plain, percent-escaped, empty, with raw `=` signs inside (the pair is cut at the first one only), with `?` and `/` inside (the query begins at the first `?`)
StdNames  == {"Host", "Accept", "CT"}      \* standard headers (CT = Content-Type)
CustNames == {"XA", "XB"}                  \* custom headers
\* every standard request header of the framework's table (minus the framing/connection ones), by registered name
AllStd    == {"Accept", "Accept-Encoding", "Accept-Language", "Access-Control-Request-Headers", "Access-Control-Request-Method", "Authorization", "Cache-Control", "Content-Disposition", "Content-Encoding", "Content-Language", "Content-Location", "Date", "Forwarded", "From", "Host", "If-Match", "If-Modified-Since", "If-None-Match", "If-Range", "If-Unmodified-Since", "Link", "Max-Forwards", "Origin", "Proxy-Authorization", "Range", "Referer", "Sec-Fetch-Dest", "Sec-Fetch-Mode", "Sec-Fetch-Site", "Sec-Fetch-User", "Sec-WebSocket-Extensions", "Sec-WebSocket-Key", "Sec-WebSocket-Protocol", "Sec-WebSocket-Version", "TE", "Trailer", "User-Agent", "Upgrade-Insecure-Requests", "Via"}
Cases     == {"canon", "lower", "upper", "mixed"}
HVals     == {"v1", "v2", "vl", "vs", "v0"} \* short, other, long (200 bytes), with inner spaces and ; =, empty (`Name: ` CRLF)
BodySizes == {"small", "fill", "over", "big"}   \* 5 bytes; exactly the rest of the 1 KiB buffer; rest + 300; 3000
Faults    == {"none",
              "trunc-method", "trunc-target", "trunc-version", "trunc-header-name", "trunc-header-value", "trunc-before-blank-line",
              "trunc-body",                  \* peer closes before the announced payload is complete
              "version-1.0", "version-2", "version-garbage",
              "no-sp-after-method", "no-sp-after-target", "no-version",
              "header-no-colon", "bare-lf",
              "cl-letters", "cl-digits-then-letter", "cl-negative", "cl-30-digits", "cl-empty", "cl-plus-sign", "cl-hex",
              "nul-in-target", "nul-in-header-value", "nonutf8-in-header-value", "nonutf8-in-target",
              "unknown-method", "lowercase-method", "target-no-slash", "target-asterisk",
              "target-too-long", "header-line-too-long"}
\* faults after which a server may still legitimately accept the request (the text does not call them malformed)
Lenient   == {"bare-lf"}

NoBody == [size |-> "none", first |-> "N", nul |-> FALSE, clcase |-> "canon"]
Empty  == [phase |-> "method", method |-> "GET", segs |-> <<>>, trailing |-> FALSE, query |-> <<>>, hasq |-> FALSE,
           headers |-> <<>>, body |-> NoBody, fault |-> "none", delivery |-> "whole"]
\* how the bytes reach the parser: in one read; cut in two reads at every position of the head (the harness reports the first
\* cut whose outcome differs from the uncut one); as the read that follows an earlier, different request on the same connection
\* object (whose query, headers and payload must not show through)
\* "followed": the read that brings the request also brings the beginning of the next one (a pipelined request): the request denotes
\* the same (only for well-formed requests: what follows a truncated one completes it)
Deliveries == {"whole", "split", "after", "followed"}

\* --------------------------------------------------------------------------------------------- the machine
CONSTANTS MaxSegs, MaxPairs, MaxHeaders,
          FAMILY     \* which dimension is explored exhaustively: "headers" | "names" | "target" | "body" | "faults" | "delivery" | "all" (for -simulate)
VARIABLE r
\* header lines: every name in several cases, repeated names (same and different case), long and spaced values
HLines == {<<"Host", "canon", "v1">>, <<"Host", "lower", "v2">>, <<"Accept", "mixed", "v1">>, <<"Accept", "upper", "v2">>,
           <<"Accept", "canon", "vl">>, <<"CT", "canon", "vs">>, <<"CT", "mixed", "v1">>,
           <<"XA", "canon", "v1">>, <<"XA", "canon", "v2">>, <<"XA", "lower", "v2">>, <<"XB", "mixed", "vl">>, <<"XB", "upper", "vs">>,
           <<"XB", "canon", "v0">>, <<"Accept", "lower", "v0">>}
F(fams) == FAMILY = "all" \/ FAMILY \in fams
Init == r = Empty

Method(m)   == r.phase = "method" /\ (F({"target"}) \/ m \in {"GET", "POST"}) /\ (FAMILY = "body" => m \in {"POST", "PUT", "GET", "HEAD"}) /\ r' = [r EXCEPT !.method = m, !.phase = "target"]
Seg(s)      == r.phase = "target" /\ Len(r.segs) < MaxSegs /\ (F({"target"}) \/ (s = "s1" /\ r.segs = <<>>)) /\ ~r.trailing /\ r' = [r EXCEPT !.segs = Append(@, s)]
Trailing    == r.phase = "target" /\ F({"target"}) /\ r.segs # <<>> /\ ~r.trailing /\ r' = [r EXCEPT !.trailing = TRUE]
QMark       == r.phase = "target" /\ F({"target", "faults", "delivery"}) /\ r' = [r EXCEPT !.phase = "query", !.hasq = TRUE]
Pair(k, v)  == r.phase = "query" /\ Len(r.query) < MaxPairs /\ (F({"target"}) \/ (k = "k1" /\ v = "v1" /\ r.query = <<>>)) /\ r' = [r EXCEPT !.query = Append(@, <<k, v>>)]
Version     == r.phase \in {"target", "query"} /\ r' = [r EXCEPT !.phase = "headers"]
HeaderLine(n, c, v) == /\ r.phase = "headers" /\ Len(r.headers) < MaxHeaders
                       /\ IF FAMILY = "names" THEN (r.headers = <<>> /\ n \in AllStd /\ v = "v1") \/ (Len(r.headers) = 1 /\ <<n, c, v>> = <<"XA", "canon", "v2">>)
                          ELSE /\ <<n, c, v>> \in HLines
                               /\ (F({"headers"}) \/ (Len(r.headers) < 2 /\ <<n, c, v>> \in {<<"Host", "canon", "v1">>, <<"XB", "mixed", "vl">>}))
                       /\ r' = [r EXCEPT !.headers = Append(@, [n |-> n, c |-> c, v |-> v])]
\* the Content-Length line and the payload it announces (any method may carry one: the text makes the body depend on Content-Length only)
Body(sz, f, z, c) == /\ r.phase = "headers"
                     /\ (F({"body"}) \/ (FAMILY \in {"faults", "delivery"} /\ sz \in {"small", "over"} /\ f = "N" /\ ~z /\ c = "canon"))
                     /\ r' = [r EXCEPT !.body = [size |-> sz, first |-> f, nul |-> z, clcase |-> c], !.phase = "done"]
EndOfHead   == r.phase = "headers" /\ r' = [r EXCEPT !.phase = "done"]
\* exactly one fault, applied by the concretiser at the place its name says; some need a body / a header to bite
Fault(f)    == /\ r.phase = "done" /\ r.fault = "none" /\ f # "none" /\ F({"faults"})
               /\ (f \in {"trunc-body", "cl-letters", "cl-digits-then-letter", "cl-negative", "cl-30-digits", "cl-empty", "cl-plus-sign", "cl-hex"} => r.body.size # "none")
               /\ (f \in {"trunc-header-name", "trunc-header-value", "header-no-colon", "nul-in-header-value",
                          "nonutf8-in-header-value", "header-line-too-long"} => r.headers # <<>>)
               /\ r' = [r EXCEPT !.fault = f, !.phase = "end"]
Finish      == r.phase = "done" /\ r' = [r EXCEPT !.phase = "end"]
\* the delivery is chosen last (well-formed and malformed requests alike)
Deliver(d)  == /\ r.phase = "end" /\ r.delivery = "whole" /\ d # "whole" /\ F({"delivery"}) /\ (d = "followed" => r.fault = "none")
               /\ r' = [r EXCEPT !.delivery = d]

Next == \/ \E m \in Methods : Method(m)
        \/ \E s \in SegToks : Seg(s)
        \/ Trailing \/ QMark \/ Version \/ EndOfHead \/ Finish
        \/ \E k \in QKeys, v \in QVals : Pair(k, v)
        \/ \E n \in StdNames \cup CustNames \cup AllStd, c \in Cases, v \in HVals : HeaderLine(n, c, v)
        \/ \E sz \in BodySizes, f \in {"N", "Z"}, z \in BOOLEAN, c \in {"canon", "lower", "mixed"} : Body(sz, f, z, c)
        \/ \E f \in Faults : Fault(f)
        \/ \E d \in Deliveries : Deliver(d)
Spec == Init /\ [][Next]_r

\* --------------------------------------------------------------------------------------------- layer (a)
\* header map: folded name |-> sequence of values in order of appearance
NamesIn(hs) == {hs[i].n : i \in DOMAIN hs}
ValuesOf(hs, n) == LET idx == SelectSeq([i \in DOMAIN hs |-> i], LAMBDA i : hs[i].n = n) IN [j \in DOMAIN idx |-> hs[idx[j]].v]
Denotes(q) == [method |-> q.method, segs |-> q.segs, query |-> q.query,
               headers |-> [n \in NamesIn(q.headers) |-> ValuesOf(q.headers, n)],
               payload |-> q.body.size # "none"]

\* o: observation of the harness
\*  [kind |-> "accepted", method, segs, query, hdr |-> <<[n, typed, get, getlower]>>, payload |-> [present, same], stale |-> <<names>>, starved, accpanic]
\*  [kind |-> "error", status] | [kind |-> "closed"] | [kind |-> "panic" | "hang" | "abort", where]
HdrOK(d, h) == /\ h.n \in DOMAIN d.headers
               /\ h.typed = d.headers[h.n] /\ h.get = d.headers[h.n] /\ h.getlower = d.headers[h.n]
AcceptedOK(q, o) ==
  LET d == Denotes(q) IN
  /\ o.accpanic = ""                                  \* no accessor panics
  /\ ~o.starved                                       \* did not wait for input that had already arrived
  /\ o.method = d.method /\ o.segs = d.segs /\ o.query = d.query
  /\ (d.query = <<>> => o.qempty)                     \* no query: also the typed reading sees nothing
  /\ {o.hdr[i].n : i \in DOMAIN o.hdr} = DOMAIN d.headers
  /\ \A i \in DOMAIN o.hdr : HdrOK(d, o.hdr[i])
  /\ o.payload.present = d.payload /\ (d.payload => o.payload.same)
  /\ o.stale = <<>>                                   \* no header the bytes do not carry (probe names of an earlier request)
Refused(o) == (o.kind = "error" /\ o.status >= 400) \/ o.kind = "closed"

ObsOK(q, o) ==
  IF q.fault = "none" THEN o.kind = "accepted" /\ AcceptedOK(q, o)
  ELSE IF q.fault \in Lenient THEN Refused(o) \/ (o.kind = "accepted" /\ o.accpanic = "" /\ ~o.starved)
  ELSE Refused(o)

ObsClass(q, o) ==
  IF o.kind \in {"panic", "hang", "abort"} THEN o.kind
  ELSE IF q.fault # "none" THEN (IF o.kind = "accepted" THEN "malformed-accepted" ELSE "malformed-answered-" \o ToString(o.status))
  ELSE IF o.kind # "accepted" THEN "wellformed-refused"
  ELSE IF o.accpanic # "" THEN "accessor-panic"
  ELSE IF o.starved THEN "waited-for-input-that-had-arrived"
  ELSE LET d == Denotes(q) IN
       IF o.method # d.method THEN "method" ELSE IF o.segs # d.segs THEN "path" ELSE IF o.query # d.query \/ (d.query = <<>> /\ ~o.qempty) THEN "query"
       ELSE IF o.payload.present # d.payload \/ (d.payload /\ ~o.payload.same) THEN "payload"
       ELSE IF o.stale # <<>> THEN "header-of-an-earlier-request"
       ELSE "header-value"
=============================================================================
