---------------------------- MODULE DecodersGen ----------------------------
(***************************************************************************)
(* Scenario enumeration for C08: every walk of the grammar walkers of      *)
(* Decoders.tla with <= MaxLen tokens and <= MaxFaults fault transitions.  *)
(* Every reached state is an input (a prefix that stops at a non-accepting *)
(* position carries the fault label Truncate) and is printed once per      *)
(* target type of its decoder.  MC_Decoders checks the walkers themselves: *)
(* a fault-free walk that stops at an accepting position is a sentence of  *)
(* the reference grammar (WellFormed), and every fault label is used.      *)
(***************************************************************************)
EXTENDS Decoders, Json

CONSTANTS MaxLen, MaxFaults, RICH, DECS, TOPLEN, PCTLEN
VARIABLES dec, pos, toks, faults, nf
vars == <<dec, pos, toks, faults, nf>>

DeepOnTrue == TRUE
AddFault(fs, f) == IF f = "" \/ \E i \in 1..Len(fs) : fs[i] = f THEN fs ELSE Append(fs, f)

GInit == dec \in DECS /\ pos = Start(dec) /\ toks = <<>> /\ faults = <<>> /\ nf = 0
GNext == \E t \in Trans(dec, pos, RICH) :
           /\ (t[1] # NoTok => Len(toks) < MaxLen)
           /\ (t[3] # "" => nf < MaxFaults)
           /\ toks' = IF t[1] = NoTok THEN toks ELSE Append(toks, t[1])
           /\ pos' = t[2]
           /\ faults' = AddFault(faults, t[3])
           /\ nf' = IF t[3] = "" THEN nf ELSE nf + 1
           /\ UNCHANGED dec
GSpec == GInit /\ [][GNext]_vars

Labels == IF Accept(dec, pos) THEN faults ELSE AddFault(faults, "Truncate")
(* pairing of inputs and targets: a struct-field target sees the input only through the value of key `ka`, so inputs
   without that key are paired with three field targets only; top-level targets are paired with inputs of <= TOPLEN
   tokens and percent-decoding inputs are bounded by PCTLEN (each an explicit bound of the configuration).           *)
HasKa == \E i \in 1..Len(toks) : toks[i] = "ka"
IsTop(tg) == tg.cls \in {"t-int", "t-bool", "t-float", "t-char", "t-str", "t-bytes", "t-option", "t-unit", "t-enum", "t-newtype", "t-seq", "t-tuple",
                         "t-map", "t-ignored", "t-struct", "t-file", "t-vecfile"}
Relevant(tg) == CASE dec \in {"urlenc", "cookie"} -> IF IsTop(tg) THEN Len(toks) <= TOPLEN
                                                     ELSE HasKa \/ tg.tag \in {"f:u32", "f:opt_u32", "f:ignored"}
                  [] dec = "pct" -> Len(toks) <= PCTLEN
                  [] dec = "multipart" -> \/ tg.tag \in {"f:str", "f:string", "f:opt_str", "f:file", "f:opt_file", "f:vec_file", "f:ignored", "t:map", "t:struct2"}
                                          \/ Len(toks) <= TOPLEN + 1
                  [] OTHER -> TRUE
Emit == \A tg \in {x \in Targets(dec) : Relevant(x)} :
          PrintT(ToJson([dec |-> dec, toks |-> toks, faults |-> Labels, target |-> tg, mut |-> 0]))

\* ------------------------------------------------------------------ self-check of the walkers (no /repo involved)
\* reference grammars, written independently of the transition tables, as recognisers over the token strings
IsKey(t) == t \in {"ka", "kz"}
RECURSIVE UrlPairs(_, _)
\* s: remaining tokens; st: "K" expecting a key, "E" expecting "=", "V" inside a value
UrlPairs(s, st) == IF s = <<>> THEN st = "V"
                   ELSE CASE st = "K" -> IsKey(s[1]) /\ UrlPairs(Tail(s), "E")
                          [] st = "E" -> s[1] = "=" /\ UrlPairs(Tail(s), "V")
                          [] OTHER -> IF s[1] = "&" THEN UrlPairs(Tail(s), "K") ELSE s[1] \in UVals(TRUE) \cup {"DEEP:,", "DEEP:%41", "DEEP:&kz=1"} /\ UrlPairs(Tail(s), "V")
RECURSIVE CookiePairs(_, _)
CookiePairs(s, st) == IF s = <<>> THEN st = "V"
                      ELSE CASE st = "K" -> IsKey(s[1]) /\ CookiePairs(Tail(s), "E")
                             [] st = "E" -> s[1] = "=" /\ CookiePairs(Tail(s), "V")
                             [] OTHER -> IF s[1] = "; " THEN CookiePairs(Tail(s), "K") ELSE s[1] \in CVals(TRUE) \cup {"DEEP:; kz=1", "DEEP:%41"} /\ CookiePairs(Tail(s), "V")
WellFormed == CASE dec = "urlenc" -> UrlPairs(toks, "K")
                [] dec = "cookie" -> CookiePairs(toks, "K")
                [] dec = "multipart" -> /\ Len(toks) >= 3 /\ toks[1] \in {"P:" \o h : h \in Heads}
                                        /\ \E k \in 1..Len(toks) : toks[k] = "END" /\ toks[k - 1] = "D" /\ \A j \in (k + 1)..Len(toks) : toks[j] = "CRLF"
                [] dec = "setcookie" -> Len(toks) >= 2 /\ toks[1] = "n" /\ toks[2] = "="
                [] OTHER -> TRUE
\* a walk without faults that ends in an accepting position is a sentence of the grammar, and a sentence is never labelled
WalkerSound == (faults = <<>> /\ Accept(dec, pos)) => WellFormed
\* conversely a walk that used a fault is outside the grammar or is one of the legal-but-suspicious shapes
LegalButLabelled == {"EmptyFilePart", "MissingPartAfterCRLF", "LowercaseDirective", "EscapedNul", "HugeNumber", "HugeMaxAge", "NonDigitMaxAge",
                     "JunkAfterDirective", "UnknownDirective", "BadSameSite", "EmptyDirective", "ExtraEq", "RawHighByte", "MissingSpace", "MissingEq"}
FaultsMatter == (dec \in {"urlenc", "cookie"} /\ faults # <<>> /\ \A i \in 1..Len(faults) : faults[i] \notin {"MissingAmp", "MissingSemicolon", "MissingEq", "EmptyKey", "LoneQuote"})
                  => ~WellFormed
=============================================================================
