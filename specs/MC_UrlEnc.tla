----------------------------- MODULE MC_UrlEnc -----------------------------
(***************************************************************************)
(* Bounded exhaustive check of the C09 specification against itself and of *)
(* the implementation-shaped walker against the oracle:                    *)
(*   StrInv   DecodeStr(EncodeStr(s)) = s and DecodeStr(Spell(s, sp)) = s  *)
(*            for every string over Reps up to MaxLen and every spelling   *)
(*            (raw where legal, %XX upper, %xx lower) of every character   *)
(*   PairInv  RefPairs(text) = the pairs, text well-formed, and ohkami's   *)
(*            walker (ImplMap) agrees with RefPairs, for every spelled     *)
(*            pair list over PReps                                         *)
(*   CharInv  the raw-char serializer/deserializer pair round-trips        *)
(*            exactly when the character is not a named deviation          *)
(* The choice is a Next step from one initial state so all workers help.   *)
(***************************************************************************)
EXTENDS UrlEnc, TLC

CONSTANTS MaxLen, MaxPairs, SpellSet

Reps  == {97, 90, 55, 32, 38, 61, 37, 43, 44, 47, 45, 126, 33, 59, 35, 34, 9, 127, 0,
          233, 2047, 128, 2048, 29436, 65535, 55295, 57344, 65536, 128512, 1114111}
PReps == {97, 38, 61, 37, 43, 32, 233, 128512}

VARIABLE x
Strs(R, n) == UNION {[1..k -> R] : k \in 0..n}

SpellCp(cp, sp) == IF sp = "r" THEN Utf8(cp)
                   ELSE LET bs == Utf8(cp) IN Flat([i \in 1..Len(bs) |-> Esc(bs[i], sp = "U")])
RawSafe(cp) == cp \notin {AMP, EQS, PCT}
Spell(s, sp) == Flat([i \in 1..Len(s) |-> SpellCp(s[i], sp[i])])
SpellOK(s, sp) == \A i \in 1..Len(s) : sp[i] = "r" => RawSafe(s[i])
Uniform(s, e) == [i \in 1..Len(s) |-> e]

Comp == {c \in [s : Strs(PReps, 1), e : SpellSet] : SpellOK(c.s, Uniform(c.s, c.e))}
PairSet == {p \in [k : Comp, v : Comp] : p.k.s # <<>>}
Init == x = [t |-> "init"]
\* two levels (shard, then value) so that the successors are computed by all workers
Shard == \/ \E c \in Reps : x' = [t |-> "sh-str", c |-> c]
         \/ \E p \in PairSet : x' = [t |-> "sh-pairs", p |-> p]
         \/ \E cp \in Reps : x' = [t |-> "char", cp |-> cp]
         \/ x' = [t |-> "str", s |-> <<>>, sp |-> <<>>]
PickStr == \E rest \in Strs(Reps, MaxLen - 1) :
             LET s == <<x.c>> \o rest IN
             \E sp \in [1..Len(s) -> {"r", "U", "L"}] : SpellOK(s, sp) /\ x' = [t |-> "str", s |-> s, sp |-> sp]
PickPairs == \/ x' = [t |-> "pairs", ps |-> <<x.p>>]
             \/ MaxPairs >= 2 /\ \E q \in PairSet : x' = [t |-> "pairs", ps |-> <<x.p, q>>]
             \/ MaxPairs >= 3 /\ \E q \in PairSet : \E r \in PairSet : x' = [t |-> "pairs", ps |-> <<x.p, q, r>>]
Next == \/ x.t = "init" /\ Shard
        \/ x.t = "sh-str" /\ PickStr
        \/ x.t = "sh-pairs" /\ PickPairs
Spec == Init /\ [][Next]_x

StrInv == x.t = "str" =>
            /\ DecodeStr(EncodeStr(x.s)) = [ok |-> TRUE, v |-> x.s]
            /\ WellFormedPct(EncodeStr(x.s))
            /\ DecodeStr(Spell(x.s, x.sp)) = [ok |-> TRUE, v |-> x.s]
            /\ WellFormedPct(Spell(x.s, x.sp))
            /\ U8Dec(Utf8Bytes(x.s)) = [ok |-> TRUE, v |-> x.s]

SpC(c) == Spell(c.s, Uniform(c.s, c.e))
TextOf(ps) == Join([i \in 1..Len(ps) |-> SpC(ps[i].k) \o <<EQS>> \o SpC(ps[i].v)], AMP)
Abs(ps) == [i \in 1..Len(ps) |-> [k |-> ps[i].k.s, v |-> ps[i].v.s]]
PairInv == x.t = "pairs" =>
             LET text == TextOf(x.ps) IN
             /\ WellFormed(text)
             /\ AllUtf8(RefPairs(text))
             /\ Plain(RefPairs(text)) = Abs(x.ps)
             /\ Plain(RefPairs(EncodePairs(Abs(x.ps)))) = Abs(x.ps)
             /\ ImplMap(text) = [ok |-> TRUE, ps |-> Abs(x.ps)]          \* the walker refines the oracle on well-formed texts

\* `c=<char>&z=1`: what the serializer writes for a struct {c: char, z: u8}, read back by deserialize_char
CharInv == x.t = "char" =>
             LET text == ImplSerChar(x.cp) \o <<AMP, 122, EQS, 49>>
                 r == ImplDeChar(text) IN
             /\ (~CharRawDeviation(x.cp)) => (r.ok /\ r.cp = x.cp /\ r.rest = <<AMP, 122, EQS, 49>>)
             /\ CharRawDeviation(x.cp) => ~(r.ok /\ r.cp = x.cp /\ r.rest = <<AMP, 122, EQS, 49>>)
=============================================================================
