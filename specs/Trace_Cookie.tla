---------------------------- MODULE Trace_Cookie ----------------------------
(***************************************************************************)
(* Verdicts for C11.  One line {"id","scn","obs"} per scenario executed on *)
(* the real code.                                                          *)
(*  dec   WellFormedCookie(obs.text) (and distinct names, UTF-8 values) => *)
(*        obs.de = "ok" and every field of the target type carries the     *)
(*        value RefJar(obs.text) gives its cookie; unknown cookies ignored *)
(*  iter  obs.pairs = RefJar(obs.text), in order                           *)
(*  set   one line per SetCookie call, each line Conformant (single line,  *)
(*        RFC 6265 4.1.1), RefSet(line) = the given name/value/directives, *)
(*        and the crate's own parser returns the same                      *)
(***************************************************************************)
EXTENDS Cookie, TLC, Json, IOUtils

Rec == ndJsonDeserialize(IOEnv.TRACE)
VARIABLE l

YN(b) == IF b THEN "yes" ELSE "no"
HasSym(w) == \E j \in 1..Len(w) : w[j].c = "sym"
RawEq(jar) == \E i \in 1..Len(jar) : \E j \in 1..Len(jar[i].v) : jar[i].v[j].c = "eq" /\ jar[i].v[j].e = "r"
AnyEsc(jar) == \E i \in 1..Len(jar) : \E j \in 1..Len(jar[i].v) : jar[i].v[j].e # "r"
AnyQuoted(jar) == \E i \in 1..Len(jar) : jar[i].q = "y"
\* an Option field whose (unquoted) value starts with a raw `&`
OptAmp(jar) == \E i \in 1..Len(jar) : /\ Len(jar[i].n) = 1 /\ jar[i].n[1].c = "sym" /\ jar[i].n[1].s = "name:o"
                                      /\ jar[i].q = "n" /\ Len(jar[i].v) > 0 /\ jar[i].v[1].c = "amp" /\ jar[i].v[1].e = "r"
JarBinding(jar, ref) ==
  /\ Len(ref) = Len(jar)
  /\ \A i \in 1..Len(ref) :
       /\ ((~HasSym(jar[i].n)) => ([j \in 1..Len(ref[i].k.v) |-> NameClassOf(ref[i].k.v[j])] = [j \in 1..Len(jar[i].n) |-> jar[i].n[j].c]))
       /\ ((~HasSym(jar[i].v)) => (CkClassesOf(ref[i].v.v) = [j \in 1..Len(jar[i].v) |-> jar[i].v[j].c]))
Got(vout, name) == IF \E i \in 1..Len(vout) : vout[i].n = name THEN (vout[CHOOSE i \in 1..Len(vout) : vout[i].n = name]).v ELSE <<<<-1>>>>

DecSig(scn, out) == [mode |-> "dec", ty |-> scn.ty, out |-> out, raweq |-> YN(RawEq(scn.jar)), optamp |-> YN(OptAmp(scn.jar))]
DecJudge(scn, obs) ==
  IF obs.de = "noreq" THEN [ok |-> FALSE, sig |-> DecSig(scn, "request-refused")] ELSE
  LET text == obs.text
      ref == RefJar(text)
      fs == CkCatalogue[scn.ty]
      KeyIdx(f) == {i \in 1..Len(ref) : ref[i].k.v = CkNameCp(f)}
      \* every value the target reads is text; a cookie the target does not know may hold anything (it is skipped, whatever its escapes decode to)
      Known(i) == \E j \in 1..Len(fs) : ref[i].k.v = CkNameCp(fs[j].f)
      textual == IF scn.ty = "CkMap" THEN AllUtf8(ref) ELSE \A i \in 1..Len(ref) : ref[i].k.ok /\ (Known(i) => ref[i].v.ok)
      asserted == /\ WellFormedCookie(text) /\ textual
                  /\ (scn.ty = "CkMap" => \A i \in 1..Len(ref) : \A j \in 1..Len(ref) : i # j => ref[i].k.v # ref[j].k.v)
                  /\ \A i \in 1..Len(fs) : Cardinality(KeyIdx(fs[i].f)) = 1 \/ (fs[i].k = "optstr" /\ KeyIdx(fs[i].f) = {})
      FieldOK(fld) == LET ix == KeyIdx(fld.f)
                          got == Got(obs.vout, CkNameCp(fld.f)) IN
                      IF ix = {} THEN got = <<>>
                      ELSE LET v == ref[CHOOSE i \in ix : TRUE].v.v IN
                           IF fld.k = "optstr" /\ v = <<>> THEN got \in {<<>>, <<v>>} ELSE got = <<v>>
      MapOK == {<<obs.vout[i].n, obs.vout[i].v>> : i \in 1..Len(obs.vout)} = {<<ref[i].k.v, <<ref[i].v.v>>>> : i \in 1..Len(ref)}
  IN IF ~asserted THEN [ok |-> TRUE, sig |-> DecSig(scn, "unasserted")]
     ELSE IF ~JarBinding(scn.jar, ref) THEN [ok |-> FALSE, sig |-> DecSig(scn, "harness-mismatch")]
     ELSE IF ~obs.rot_same THEN [ok |-> FALSE, sig |-> DecSig(scn, "depends-on-cookie-order")]   \* the same pairs, last one first
     ELSE IF obs.de # "ok" THEN [ok |-> FALSE, sig |-> DecSig(scn, "de-err:" \o obs.errc)]
     ELSE IF scn.ty = "CkMap" THEN (IF MapOK THEN [ok |-> TRUE, sig |-> DecSig(scn, "ok")] ELSE [ok |-> FALSE, sig |-> DecSig(scn, "differs")])
     ELSE IF \A i \in 1..Len(fs) : FieldOK(fs[i]) THEN [ok |-> TRUE, sig |-> DecSig(scn, "ok")]
     ELSE LET i == CHOOSE i \in 1..Len(fs) : ~FieldOK(fs[i]) IN [ok |-> FALSE, sig |-> DecSig(scn, "differs") @@ [fld |-> fs[i].f]]

IterSig(scn, out) == [mode |-> "iter", ty |-> "Iter", out |-> out, raweq |-> YN(RawEq(scn.jar)), esc |-> YN(AnyEsc(scn.jar)), quoted |-> YN(AnyQuoted(scn.jar))]
IterJudge(scn, obs) ==
  IF obs.de = "noreq" THEN [ok |-> FALSE, sig |-> IterSig(scn, "request-refused")] ELSE
  LET ref == RefJar(obs.text) IN
  IF ~(WellFormedCookie(obs.text) /\ AllUtf8(ref)) THEN [ok |-> TRUE, sig |-> IterSig(scn, "unasserted")]
  ELSE IF ~JarBinding(scn.jar, ref) THEN [ok |-> FALSE, sig |-> IterSig(scn, "harness-mismatch")]
  ELSE IF obs.pairs = Plain(ref) THEN [ok |-> TRUE, sig |-> IterSig(scn, "ok")]
  ELSE [ok |-> FALSE, sig |-> IterSig(scn, IF Len(obs.pairs) # Len(ref) THEN "pair-count" ELSE "differs")]

\* ------------------------------------------------------------------ set
StrFeat(s) == IF s = <<>> THEN "empty" ELSE IF \A i \in 1..Len(s) : s[i] = "al" THEN "alnum" ELSE "special"
SetSig(scn, out, i) == [mode |-> "set", ty |-> "Set", out |-> out, n |-> ToString(Len(scn.cookies)),
                        value |-> IF i = 0 THEN "-" ELSE StrFeat(scn.cookies[i].v)]
DirBinding(d, g) == /\ (d.expires = "none") <=> (g.expires = <<>>)
                    /\ (d.maxage = "none") <=> (g.maxage = <<>>)
                    /\ (d.domain = "none") <=> (g.domain = <<>>)
                    /\ (d.path = "none") <=> (g.path = <<>>)
                    /\ (d.secure = "n") <=> (g.secure = <<>>)
                    /\ (d.httponly = "n") <=> (g.httponly = <<>>)
                    /\ (d.samesite = "none") <=> (g.samesite = <<>>)
SetBinding(scn, obs) == /\ Len(obs.given) = Len(scn.cookies)
                        /\ \A i \in 1..Len(scn.cookies) :
                             /\ CkClassesOf(obs.given[i].value) = scn.cookies[i].v
                             /\ [j \in 1..Len(obs.given[i].name) |-> NameClassOf(obs.given[i].name[j])] = scn.cookies[i].n
                             /\ DirBinding(scn.cookies[i].d, obs.given[i])
RefAgrees(r, g) == /\ r.ok /\ r.name = g.name /\ r.value.ok /\ r.value.v = g.value
                   /\ r.expires = g.expires /\ r.maxage = g.maxage /\ r.domain = g.domain /\ r.path = g.path
                   /\ r.secure = g.secure /\ r.httponly = g.httponly /\ r.samesite = g.samesite
SetJudge(scn, obs) ==
  IF ~SetBinding(scn, obs) THEN [ok |-> FALSE, sig |-> SetSig(scn, "harness-mismatch", 0)]
  ELSE IF obs.wire_error # "" \/ obs.other_lines # 0 THEN [ok |-> FALSE, sig |-> SetSig(scn, "response-broken", 0)]
  ELSE IF Len(obs.lines) # Len(obs.given) THEN [ok |-> FALSE, sig |-> SetSig(scn, "line-count", 0)]
  ELSE IF \E i \in 1..Len(obs.lines) : ~Conformant(obs.lines[i])
    THEN [ok |-> FALSE, sig |-> SetSig(scn, "non-conformant", CHOOSE i \in 1..Len(obs.lines) : ~Conformant(obs.lines[i]))]
  ELSE IF \E i \in 1..Len(obs.lines) : ~RefAgrees(RefSet(obs.lines[i]), obs.given[i])
    THEN [ok |-> FALSE, sig |-> SetSig(scn, "ref-parse-differs", CHOOSE i \in 1..Len(obs.lines) : ~RefAgrees(RefSet(obs.lines[i]), obs.given[i]))]
  ELSE IF Len(obs.own) # Len(obs.given) THEN [ok |-> FALSE, sig |-> SetSig(scn, "own-parser-dropped", 0)]
  ELSE IF \E i \in 1..Len(obs.own) : obs.own[i] # obs.given[i]
    THEN [ok |-> FALSE, sig |-> SetSig(scn, "own-parser-differs", CHOOSE i \in 1..Len(obs.own) : obs.own[i] # obs.given[i])]
  ELSE [ok |-> TRUE, sig |-> SetSig(scn, "ok", 0)]

Judge(r) == IF r.obs.kind # "cookie"
              THEN [ok |-> FALSE, sig |-> [mode |-> r.scn.mode, ty |-> r.scn.ty, out |-> r.obs.kind, where |-> r.obs.where]]
            ELSE IF r.scn.mode = "dec" THEN DecJudge(r.scn, r.obs)
            ELSE IF r.scn.mode = "iter" THEN IterJudge(r.scn, r.obs)
            ELSE SetJudge(r.scn, r.obs)

TInit == l = 1
TNext == /\ l <= Len(Rec)
         /\ l' = l + 1
         /\ LET j == Judge(Rec[l]) IN PrintT(ToJson([t |-> "VERDICT", id |-> Rec[l].id, ok |-> j.ok, sig |-> j.sig]))
TSpec == TInit /\ [][TNext]_l
=============================================================================
