SPECIFICATION Spec
CONSTANTS
  MaxLen = 3
  MaxPairs = 2
  SpellSet = {"r", "U", "L"}
INVARIANTS StrInv PairInv CharInv
CHECK_DEADLOCK FALSE
