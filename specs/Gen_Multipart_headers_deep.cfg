SPECIFICATION GSpec
CONSTANTS
  FAMILY = "headers"
  MaxParts = 2
  MaxLen = 1
  BNDS = {"b", "-b", "b-", "--", "bb"}
  FULLTARGETS = FALSE
INVARIANT Emit
CHECK_DEADLOCK FALSE
