------------------------------ MODULE CorsGen ------------------------------
(* Scenario generation (and the state space of the model check) for C14.  Applications are built item by item --
   route items (the same path may be registered by several items: split registration), mounts at a prefix that may
   be empty ("/") or coincide with a route of the parent (merged applications) -- and kept only while the modelled
   registration succeeds (a conflicting registration panics in the framework: not an application).  A finished
   application is emitted with a policy and the request set derived from its routes: preflights for every requested
   method (registered, unregistered, HEAD, OPTIONS, an unknown token) and simple requests for every method, to
   instances of every pattern and mount prefix and to near misses, with / without request headers and Origin. *)
EXTENDS Cors, Json

CONSTANTS NApps,      \* number of applications (app k >= 2 is mounted once, inside an app with a smaller index)
          MaxRoutes,  \* route items per application
          MaxDepth,   \* segments per route; mount prefixes have 0..MaxDepth segments
          MSETS,      \* "one" | "small" | "mid" | "full": family of method subsets a route item may carry
          PSIB,       \* TRUE: allow a mount that puts a second param child next to an existing one (named deviation)
          NPOL,       \* policies per finished application (rotating through PolicySeq); 0 = every policy
          RICHPOL,    \* FALSE: the 2^5 policies; TRUE: more origins, list shapes and max-age values
          RICHREQ     \* TRUE: more requested-method tokens and both param instances

SegStr  == {<<"a">>, <<"b">>}
Segs    == {SSeg(w) : w \in SegStr} \cup {PSeg}
RoutesN == UNION {[1..n -> Segs] : n \in 0..MaxDepth}
NParams(r) == Cardinality({i \in DOMAIN r : r[i].k = "P"})
MountPres == RoutesN                 \* (a config may replace it, e.g. by StaticPairs: mount prefixes of two static segments)
StaticPairs == {<<SSeg(x), SSeg(y)>> : x \in SegStr, y \in SegStr}
MethodSets ==
  CASE MSETS = "one"   -> {<<"GET">>, <<"POST">>}
    [] MSETS = "small" -> {<<"GET">>, <<"POST">>, <<"GET", "POST">>, <<"PUT", "DELETE">>, <<"GET", "PUT">>}
    [] MSETS = "mid"   -> {<<"GET">>, <<"POST">>, <<"PUT">>, <<"DELETE">>, <<"GET", "POST">>, <<"PUT", "DELETE">>, <<"GET", "PUT">>, <<"GET", "PUT", "POST", "DELETE">>}
    [] MSETS = "full"  -> {SelectSeq(<<"GET", "PUT", "POST", "DELETE">>, LAMBDA m : m \in S) : S \in (SUBSET {"GET", "PUT", "POST", "DELETE"}) \ {{}}}

\* ------------------------------------------------------------------------------------------ policies
Unset == [set |-> FALSE, list |-> <<>>]
Lst(l) == [set |-> TRUE, list |-> l]
PolicySet ==
  IF ~RICHPOL
    THEN [origin : {"star", "o1"}, cred : BOOLEAN, allowh : {Unset, Lst(<<"h1", "h2">>)}, expose : {Unset, Lst(<<"h3">>)}, maxage : {"", "600"}]
    ELSE [origin : {"star", "o1", "o2"}, cred : BOOLEAN, allowh : {Unset, Lst(<<"h1">>), Lst(<<"h2", "h1", "h4">>), Lst(<<>>)},
          expose : {Unset, Lst(<<"h3", "h4">>), Lst(<<>>)}, maxage : {"", "0", "86400", "4294967295"}]
PolicySeq == SetToSeq(PolicySet)

VARIABLES apps, mountedSet, nextH, pol, done
vars == <<apps, mountedSet, nextH, pol, done>>

Init == /\ apps = [a \in 1..NApps |-> [fangs |-> <<>>, items |-> <<>>]]
        /\ mountedSet = {} /\ nextH = 1 /\ pol = PolicySeq[1] /\ done = FALSE

Items(a) == SeqToSet(apps[a].items)
Placed(a) == a = 1 \/ a \in mountedSet
RECURSIVE ParamsAbove(_)
ParamsAbove(a) == IF a = 1 THEN 0
                  ELSE LET par == CHOOSE j \in 1..NApps : \E it \in Items(j) : it.t = "mount" /\ it.app = a
                           it == CHOOSE it \in Items(par) : it.t = "mount" /\ it.app = a
                       IN ParamsAbove(par) + NParams(it.segs)
\* the framework builds it (modelled), and unless PSIB no mount creates param siblings
Buildable(ap) == LET rt == BuildApp(ap) IN rt.ok /\ (PSIB \/ \A d \in rt.dev : d.cls # "param-sibling")

AddRoute(a, r, ms) ==
  /\ ~done /\ Placed(a) /\ Cardinality({it \in Items(a) : it.t = "route"}) < MaxRoutes
  /\ ParamsAbove(a) + NParams(r) =< 2
  /\ LET ap == [apps EXCEPT ![a].items = Append(@, [t |-> "route", segs |-> r, methods |-> ms, local |-> <<>>, h |-> nextH, app |-> 0])] IN
     Buildable(ap) /\ apps' = ap
  /\ nextH' = nextH + 1 /\ UNCHANGED <<mountedSet, pol, done>>
AddMount(a, pre, b) ==
  /\ ~done /\ Placed(a) /\ b > a /\ b \notin mountedSet /\ b = 2 + Cardinality(mountedSet)
  /\ ParamsAbove(a) + NParams(pre) =< 2
  /\ LET ap == [apps EXCEPT ![a].items = Append(@, [t |-> "mount", segs |-> pre, methods |-> <<>>, local |-> <<>>, h |-> 0, app |-> b])] IN
     Buildable(ap) /\ apps' = ap      \* (merging even an empty application creates the nodes of the prefix in every tree)
  /\ mountedSet' = mountedSet \cup {b} /\ UNCHANGED <<nextH, pol, done>>
\* (a child is mounted as soon as it is declared and filled afterwards: the application VALUE is the same as when the
\*  child is written first; the model and the harness both build recursively from the final value.  A route added to
\*  the child later is checked against the parent's items that precede the mount item through Buildable.)

Fp == FoldLeft(LAMBDA acc, a : FoldLeft(LAMBDA ac2, it : ac2 * 3 + Len(it.segs) * 5 + Len(it.methods) + it.app, acc, apps[a].items), 0, [a \in 1..NApps |-> a])
Finish(k) == /\ ~done /\ mountedSet = 2..NApps /\ \A a \in 1..NApps : \E it \in Items(a) : it.t = "route"
             /\ pol' = IF NPOL = 0 THEN PolicySeq[k] ELSE PolicySeq[((Fp + 11 * k) % Len(PolicySeq)) + 1]
             /\ done' = TRUE /\ UNCHANGED <<apps, mountedSet, nextH>>

Next == \/ \E a \in 1..NApps : \E r \in RoutesN : \E ms \in MethodSets : AddRoute(a, r, ms)
        \/ \E a \in 1..NApps : \E pre \in MountPres : \E b \in 2..NApps : AddMount(a, pre, b)
        \/ \E k \in 1..(IF NPOL = 0 THEN Len(PolicySeq) ELSE NPOL) : Finish(k)
Spec == Init /\ [][Next]_vars

\* ------------------------------------------------------------------------------------------ requests
InstWith(r, w) == [i \in DOMAIN r |-> IF r[i].k = "S" THEN r[i].s ELSE w]
Front1(s) == SubSeq(s, 1, Len(s) - 1)
ParamWords == IF RICHREQ THEN {<<"b", "b">>, <<"a">>} ELSE {<<"b", "b">>}
Insts(ap) == LET rts == AllPats(ap) \cup {mt.prefix : mt \in AllMounts(ap)} IN {InstWith(r, w) : r \in rts, w \in ParamWords}
NearMisses(ap) == (UNION {{Append(p, <<"a">>)} \cup (IF p = <<>> THEN {} ELSE {Front1(p)}) : p \in Insts(ap)} \cup {<<<<"b", "b">>, <<"a">>>>}) \ Insts(ap)
\* (besides method names: words that are no method but are pieces of the names or of a list of them -- `PU`, `ET`, `GET, PUT` --
\*  which a textual test against the advertised list would let through)
PfMethods == IF RICHREQ THEN <<"GET", "POST", "PUT", "DELETE", "HEAD", "OPTIONS", "FOO", "PATCH", "get", "PU", "ET", "GET, PUT", "HEA", ",", "OPTION">>
                        ELSE <<"GET", "POST", "PUT", "DELETE", "HEAD", "OPTIONS", "FOO", "PU", "ET", "GET, PUT">>
SimpleMethods == <<"GET", "POST", "PUT", "DELETE", "HEAD", "OPTIONS">>
AcrhSeq   == <<Unset, Lst(<<"h1">>), Lst(<<"h2", "h4">>)>>
OriginSeq == <<"o1", "none", "o3">>
Tr(p, n) == IF p = <<>> THEN 1 ELSE n % 2
MkReq(m, p, acrm, n) == [method |-> m, path |-> p, trailing |-> Tr(p, n \div 3), acrm |-> acrm,
                         acrh |-> AcrhSeq[(n % 3) + 1], origin |-> OriginSeq[((n \div 2) % 3) + 1]]
\* instances get every requested method and every simple method; near misses one of each (rotating)
Reqs(ap) ==
  LET is == SetToSeq(Insts(ap))
      ns == SetToSeq(NearMisses(ap))
      np == Len(PfMethods)  nm == Len(SimpleMethods)
  IN {MkReq("OPTIONS", is[i], PfMethods[k], i + k) : i \in DOMAIN is, k \in DOMAIN PfMethods}
     \cup {MkReq(SimpleMethods[k], is[i], "", i + 2 * k) : i \in DOMAIN is, k \in DOMAIN SimpleMethods}
     \cup {MkReq("OPTIONS", ns[i], PfMethods[(i % np) + 1], i) : i \in DOMAIN ns}
     \cup {MkReq(SimpleMethods[(i % nm) + 1], ns[i], "", i + 1) : i \in DOMAIN ns}

\* every other mounted application carries a gate: a fang of its own that refuses (401) every request but OPTIONS before the handler --
\* an error response produced INSIDE the application that carries the CORS fang, which must leave with the CORS headers like any other
Gate(a) == IF a > 1 /\ (Fp + a) % 2 = 0 THEN <<1>> ELSE <<>>
Emit == done => PrintT(ToJson([policy |-> pol, apps |-> [a \in DOMAIN apps |-> [apps[a] EXCEPT !.fangs = Gate(a)]], reqs |-> SetToSeq(Reqs(apps))]))
=============================================================================
