\* quick: every day 1970-01-01 .. 2500-12-31 (more than one full 400-year cycle), 400-year jumps from 1970-01-01 to
\* 9970-01-01, every day 9970-01-01 .. 9999-12-31; every second of a day; every n <= 10^5
SPECIFICATION Spec
CONSTANTS
  LastDay = 2932896
  StepUntil = 193943
  TailFrom = 2921940
  MaxN = 100000
  LeapRule = "gregorian"
  StartDay = 0
  NumLane = 10000
INVARIANTS CalAgree CalEnd ClockAgree NumAgree
CHECK_DEADLOCK FALSE
