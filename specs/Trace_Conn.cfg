INIT TInitAll
NEXT TNextAll
CONSTANTS
  BUF = 4
  HEADLOOP = TRUE
  CARRY = FALSE
CHECK_DEADLOCK FALSE
