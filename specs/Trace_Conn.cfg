INIT TInitAll
NEXT TNextAll
CONSTANTS
  BUF = 4
  HEADLOOP = TRUE
  CARRY = TRUE
CHECK_DEADLOCK FALSE
