SPECIFICATION GSpec
CONSTANTS
  PER_REQUEST_DEADLINE = FALSE
  EAGER_CANCEL = TRUE
  MARGIN = 2
  SS = {10}
  TD = {0, 3, 5, 8}
  PRE = {0, 2}
  POST = {0, 2}
  SD = {2, 3, 4, 6}
  ATS = {0, 1, 3}
  GAPS = {0, 2, 4, 7}
  FINS = {0, 1, 3}
  NAPP = 2
  NSUB = 1
  NLOC = 1
  NSCRIPT = 2
  NREQ = 3
  MNT = TRUE
CHECK_DEADLOCK FALSE
