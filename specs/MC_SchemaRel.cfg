SPECIFICATION MSpec
CONSTANT TIER = "mc"
INVARIANTS IdealOK MutantsCaught
CHECK_DEADLOCK FALSE
