--------------------------- MODULE Trace_Extract ---------------------------
(***************************************************************************)
(* Verdicts for C07.  Input (IOEnv.TRACE): ndjson, one {"id","scn","obs"}  *)
(* line per scenario executed on the real code by `vh run extract`.        *)
(*                                                                         *)
(*  binding   the concrete spelling the harness wrote for every segment    *)
(*            token (obs.sent) must be an admissible spelling of that      *)
(*            token (SpellTab / LitTab): "harness-mismatch" otherwise      *)
(*  verdict   OutcomeOK(scn, [ran, vals]) of Extract.tla; an observation   *)
(*            without a handler run must carry an error status             *)
(*  signature class of every declared item whose received value is outside *)
(*            its allowed set (`bad` = the first, `rest` = the distinct    *)
(*            others), or the classes of all items when a request that     *)
(*            must run was refused                                         *)
(*  drift     the observation differs from the mechanism model (layer b)   *)
(*            although the model names no deviation: reported, never a     *)
(*            violation                                                    *)
(***************************************************************************)
EXTENDS Extract, Json, IOUtils

Rec == ndJsonDeserialize(IOEnv.TRACE)
VARIABLE l

\* ------------------------------------------------------------------ admissible spellings (the harness' table, restated)
Ch3(a, b, c) == <<a, b, c>>
SpellTab(t) ==
  CASE t \in {"0", "1", "7", "9", "-", "+"} -> {<<t>>}
    [] t = "L"  -> {<<"a">>, <<"x">>, <<"q">>, <<"_">>}
    [] t = "e0" -> {Ch3("%", "3", "0")}
    [] t = "e7" -> {Ch3("%", "3", "7")}
    [] t = "eL" -> {Ch3("%", "4", "1"), Ch3("%", "5", "A"), Ch3("%", "4", "d")}
    [] t = "sp" -> {Ch3("%", "2", "0")}
    [] t = "sl" -> {Ch3("%", "2", "F"), Ch3("%", "2", "f")}
    [] t = "pc" -> {Ch3("%", "2", "5")}
    [] t = "bz" -> {Ch3("%", "G", "G")}
    [] t = "ff" -> {Ch3("%", "F", "F"), Ch3("%", "F", "E"), Ch3("%", "f", "f")}
    [] t = "c3" -> {Ch3("%", "C", "3"), Ch3("%", "E", "3"), Ch3("%", "F", "0")}
    [] t = "mb" -> {Ch3("%", "C", "3") \o Ch3("%", "B", "C"), Ch3("%", "c", "3") \o Ch3("%", "b", "c"),
                    Ch3("%", "E", "3") \o Ch3("%", "8", "1") \o Ch3("%", "8", "2"),
                    Ch3("%", "F", "0") \o Ch3("%", "9", "F") \o Ch3("%", "9", "8") \o Ch3("%", "8", "0")}
    [] OTHER -> {}
SpellOK(t, sp) == IF t \in LitTok THEN sp = LitTab[t] ELSE sp \in SpellTab(t)
WellFormedScn(scn) == /\ Len(scn.segs) = NParams(scn.route)
                      /\ Len(scn.ptys) =< Len(scn.segs)
                      /\ \A i \in 1..Len(scn.segs) : Len(scn.segs[i]) > 0 /\ \A j \in 1..Len(scn.segs[i]) : scn.segs[i][j] \in SegTok
SentOK(scn, obs) == /\ Len(obs.sent) = Len(scn.segs)
                    /\ \A i \in 1..Len(scn.segs) :
                         /\ Len(obs.sent[i]) = Len(scn.segs[i])
                         /\ \A j \in 1..Len(scn.segs[i]) : SpellOK(scn.segs[i][j], obs.sent[i][j])

\* ------------------------------------------------------------------ classes for signatures
\* the `-?digits` prefix of the decoded characters, as the value it denotes ("" if there is none)
PrefixCanon(ty, cs) ==
  LET neg == ty \in SignedTy /\ cs # <<>> /\ cs[1] = "-"
      body == IF neg THEN Tail(cs) ELSE cs
      n == DigitPrefixLen(body)
      mag == StripZ(SubSeq(body, 1, n)) IN
  IF n = 0 THEN <<>> ELSE IF neg /\ mag # <<"0">> THEN <<"-">> \o mag ELSE mag
\* does a magnitude exceed the 64-bit accumulator of the type's reader
Beyond64(ty, neg, mag) == IF ty \in UnsignedTy THEN ~MagLE(mag, U64Max) ELSE IF neg THEN ~MagLE(mag, I64Min) ELSE ~MagLE(mag, I64Max)
IntDetail(ty, toks) ==
  LET c == IntClass(ty, toks)
      cs == SegChars(toks)
      neg == ty \in SignedTy /\ cs # <<>> /\ cs[1] = "-"
      body == IF neg THEN Tail(cs) ELSE cs
      n == DigitPrefixLen(body)
      mag == StripZ(SubSeq(body, 1, n)) IN
  CASE c = "out-of-range" -> LET d == Denoted(cs) IN
                             IF cs[1] # "+" /\ (d.neg => ty \in SignedTy) /\ Beyond64(ty, d.neg, d.mag) THEN "oor-wraps" ELSE "oor-narrow"
    [] c = "not-an-integer" -> IF n = 0 THEN "no-digits"
                               ELSE IF Beyond64(ty, neg, mag) THEN "wrapprefix+garbage" ELSE "prefix+garbage"
    [] OTHER -> c
StrDetail(ty, toks) == (IF SegBad(toks) THEN "not-utf8" ELSE IF SegInvalid(toks) THEN "invalid-escape" ELSE IF SegEsc(toks) THEN "escaped" ELSE "plain") \o (IF ty = "str" THEN ":borrowed" ELSE "")
ParamClass(ty, toks) == IF ty \in IntTy THEN "int:" \o IntDetail(ty, toks) ELSE "str:" \o StrDetail(ty, toks)
ItemClass(it, rq) == it.x \o (IF it.opt THEN ":opt:" ELSE ":req:") \o Carried(it, rq).st
                     \o (IF it.x \in BodyX /\ rq.ct.mime = it.x /\ rq.ct.var = "case" THEN ":case" ELSE "")

\* the binding used for signatures and drift: the first k captured segments
ThingClass(scn, i) == IF i =< Len(scn.ptys) THEN ParamClass(scn.ptys[i], scn.segs[i])
                      ELSE ItemClass(scn.items[i - Len(scn.ptys)], scn.rq)
NThings(scn) == Len(scn.ptys) + Len(scn.items)
RECURSIVE JoinFrom(_, _, _)
JoinFrom(f, i, n) == IF i > n THEN "" ELSE IF i = n THEN f[i] ELSE f[i] \o "," \o JoinFrom(f, i + 1, n)
AllClasses(scn) == LET f == [i \in 1..NThings(scn) |-> ThingClass(scn, i)] IN JoinFrom(f, 1, NThings(scn))

FirstRs(scn) == [i \in 1..Len(scn.ptys) |-> ParamResults(scn.ptys[i], scn.segs[i])]
                \o [i \in 1..Len(scn.items) |-> ItemResults(scn.items[i], scn.rq)]
OutRel(scn, i, val) ==
  IF i =< Len(scn.ptys) /\ scn.ptys[i] \in IntTy /\ val.k = "int"
    THEN (IF val.v = PrefixCanon(scn.ptys[i], SegChars(scn.segs[i])) THEN "ran-prefix" ELSE "ran-other")
  ELSE "ran-" \o val.k
RECURSIVE SetToStr(_)
SetToStr(S) == IF S = {} THEN "" ELSE LET x == CHOOSE y \in S : TRUE IN IF S = {x} THEN x ELSE x \o "," \o SetToStr(S \ {x})

Judge(r) ==
  LET scn == r.scn
      obs == r.obs IN
  IF obs.kind # "resp" THEN [ok |-> FALSE, drift |-> FALSE, sig |-> [fam |-> scn.fam, out |-> obs.kind, bad |-> AllClasses(scn), rest |-> obs.where]]
  ELSE IF ~WellFormedScn(scn) \/ ~SentOK(scn, obs) THEN [ok |-> FALSE, drift |-> FALSE, sig |-> [fam |-> scn.fam, out |-> "harness-mismatch", bad |-> "", rest |-> ""]]
  ELSE
  LET o == [ran |-> obs.ran = 1, vals |-> obs.vals]
      m == ImplOutcome(scn)
      drift == m.devs = {} /\ m.o # o
      rs == FirstRs(scn)
      offending == IF o.ran /\ Len(o.vals) = Len(rs) THEN {i \in 1..Len(rs) : Ok(o.vals[i]) \notin rs[i]} ELSE {} IN
  IF obs.ran > 1 THEN [ok |-> FALSE, drift |-> drift, sig |-> [fam |-> scn.fam, out |-> "ran-twice", bad |-> AllClasses(scn), rest |-> ""]]
  ELSE IF obs.ran = 0 /\ obs.status < 400 THEN [ok |-> FALSE, drift |-> drift, sig |-> [fam |-> scn.fam, out |-> "no-run-no-error:" \o ToString(obs.status), bad |-> AllClasses(scn), rest |-> ""]]
  ELSE IF OutcomeOK(scn, o) THEN [ok |-> TRUE, drift |-> drift, sig |-> [fam |-> scn.fam, out |-> IF o.ran THEN "ran" ELSE "refused", bad |-> "", rest |-> ""]]
  ELSE IF ~o.ran THEN [ok |-> FALSE, drift |-> drift, sig |-> [fam |-> scn.fam, out |-> "refused", bad |-> AllClasses(scn), rest |-> ""]]
  ELSE IF offending = {} THEN [ok |-> FALSE, drift |-> drift, sig |-> [fam |-> scn.fam, out |-> "ran-arity", bad |-> AllClasses(scn), rest |-> ""]]
  ELSE LET first == CHOOSE i \in offending : \A j \in offending : i =< j
           desc(i) == ThingClass(scn, i) \o ">" \o OutRel(scn, i, o.vals[i])
           others == {desc(i) : i \in offending} \ {desc(first)} IN
       [ok |-> FALSE, drift |-> drift, sig |-> [fam |-> scn.fam, out |-> "ran", bad |-> desc(first), rest |-> SetToStr(others)]]

TInit == l = 1
TNext == /\ l <= Len(Rec) /\ l' = l + 1
         /\ LET j == Judge(Rec[l]) IN PrintT(ToJson([t |-> "VERDICT", id |-> Rec[l].id, ok |-> j.ok, drift |-> j.drift, sig |-> j.sig]))
TSpec == TInit /\ [][TNext]_l
=============================================================================
