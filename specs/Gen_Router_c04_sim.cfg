SPECIFICATION Spec
CONSTANTS
  BOUNDARY = TRUE
  RULE = "precise"
  NApps = 3
  MaxRoutes = 3
  MaxDepth = 2
  MODE = "c04"
  FANGS = TRUE
  METHODS = FALSE
  RICH = TRUE
INVARIANT Emit
CHECK_DEADLOCK FALSE
