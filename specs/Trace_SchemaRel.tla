--------------------------- MODULE Trace_SchemaRel ---------------------------
(***************************************************************************)
(* Verdict per observation line for C16.  A line is                        *)
(*   {"id", "scn": <definition as SchemaRelGen printed it>,                *)
(*    "obs": {"kind":"ok", "schema": node, "samples":[{v, some, json,      *)
(*            roundtrip, probes:[{path, ok}]}]}                            *)
(*         | {"kind":"derive-panic"|"derive-compile-error"|"panic",        *)
(*            "cls": outcome class}}                                       *)
(* ok    = the relation SchemaMatchesSerde holds between the schema the    *)
(*         real derive produced and what the real serde wrote / read.      *)
(* refok = the spec's own reference of serde (RefValue, RefProbeOk) agrees *)
(*         with what serde did: FALSE is a defect of the SPEC (tool error),*)
(*         never a violation.                                              *)
(* fails = one signature per violated fact (all are classified).           *)
(***************************************************************************)
EXTENDS SchemaRel, Json, IOUtils

Rec == ndJsonDeserialize(IOEnv.TRACE)
VARIABLE l
TInit == l = 1

AnyField(d, Q(_)) == \E i \in DOMAIN d.fields : Q(d.fields[i])
FirstOr(S, dflt) == IF S = {} THEN dflt ELSE CHOOSE x \in S : TRUE
\* class of a definition whose derive did not produce a schema: the attributes that can make an expansion fail
CompileSig(d, obs) ==
  LET base == [Sig0 EXCEPT !.kind = d.kind, !.fact = obs.kind, !.outcome = obs.cls, !.ra = d.ra] IN
  IF d.kind = "struct"
    THEN LET isflat(f) == f.flatten
             isdash(f) == f.rclass = "dash"
             odd == {d.fields[i].style : i \in {j \in DOMAIN d.fields : ~WellSnake(d.fields[j].name)}}
             tys == {d.fields[i].ty : i \in {j \in DOMAIN d.fields : d.fields[j].ty \notin {"str", "int", "inner"}}} IN
         [base EXCEPT !.flatten = B(AnyField(d, isflat)), !.rclass = IF AnyField(d, isdash) THEN "dash" ELSE "-",
                      !.style = FirstOr(odd, "-"), !.ty = FirstOr(tys, "-")]
    ELSE LET nt == \E i \in DOMAIN d.variants : d.variants[i].shape = "newtype" IN
         [base EXCEPT !.tagging = d.tagging, !.shape = IF nt THEN "newtype" ELSE "-"]

Judge(r) ==
  LET d == r.scn IN
  IF r.obs.kind = "ok"
    THEN LET samples == Rng(r.obs.samples)
             refok == ("proxy" \in DOMAIN d) \/ \A s \in samples :
                         /\ s.roundtrip = RefRoundtripV(d, s.v)
                         /\ Canon(s.json) = Canon(RefValue(d, s.v, s.some))
                         /\ \A p \in Rng(s.probes) : p.ok = RefProbeOk(d, s.v, p.path)
             sigs == {SigOf(d, f) : f \in Fails(d, r.obs.schema, samples)}
         IN [ok |-> sigs = {}, refok |-> refok, fails |-> SetToSeq(sigs)]
    ELSE [ok |-> FALSE, refok |-> TRUE, fails |-> <<CompileSig(d, r.obs)>>]

TNext == /\ l <= Len(Rec) /\ l' = l + 1
         /\ LET j == Judge(Rec[l]) IN
            PrintT(ToJson([t |-> "VERDICT", id |-> Rec[l].id, ok |-> j.ok, refok |-> j.refok,
                           sig |-> IF j.fails = <<>> THEN [Sig0 EXCEPT !.fact = "ok"] ELSE j.fails[1],
                           fails |-> j.fails]))
TSpec == TInit /\ [][TNext]_l
=============================================================================
