SPECIFICATION Spec
CONSTANTS
  BOUNDARY = TRUE
  RULE = "precise"
  REPAIR = FALSE
  NApps = 3
  MaxRoutes = 2
  MaxDepth = 2
  MSETS = "full"
  PSIB = TRUE
  NPOL = 1
  RICHPOL = FALSE
  RICHREQ = FALSE
  KnownDeviations = {"split-registration", "merged-apps", "param-sibling"}
INVARIANTS Refines Builds ClassAgrees
CHECK_DEADLOCK FALSE
