SPECIFICATION Spec
CONSTANTS
  BOUNDARY = TRUE
  RULE = "precise"
  NApps = 3
  MaxRoutes = 3
  MaxDepth = 2
  MODE = "c01"
  FANGS = FALSE
  METHODS = TRUE
  RICH = FALSE
INVARIANT Emit
CHECK_DEADLOCK FALSE
