SPECIFICATION GSpec
CONSTANTS
  BUF = 4
  HEADLOOP = TRUE
  CARRY = TRUE
  MaxReqs = 2
  MaxBody = 5
  MaxCuts = 0
  MODE = "c05"
INVARIANT Emit
CHECK_DEADLOCK FALSE
