------------------------------- MODULE Timers -------------------------------
(***************************************************************************)
(* TIMERS — the time-dependent behaviour of one connection (an extension   *)
(* of the specification beyond the listed properties).                     *)
(*                                                                         *)
(*  (a) ohkami/src/session/mod.rs  Session::manage:                         *)
(*        timeout_in(Duration::from_secs(CONFIG.keepalive_timeout()),      *)
(*                   async { loop { read; handle; send } })                *)
(*      ONE deadline for the whole session, armed when the session starts: *)
(*      it covers every request of the connection, the time handlers take  *)
(*      and the time responses take to be written.  It is NOT restarted    *)
(*      per request (PER_REQUEST_DEADLINE = FALSE is what the code does;   *)
(*      TRUE is what the name "keep-alive timeout" suggests).  When it     *)
(*      expires the session future is dropped: whatever was in progress is *)
(*      abandoned, the connection is closed, no further byte is written.   *)
(*  (b) ohkami/src/fang/builtin/timeout.rs  Timeout fang:                   *)
(*        timeout_in(self.time, inner.bite(req)).unwrap_or(500 "timeout")  *)
(*      nested Timeout fangs each run their own timer; when a timer wins   *)
(*      the inner future is dropped at its current await point (nothing    *)
(*      after that point runs: EAGER_CANCEL = TRUE) and the fangs outside  *)
(*      still run their `back` parts on the 500.                           *)
(*  (c) ohkami/src/util.rs  timeout_in: the wrapped future is polled       *)
(*      first; the timer is only consulted when the wrapped future is      *)
(*      Pending.  A future that is ready when the timer has also expired   *)
(*      wins (the tie rule).                                               *)
(*                                                                         *)
(* Time is discrete (one tick; the conformance harness uses 100 ms).       *)
(* Layer (a) of BUILDING.md is the denotational oracle `Expected(scn)`     *)
(* (the timed event lists a scenario allows), layer (b) the step machine   *)
(* below (one action per step of the code, explicit `Tick`), and           *)
(* MC_Timers checks that every behaviour of the machine ends with exactly  *)
(* the oracle's history and satisfies the invariants.                      *)
(***************************************************************************)
EXTENDS Integers, Sequences, FiniteSets, TLC

CONSTANTS PER_REQUEST_DEADLINE,   \* FALSE: the code.  TRUE: the session deadline restarts when a request is parsed
          EAGER_CANCEL,           \* TRUE: the code.   FALSE: a Timeout fang only looks at its clock when the inner part returns
          MARGIN                  \* robustness margin in ticks (Robust): 0 in model checking, 2 (= 200 ms) in conformance

\* ------------------------------------------------------------------ vocabulary
\* layer    [k |-> "T", id |-> 0, d |-> ticks, pre |-> 0, post |-> 0]      the builtin Timeout fang
\*          [k |-> "L", id |-> n, d |-> 0, pre |-> ticks, post |-> ticks]  a logging fang sleeping before / after its inner part
\* request  [at |-> tick of the client's send, mnt |-> 0|1, loc |-> layers, script |-> <<d1, ..>> (di >= 1), close |-> 0|1]
\* scenario [S |-> session deadline, app |-> layers, sub |-> layers, conn |-> requests (at nondecreasing), fin |-> 0 | tick >= last at]
\* event    [t |-> tick, e |-> kind, a |-> int, b |-> int]
\*          server side: parsed(close) enter(id) leave(id) fdrop(id) hstart(k) hpoint(k,j) hend(k) hdrop(k) handled(status) sent close returned
\*          ghosts (not observable on the unmodified code): arm(layer index, deadline) fire(layer index) sfire
\*          client side: resp(status, code) with code = k for the body of handler k, 0 for the text "timeout"; eof
Ev(t, e, a, b) == [t |-> t, e |-> e, a |-> a, b |-> b]
Ghost == {"arm", "fire", "sfire"}
OnionOf(scn, r) == scn.app \o (IF r.mnt = 1 THEN scn.sub ELSE <<>>) \o r.loc
Max2(x, y) == IF x >= y THEN x ELSE y
Abs(x) == IF x >= 0 THEN x ELSE 0 - x

RECURSIVE SumTo(_, _)
SumTo(sc, j) == IF j = 0 THEN 0 ELSE sc[j] + SumTo(sc, j - 1)

\* ------------------------------------------------------------------ (a) the oracle: what a scenario allows
HandlerEv(k, sc, t0) ==
  <<Ev(t0, "hstart", k, 0)>> \o [j \in 1..Len(sc) |-> Ev(t0 + SumTo(sc, j), "hpoint", k, j)] \o <<Ev(t0 + SumTo(sc, Len(sc)), "hend", k, 0)>>

\* the frames that are open after a sequence of events, outermost first
RECURSIVE OpenAfter(_, _, _)
OpenAfter(ev, j, st) ==
  IF j > Len(ev) THEN st
  ELSE LET x == ev[j] IN
       IF x.e = "enter" THEN OpenAfter(ev, j + 1, Append(st, <<"fdrop", x.a>>))
       ELSE IF x.e = "hstart" THEN OpenAfter(ev, j + 1, Append(st, <<"hdrop", x.a>>))
       ELSE IF x.e \in {"leave", "hend", "fdrop", "hdrop"} THEN OpenAfter(ev, j + 1, SubSeq(st, 1, Len(st) - 1))
       ELSE OpenAfter(ev, j + 1, st)
\* dropping a future drops its frames innermost first
DropsOf(ev, t) == LET st == OpenAfter(ev, 1, <<>>) IN [j \in 1..Len(st) |-> Ev(t, st[Len(st) + 1 - j][1], st[Len(st) + 1 - j][2], 0)]
UpTo(ev, t) == SelectSeq(ev, LAMBDA x : x.t =< t)
TooClose(ev, t0, dl) == \E j \in DOMAIN ev : ev[j].t # t0 /\ Abs(ev[j].t - dl) < MARGIN

\* one onion: layers ls[i..], entered at t0, around the handler of request k with script sc
\*   end: when it returns, res: what it returns, ev: its events, near: a comparison with a fang deadline was closer than MARGIN
RECURSIVE Eval(_, _, _, _, _)
Eval(ls, i, t0, k, sc) ==
  IF i > Len(ls) THEN [end |-> t0 + SumTo(sc, Len(sc)), res |-> "body", ev |-> HandlerEv(k, sc, t0), near |-> FALSE]
  ELSE IF ls[i].k = "L" THEN
    LET inner == Eval(ls, i + 1, t0 + ls[i].pre, k, sc)
        e == inner.end + ls[i].post
    IN [end |-> e, res |-> inner.res, near |-> inner.near,
        ev |-> <<Ev(t0, "enter", ls[i].id, 0)>> \o inner.ev \o <<Ev(e, "leave", ls[i].id, 0)>>]
  ELSE
    LET inner == Eval(ls, i + 1, t0, k, sc)
        dl == t0 + ls[i].d
        arm == <<Ev(t0, "arm", i, dl)>>
        nr == inner.near \/ TooClose(inner.ev, t0, dl)
    IN IF inner.end =< dl                           \* the tie rule (c): ready at the deadline wins
       THEN [end |-> inner.end, res |-> inner.res, near |-> nr, ev |-> arm \o inner.ev]
       ELSE LET kept == UpTo(inner.ev, dl) IN
            [end |-> dl, res |-> "timeout", near |-> nr, ev |-> arm \o kept \o <<Ev(dl, "fire", i, 0)>> \o DropsOf(kept, dl)]

StatusOf(res) == IF res = "body" THEN 200 ELSE 500
CodeOf(res, k) == IF res = "body" THEN k ELSE 0

\* the session loop from request k on; `free`: when the loop is back at its read, `dl`: the session deadline in force
RECURSIVE Serve(_, _, _, _)
Serve(scn, k, free, dl) ==
  IF k > Len(scn.conn) THEN
    LET ct == Max2(free, scn.fin) IN
    IF scn.fin > 0 /\ ct =< dl
    THEN [sv |-> <<Ev(ct, "close", 0, 0), Ev(ct, "returned", 0, 0)>>, cl |-> <<Ev(ct, "eof", 0, 0)>>, end |-> ct, near |-> Abs(ct - dl) < MARGIN]
    ELSE [sv |-> <<Ev(dl, "sfire", 0, 0), Ev(dl, "returned", 0, 0)>>, cl |-> <<Ev(dl, "eof", 0, 0)>>, end |-> dl,
          near |-> scn.fin > 0 /\ Abs(ct - dl) < MARGIN]
  ELSE
    LET r == scn.conn[k]
        start == Max2(free, r.at)
    IN IF start > dl
       THEN [sv |-> <<Ev(dl, "sfire", 0, 0), Ev(dl, "returned", 0, 0)>>, cl |-> <<Ev(dl, "eof", 0, 0)>>, end |-> dl, near |-> Abs(start - dl) < MARGIN]
       ELSE
         LET dl2 == IF PER_REQUEST_DEADLINE THEN start + scn.S ELSE dl
             x == Eval(OnionOf(scn, r), 1, start, k, r.script)
             head == <<Ev(start, "parsed", r.close, 0)>>
             tail == <<Ev(x.end, "handled", StatusOf(x.res), 0), Ev(x.end, "sent", 0, 0)>>
             nr == x.near \/ Abs(start - dl) < MARGIN \/ TooClose(x.ev \o tail, -1, dl2)
             me == Ev(x.end, "resp", StatusOf(x.res), CodeOf(x.res, k))
         IN IF x.end =< dl2
            THEN IF r.close = 1
                 THEN [sv |-> head \o x.ev \o tail \o <<Ev(x.end, "returned", 0, 0)>>, cl |-> <<me, Ev(x.end, "eof", 0, 0)>>, end |-> x.end, near |-> nr]
                 ELSE LET rest == Serve(scn, k + 1, x.end, dl2) IN
                      [sv |-> head \o x.ev \o tail \o rest.sv, cl |-> <<me>> \o rest.cl, end |-> rest.end, near |-> nr \/ rest.near]
            ELSE LET kept == UpTo(x.ev, dl2) IN
                 [sv |-> head \o kept \o <<Ev(dl2, "sfire", 0, 0)>> \o DropsOf(kept, dl2) \o <<Ev(dl2, "returned", 0, 0)>>,
                  cl |-> <<Ev(dl2, "eof", 0, 0)>>, end |-> dl2, near |-> nr]

Expected(scn) == Serve(scn, 1, 0, scn.S)
Visible(ev) == SelectSeq(ev, LAMBDA x : x.e \notin Ghost)

WellFormed(scn) ==
  /\ scn.S >= 1 /\ scn.fin >= 0
  /\ \A j \in DOMAIN scn.conn : /\ scn.conn[j].at >= 0 /\ \A m \in DOMAIN scn.conn[j].script : scn.conn[j].script[m] >= 1
                               /\ (j > 1 => scn.conn[j].at >= scn.conn[j - 1].at)
  /\ (scn.fin > 0 /\ scn.conn # <<>>) => scn.fin >= scn.conn[Len(scn.conn)].at
\* a scenario whose outcome does not depend on timing noise below MARGIN ticks: every scripted instant that is compared with a
\* deadline (fang deadline: the events of the inner part; session deadline: the send instants, the events of the request in
\* progress, the client's fin) is at least MARGIN ticks away from it.  Ties that are decided without any await (a Timeout
\* whose inner part returns at its first poll) are deterministic and allowed.
Robust(scn) == /\ WellFormed(scn)
               /\ ~Expected(scn).near
               /\ \A j \in DOMAIN scn.conn : Abs(scn.conn[j].at - scn.S) >= MARGIN
               /\ (scn.fin > 0 => Abs(scn.fin - scn.S) >= MARGIN)

\* ------------------------------------------------------------------ properties, as operators over a history (sv, cl)
\* (used as invariants of the machine in MC_Timers and evaluated on the observed histories in Trace_Timers)
\* the events of request k: from its `parsed` to the next `parsed` (or the end)
ParsedAt(sv) == SelectSeq([j \in DOMAIN sv |-> j], LAMBDA j : sv[j].e = "parsed")
Segment(sv, k) == LET p == ParsedAt(sv) IN
                  IF k > Len(p) THEN <<>> ELSE SubSeq(sv, p[k], IF k < Len(p) THEN p[k + 1] - 1 ELSE Len(sv))
Resps(cl) == SelectSeq(cl, LAMBDA x : x.e = "resp")
Has(seg, e) == \E j \in DOMAIN seg : seg[j].e = e

\* P1: a response with the handler's body is only produced if the handler ended before (or at: tie rule) every enclosing deadline
BodyOnlyInTime(sv, cl) ==
  \A k \in DOMAIN Resps(cl) : Resps(cl)[k].b > 0 =>
     LET seg == Segment(sv, k) IN
     /\ ~Has(seg, "fire")
     /\ \E j \in DOMAIN seg : /\ seg[j].e = "hend" /\ seg[j].a = k
                              /\ \A m \in DOMAIN seg : seg[m].e = "arm" => seg[j].t =< seg[m].b
\* P2: after a cancellation nothing of the cancelled part runs any more
FrameOf(x) == IF x.e \in {"enter", "leave", "fdrop"} THEN <<"f", x.a>> ELSE IF x.e \in {"hstart", "hpoint", "hend", "hdrop"} THEN <<"h", x.a>> ELSE <<"-", 0>>
NothingAfterCancel(sv) ==
  \A k \in DOMAIN ParsedAt(sv) : LET seg == Segment(sv, k) IN
     \A j \in DOMAIN seg : seg[j].e \in {"fdrop", "hdrop"} => \A m \in (j + 1)..Len(seg) : FrameOf(seg[m]) # FrameOf(seg[j])
\* P3: a request whose handling outlives a fang deadline is answered 500 "timeout" (unless the session ended first)
\* (a fired timer always drops at least one frame: the part inside a Timeout fang starts with a fang or with the handler)
Cancelled(seg) == Has(seg, "fire") \/ Has(seg, "hdrop") \/ Has(seg, "fdrop")
OutlivedAnswered500(sv, cl) ==
  \A k \in DOMAIN ParsedAt(sv) : LET seg == Segment(sv, k) IN
     Has(seg, "sent") => /\ k \in DOMAIN Resps(cl)
                         /\ (Cancelled(seg) <=> (Resps(cl)[k].a = 500 /\ Resps(cl)[k].b = 0))
                         /\ (~Cancelled(seg) <=> (Resps(cl)[k].a = 200 /\ Resps(cl)[k].b = k))
\* P4: no response byte after the session deadline; P6: the session does not outlive it (tol: polling granularity / measurement tolerance)
NoByteAfterDeadline(cl, S, tol) == \A j \in DOMAIN cl : cl[j].t =< S + tol
EndsByDeadline(sv, S, tol) == \A j \in DOMAIN sv : sv[j].t =< S + tol
\* P5: responses are in request order, at most one per parsed request
InOrder(sv, cl) == /\ Len(Resps(cl)) =< Len(ParsedAt(sv))
                   /\ \A j \in DOMAIN Resps(cl) : Resps(cl)[j].b \in {0, j}

\* ------------------------------------------------------------------ (b) the mechanism: one action per step of the code
\* instructions of one onion
RECURSIVE Prog(_, _, _, _)
Prog(ls, i, k, sc) ==
  IF i > Len(ls) THEN <<[op |-> "hstart", a |-> k, b |-> 0]>>
                      \o [j \in 1..(2 * Len(sc)) |-> IF j % 2 = 1 THEN [op |-> "sleep", a |-> sc[(j + 1) \div 2], b |-> 0] ELSE [op |-> "hpoint", a |-> k, b |-> j \div 2]]
                      \o <<[op |-> "hend", a |-> k, b |-> 0]>>
  ELSE IF ls[i].k = "L" THEN
       <<[op |-> "enter", a |-> ls[i].id, b |-> 0]>> \o (IF ls[i].pre > 0 THEN <<[op |-> "sleep", a |-> ls[i].pre, b |-> 0]>> ELSE <<>>)
       \o Prog(ls, i + 1, k, sc)
       \o (IF ls[i].post > 0 THEN <<[op |-> "sleep", a |-> ls[i].post, b |-> 0]>> ELSE <<>>) \o <<[op |-> "leave", a |-> ls[i].id, b |-> 0]>>
  ELSE <<[op |-> "arm", a |-> i, b |-> ls[i].d]>> \o Prog(ls, i + 1, k, sc) \o <<[op |-> "disarm", a |-> i, b |-> 0]>>

VARIABLES scn,      \* the scenario (chosen in the first step)
          now,      \* the clock
          phase,    \* "choose" | "idle" | "reading" | "read" | "running" | "handled" | "closed"
          np,        \* requests parsed so far
          nsent,    \* requests the client has sent so far
          finned,   \* the client has shut its writing side down
          prog, pc, \* the onion of the current request and the next instruction
          wake,     \* -1, or the tick at which the sleep the onion is suspended in ends
          stack,    \* open frames, outermost first: <<"fdrop", id, 0>> <<"hdrop", request, 0>> <<"timer", layer, deadline>>
          res,      \* "body" | "timeout": what the part that returned last returned
          sdl,      \* the session deadline in force
          hist, clh \* history: server side events (with ghosts), client side events
vars == <<scn, now, phase, np, nsent, finned, prog, pc, wake, stack, res, sdl, hist, clh>>

Start(s) == /\ scn' = s /\ now' = 0 /\ phase' = "idle" /\ np' = 0 /\ nsent' = 0 /\ finned' = FALSE /\ prog' = <<>> /\ pc' = 1
            /\ wake' = -1 /\ stack' = <<>> /\ res' = "body" /\ sdl' = s.S /\ hist' = <<>> /\ clh' = <<>>
Blank == [S |-> 1, app |-> <<>>, sub |-> <<>>, conn |-> <<>>, fin |-> 0]
Init == /\ scn = Blank /\ now = 0 /\ phase = "choose" /\ np = 0 /\ nsent = 0 /\ finned = FALSE /\ prog = <<>> /\ pc = 1
        /\ wake = -1 /\ stack = <<>> /\ res = "body" /\ sdl = 0 /\ hist = <<>> /\ clh = <<>>

Log(e, a, b) == hist' = Append(hist, Ev(now, e, a, b))
DropsOfStack(st) == LET fr == SelectSeq(st, LAMBDA x : x[1] # "timer") IN [j \in 1..Len(fr) |-> Ev(now, fr[Len(fr) + 1 - j][1], fr[Len(fr) + 1 - j][2], 0)]

\* --- the client
ClientSendDue == nsent < Len(scn.conn) /\ scn.conn[nsent + 1].at =< now
ClientFinDue == scn.fin > 0 /\ ~finned /\ nsent = Len(scn.conn) /\ scn.fin =< now
ClientSend == /\ phase \notin {"choose", "closed"} /\ ClientSendDue /\ nsent' = nsent + 1
              /\ UNCHANGED <<scn, now, phase, np, finned, prog, pc, wake, stack, res, sdl, hist, clh>>
ClientFin == /\ phase \notin {"choose", "closed"} /\ ClientFinDue /\ finned' = TRUE
             /\ UNCHANGED <<scn, now, phase, np, nsent, prog, pc, wake, stack, res, sdl, hist, clh>>

\* --- Request::read
ReadStart == /\ phase = "idle" /\ phase' = "reading"
             /\ UNCHANGED <<scn, now, np, nsent, finned, prog, pc, wake, stack, res, sdl, hist, clh>>
ReadDone == /\ phase = "reading" /\ nsent > np /\ phase' = "read"
            /\ UNCHANGED <<scn, now, np, nsent, finned, prog, pc, wake, stack, res, sdl, hist, clh>>
ReadEof == /\ phase = "reading" /\ nsent = np /\ finned /\ phase' = "closed"
           /\ hist' = hist \o <<Ev(now, "close", 0, 0), Ev(now, "returned", 0, 0)>> /\ clh' = Append(clh, Ev(now, "eof", 0, 0))
           /\ UNCHANGED <<scn, now, np, nsent, finned, prog, pc, wake, stack, res, sdl>>
\* --- the session loop: Ok(Some) => Router::handle
Parsed == /\ phase = "read" /\ np' = np + 1 /\ phase' = "running"
          /\ prog' = Prog(OnionOf(scn, scn.conn[np + 1]), 1, np + 1, scn.conn[np + 1].script) /\ pc' = 1 /\ wake' = -1 /\ stack' = <<>> /\ res' = "body"
          /\ Log("parsed", scn.conn[np + 1].close, 0)
          /\ sdl' = (IF PER_REQUEST_DEADLINE THEN now + scn.S ELSE sdl)
          /\ UNCHANGED <<scn, now, nsent, finned, clh>>
\* --- fangs and handler: the next instruction of the onion (only when not suspended)
Pop(st) == SubSeq(st, 1, Len(st) - 1)
Exec == /\ phase = "running" /\ wake = -1 /\ pc =< Len(prog)
        /\ LET ins == prog[pc] IN
           /\ (IF ins.op = "sleep" THEN wake' = now + ins.a /\ pc' = pc ELSE wake' = wake /\ pc' = pc + 1)
           /\ stack' = (IF ins.op = "enter" THEN Append(stack, <<"fdrop", ins.a, 0>>)
                        ELSE IF ins.op = "hstart" THEN Append(stack, <<"hdrop", ins.a, 0>>)
                        ELSE IF ins.op = "arm" THEN Append(stack, <<"timer", ins.a, now + ins.b>>)
                        ELSE IF ins.op \in {"leave", "hend", "disarm"} THEN Pop(stack) ELSE stack)
           /\ (IF ins.op = "sleep" THEN hist' = hist
               ELSE IF ins.op = "arm" THEN Log("arm", ins.a, now + ins.b)
               ELSE IF ins.op = "disarm"
                    THEN (IF ~EAGER_CANCEL /\ now > stack[Len(stack)][3] THEN Log("fire", ins.a, 0) ELSE hist' = hist)
               ELSE Log(ins.op, ins.a, ins.b))
           \* the lazy variant: the clock is looked at when the inner part has returned
           /\ res' = (IF ins.op = "disarm" /\ ~EAGER_CANCEL /\ now > stack[Len(stack)][3] THEN "timeout" ELSE res)
        /\ UNCHANGED <<scn, now, phase, np, nsent, finned, prog, sdl, clh>>
\* the sleep the onion is suspended in is over
Wake == /\ phase = "running" /\ wake # -1 /\ wake =< now /\ wake' = -1 /\ pc' = pc + 1
        /\ UNCHANGED <<scn, now, phase, np, nsent, finned, prog, stack, res, sdl, hist, clh>>
Suspended == phase = "running" /\ wake > now
\* the timers of the enclosing Timeout fangs that are due, as stack positions
DueTimers == {j \in DOMAIN stack : stack[j][1] = "timer" /\ stack[j][3] =< now}
AfterDisarm(layer) == 1 + CHOOSE j \in DOMAIN prog : prog[j].op = "disarm" /\ prog[j].a = layer
\* timeout_in polls the inner future first: a timer is only consulted while the inner part is suspended; of several due timers
\* the innermost one is reached first
Fire == /\ EAGER_CANCEL /\ Suspended /\ DueTimers # {}
        /\ LET j == CHOOSE x \in DueTimers : \A y \in DueTimers : y =< x IN
           /\ hist' = hist \o <<Ev(now, "fire", stack[j][2], 0)>> \o DropsOfStack(SubSeq(stack, j + 1, Len(stack)))
           /\ stack' = SubSeq(stack, 1, j - 1) /\ res' = "timeout" /\ wake' = -1 /\ pc' = AfterDisarm(stack[j][2])
        /\ UNCHANGED <<scn, now, phase, np, nsent, finned, prog, sdl, clh>>
\* Router::handle returned
Handled == /\ phase = "running" /\ wake = -1 /\ pc > Len(prog) /\ phase' = "handled" /\ Log("handled", StatusOf(res), 0)
           /\ UNCHANGED <<scn, now, np, nsent, finned, prog, pc, wake, stack, res, sdl, clh>>
\* Response::send finished (the responses of this model fit into the socket buffer: the write never suspends)
Sent == /\ phase = "handled"
        /\ clh' = clh \o <<Ev(now, "resp", StatusOf(res), CodeOf(res, np))>> \o (IF scn.conn[np].close = 1 THEN <<Ev(now, "eof", 0, 0)>> ELSE <<>>)
        /\ hist' = hist \o <<Ev(now, "sent", 0, 0)>> \o (IF scn.conn[np].close = 1 THEN <<Ev(now, "returned", 0, 0)>> ELSE <<>>)
        /\ phase' = (IF scn.conn[np].close = 1 THEN "closed" ELSE "idle")
        /\ UNCHANGED <<scn, now, np, nsent, finned, prog, pc, wake, stack, res, sdl>>
\* the session's own timeout_in: consulted only when the loop is suspended (in a read without bytes, or inside the onion) and no
\* inner timer is due (those are polled first).  Simultaneous independent events: the client's go first.
ReadBlocked == phase = "reading" /\ nsent = np /\ ~finned
SessionFire == /\ (ReadBlocked \/ (Suspended /\ (~EAGER_CANCEL \/ DueTimers = {}))) /\ sdl =< now /\ ~ClientSendDue /\ ~ClientFinDue
               /\ hist' = hist \o <<Ev(now, "sfire", 0, 0)>> \o DropsOfStack(stack) \o <<Ev(now, "returned", 0, 0)>>
               /\ clh' = Append(clh, Ev(now, "eof", 0, 0))
               /\ phase' = "closed" /\ stack' = <<>> /\ wake' = -1
               /\ UNCHANGED <<scn, now, np, nsent, finned, prog, pc, res, sdl>>
\* time passes only when nothing else can happen
Tick == /\ ~ClientSendDue /\ ~ClientFinDue
        /\ (ReadBlocked \/ Suspended)
        /\ ~(EAGER_CANCEL /\ Suspended /\ DueTimers # {})
        /\ sdl > now
        /\ now' = now + 1
        /\ UNCHANGED <<scn, phase, np, nsent, finned, prog, pc, wake, stack, res, sdl, hist, clh>>

Server == ReadStart \/ ReadDone \/ ReadEof \/ Parsed \/ Exec \/ Wake \/ Fire \/ Handled \/ Sent \/ SessionFire
Steps == ClientSend \/ ClientFin \/ Server \/ Tick

\* ------------------------------------------------------------------ invariants of the machine
Running == phase \notin {"choose", "closed"}
\* execution is never inside an armed Timeout fang past its deadline (violated by EAGER_CANCEL = FALSE)
TimeoutBound == Running => \A j \in DOMAIN stack : stack[j][1] = "timer" => now =< stack[j][3]
\* the session never outlives the ONE deadline armed at its start (violated by PER_REQUEST_DEADLINE = TRUE)
SessionBound == Running => now =< scn.S
HistoryInv == /\ BodyOnlyInTime(hist, clh) /\ NothingAfterCancel(hist) /\ OutlivedAnswered500(hist, clh)
              /\ NoByteAfterDeadline(clh, scn.S, 0) /\ EndsByDeadline(hist, scn.S, 0) /\ InOrder(hist, clh)
\* the mechanism refines the oracle: a finished session has produced exactly the history the oracle allows
Refines == phase = "closed" => LET x == Expected(scn) IN hist = x.sv /\ clh = x.cl
=============================================================================
