SPECIFICATION MCSpec
CONSTANTS
  BUF = 4
  HEADLOOP = TRUE
  CARRY = FALSE
  MaxReqs = 2
  MaxBody = 3
  MaxCuts = 3
INVARIANT Refines
CHECK_DEADLOCK FALSE
