SPECIFICATION Spec
CONSTANTS
  BOUNDARY = TRUE
  RULE = "precise"
  NApps = 2
  MaxRoutes = 3
  MaxDepth = 2
  MaxMountDepth = 2
  SEGSTR <- SegABB
  PNAMES = {"x", "y", "z"}
  METHODSETS <- MsAll
  APPFANGS <- AfAll
  LOCALS <- LfAll
  SIGMODE = "all"
  SALT = 0
INVARIANT Emit
CHECK_DEADLOCK FALSE
