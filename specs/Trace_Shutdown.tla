--------------------------- MODULE Trace_Shutdown ---------------------------
(***************************************************************************)
(* Trace validation for C18.  Input (IOEnv.TRACE): ndjson events recorded  *)
(* by the harness from the real code, several runs separated by `reset`.   *)
(*                                                                         *)
(*  proto runs: the forced interleaving, one `act` event per Shutdown      *)
(*    action (named), then `end` with what the real future did.            *)
(*  e2e runs: what was observed around a real `howl`: arrive/started/      *)
(*    ended/signal/returned, then `end`.  The accept loop's own steps are  *)
(*    not logged: they are silent steps of the Shutdown spec, inferred.    *)
(*                                                                         *)
(* The property-level monitor (mon) is deterministic and total; the        *)
(* verdict printed at `end` comes from it.  A run that the Shutdown        *)
(* actions cannot explain never reaches `end` and is reported by the       *)
(* driver as `unexplained`.                                                *)
(***************************************************************************)
EXTENDS Shutdown, Sequences, Json, IOUtils, FiniteSets

Rec == ndJsonDeserialize(IOEnv.TRACE)
N == Len(Rec)

VARIABLES l,     \* next line of the trace
          mon    \* property-level monitor: [mode, id, inflight, signalled, returned, early, unsig]
tvars == <<vars, l, mon>>

Mon0 == [mode |-> "none", id |-> 0, live |-> {}, signalled |-> FALSE, returned |-> FALSE, early |-> FALSE, unsig |-> FALSE, open |-> FALSE,
         dropped |-> FALSE]

ResetVars == /\ catch' = FALSE /\ waker' = 0 /\ pcH' = "idle" /\ hw' = 0 /\ sigs' = 0
             /\ pcA' = "poll" /\ woken' = FALSE /\ registered' = FALSE
             /\ queue' = 0 /\ arrivals' = 0 /\ spurious' = 0 /\ wg' = 0 /\ inflight' = 0

TInit == Init /\ l = 1 /\ mon = Mon0

Ev == Rec[l]
Consume == l' = l + 1

\* ------------------------------------------------------------------ run boundaries
TReset == /\ l <= N /\ Ev.ev = "reset" /\ Consume /\ ResetVars
          /\ mon' = [Mon0 EXCEPT !.mode = Ev.mode, !.id = Ev.id]

\* from anywhere inside a run, give up on it and continue with the next one
NextReset(k) == CHOOSE j \in k..(N + 1) : (j = N + 1 \/ Rec[j].ev = "reset") /\ \A i \in k..(j - 1) : Rec[i].ev # "reset"
TSkip == /\ l <= N /\ Ev.ev # "reset" /\ l' = NextReset(l) /\ ResetVars /\ mon' = Mon0

\* ------------------------------------------------------------------ proto: named actions
Named(a) == CASE a = "Signal" -> Signal [] a = "HStore" -> HStore [] a = "HSwap" -> HSwap [] a = "HWake" -> HWake
              [] a = "AResume" -> AResume [] a = "APollAccept" -> APollAccept [] a = "ALoad" -> ALoad
              [] a = "APublish" -> APublish [] a = "ARet" -> ARet [] a = "ASpawn" -> ASpawn [] a = "ADrop" -> ADrop
              [] a = "AWgPoll" -> AWgPoll [] a = "Arrive" -> Arrive [] a = "Spurious" -> Spurious
              [] a = "SessionDone" -> SessionDone [] OTHER -> FALSE
TAct == /\ l <= N /\ Ev.ev = "act" /\ Consume /\ Named(Ev.a)
        /\ mon' = [mon EXCEPT !.signalled = @ \/ Ev.a = "Signal"]

\* ------------------------------------------------------------------ e2e: observed events + silent steps
Silent == /\ l <= N /\ mon.mode = "e2e" /\ Ev.ev \notin {"reset"}
          /\ (HStep \/ AStep) /\ UNCHANGED <<l, mon>>

TArrive  == /\ l <= N /\ Ev.ev = "arrive" /\ Consume /\ Arrive /\ UNCHANGED mon
TStarted == /\ l <= N /\ Ev.ev = "started" /\ Consume
            /\ inflight > Cardinality(mon.live)       \* the spawn of this session has happened
            /\ UNCHANGED vars /\ mon' = [mon EXCEPT !.live = @ \cup {Ev.i}]
TEnded   == /\ l <= N /\ Ev.ev = "ended" /\ Consume /\ SessionDone
            /\ mon' = [mon EXCEPT !.live = @ \ {Ev.i}]
TSignal  == /\ l <= N /\ Ev.ev = "signal" /\ Consume /\ Signal
            /\ mon' = [mon EXCEPT !.signalled = TRUE]
TReturned == /\ l <= N /\ Ev.ev = "returned" /\ Consume /\ UNCHANGED vars
             \* deliberately *not* conjoined with `Returned`: the monitor judges, the model explains
             /\ mon' = [mon EXCEPT !.returned = TRUE,
                                   !.early = mon.live # {},
                                   !.unsig = ~mon.signalled]
\* after the interrupt, with sessions in flight, the harness connects again and again until it is refused (i = 1) or gives up after 10 s
\* (i = 0): in the design `Arrive` is disabled once the loop has been left -- the listener is dropped before the wait, not after it
TPort == /\ l <= N /\ Ev.ev = "port" /\ Consume /\ UNCHANGED vars /\ mon' = [mon EXCEPT !.open = (Ev.i = 0)]
\* "acc-open" (burst runs): the number of connections the accept loop has accepted (the hook event of `howl`) whose session has not ended, taken
\* at the moment `howl` returns: an accepted connection is a session in flight from the moment it is accepted, polled yet or not
TAccOpen == /\ l <= N /\ Ev.ev = "acc-open" /\ Consume /\ UNCHANGED vars /\ mon' = [mon EXCEPT !.dropped = (Ev.i > 0)]
\* informational events
TInfo == /\ l <= N /\ Ev.ev \in {"release", "grace-over", "unserved", "port-probes-accepted", "client-bytes"} /\ Consume /\ UNCHANGED <<vars, mon>>

\* ------------------------------------------------------------------ verdict
Sig(e) == IF mon.mode = "proto"
            THEN IF ~e.returned THEN "lost-wakeup" ELSE "ok"
            ELSE IF mon.early THEN "returned-with-session-in-flight"
                 ELSE IF mon.dropped THEN "returned-with-an-accepted-connection-unserved"
                 ELSE IF mon.open THEN "still-listening-after-the-interrupt"
                 ELSE IF mon.unsig THEN "returned-without-interrupt"
                 ELSE IF mon.signalled /\ ~e.returned THEN "never-returned"
                 ELSE IF mon.returned /\ ~Returned THEN "model-drift" ELSE "ok"
TEnd == /\ l <= N /\ Ev.ev = "end" /\ Consume /\ UNCHANGED vars
        /\ (mon.mode = "proto" => (Returned = Ev.model_returned))      \* the schedule is the model's
        /\ PrintT(ToJson([t |-> "VERDICT", id |-> mon.id, mode |-> mon.mode, sig |-> Sig(Ev),
                          drift |-> (Returned # Ev.returned)]))
        /\ mon' = Mon0

TNext == TReset \/ TSkip \/ TAct \/ Silent \/ TArrive \/ TStarted \/ TEnded \/ TSignal \/ TReturned \/ TPort \/ TAccOpen \/ TInfo \/ TEnd
TSpec == TInit /\ [][TNext]_tvars

\* the invariants of the design hold in every state of every explained run
TraceInv == NoEarlyReturn /\ WgExact /\ TypeOK
=============================================================================
