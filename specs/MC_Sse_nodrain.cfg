SPECIFICATION Spec
CONSTANTS
  MaxScript = 3
  MaxSpurious = 1
  FORWARD_WAKER = TRUE
  READY_DRAINS = FALSE
  FILTER_MODE = "none"
  CHAIN_MODE = "none"
INVARIANTS DoneInv

CHECK_DEADLOCK FALSE
