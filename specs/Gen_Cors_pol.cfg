SPECIFICATION Spec
CONSTANTS
  BOUNDARY = TRUE
  RULE = "precise"
  REPAIR = FALSE
  NApps = 1
  MaxRoutes = 1
  MaxDepth = 1
  MSETS = "one"
  PSIB = FALSE
  NPOL = 0
  RICHPOL = FALSE
  RICHREQ = TRUE
INVARIANT Emit
CHECK_DEADLOCK FALSE
