SPECIFICATION GSpec
CONSTANTS
  MaxLen = 8
  MaxFaults = 2
  TOPLEN = 2
  PCTLEN = 3
  RICH = FALSE
  DECS = {"setcookie"}
INVARIANT Emit
CHECK_DEADLOCK FALSE
