SPECIFICATION GSpec
CONSTANTS
  BUF = 4
  HEADLOOP = TRUE
  CARRY = TRUE
  MaxReqs = 2
  MaxBody = 2
  MaxCuts = 2
  MODE = "c06"
INVARIANT Emit
CHECK_DEADLOCK FALSE
