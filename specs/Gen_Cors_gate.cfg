SPECIFICATION Spec
CONSTANTS
  BOUNDARY = TRUE
  RULE = "precise"
  REPAIR = FALSE
  NApps = 2
  MaxRoutes = 1
  MaxDepth = 1
  MSETS = "one"
  PSIB = FALSE
  NPOL = 1
  RICHPOL = FALSE
  RICHREQ = FALSE
CONSTANT MountPres <- StaticPairs
INVARIANT Emit
CHECK_DEADLOCK FALSE
