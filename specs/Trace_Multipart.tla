-------------------------- MODULE Trace_Multipart --------------------------
(***************************************************************************)
(* Verdicts for C10.  Every line {"id","scn","obs"} of IOEnv.TRACE is an   *)
(* execution of ohkami_lib::serde_multipart::from_bytes on the bytes the   *)
(* harness made from scn.wire, projected back onto the vocabulary of       *)
(* Multipart.tla.  For every line TLC                                       *)
(*   1. re-evaluates EncodeForm(scn.form, scn.opts) and compares it with   *)
(*      the wire the harness used (so also the harness's random scenarios  *)
(*      are encoded by the specification, not by Rust),                    *)
(*   2. evaluates Conforms(scn, obs),                                      *)
(* and prints one VERDICT.                                                 *)
(***************************************************************************)
EXTENDS Multipart, Json, IOUtils

Rec == ndJsonDeserialize(IOEnv.TRACE)
VARIABLE l

WireOK(scn) == FormOK(scn.form, scn.opts) /\ scn.wire = EncodeForm(scn.form, scn.opts)

BadFields(scn, obs) == (IF obs.a \in SpecA(scn).vals THEN "" ELSE "a") \o (IF obs.b \in SpecB(scn).vals THEN "" ELSE "b")
OutClass(scn, obs) ==
  CASE obs.kind = "value" -> (IF ~obs.inrange THEN "wild-slice"
                              ELSE IF ~obs.utf8ok THEN "invalid-utf8"
                              ELSE IF \/ (obs.a \notin SpecA(scn).vals /\ SpecA(scn).vals = {})
                                      \/ (obs.b \notin SpecB(scn).vals /\ SpecB(scn).vals = {}) THEN "value-instead-of-error"
                              ELSE "wrong-value")
    [] OTHER -> obs.kind
\* the fields the outcome implicates: the mismatching ones (value), the one the error message names, else both
Implicated(scn, obs) == IF obs.kind = "value" THEN BadFields(scn, obs)
                        ELSE IF obs.kind = "error" /\ obs.errfield \in {"a", "b"} THEN obs.errfield ELSE "ab"
FieldClasses(scn, which) ==
  LET fa == scn.target.a \o ":" \o ShapeClass(scn.form, NameA)
      fb == scn.target.b \o ":" \o ShapeClass(scn.form, NameB) IN
  CASE which = "a" -> fa [] which = "b" -> fb [] which = "ab" -> fa \o "|" \o fb [] OTHER -> ""
Sig(scn, obs) == [f |-> FieldClasses(scn, Implicated(scn, obs)) \o (IF scn.target.dflt THEN "(default)" ELSE ""),
                  out |-> OutClass(scn, obs), where |-> obs.where,
                  err |-> IF obs.kind \in {"value", "error"} THEN obs.err ELSE ""]   \* panic/abort/hang records come from the worker framework

Judge(r) == IF ~WireOK(r.scn)
              THEN [ok |-> FALSE, sig |-> [out |-> "tool:wire-is-not-EncodeForm"], nt |-> FALSE, dev |-> "none"]
              ELSE [ok |-> Conforms(r.scn, r.obs), sig |-> Sig(r.scn, r.obs),
                    nt |-> NonTrivial(r.scn.form, r.scn.target), dev |-> Deviation(r.scn.form, r.scn.target)]

TInit == l = 1
TNext == /\ l <= Len(Rec) /\ l' = l + 1
         /\ LET j == Judge(Rec[l]) IN
            PrintT(ToJson([t |-> "VERDICT", id |-> Rec[l].id, ok |-> j.ok, sig |-> j.sig, nt |-> j.nt, dev |-> j.dev]))
TSpec == TInit /\ [][TNext]_l
=============================================================================
