SPECIFICATION TSpec
CONSTANTS
  BOUNDARY = TRUE
  RULE = "precise"
  WHAT = "c01"
CHECK_DEADLOCK FALSE
