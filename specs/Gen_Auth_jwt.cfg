CONSTANTS
  WHAT = "jwt"
  DEEP = FALSE
  EMIT = TRUE
