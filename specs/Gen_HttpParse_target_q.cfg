SPECIFICATION Spec
CONSTANTS
  MaxSegs = 2
  MaxPairs = 1
  MaxHeaders = 3
  FAMILY = "target"
INVARIANT Emit
CHECK_DEADLOCK FALSE
