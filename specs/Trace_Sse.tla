------------------------------ MODULE Trace_Sse ------------------------------
(***************************************************************************)
(* Verdicts for C17.  Input (IOEnv.TRACE): ndjson, one line                *)
(* {"id", "scn", "obs"} per scenario executed on the real code.            *)
(*                                                                         *)
(* Property level (decides ok):                                            *)
(*   head     Transfer-Encoding: chunked, no Content-Length,               *)
(*            Content-Type text/event-stream                               *)
(*   chunked  the harness's strict de-chunker reached the terminating zero *)
(*            chunk, nothing follows it, the content is UTF-8              *)
(*   sched    Response::send returned (the stream ended), no stall; and    *)
(*            whenever the send task was suspended, every message pushed   *)
(*            until then had been written (a producer may wait for as long *)
(*            as it likes after a push: the message must not wait with it) *)
(*   content  ParseES(obs.toks) dispatches exactly Expected(m) for every   *)
(*            message m of the scenario, in order, default event type, no  *)
(*            id, no retry (ParseES is evaluated here, by TLC)             *)
(*                                                                         *)
(* Design level (never decides; reported as drift): obs.events, one Sse    *)
(* action name per step of the real run, is stepped through the actions of *)
(* Sse (one TLC state per event; the invariants PrefixInv, QueueInv,       *)
(* DoneInv are checked by TLC in every such state); an event whose guard   *)
(* is false is the first unexplained step (drift = its index).  fdrift:    *)
(* the bytes differ from the model of the encoder (FrameImpl).             *)
(***************************************************************************)
EXTENDS Sse, Json, IOUtils

Rec == ndJsonDeserialize(IOEnv.TRACE)
N == Len(Rec)

VARIABLES l, k, drift,
          np, nd,      \* pushes / deliveries among the events consumed so far (counted whether or not the model explains them)
          lagged       \* some CSuspend happened with np # nd
tvars == <<vars, l, k, drift, np, nd, lagged>>

IsSse(r) == r.obs.kind = "sse"
Evs(i) == IF IsSse(Rec[i]) THEN Rec[i].obs.events ELSE <<>>
ScriptOf(i) == IF i <= N THEN Rec[i].scn.script ELSE <<>>

Guard(a) == CASE a = "CHead" -> CanCHead [] a = "PStill" -> CanPStill [] a = "PCont" -> CanPCont
              [] a = "PPush" -> CanPPush [] a = "PYield" -> CanPYield [] a = "PEnd" -> CanPEnd
              [] a = "CDeliver" -> CanCDeliver [] a = "CSuspend" -> CanCSuspend [] a = "CFinish" -> CanCFinish
              [] a = "CResume" -> CanCResume [] a = "Fire" -> CanFire [] a = "Spurious" -> CanSpurious
              [] a = "PDecoy" -> CanPDecoy [] a = "CDiscard" -> CanCDiscard
              [] OTHER -> FALSE
Named(a) == CASE a = "CHead" -> CHead [] a = "PStill" -> PStill [] a = "PCont" -> PCont
              [] a = "PPush" -> PPush [] a = "PYield" -> PYield [] a = "PEnd" -> PEnd
              [] a = "CDeliver" -> CDeliver [] a = "CSuspend" -> CSuspend [] a = "CFinish" -> CFinish
              [] a = "CResume" -> CResume [] a = "Fire" -> Fire [] a = "Spurious" -> Spurious
              [] a = "PDecoy" -> PDecoy [] a = "CDiscard" -> CDiscard
              [] OTHER -> FALSE

ResetTo(sc) == /\ script' = sc /\ ip' = 1 /\ queue' = <<>> /\ pushed' = <<>> /\ delivered' = <<>>
               /\ prod' = "running" /\ waiting' = FALSE /\ fired' = FALSE
               /\ pcC' = "start" /\ woken' = FALSE /\ spurious' = 0 /\ finished' = FALSE

TInit == InitWith(ScriptOf(1)) /\ l = 1 /\ k = 1 /\ drift = 0 /\ np = 0 /\ nd = 0 /\ lagged = FALSE

TStep == /\ l <= N /\ k <= Len(Evs(l))
         /\ IF drift = 0 /\ Guard(Evs(l)[k])
              THEN (Named(Evs(l)[k]) /\ drift' = 0)
              ELSE (UNCHANGED vars /\ drift' = IF drift = 0 THEN k ELSE drift)
         /\ k' = k + 1 /\ l' = l
         /\ np' = IF Evs(l)[k] = "PPush" THEN np + 1 ELSE np
         /\ nd' = IF Evs(l)[k] = "CDeliver" THEN nd + 1 ELSE nd
         /\ lagged' = (lagged \/ (Evs(l)[k] = "CSuspend" /\ np # nd))

\* ------------------------------------------------------------------ the verdict of one line
HeadClass(o) == IF o.te # "chunked" THEN "no-chunked-coding"
                ELSE IF o.cl # "none" THEN "content-length-present"
                ELSE IF o.ct # "text/event-stream" THEN "content-type"
                ELSE "ok"
ChunkClass(o) == IF o.dechunk # "ok" THEN o.dechunk
                 ELSE IF o.trailing # 0 THEN "bytes-after-terminator"
                 ELSE IF ~o.utf8 THEN "not-utf8" ELSE "ok"
SchedClass(o) == IF o.stalled THEN "stalled" ELSE IF ~o.finished THEN "never-ended"
                 ELSE IF lagged THEN "suspended-with-an-unsent-message" ELSE "ok"

\* (the expensive values are bound by set constructors, so that TLC evaluates each of them once per line)
Verdict(r, out, wire) ==
  LET o == r.obs
      ms == r.scn.msgs
      \* scripted: the schedule is forced step by step by the harness; otherwise the real pace of a stream served by the real session
      pace == IF "pace" \in DOMAIN r.scn THEN r.scn.pace ELSE "scripted"
      sig == [cr |-> CrClass(ms), outcome |-> out, head |-> HeadClass(o), chunked |-> ChunkClass(o), sched |-> SchedClass(o), pace |-> pace]
      modelEnd == drift = 0 /\ finished /\ Len(delivered) = Len(ms)
  IN [t |-> "VERDICT", id |-> r.id,
      ok |-> (out = "ok" /\ sig.head = "ok" /\ sig.chunked = "ok" /\ sig.sched = "ok"),
      sig |-> sig,
      drift |-> IF drift # 0 THEN drift ELSE IF modelEnd = o.finished THEN 0 ELSE Len(o.events) + 1,
      fdrift |-> (o.toks # wire)]
Judge(r) ==
  IF ~IsSse(r) THEN [t |-> "VERDICT", id |-> r.id, ok |-> FALSE, sig |-> [outcome |-> r.obs.kind, at |-> r.obs.where],
                     drift |-> 0, fdrift |-> FALSE]
  ELSE CHOOSE v \in {Verdict(r, out, wire) : out \in {Outcome(r.obs.toks, r.scn.msgs)}, wire \in {WireOf(FrameImpl, r.scn.msgs)}} : TRUE

TEnd == /\ l <= N /\ k > Len(Evs(l))
        /\ PrintT(ToJson(Judge(Rec[l])))
        /\ l' = l + 1 /\ k' = 1 /\ drift' = 0 /\ ResetTo(ScriptOf(l + 1))
        /\ np' = 0 /\ nd' = 0 /\ lagged' = FALSE

TNext == TStep \/ TEnd
TSpec == TInit /\ [][TNext]_tvars

\* the invariants of the design hold in every state of every explained run
TraceInv == TypeOK /\ PrefixInv /\ QueueInv /\ DoneInv
=============================================================================
