SPECIFICATION GSpec
CONSTANTS
  MaxLen = 4
  MaxFaults = 2
  TOPLEN = 3
  PCTLEN = 3
  RICH = TRUE
  DECS = {"urlenc", "cookie", "multipart", "setcookie", "pct"}
INVARIANT WalkerSound
INVARIANT FaultsMatter
CHECK_DEADLOCK FALSE
