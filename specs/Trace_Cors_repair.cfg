SPECIFICATION TSpec
CONSTANTS
  BOUNDARY = TRUE
  RULE = "precise"
  REPAIR = TRUE
CHECK_DEADLOCK FALSE
