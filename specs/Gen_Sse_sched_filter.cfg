SPECIFICATION GSpec
CONSTANTS
  MaxScript = 2
  MaxSpurious = 1
  FORWARD_WAKER = TRUE
  READY_DRAINS = TRUE
  FILTER_MODE = "filter"
  CHAIN_MODE = "none"
  MODE = "sched"
  MaxTok = 0
  MaxPairTok = 0
  Toks = {}
INVARIANT Emit
CHECK_DEADLOCK FALSE
