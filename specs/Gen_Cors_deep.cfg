SPECIFICATION Spec
CONSTANTS
  BOUNDARY = TRUE
  RULE = "precise"
  REPAIR = FALSE
  NApps = 1
  MaxRoutes = 3
  MaxDepth = 1
  MSETS = "small"
  PSIB = FALSE
  NPOL = 1
  RICHPOL = FALSE
  RICHREQ = FALSE
INVARIANT Emit
CHECK_DEADLOCK FALSE
