SPECIFICATION GSpec
CONSTANTS
  FAMILY = "shapes"
  MaxParts = 2
  MaxLen = 2
  BNDS = {"b"}
  FULLTARGETS = FALSE
INVARIANT RefineStrict
CHECK_DEADLOCK FALSE
