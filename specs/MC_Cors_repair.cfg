SPECIFICATION Spec
CONSTANTS
  BOUNDARY = TRUE
  RULE = "precise"
  REPAIR = TRUE
  NApps = 2
  MaxRoutes = 1
  MaxDepth = 1
  MSETS = "small"
  PSIB = FALSE
  NPOL = 1
  RICHPOL = FALSE
  RICHREQ = FALSE
  KnownDeviations = {}
INVARIANTS Refines Builds ClassAgrees
CHECK_DEADLOCK FALSE
