------------------------------ MODULE Decoders ------------------------------
(***************************************************************************)
(* C08 -- network-facing decoders are total and memory-safe.               *)
(*                                                                         *)
(* For each decoder's input language a grammar walker: positions of the    *)
(* grammar, normal transitions that emit the token the grammar expects,    *)
(* and fault transitions (named) that emit something else, nothing, or     *)
(* stop early.  TLC enumerates every walk of <= MaxLen tokens with         *)
(* <= MaxFaults faults; every prefix is an input (Truncate@k), each paired *)
(* with every target type of the decoder's catalogue.  The harness maps    *)
(* tokens to bytes, optionally applies a seeded byte-level mutation, runs  *)
(* the real decoder in a worker process and reports                        *)
(*    kind in value|error|panic|abort|hang, utf8ok, inrange, maxage.       *)
(* Oracle (totality + memory safety as far as a normal run shows it):      *)
(*    kind in {value, error} /\ utf8ok /\ inrange /\ no wrapped Max-Age.   *)
(***************************************************************************)
EXTENDS Naturals, Sequences, FiniteSets, TLC

T(tok, nxt, fault) == <<tok, nxt, fault>>
NoTok == ""        \* a transition that emits nothing (a missing token)

\* Deep runs (Gen_Decoders_deepruns.cfg replaces DeepOn by TRUE): one token that stands for 100 000 / 200 000 repetitions of a piece of the
\* grammar -- separators, escapes, whole pairs, directives.  The sentence stays inside the grammar; what it probes is a decoder whose
\* recursion depth or stack use grows with the input (run on the unoptimised build of the harness, where no tail call is eliminated).
DeepOn == FALSE
Deep(set) == IF DeepOn THEN set ELSE {}

\* ------------------------------------------------------------------ urlencoded bodies / query strings
\*   pairs:  key "=" value ( "&" key "=" value )*      value = tokens incl. escapes, "," separates sequence elements
\* LONG: ninety escaped three-byte characters (270 bytes once decoded): values longer than any message or buffer a decoder may cut them to
UVals(rich) == {"1", "x", "true", ",", "%41", "LONG"} \cup (IF rich THEN {"-", ".", "+", "%C3%A9", "e"} ELSE {})
UrlTrans(p, rich) ==
  CASE p = "K" -> {T(k, "E", "") : k \in {"ka", "kz"}} \cup {T(NoTok, "E", "EmptyKey"), T("%FF", "E", "NonUtf8Escape")}
    [] p = "E" -> {T("=", "V", ""), T(NoTok, "V", "MissingEq"), T("&", "K", "MissingEq")}
    [] p = "V" -> {T(v, "V", "") : v \in UVals(rich) \cup Deep({"DEEP:,", "DEEP:%41", "DEEP:&kz=1"})} \cup {T("&", "K", "")}
                  \cup {T("=", "V", "ExtraEq"), T("%", "V", "DanglingPercent"), T("%4", "V", "DanglingPercent"),
                        T("%G1", "V", "BadHex"), T("%FF", "V", "NonUtf8Escape"), T("%C3", "V", "NonUtf8Escape"),
                        T("HI", "V", "RawHighByte"), T("NUL", "V", "RawControl"), T(NoTok, "K", "MissingAmp")}
    [] OTHER -> {}
UrlAccept(p) == p = "V"

\* ------------------------------------------------------------------ Cookie header
\*   name "=" value ( "; " name "=" value )*
CVals(rich) == {"1", "x", "true", "%41", "LONG"} \cup (IF rich THEN {"-", ".", "%C3%A9", "DQ"} ELSE {})
CookieTrans(p, rich) ==
  CASE p = "K" -> {T(k, "E", "") : k \in {"ka", "kz"}} \cup {T(NoTok, "E", "EmptyKey"), T("(", "E", "BadNameChar")}
    [] p = "E" -> {T("=", "V", ""), T(NoTok, "V", "MissingEq"), T("; ", "K", "MissingEq")}
    [] p = "V" -> {T(v, "V", "") : v \in CVals(rich) \cup Deep({"DEEP:; kz=1", "DEEP:%41"})} \cup {T("; ", "K", "")}
                  \cup {T("=", "V", "ExtraEq"), T("%", "V", "DanglingPercent"), T("%G1", "V", "BadHex"),
                        T("%FF", "V", "NonUtf8Escape"), T("%C3", "V", "NonUtf8Escape"), T(";", "K", "MissingSpace"),
                        T(" ", "V", "BadValueChar"), T("U8", "V", "RawNonAscii"), T("DQ", "V", "LoneQuote"),
                        T("&", "V", "AmpSeparator"), T(NoTok, "K", "MissingSemicolon")}
    [] OTHER -> {}
CookieAccept(p) == p = "V"

\* ------------------------------------------------------------------ multipart/form-data
\*   P:<head>  content*  D  ( N:<head> content* D )*  END
\*   P:x = "--b" CRLF headers CRLF CRLF ; N:x = CRLF headers CRLF CRLF ; D = CRLF "--b" ; END = "--"
Heads == {"text", "file", "filect", "conv"}
BadHeads == [nocd |-> "MissingContentDisposition", noblank |-> "MissingCRLF", badhdr |-> "BadHeaderLine",
             noquote |-> "UnquotedName", lfonly |-> "BareLF", mixed |-> "MultipartMixed", hiname |-> "NonUtf8Name",
             nofnquote |-> "UnquotedFilename", openquote |-> "UnterminatedQuote", ctnoval |-> "HeaderWithoutValue",
             \* a head that stops inside a quoted name / file name (the body ends there when nothing follows), with and without a backslash as its
             \* last byte; a name with an escaped quote and an escaped backslash in it
             truncq |-> "EndsInsideQuotedName", truncbs |-> "EndsInsideQuotedNameAfterBackslash", fntruncbs |-> "EndsInsideQuotedFilenameAfterBackslash",
             escq |-> "EscapedQuoteInName", bsend |-> "NameEndsWithBackslash"]
MContent(rich) == {"c"} \cup (IF rich THEN {"CR", "LF", "-", "HI"} ELSE {})
MpHeads(pre, nxt) == {T(pre \o h, nxt, IF h = "conv" THEN "EmptyFilePart" ELSE "") : h \in Heads}
                     \cup {T(pre \o h, nxt, BadHeads[h]) : h \in DOMAIN BadHeads}
MultipartTrans(p, rich) ==
  CASE p = "S" -> MpHeads("P:", "C") \cup {T("B", "A", "MissingCRLF"), T("CRLF", "S", "LeadingCRLF")}
    [] p = "C" -> {T(c, "C", "") : c \in MContent(rich)} \cup {T("D", "A", "")}
                  \cup {T("B", "A", "ShortBeforeBoundary"), T("CR", "C1", "ShortBeforeBoundary"), T("D:other", "C", "OtherBoundary")}
    [] p = "C1" -> {T("B", "A", "ShortBeforeBoundary")}
    [] p = "A" -> {T("END", "Z", "")} \cup MpHeads("N:", "C") \cup {T("CRLF", "Z", "MissingPartAfterCRLF"), T("c", "Z", "JunkAfterBoundary")}
    [] p = "Z" -> {T("CRLF", "Z", "")}
    [] OTHER -> {}
MultipartAccept(p) == p = "Z"

\* ------------------------------------------------------------------ Set-Cookie
\*   name "=" value ( "; " directive )*
SetCookieTrans(p, rich) ==
  CASE p = "N" -> {T("n", "E", ""), T(NoTok, "E", "EmptyKey"), T("HI", "E", "RawHighByte")}
    [] p = "E" -> {T("=", "V", ""), T(NoTok, "V", "MissingEq")}
    [] p = "V" -> {T(v, "V", "") : v \in {"v", "%41"} \cup (IF rich THEN {"DQ", "%C3%A9"} ELSE {})} \cup {T("; ", "D", "")}
                  \cup {T("%FF", "V", "NonUtf8Escape"), T("%", "V", "DanglingPercent"), T("%G1", "V", "BadHex"), T(";", "D", "MissingSpace")}
    [] p = "D" -> {T("Max-Age=", "M", ""), T("Path=", "X", ""), T("Secure", "Y", ""), T("SameSite=", "SS", "")}
                  \cup (IF rich THEN {T("Expires=", "X", ""), T("Domain=", "X", ""), T("HttpOnly", "Y", "")} ELSE {})
                  \cup {T("Max-Age", "Y", "MissingEq"), T("Foo", "Y", "UnknownDirective"), T(NoTok, "Y", "EmptyDirective"), T("max-age=", "M", "LowercaseDirective")}
    [] p = "M" -> {T("1", "M", ""), T("; ", "D", "")}
                  \cup {T("x", "M", "NonDigitMaxAge"), T(" ", "M", "NonDigitMaxAge"), T("-", "M", "NonDigitMaxAge"),
                        T("HUGE", "Y", "HugeMaxAge"), T("HI", "M", "NonDigitMaxAge")}
    [] p = "X" -> {T("/", "X", ""), T("; ", "D", ""), T("HI", "X", "RawHighByte"), T("=", "X", "ExtraEq")}
    [] p = "SS" -> {T("Lax", "Y", ""), T("x", "Y", "BadSameSite")}
    [] p = "Y" -> {T("; ", "D", ""), T("x", "Y", "JunkAfterDirective")} \cup {T(d, "Y", "") : d \in Deep({"DEEP:; Secure"})}
    [] OTHER -> {}
SetCookieAccept(p) == p \in {"V", "M", "X", "Y"}

\* ------------------------------------------------------------------ percent-decoding of paths and params
PctTrans(p, rich) ==
  CASE p = "P" -> {T(v, "P", "") : v \in {"x", "1", "%41"} \cup (IF rich THEN {"%C3%A9", "-", "%2F", "+"} ELSE {}) \cup Deep({"DEEP:%41"})}
                  \cup {T("%", "P", "DanglingPercent"), T("%4", "P", "DanglingPercent"), T("%G1", "P", "BadHex"),
                        T("%FF", "P", "NonUtf8Escape"), T("%C3", "P", "NonUtf8Escape"), T("%00", "P", "EscapedNul"),
                        T("HI", "P", "RawHighByte"), T("9x20", "P", "HugeNumber")}
    [] OTHER -> {}
PctAccept(p) == TRUE

Trans(d, p, rich) == CASE d = "urlenc" -> UrlTrans(p, rich) [] d = "cookie" -> CookieTrans(p, rich)
                       [] d = "multipart" -> MultipartTrans(p, rich) [] d = "setcookie" -> SetCookieTrans(p, rich)
                       [] d = "pct" -> PctTrans(p, rich) [] OTHER -> {}
Accept(d, p) == CASE d = "urlenc" -> UrlAccept(p) [] d = "cookie" -> CookieAccept(p) [] d = "multipart" -> MultipartAccept(p)
                  [] d = "setcookie" -> SetCookieAccept(p) [] OTHER -> PctAccept(p)
Start(d) == CASE d \in {"urlenc", "cookie"} -> "K" [] d = "multipart" -> "S" [] d = "setcookie" -> "N" [] OTHER -> "P"

\* ------------------------------------------------------------------ target catalogue: [tag, cls]
\* field targets: struct { a: T } (unknown keys ignored by serde); top targets: T itself
Tg(tag, cls) == [tag |-> tag, cls |-> cls]
IntTags == {"i8", "i16", "i32", "i64", "u8", "u16", "u32", "u64"}
ScalarTargets(pos) ==
  {Tg(pos \o ":" \o t, pos \o "-int") : t \in IntTags}
  \cup {Tg(pos \o ":bool", pos \o "-bool"), Tg(pos \o ":f32", pos \o "-float"), Tg(pos \o ":f64", pos \o "-float"),
        Tg(pos \o ":char", pos \o "-char"), Tg(pos \o ":str", pos \o "-str"), Tg(pos \o ":string", pos \o "-str"), Tg(pos \o ":cow", pos \o "-str"),
        Tg(pos \o ":bytes", pos \o "-bytes"), Tg(pos \o ":bytebuf", pos \o "-bytes"),
        Tg(pos \o ":opt_u32", pos \o "-option"), Tg(pos \o ":opt_str", pos \o "-option"),
        Tg(pos \o ":unit", pos \o "-unit"), Tg(pos \o ":unitstruct", pos \o "-unit"),
        Tg(pos \o ":enum", pos \o "-enum"), Tg(pos \o ":enum_nt", pos \o "-enum"), Tg(pos \o ":enum_st", pos \o "-enum"),
        Tg(pos \o ":newtype", pos \o "-newtype"), Tg(pos \o ":newtype_str", pos \o "-newtype"),
        Tg(pos \o ":vec_string", pos \o "-seq"), Tg(pos \o ":vec_u32", pos \o "-seq"), Tg(pos \o ":tuple", pos \o "-tuple"), Tg(pos \o ":tuplestruct", pos \o "-tuple"),
        Tg(pos \o ":map", pos \o "-map"), Tg(pos \o ":ignored", pos \o "-ignored")}
KvTargets == ScalarTargets("f") \cup ScalarTargets("t")
             \cup {Tg("f:nested", "f-struct"), Tg("t:struct2", "t-struct"), Tg("t:btreemap_int", "t-map"), Tg("t:opt_struct", "t-option"), Tg("t:newtype_struct", "t-newtype")}
MpTargets == {Tg("f:str", "f-str"), Tg("f:string", "f-str"), Tg("f:opt_str", "f-option"), Tg("f:file", "f-file"), Tg("f:opt_file", "f-optfile"),
              Tg("f:vec_file", "f-vecfile"), Tg("f:u32", "f-int"), Tg("f:bool", "f-bool"), Tg("f:ignored", "f-ignored"), Tg("f:vec_str", "f-seq"),
              Tg("f:newtype_file", "f-newtype"), Tg("f:enum", "f-enum"), Tg("f:unit", "f-unit"), Tg("f:bytes", "f-bytes"), Tg("f:char", "f-char"), Tg("f:f64", "f-float"),
              Tg("f:tuple", "f-tuple"), Tg("f:map", "f-map"),
              Tg("t:map", "t-map"), Tg("t:file", "t-file"), Tg("t:u32", "t-int"), Tg("t:string", "t-str"), Tg("t:vec_file", "t-vecfile"), Tg("t:opt_struct", "t-option"),
              Tg("t:unit", "t-unit"), Tg("t:ignored", "t-ignored"), Tg("t:struct2", "t-struct")}
ScTargets == {Tg("headers", "setcookie")}
PctTargets == {Tg("decode_utf8", "decode"), Tg("decode", "decode"), Tg("path.str", "path"), Tg("query.iter", "query")}
              \cup {Tg("param:" \o t, "param-int") : t \in IntTags \cup {"usize"}}
              \cup {Tg("param:string", "param-str"), Tg("param:cow", "param-str"), Tg("param:str", "param-str")}
Targets(d) == CASE d \in {"urlenc", "cookie"} -> KvTargets [] d = "multipart" -> MpTargets
                [] d = "setcookie" -> ScTargets [] OTHER -> PctTargets
AllDecoders == {"urlenc", "cookie", "multipart", "setcookie", "pct"}

\* ------------------------------------------------------------------ the oracle
U64MAX == "18446744073709551615"
(* obs.maxage: "-" (no Max-Age yielded) or the decimal digits of the yielded value.  For the HUGE token (a digit string
   beyond 2^64) a yielded number other than the saturated one can only come from a wrapped fold.                        *)
\* (a second Max-Age directive with an ordinary number may legitimately be the one that is yielded: only inputs whose every Max-Age is HUGE count)
HasOrdinaryMaxAge(toks) == \E i \in 1..(Len(toks) - 1) : toks[i] \in {"Max-Age=", "max-age="} /\ toks[i + 1] # "HUGE"
MaxAgeOK(scn, obs) == ~(scn.dec = "setcookie" /\ scn.mut = 0 /\ (\E i \in 1..Len(scn.toks) : scn.toks[i] = "HUGE") /\ ~HasOrdinaryMaxAge(scn.toks))
                      \/ obs.maxage \in {"-", U64MAX}
Total(scn, obs) == /\ obs.kind \in {"value", "error"}
                   /\ obs.utf8ok /\ obs.inrange
                   /\ MaxAgeOK(scn, obs)
OutClass(scn, obs) == IF obs.kind \notin {"value", "error"} THEN obs.kind
                      ELSE IF ~obs.inrange THEN "slice-outside-input"
                      ELSE IF ~obs.utf8ok THEN "invalid-utf8"
                      ELSE IF ~MaxAgeOK(scn, obs) THEN "maxage-wrapped" ELSE obs.kind
RECURSIVE JoinFaults(_)
JoinFaults(fs) == IF fs = <<>> THEN "" ELSE IF Len(fs) = 1 THEN fs[1] ELSE fs[1] \o "+" \o JoinFaults(Tail(fs))
FaultClass(scn) == (IF scn.faults = <<>> THEN "none" ELSE JoinFaults(scn.faults)) \o (IF scn.mut # 0 THEN "+Mutated" ELSE "")
Signature(scn, obs) == [dec |-> scn.dec, tclass |-> scn.target.cls, fault |-> FaultClass(scn), out |-> OutClass(scn, obs),
                        where |-> IF obs.kind \in {"panic", "abort", "hang"} THEN obs.where ELSE ""]
=============================================================================
