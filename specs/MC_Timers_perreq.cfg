SPECIFICATION Spec
CONSTANTS
  PER_REQUEST_DEADLINE = TRUE
  EAGER_CANCEL = TRUE
  MARGIN = 0
  SS = {4}
  TD = {0, 2}
  PRE = {0, 1}
  POST = {0, 1}
  SD = {1, 3}
  ATS = {0, 1}
  GAPS = {0, 2}
  FINS = {0, 1, 3}
  NAPP = 1
  NSUB = 0
  MNT = FALSE
  NLOC = 0
  NSCRIPT = 2
  NREQ = 2
INVARIANTS SessionBound
CHECK_DEADLOCK FALSE
