SPECIFICATION MCSpec
CONSTANTS
  DELETE_MODE = "swap-remove"
  COMPLETE_ZERO = TRUE
  STRIP_TE = TRUE
  MaxOps = 4
  SHARD = 0
  NSHARDS = 1
CHECK_DEADLOCK FALSE
