SPECIFICATION GSpec
CONSTANTS
  FAMILY = "delim"
  MaxParts = 2
  MaxLen = 4
  BNDS = {"b", "-b", "b-", "--", "bb"}
  FULLTARGETS = TRUE
INVARIANT RoundTripInv
INVARIANT RefineInv
CHECK_DEADLOCK FALSE
