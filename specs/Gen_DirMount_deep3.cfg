SPECIFICATION GSpec
CONSTANTS
  PROFILE = "quick"
  MaxFiles = 3
  INDEX_OWN_PATH = TRUE
  FIX_INDEX_OWN = TRUE
  FIX_DIRNAME = TRUE
  FIX_LENGTH = TRUE
  SORT = "reverse"
  KnownDeviations = {}
  MOUNT_SET = "pub"
  EMIT_MIN = 3
INVARIANTS Refines Emit
CHECK_DEADLOCK FALSE
