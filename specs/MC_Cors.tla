------------------------------ MODULE MC_Cors ------------------------------
(* Bounded exhaustive check of layer (b) against layer (a) for C14: over every application CorsGen can build
   (every registration order, split registrations, routes at mount points, mounts at "/"), every policy of
   MCPolicies and every derived request, the response of the modelled mechanism (trees, default OPTIONS handler,
   CORS fang) is one the property allows -- or the request path is covered by a deviation the mechanism named
   while building (the OPTIONS handler of one registration replaced the one of another). *)
EXTENDS CorsGen

CONSTANT KnownDeviations   \* subset of {"split-registration", "merged-apps", "param-sibling"}

\* policies differ only in headers that do not depend on the application: a covering sample keeps the check fast
MCPolicies == IF NPOL = 0 THEN PolicySet
              ELSE {p \in PolicySet : (p.cred = (p.origin = "star")) = p.allowh.set /\ (p.expose.set = (p.maxage = ""))}
                   \cup {p \in PolicySet : p.origin # "star" /\ p.cred /\ ~p.allowh.set /\ p.expose.set /\ p.maxage # ""}

KnownCover(rt, p) == \E d \in rt.dev : d.cls \in KnownDeviations /\ (IF d.cls = "param-sibling" THEN Under(d.route, p) ELSE Matches(d.route, p))
Refines ==
  LET rt == BuildApp(apps) IN
  \A req \in Reqs(apps) : \A po \in MCPolicies :
     \A o \in {Mech(rt, po, req), MechBT(rt, po, req)} :
     \/ ResponseOK(po, apps, req, o)
     \/ (o.wf /\ SimpleHeaders(po, o) /\ IsPreflight(req) /\ KnownCover(rt, Normalize(req.path, req.trailing)))
\* the generator only keeps applications the model builds
Builds == BuildApp(apps).ok
\* the configuration class computed from the application (used in signatures) agrees with the deviation the mechanism names
ClassAgrees ==
  LET rt == BuildApp(apps) IN
  \A d \in rt.dev : d.cls \in {"split-registration", "merged-apps"} =>
     LET p == InstWith(d.route, <<"b", "b">>) IN CfgClass(apps, p) \in {"split-registration", "merged-apps"}
=============================================================================
