------------------------------ MODULE Shutdown ------------------------------
(***************************************************************************)
(* Graceful shutdown of `Ohkami::howl` (property C18).                     *)
(*                                                                         *)
(* Code modelled (rt_tokio):                                               *)
(*   ohkami/src/ohkami/mod.rs  howl            accept loop, spawn, wg.await*)
(*   ohkami/src/ohkami/mod.rs  sync::CtrlC     SIGINT handler closure and   *)
(*                                             UntilInterrupt::poll        *)
(*   ohkami/src/ohkami/mod.rs  sync::WaitGroup add / drop / poll           *)
(*                                                                         *)
(* One action per atomic operation on the two statics CATCH and WAKER and  *)
(* on the wait-group counter.  RECHECK selects the poll function with      *)
(* (TRUE) or without (FALSE) a second load of CATCH after the waker has    *)
(* been published.                                                         *)
(***************************************************************************)
EXTENDS Naturals, TLC

CONSTANTS RECHECK,       \* poll re-reads CATCH after publishing its waker
          MaxArrivals,   \* client connections that may arrive
          MaxSpurious,   \* wake-ups of the howl task that nobody asked for
          MaxSignals     \* SIGINTs delivered

VARIABLES
  catch,      \* static CATCH: AtomicBool
  waker,      \* static WAKER: 0 = null, 1 = a waker of the howl task
  pcH,        \* handler closure (runs on ctrlc's thread): idle, store, swap, wake
  hw,         \* what the handler's swap returned
  sigs,       \* signals delivered so far
  pcA,        \* the howl task: poll, load, publish, ret, suspended, spawn, drop, wgwait, returned
  woken,      \* a wake-up of the howl task is pending (the runtime will poll it)
  registered, \* listener.accept() returned Pending and registered interest with the reactor
  queue,      \* connections waiting in the backlog
  arrivals,   \* connections that have arrived so far
  spurious,   \* spurious wake-ups so far
  wg,         \* WaitGroup counter
  inflight    \* sessions being served

vars == <<catch, waker, pcH, hw, sigs, pcA, woken, registered, queue, arrivals, spurious, wg, inflight>>
hvars == <<catch, waker, pcH, hw, sigs>>
avars == <<pcA, woken, registered, queue, wg, inflight>>

Init == /\ catch = FALSE /\ waker = 0 /\ pcH = "idle" /\ hw = 0 /\ sigs = 0
        /\ pcA = "poll" /\ woken = FALSE /\ registered = FALSE
        /\ queue = 0 /\ arrivals = 0 /\ spurious = 0 /\ wg = 0 /\ inflight = 0

-----------------------------------------------------------------------------
(* the SIGINT handler closure, ohkami/mod.rs `ctrlc::set_handler(|| {..})` *)

Signal == /\ pcH = "idle" /\ sigs < MaxSignals
          /\ pcH' = "store" /\ sigs' = sigs + 1
          /\ UNCHANGED <<catch, waker, hw, pcA, woken, registered, queue, arrivals, spurious, wg, inflight>>

HStore == /\ pcH = "store"                       \* CATCH.store(true)
          /\ catch' = TRUE /\ pcH' = "swap"
          /\ UNCHANGED <<waker, hw, sigs, pcA, woken, registered, queue, arrivals, spurious, wg, inflight>>

HSwap  == /\ pcH = "swap"                        \* WAKER.swap(null)
          /\ hw' = waker /\ waker' = 0 /\ pcH' = "wake"
          /\ UNCHANGED <<catch, sigs, pcA, woken, registered, queue, arrivals, spurious, wg, inflight>>

HWake  == /\ pcH = "wake"                        \* if !null { waker.wake() }
          /\ woken' = (woken \/ hw = 1) /\ pcH' = "idle"
          /\ UNCHANGED <<catch, waker, hw, sigs, pcA, registered, queue, arrivals, spurious, wg, inflight>>

-----------------------------------------------------------------------------
(* the howl task: `while let Some(c) = ctrl_c.until_interrupt(listener.accept()).await` *)

AResume == /\ pcA = "suspended" /\ woken         \* the runtime polls the task again
           /\ woken' = FALSE /\ pcA' = "poll"
           /\ UNCHANGED <<hvars, registered, queue, arrivals, spurious, wg, inflight>>

APollAccept == /\ pcA = "poll"                   \* inner future first: listener.accept()
               /\ IF queue > 0
                    THEN /\ queue' = queue - 1 /\ pcA' = "spawn" /\ registered' = FALSE
                    ELSE /\ pcA' = "load" /\ registered' = TRUE /\ UNCHANGED queue
               /\ UNCHANGED <<hvars, woken, arrivals, spurious, wg, inflight>>

ALoad == /\ pcA = "load"                         \* CATCH.load()
         /\ pcA' = IF catch THEN "drop" ELSE "publish"
         /\ UNCHANGED <<hvars, woken, registered, queue, arrivals, spurious, wg, inflight>>

APublish == /\ pcA = "publish"                   \* WAKER.swap(Box::new(cx.waker().clone()))
            /\ waker' = 1 /\ pcA' = "ret"
            /\ UNCHANGED <<catch, pcH, hw, sigs, woken, registered, queue, arrivals, spurious, wg, inflight>>

ARet == /\ pcA = "ret"                           \* (repair: CATCH.load() once more,) return from poll
        /\ pcA' = IF RECHECK /\ catch THEN "drop" ELSE "suspended"
        /\ UNCHANGED <<hvars, woken, registered, queue, arrivals, spurious, wg, inflight>>

ASpawn == /\ pcA = "spawn"                       \* wg.add(); spawn(session.manage(); wg.done())
          /\ wg' = wg + 1 /\ inflight' = inflight + 1 /\ pcA' = "poll"
          /\ UNCHANGED <<hvars, woken, registered, queue, arrivals, spurious>>

ADrop == /\ pcA = "drop"                         \* loop left: drop(listener)
         /\ pcA' = "wgwait" /\ registered' = FALSE
         /\ UNCHANGED <<hvars, woken, queue, arrivals, spurious, wg, inflight>>

AWgPoll == /\ pcA = "wgwait"                     \* WaitGroup::poll: Ready iff counter = 0, else wake_by_ref
           /\ wg = 0
           /\ pcA' = "returned"
           /\ UNCHANGED <<hvars, woken, registered, queue, arrivals, spurious, wg, inflight>>

-----------------------------------------------------------------------------
(* environment *)

Arrive == /\ arrivals < MaxArrivals /\ pcA \notin {"wgwait", "returned"}
          /\ arrivals' = arrivals + 1 /\ queue' = queue + 1
          /\ woken' = (woken \/ registered)
          /\ UNCHANGED <<hvars, pcA, registered, spurious, wg, inflight>>

Spurious == /\ spurious < MaxSpurious /\ pcA \notin {"wgwait", "returned"}
            /\ spurious' = spurious + 1 /\ woken' = TRUE
            /\ UNCHANGED <<hvars, pcA, registered, queue, arrivals, wg, inflight>>

SessionDone == /\ inflight > 0                   \* session.manage() finished; wg handle dropped
               /\ inflight' = inflight - 1 /\ wg' = wg - 1
               /\ UNCHANGED <<hvars, pcA, woken, registered, queue, arrivals, spurious>>

-----------------------------------------------------------------------------
HStep == HStore \/ HSwap \/ HWake
AStep == AResume \/ APollAccept \/ ALoad \/ APublish \/ ARet \/ ASpawn \/ ADrop \/ AWgPoll
Env   == Signal \/ Arrive \/ Spurious \/ SessionDone
Next  == HStep \/ AStep \/ Env

Fairness == /\ WF_vars(HStore) /\ WF_vars(HSwap) /\ WF_vars(HWake)
            /\ WF_vars(AResume) /\ WF_vars(APollAccept) /\ WF_vars(ALoad) /\ WF_vars(APublish)
            /\ WF_vars(ARet) /\ WF_vars(ASpawn) /\ WF_vars(ADrop) /\ WF_vars(AWgPoll)
            /\ WF_vars(SessionDone)             \* sessions end (handlers terminate, clients close)
            \* no fairness on Signal, Arrive, Spurious: they may never happen

Spec == Init /\ [][Next]_vars /\ Fairness

-----------------------------------------------------------------------------
(* the property (C18), stated on the abstract state only *)

Interrupted == catch                                  \* a handler run has set the flag
Returned    == pcA = "returned"

TypeOK == /\ catch \in BOOLEAN /\ waker \in {0, 1} /\ hw \in {0, 1}
          /\ pcH \in {"idle", "store", "swap", "wake"}
          /\ pcA \in {"poll", "load", "publish", "ret", "suspended", "spawn", "drop", "wgwait", "returned"}
          /\ woken \in BOOLEAN /\ registered \in BOOLEAN
          /\ queue \in 0..MaxArrivals /\ arrivals \in 0..MaxArrivals /\ spurious \in 0..MaxSpurious
          /\ sigs \in 0..MaxSignals /\ wg \in 0..MaxArrivals /\ inflight \in 0..MaxArrivals

\* never returns while a session is still being served
NoEarlyReturn == Returned => inflight = 0
\* returns only after an interrupt
ReturnOnlyAfterInterrupt == Returned => catch
\* the wait-group counter is the number of sessions in flight
WgExact == wg = inflight
\* once the loop has been left nothing is accepted any more
NoAcceptAfterLeave == [][(pcA \in {"wgwait", "returned"}) => (inflight' =< inflight)]_vars

\* the interrupt is never lost: once the handler has been entered, howl eventually returns
NoLostInterrupt == (pcH = "store") ~> Returned
=============================================================================
