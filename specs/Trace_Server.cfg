SPECIFICATION TSpec
CONSTANTS
  BOUNDARY = TRUE
  RULE = "precise"
CHECK_DEADLOCK FALSE
