------------------------------- MODULE SseGen -------------------------------
(***************************************************************************)
(* Scenario generation for C17.                                            *)
(*                                                                         *)
(*  MODE = "sched": every behaviour of Sse (within the constants) up to    *)
(*    termination, recorded as the sequence of action names; the harness   *)
(*    forces the same sequence of environment decisions (Fire, Spurious)   *)
(*    between the same steps of the real code.                             *)
(*    Record: [script, hist]                                               *)
(*  MODE = "frame": every message of <= MaxTok tokens over Toks and every  *)
(*    pair of messages of <= MaxPairTok tokens.  Record: [msgs]            *)
(* The driver pairs the two kinds (every schedule gets message contents,   *)
(* every message list gets a schedule with as many pushes).                *)
(***************************************************************************)
EXTENDS Sse, Json

CONSTANTS MODE, MaxTok, MaxPairTok, Toks
VARIABLES hist, g

Msgs(n) == UNION {[1..k -> Toks] : k \in 0..n}

GInit == /\ hist = <<>> /\ g = [t |-> "init"]
         /\ IF MODE = "sched" THEN Init ELSE InitWith(<<>>)

St(A, n) == A /\ hist' = Append(hist, n) /\ UNCHANGED g
SNext == \/ St(CHead, "CHead") \/ St(PStill, "PStill") \/ St(PCont, "PCont") \/ St(PPush, "PPush")
         \/ St(PYield, "PYield") \/ St(PEnd, "PEnd") \/ St(CDeliver, "CDeliver") \/ St(CSuspend, "CSuspend")
         \/ St(PDecoy, "PDecoy") \/ St(CDiscard, "CDiscard")
         \/ St(CFinish, "CFinish") \/ St(CResume, "CResume") \/ St(Fire, "Fire") \/ St(Spurious, "Spurious")

FNext == /\ UNCHANGED <<vars, hist>>
         /\ \/ /\ g.t = "init"
               /\ \/ \E t \in Toks : g' = [t |-> "sh", a |-> t]
                  \/ \E m \in Msgs(MaxPairTok) : g' = [t |-> "shp", m |-> m]
                  \/ g' = [t |-> "msgs", ms |-> << <<>> >>]
            \/ /\ g.t = "sh"
               /\ \E r \in Msgs(MaxTok - 1) : g' = [t |-> "msgs", ms |-> << <<g.a>> \o r >>]
            \/ /\ g.t = "shp"
               /\ \E m2 \in Msgs(MaxPairTok) : g' = [t |-> "msgs", ms |-> <<g.m, m2>>]

GNext == IF MODE = "sched" THEN SNext ELSE FNext
GSpec == GInit /\ [][GNext]_<<vars, hist, g>>

Emit == /\ (MODE = "sched" /\ finished) => PrintT(ToJson([script |-> script, hist |-> hist]))
        /\ (MODE = "frame" /\ g.t = "msgs") => PrintT(ToJson([msgs |-> g.ms]))
=============================================================================
