SPECIFICATION FSpec
CONSTANTS
  MaxScript = 0
  MaxSpurious = 0
  FORWARD_WAKER = TRUE
  READY_DRAINS = TRUE
  FILTER_MODE = "none"
  CHAIN_MODE = "none"
  MaxTok = 5
  MaxPairTok = 2
  Toks = {"x", "u", "n", "LF", "CR", "CRLF", "SP", "COLON", "DATA", "EV", "ID", "RETRY", "BOM"}
INVARIANTS WantedOK ImplOK ImplDev DevSharp NormOK
CHECK_DEADLOCK FALSE
