-------------------------------- MODULE Cors --------------------------------
(***************************************************************************)
(* C14 -- the CORS fang applies the configured policy to every response    *)
(* and preflight.  Applications are the ones of RouterApp.tla (apps[1] is  *)
(* served and carries the CORS fang: Ohkami::with((CORS::new(..)..,), ..)).*)
(*                                                                         *)
(*  policy : [origin |-> "star" | "o1" | "o2", cred |-> BOOLEAN,           *)
(*            allowh |-> [set |-> BOOLEAN, list |-> <<header tokens>>],    *)
(*            expose |-> [set |-> BOOLEAN, list |-> <<header tokens>>],    *)
(*            maxage |-> "" (not configured) | decimal digits]             *)
(*  req    : [method, path, trailing,                                      *)
(*            acrm |-> "" | requested method token,                        *)
(*            acrh |-> [set, list], origin |-> "none" | origin token]      *)
(*  obs    : [status, blen, wf, acao, acac, aceh, acam, acah, acma]        *)
(*           (header values as sequences of tokens; lists were split on    *)
(*            "," and trimmed by the harness)                              *)
(*                                                                         *)
(* Layer (a)  SimpleHeaders / Preflight / ResponseOK: the property text.   *)
(* Layer (b)  the mechanism: router/base.rs register_handlers (one tree    *)
(*            per method + the OPTIONS tree whose handler captures the     *)
(*            method list of ONE HandlerSet, set_handler with              *)
(*            allow_override), merge_another (merge_node / merge_here,     *)
(*            conflicts), fang/handler/mod.rs default_options_with         *)
(*            (404 / 400 / 501 + Allow-Methods), fang/builtin/cors.rs      *)
(*            (builder, CORSProc::bite, 501 -> 200).  Tree compression and *)
(*            byte-level matching are C01/C04's subject and not repeated   *)
(*            here: the search below walks the uncompressed tree segment   *)
(*            by segment (first static hit, else first param child, no     *)
(*            backtracking).                                               *)
(***************************************************************************)
EXTENDS RouterApp

CONSTANT REPAIR   \* FALSE: the mechanism as it is.  TRUE: the proposed repair -- an OPTIONS handler that replaces
                  \* another one for the same node takes over the methods of the replaced one

HdrSet(x) == IF x.set THEN SeqToSet(x.list) ELSE {}
CredOn(pol) == pol.cred /\ pol.origin # "star"
IsPreflight(req) == req.method = "OPTIONS" /\ req.acrm # ""

\* ========================================================================================== layer (a)
\* every response: Allow-Origin equal to the configured origin, `Allow-Credentials: true` iff enabled on a
\* non-wildcard origin, the configured exposed headers
OriginOK(pol, o) == o.acao # <<>> /\ \A i \in DOMAIN o.acao : o.acao[i] = pol.origin
CredOK(pol, o)   == IF CredOn(pol) THEN o.acac = <<"true">> ELSE \A i \in DOMAIN o.acac : o.acac[i] # "true"
ExposeOK(pol, o) == SeqToSet(o.aceh) = HdrSet(pol.expose)
SimpleHeaders(pol, o) == OriginOK(pol, o) /\ CredOK(pol, o) /\ ExposeOK(pol, o)

AllPats(apps) == {x.route : x \in AllRoutes(apps)}
\* the methods registered for a pattern: by every item, of every application, that registers this pattern
MethodsAt(apps, r) == UNION {x.methods : x \in {y \in AllRoutes(apps) : y.route = r}}
Advertised(ms) == ms \cup (IF "GET" \in ms THEN {"HEAD"} ELSE {}) \cup {"OPTIONS"}

\* "that path": path matching as in C01.  Where several registered patterns match the path the text does not say
\* which one a preflight addresses (the best match among all patterns, among the patterns of the requested method,
\* with or without backtracking): every one of these readings is accepted.  <<"none">> = nothing registered there.
Resolutions(apps, p, m) ==
  LET all   == AllPats(apps)
      pats  == all \cup {mt.prefix : mt \in AllMounts(apps)}
      withm == {x.route : x \in {y \in AllRoutes(apps) : EffMethod(m) \in y.methods}}
      norm(res) == IF res = <<"404">> THEN <<"none">> ELSE IF res[2] \in all THEN res ELSE <<"none">>
  IN {norm(Best(all, p)), norm(Greedy(pats, p, 1)), norm(Best(withm, p)), norm(Greedy(withm, p, 1))}

AllowHeadersOK(pol, req, o) ==
  SeqToSet(o.acah) = (IF pol.allowh.set THEN SeqToSet(pol.allowh.list) ELSE HdrSet(req.acrh))
MaxAgeOK(pol, o) == o.acma = (IF pol.maxage = "" THEN <<>> ELSE <<pol.maxage>>)
Is2xx(o) == o.status >= 200 /\ o.status =< 299
Is4xx(o) == o.status >= 400 /\ o.status =< 499
\* a preflight asking for HEAD (where GET is registered) or for OPTIONS may be accepted or refused
MayAccept(m, ms) == m \in ms \/ (m = "HEAD" /\ "GET" \in ms) \/ m = "OPTIONS"
MayRefuse(m, ms) == m \notin ms
Accepted(pol, req, ms, o) ==
  /\ Is2xx(o) /\ o.blen = 0
  /\ SeqToSet(o.acam) = Advertised(ms)
  /\ AllowHeadersOK(pol, req, o) /\ MaxAgeOK(pol, o)
PreflightVia(pol, apps, req, res, o) ==
  IF res = <<"none">> THEN Is4xx(o)
  ELSE LET ms == MethodsAt(apps, res[2]) IN
       \/ (MayAccept(req.acrm, ms) /\ Accepted(pol, req, ms, o))
       \/ (MayRefuse(req.acrm, ms) /\ Is4xx(o))
Preflight(pol, apps, req, o) ==
  \E res \in Resolutions(apps, Normalize(req.path, req.trailing), req.acrm) : PreflightVia(pol, apps, req, res, o)

ResponseOK(pol, apps, req, o) ==
  /\ o.wf
  /\ SimpleHeaders(pol, o)
  /\ (IsPreflight(req) => Preflight(pol, apps, req, o))

\* ------------------------------------------------------------------------------------------ classes (signatures)
Regs(apps, r) == {x \in AllRoutes(apps) : x.route = r}
CfgClass(apps, p) ==
  LET mt == {r \in AllPats(apps) : Matches(r, p)} IN
  IF mt = {} THEN "unregistered-path"
  ELSE IF \E r \in mt : \E x, y \in Regs(apps, r) : x # y /\ x.chain = y.chain THEN "split-registration"
  ELSE IF \E r \in mt : \E x, y \in Regs(apps, r) : x # y THEN "merged-apps"
  ELSE IF Cardinality(mt) > 1 THEN "overlapping-patterns" ELSE "single-registration"
ReqClass(apps, req) ==
  IF ~IsPreflight(req) THEN (IF req.method = "OPTIONS" THEN "options-without-request-method" ELSE "simple")
  ELSE LET res == Best(AllPats(apps), Normalize(req.path, req.trailing)) IN
       IF res = <<"404">> THEN "preflight-unregistered-path"
       ELSE IF req.acrm \in MethodsAt(apps, res[2]) THEN "preflight-registered-method"
       ELSE IF req.acrm \in {"HEAD", "OPTIONS"} THEN "preflight-head-or-options"
       ELSE "preflight-unregistered-method"
OutClass(pol, apps, req, o) ==
  IF ~o.wf THEN "malformed-response"
  ELSE IF ~OriginOK(pol, o) THEN "allow-origin"
  ELSE IF ~CredOK(pol, o) THEN "allow-credentials"
  ELSE IF ~ExposeOK(pol, o) THEN "expose-headers"
  ELSE IF ~IsPreflight(req) THEN "other"
  ELSE LET res == Best(AllPats(apps), Normalize(req.path, req.trailing))
           ms  == IF res = <<"404">> THEN {} ELSE MethodsAt(apps, res[2]) IN
       IF ~Is2xx(o) /\ ~Is4xx(o) THEN "status-neither-2xx-nor-4xx"
       ELSE IF Is4xx(o) THEN "refused-registered-method"
       ELSE IF res = <<"404">> \/ ~MayAccept(req.acrm, ms) THEN "accepted-unregistered"
       ELSE IF o.blen # 0 THEN "accepted-with-body"
       ELSE IF ~(Advertised(ms) \subseteq SeqToSet(o.acam)) THEN "allow-methods-lacks-registered"
       ELSE IF SeqToSet(o.acam) # Advertised(ms) THEN "allow-methods-has-unregistered"
       ELSE IF ~AllowHeadersOK(pol, req, o) THEN "allow-headers"
       ELSE IF ~MaxAgeOK(pol, o) THEN "max-age" ELSE "other"

\* ========================================================================================== layer (b)
TreeNames == {"GET", "PUT", "POST", "PATCH", "DELETE", "OPTIONS"}
MOrder    == <<"GET", "PUT", "POST", "PATCH", "DELETE">>          \* order of `allow_methods!` in register_handlers
\* Handler::default_options_with: the leaked list captured by the automatic OPTIONS handler
OptList(ms) == SelectSeq(MOrder, LAMBDA m : m \in ms) \o (IF "GET" \in ms THEN <<"HEAD">> ELSE <<>>) \o <<"OPTIONS">>

\* router under construction: one base tree per method and the OPTIONS tree (nodes of Router.tla; a handler is
\* <<"h", id>> in a method tree and <<"opt", methods of the registering HandlerSet, registering application>> in the
\* OPTIONS tree); ok = no registration panicked; dev = the named deviations that occurred while building
EmptyRouter == [tr |-> [m \in TreeNames |-> Root], ok |-> TRUE, dev |-> {}]
MinOf(S) == CHOOSE x \in S : \A y \in S : x =< y
RECURSIVE NodeAt(_, _, _)
NodeAt(n, r, i) == IF i > Len(r) THEN <<n>>
                   ELSE LET idx == {j \in 1..Len(n.ch) : SameSeg(n.ch[j].pat, r[i])} IN
                        IF idx = {} THEN <<>> ELSE NodeAt(n.ch[MinOf(idx)], r, i + 1)
HasHandler(n, r) == LET na == NodeAt(n, r, 1) IN IF na = <<>> THEN FALSE ELSE na[1].h # <<>>

\* Router::register_handlers (one route item, by application a)
Register(rt, r, ms, hid, a) ==
  LET mset == SeqToSet(ms)
      old  == NodeAt(rt.tr["OPTIONS"], r, 1)
      overridden == IF old = <<>> THEN FALSE ELSE old[1].h # <<>>
      newms == IF REPAIR /\ overridden THEN mset \cup old[1].h[2] ELSE mset
  IN [tr  |-> [m \in TreeNames |-> IF m \in mset THEN Insert(rt.tr[m], r, 1, <<"h", hid>>)
                                    ELSE IF m = "OPTIONS" THEN Insert(rt.tr[m], r, 1, <<"opt", newms, a>>)   \* allow_override = true
                                    ELSE rt.tr[m]],
      ok  |-> rt.ok /\ \A m \in mset : ~HasHandler(rt.tr[m], r),                                              \* "Conflicting handler registering"
      dev |-> rt.dev \cup (IF overridden /\ ~REPAIR
                             THEN {[cls |-> IF old[1].h[3] = a THEN "split-registration" ELSE "merged-apps", route |-> r]} ELSE {})]

\* Node::merge_here: a static child that exists already is an error, a param child is pushed next to the existing one
StaticClash(n, c) == \E i \in DOMAIN n.ch : \E j \in DOMAIN c.ch : c.ch[j].pat.k = "S" /\ n.ch[i].pat = c.ch[j].pat
ParamClash(n, c)  == (\E i \in DOMAIN n.ch : n.ch[i].pat.k = "P") /\ (\E j \in DOMAIN c.ch : c.ch[j].pat.k = "P")
\* Router::merge_another (the finished router crt of a child application below prefix pre)
Merge(rt, pre, crt) ==
  LET at == NodeAt(rt.tr["OPTIONS"], pre, 1)
      co == crt.tr["OPTIONS"]
      overridden == IF at = <<>> THEN FALSE ELSE (at[1].h # <<>> /\ co.h # <<>>)
      co2 == IF REPAIR /\ overridden THEN [co EXCEPT !.h = <<"opt", co.h[2] \cup at[1].h[2], co.h[3]>>] ELSE co
      conflict(m) == LET am == NodeAt(rt.tr[m], pre, 1) IN
                     IF am = <<>> THEN FALSE
                     ELSE StaticClash(am[1], crt.tr[m]) \/ (m # "OPTIONS" /\ crt.tr[m].h # <<>> /\ am[1].h # <<>>)
      psib == \E m \in TreeNames : LET am == NodeAt(rt.tr[m], pre, 1) IN IF am = <<>> THEN FALSE ELSE ParamClash(am[1], crt.tr[m])
  IN [tr  |-> [m \in TreeNames |-> MergeAt(rt.tr[m], pre, 1, IF m = "OPTIONS" THEN co2 ELSE crt.tr[m])],
      ok  |-> rt.ok /\ crt.ok /\ \A m \in TreeNames : ~conflict(m),                                           \* "Can't merge Ohkamis"
      dev |-> rt.dev \cup {[d EXCEPT !.route = pre \o @] : d \in crt.dev}
              \cup (IF overridden /\ ~REPAIR THEN {[cls |-> "merged-apps", route |-> pre]} ELSE {})
              \cup (IF psib THEN {[cls |-> "param-sibling", route |-> pre]} ELSE {})]

RECURSIVE BuildItems(_, _, _)
BuildItems(apps, a, k) ==
  IF k = 0 THEN EmptyRouter
  ELSE LET rt == BuildItems(apps, a, k - 1)
           it == apps[a].items[k] IN
       IF it.t = "route" THEN Register(rt, it.segs, it.methods, it.h, a)
       ELSE Merge(rt, it.segs, BuildItems(apps, it.app, Len(apps[it.app].items)))
BuildApp(apps) == BuildItems(apps, 1, Len(apps[1].items))

\* final::Node::search_target on segments: statics are tried before params, the first param child wins, no backtracking;
\* <<>> = the default not-found handler (with the fangs of the application)
RECURSIVE SearchB(_, _, _)
SearchB(n, p, i) ==
  IF i > Len(p) THEN n.h
  ELSE LET st == {j \in 1..Len(n.ch) : n.ch[j].pat.k = "S" /\ n.ch[j].pat.s = p[i]}
           pa == {j \in 1..Len(n.ch) : n.ch[j].pat.k = "P" /\ p[i] # <<>>}
       IN IF st # {} THEN SearchB(n.ch[MinOf(st)], p, i + 1)
          ELSE IF pa # {} THEN SearchB(n.ch[MinOf(pa)], p, i + 1) ELSE <<>>

\* the same search with backtracking into the param children.  The real tree is compressed (final.rs merges a handler-less
\* static node with its single static child), which turns some dead ends of the plain descent into matches: on such
\* paths the code behaves like SearchBT (C01 accepts both); the trace spec counts as model drift only what neither explains
RECURSIVE SearchBT(_, _, _)
SearchBT(n, p, i) ==
  IF i > Len(p) THEN n.h
  ELSE LET st == {j \in 1..Len(n.ch) : n.ch[j].pat.k = "S" /\ n.ch[j].pat.s = p[i]}
           pa == {j \in 1..Len(n.ch) : n.ch[j].pat.k = "P" /\ p[i] # <<>>}
           viaS == IF st = {} THEN <<>> ELSE SearchBT(n.ch[MinOf(st)], p, i + 1)
       IN IF viaS # <<>> THEN viaS
          ELSE IF pa # {} THEN SearchBT(n.ch[MinOf(pa)], p, i + 1) ELSE <<>>
SearchIn(bt, n, p) == IF bt THEN SearchBT(n, p, 1) ELSE SearchB(n, p, 1)

\* what the harness's handler `id` answers
HandlerStatus(id) == IF id % 4 = 2 THEN 500 ELSE IF id % 4 = 3 THEN 403 ELSE 200
\* the response that reaches the CORS fang from inside (handler, default OPTIONS handler, or not-found)
Inner(rt, req, bt) ==
  LET p == Normalize(req.path, req.trailing) IN
  IF req.method = "OPTIONS"
    THEN LET h == SearchIn(bt, rt.tr["OPTIONS"], p) IN
         IF h = <<>> THEN [status |-> 404, body |-> FALSE, acam |-> <<>>]
         ELSE IF req.acrm = "" THEN [status |-> 404, body |-> FALSE, acam |-> <<>>]
         ELSE LET lst == OptList(h[2]) IN
              [status |-> IF \E i \in DOMAIN lst : lst[i] = req.acrm THEN 501 ELSE 400, body |-> FALSE, acam |-> lst]
    ELSE LET h == SearchIn(bt, rt.tr[EffMethod(req.method)], p) IN
         IF h = <<>> THEN [status |-> 404, body |-> FALSE, acam |-> <<>>]
         ELSE [status |-> HandlerStatus(h[2]), body |-> req.method # "HEAD" /\ HandlerStatus(h[2]) # 500, acam |-> <<>>]
\* CORS::AllowCredentials() on a wildcard origin leaves the flag off
BuiltCred(pol) == pol.cred /\ pol.origin # "star"
\* CORSProc::bite
Bite(pol, req, inner) ==
  LET opt == req.method = "OPTIONS" IN
  [status |-> IF opt /\ inner.status = 501 THEN 200 ELSE inner.status,
   blen   |-> IF inner.body THEN 1 ELSE 0,
   wf     |-> TRUE,
   acao   |-> <<pol.origin>>,
   acac   |-> IF BuiltCred(pol) THEN <<"true">> ELSE <<>>,
   aceh   |-> IF pol.expose.set THEN pol.expose.list ELSE <<>>,
   acma   |-> IF opt /\ pol.maxage # "" THEN <<pol.maxage>> ELSE <<>>,
   acah   |-> IF ~opt THEN <<>> ELSE IF pol.allowh.set THEN pol.allowh.list ELSE IF req.acrh.set THEN req.acrh.list ELSE <<>>,
   acam   |-> inner.acam]
\* a gate (the harness's refusing fang on a mounted application) answers 401 with a body to everything but OPTIONS under its mount prefix
Gated(apps, req) == req.method # "OPTIONS" /\ \E mt \in Covering(apps, Normalize(req.path, req.trailing)) : apps[mt.app].fangs # <<>>
GateInner(req) == [status |-> 401, body |-> req.method # "HEAD", acam |-> <<>>]
Mech(rt, pol, req) == Bite(pol, req, Inner(rt, req, FALSE))
MechBT(rt, pol, req) == Bite(pol, req, Inner(rt, req, TRUE))

\* a named deviation covers the request path
Covered(rt, p) == \E d \in rt.dev : IF d.cls = "param-sibling" THEN Under(d.route, p) ELSE Matches(d.route, p)
=============================================================================
