SPECIFICATION MCSpec
CONSTANTS
  DELETE_MODE = "slot-only"
  COMPLETE_ZERO = FALSE
  STRIP_TE = TRUE
  MaxOps = 3
INVARIANTS StepOK SizeExact NoOverrun SizeExactAfterFinish Refines
CHECK_DEADLOCK FALSE
