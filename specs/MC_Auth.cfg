CONSTANTS
  WHAT = "jwt"
  DEEP = FALSE
  EMIT = FALSE
SPECIFICATION MSpec
INVARIANT RowsOK
CHECK_DEADLOCK FALSE
