CONSTANTS
  Families = {"rt", "dec", "iter"}
  RtLen = 3
  RtLen2 = 1
  VecMax = 3
  DecLen = 2
  IterLen = 2
  IterCls = {"al", "amp", "eq", "pct", "plus", "sp", "u3", "slash", "nul", "u4"}
