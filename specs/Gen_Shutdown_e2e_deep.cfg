SPECIFICATION GSpec
CONSTANTS
  RECHECK = TRUE
  MaxArrivals = 3
  MaxSpurious = 0
  MaxSignals = 1
  MODE = "e2e"
INVARIANT Emit
CHECK_DEADLOCK FALSE
