SPECIFICATION GSpec
CONSTANTS
  BUF = 4
  HEADLOOP = TRUE
  CARRY = FALSE
  MaxReqs = 2
  MaxBody = 3
  MaxCuts = 3
  MODE = "c06"
INVARIANT Emit
CHECK_DEADLOCK FALSE
