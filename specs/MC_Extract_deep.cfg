SPECIFICATION Spec
CONSTANTS
  REPAIRED = TRUE
  MaxLen = 4
  FullUpTo = 4
  KnownDev = {}
INVARIANTS SegInv ItemInv BindInv
CHECK_DEADLOCK FALSE
