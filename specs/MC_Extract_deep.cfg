SPECIFICATION Spec
CONSTANTS
  REPAIRED = FALSE
  MaxLen = 4
  FullUpTo = 4
  KnownDev = {"prefix", "wrap"}
INVARIANTS SegInv ItemInv BindInv
CHECK_DEADLOCK FALSE
