SPECIFICATION GSpec
CONSTANTS
  FAMILY = "delim"
  MaxParts = 2
  MaxLen = 3
  BNDS = {"b", "-b", "--"}
  FULLTARGETS = FALSE
INVARIANT Emit
CHECK_DEADLOCK FALSE
