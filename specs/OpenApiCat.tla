----------------------------- MODULE OpenApiCat -----------------------------
(* C15 scenario emission, catalogue sweep: every handler signature of the catalogue (and the two named-function
   handlers) once on a route that has exactly the params the handler declares, and -- for handlers with at most
   one param -- once inside an application mounted below a param prefix (`/b/:y`), the nested layout in which a
   handler naturally declares fewer params than the full route.  No behaviour: printed from an ASSUME. *)
EXTENDS OpenApi, Json

P(n) == [k |-> "P", s |-> <<n>>]
RouteOfNP(np) == IF np = 0 THEN <<SSeg(<<"a">>)>> ELSE IF np = 1 THEN <<SSeg(<<"a">>), P("x")>> ELSE <<SSeg(<<"a">>), P("x"), SSeg(<<"b">>), P("y")>>
Item(r, sg, h, ms) == [t |-> "route", segs |-> r, methods |-> ms, local |-> <<>>, h |-> h, app |-> 0, sig |-> sg]
Mount(pre, b) == [t |-> "mount", segs |-> pre, methods |-> <<>>, local |-> <<>>, h |-> 0, app |-> b, sig |-> Sig("p0", "none", "text")]
Flat(sg) == <<[fangs |-> <<>>, items |-> <<Item(RouteOfNP(HandlerNP(sg.pv)), sg, 1, <<"GET", "POST">>)>>]>>
Nested(sg) == <<[fangs |-> <<>>, items |-> <<Item(<<SSeg(<<"a">>)>>, Sig("p0", "none", "text"), 2, <<"GET">>), Mount(<<SSeg(<<"b">>), P("y")>>, 2)>>],
               [fangs |-> <<"tag">>, items |-> <<Item(RouteOfNP(HandlerNP(sg.pv)), sg, 1, <<"PUT">>)>>]>>
ASSUME \A sg \in Catalogue \cup Named : PrintT(ToJson([apps |-> Flat(sg), src |-> "cat"]))
ASSUME \A sg \in {c \in Catalogue \cup Named : HandlerNP(c.pv) =< 1} : PrintT(ToJson([apps |-> Nested(sg), src |-> "cat-nested"]))
=============================================================================
