SPECIFICATION Spec
CONSTANTS
  PER_REQUEST_DEADLINE = FALSE
  EAGER_CANCEL = FALSE
  MARGIN = 0
  SS = {4}
  TD = {0, 2}
  PRE = {0, 1}
  POST = {0, 1}
  SD = {1, 3}
  ATS = {0, 1}
  GAPS = {0, 2}
  FINS = {0, 1, 3}
  NAPP = 2
  NSUB = 0
  MNT = FALSE
  NLOC = 1
  NSCRIPT = 2
  NREQ = 1
INVARIANTS TimeoutBound
CHECK_DEADLOCK FALSE
