SPECIFICATION GSpec
CONSTANT TIER = "quick"
CHECK_DEADLOCK FALSE
