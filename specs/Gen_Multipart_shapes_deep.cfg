SPECIFICATION GSpec
CONSTANTS
  FAMILY = "shapes"
  MaxParts = 3
  MaxLen = 2
  BNDS = {"-b", "b-b"}
  FULLTARGETS = TRUE
INVARIANT Emit
CHECK_DEADLOCK FALSE
