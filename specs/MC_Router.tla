------------------------------ MODULE MC_Router ------------------------------
(* Bounded exhaustive check of the routing mechanism (layer b of Router) against the oracle (layer a):
   a parent application with up to MaxP routes and optional fangs, optionally one child application
   (up to MaxC routes, optional fangs) mounted below a static prefix, items registered in EVERY order;
   in every finalised state every request path of the bounded set is dispatched as the property allows
   and passes exactly the expected fangs in onion order. *)
EXTENDS Router

CONSTANTS MaxP, MaxC, WithMount

\* OVERLAP = TRUE (cfg override): the parent may register routes of its own below the mount prefix (C01 quantifies over every
\* nesting; C04's side condition does not hold then, so only Dispatch is checked).  Excluded are the configurations the
\* framework refuses at start-up in one of the two orders (`Conflicting route definition`): walking down from the mount
\* point through params of both sides, the parent's route and a child's route continue with the same static segment.
OVERLAP == FALSE
NoPMerge == FALSE
TrueConst == TRUE
RECURSIVE StaticClash(_, _)
StaticClash(x, y) == IF x = <<>> \/ y = <<>> THEN FALSE
                     ELSE IF x[1].k = "P" /\ y[1].k = "P" THEN StaticClash(Tail(x), Tail(y))
                     ELSE x[1].k = "S" /\ y[1] = x[1]

Chars   == {"a", "b"}
SegStr  == {<<"a">>, <<"b">>, <<"a", "b">>}
Segs    == {SSeg(w) : w \in SegStr} \cup {PSeg}
Routes1 == UNION {[1..n -> Segs] : n \in 0..2}
MountPrefixes == {<<SSeg(<<"a">>)>>, <<SSeg(<<"a", "b">>)>>, <<SSeg(<<"a">>), SSeg(<<"a">>)>>, <<SSeg(<<"b">>), PSeg>>}
ReqSegs == {<<"a">>, <<"b">>, <<"a", "b">>, <<"a", "a">>, <<>>}
Paths   == UNION {[1..n -> ReqSegs] : n \in 0..3}

VARIABLES phase,   \* "child" (building the child), "parent", "final"
          ct, cr,  \* child base tree, child routes registered so far
          pt, pr,  \* parent base tree, parent routes registered so far
          m,       \* mount prefix (<<>> = not mounted yet / no mount)
          mounted, pf, cf
vars == <<phase, ct, cr, pt, pr, m, mounted, pf, cf>>
NodeUnder(r, pre) == Len(r) >= Len(pre) /\ \A i \in DOMAIN pre : SameSeg(r[i], pre[i])
Below(r, pre) == SubSeq(r, Len(pre) + 1, Len(r))
Refused(r, pre) == NodeUnder(r, pre) /\ \E y \in cr : StaticClash(Below(r, pre), y)

Init == /\ phase = (IF WithMount THEN "child" ELSE "parent") /\ ct = Root /\ cr = {} /\ pt = Root /\ pr = {}
        /\ m = <<>> /\ mounted = FALSE /\ pf = FALSE /\ cf = FALSE

\* full routes (as the client sees them) registered so far
Full == pr \cup (IF mounted THEN {m \o r : r \in cr} ELSE {})

RegC(r) == /\ phase = "child" /\ r \notin cr /\ Cardinality(cr) < MaxC
           /\ ct' = Insert(ct, r, 1, <<"h", "c", r>>) /\ cr' = cr \cup {r}
           /\ UNCHANGED <<phase, pt, pr, m, mounted, pf, cf>>
\* the child is complete: into_router applies its fangs (if any) to its whole tree
CloseC(f) == /\ phase = "child" /\ cr # {}
             /\ cf' = f /\ ct' = (IF f THEN ApplyFangs(ct, "C") ELSE ct) /\ phase' = "parent"
             /\ UNCHANGED <<cr, pt, pr, m, mounted, pf>>
RegP(r) == /\ phase = "parent" /\ r \notin Full /\ Cardinality(pr) < MaxP
           \* no other application registers below the mount prefix (side condition of C04; merge_here would
           \* panic on a conflicting static child otherwise)
           /\ (mounted => IF OVERLAP THEN ~Refused(r, m) ELSE ~Under(m, [i \in DOMAIN r |-> IF r[i].k = "S" THEN r[i].s ELSE <<"a">>]))
           /\ pt' = Insert(pt, r, 1, <<"h", "p", r>>) /\ pr' = pr \cup {r}
           /\ UNCHANGED <<phase, ct, cr, m, mounted, pf, cf>>
Mount(pre) == /\ phase = "parent" /\ WithMount /\ ~mounted
              /\ IF OVERLAP THEN (\A r \in pr : ~Refused(r, pre)) /\ (\A y \in cr : pre \o y \notin pr)
                 ELSE /\ \A r \in pr : ~Under(pre, [i \in DOMAIN r |-> IF r[i].k = "S" THEN r[i].s ELSE <<"a">>])
                      /\ \A r \in pr : ~(Len(r) =< Len(pre) /\ \A i \in DOMAIN r : r[i].k = "P" \/ pre[i].k = "P" \/ r[i] = pre[i])  \* nor a parent route on the way that a param would shadow
              /\ m' = pre /\ mounted' = TRUE /\ pt' = MergeAt(pt, pre, 1, ct)
              /\ UNCHANGED <<phase, ct, cr, pr, pf, cf>>
Close(f) == /\ phase = "parent" /\ (WithMount => mounted) /\ (pr # {} \/ mounted)
            /\ pf' = f /\ pt' = (IF f THEN ApplyFangs(pt, "P") ELSE pt) /\ phase' = "final"
            /\ UNCHANGED <<ct, cr, pr, m, mounted, cf>>
Next == (\E r \in Routes1 : RegC(r) \/ RegP(r)) \/ (\E f \in BOOLEAN : CloseC(f) \/ Close(f)) \/ (\E pre \in MountPrefixes : Mount(pre))
Spec == Init /\ [][Next]_vars

Tree == FinalizeRoot(pt)
HandlerRoute(h) == IF h = <<"404">> THEN <<"404">> ELSE <<"h", IF h[2] = "c" THEN m \o h[3] ELSE h[3]>>
\* C01: what is dispatched is what the property allows, with the right params
Dispatch == phase = "final" =>
  \A p \in Paths : LET res == Search(Tree, PathBytes(p)) IN
     /\ HandlerRoute(res.h) \in Allowed(Full, p)
     /\ (res.h # <<"404">> => res.params = ParamsOf(HandlerRoute(res.h)[2], p))
\* C04: the fang lists that wrap whatever runs (innermost first): child's iff the path lies under the mount prefix
ExpectedFangs(p) == (IF mounted /\ cf /\ Under(m, p) THEN <<"C">> ELSE <<>>) \o (IF pf THEN <<"P">> ELSE <<>>)
ScopeAndOrder == phase = "final" => \A p \in Paths : Search(Tree, PathBytes(p)).fg = ExpectedFangs(p)
=============================================================================
