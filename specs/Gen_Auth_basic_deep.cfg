CONSTANTS
  WHAT = "basic"
  DEEP = TRUE
  EMIT = TRUE
