SPECIFICATION GSpec
CONSTANTS
  PER_REQUEST_DEADLINE = FALSE
  EAGER_CANCEL = TRUE
  MARGIN = 2
  SS = {20}
  TD = {0, 4, 7, 12}
  PRE = {0, 3}
  POST = {0, 2}
  SD = {2, 3, 5, 9}
  ATS = {0, 2, 5}
  GAPS = {0, 3, 6, 10}
  FINS = {0, 1, 4}
  NAPP = 2
  NSUB = 1
  NLOC = 1
  NSCRIPT = 2
  NREQ = 3
  MNT = TRUE
CHECK_DEADLOCK FALSE
