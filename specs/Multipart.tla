----------------------------- MODULE Multipart -----------------------------
(***************************************************************************)
(* C10 -- multipart/form-data bodies decode to exactly the submitted       *)
(* fields and files.                                                       *)
(*                                                                         *)
(* Vocabulary.  A form is a sequence of parts                              *)
(*    [kind |-> "text"|"file", name, fname, mt, content]                   *)
(* names  "na","nb"; filenames "F0" (the empty filename), "F1", "F2";      *)
(* media types "M0" (no Content-Type header on the part), "M1", "M2";      *)
(* content = sequence of byte-class tokens                                 *)
(*    x  CR  LF  -  NUL  U8 (a valid multi-byte UTF-8 character)           *)
(*    b  (the letter the boundary token is made of)   HI (a byte >= 0x80   *)
(*    that is not UTF-8; file contents only)                               *)
(* The boundary token is a sequence over {"-","b"}.                        *)
(*                                                                         *)
(* Layer (a):                                                              *)
(*   EncodeForm  -- the independent RFC 7578 / RFC 2046 encoder.  It emits *)
(*                  the wire as a flat token sequence: the delimiting      *)
(*                  layer (dashes, boundary letters, CR, LF, content) is   *)
(*                  byte-class exact, header text is word tokens.  The     *)
(*                  harness only maps tokens to bytes.                     *)
(*   DecodeForm  -- reference decoder following RFC 2046 5.1.1 (boundary   *)
(*                  given by the Content-Type parameter, parts delimited   *)
(*                  by CRLF "--" boundary); used by MC_Multipart to check  *)
(*                  the encoder against itself.                            *)
(*   FieldSpec / Verdict -- what the property allows the typed decoder to  *)
(*                  return for a form and a target struct.                 *)
(* Layer (b): OhkamiDecode, a model of serde_multipart (first line is the  *)
(*   boundary, content = bytes before the next "--boundary" minus two,     *)
(*   parts popped from the back, adjacent same-name files grouped) with    *)
(*   its deviations named; MC_Multipart checks it against (a).             *)
(***************************************************************************)
EXTENDS Naturals, Sequences, FiniteSets, TLC

TextAlpha == {"x", "CR", "LF", "-", "NUL", "U8", "b"}
FileAlpha == TextAlpha \cup {"HI"}
NameA == "na"
NameB == "nb"
FieldNames == {NameA, NameB}
FNames == {"F0", "F1", "F2"}
MTypes == {"M0", "M1", "M2"}
Types  == {"none", "str", "string", "optstr", "file", "optfile", "vecfile"}
DefaultableTypes == Types \ {"file"}

TextPart(n, c)       == [kind |-> "text", name |-> n, fname |-> "-", mt |-> "-", content |-> c]
FilePart(n, f, m, c) == [kind |-> "file", name |-> n, fname |-> f, mt |-> m, content |-> c]

CRLF == <<"CR", "LF">>
DD   == <<"-", "-">>

\* ------------------------------------------------------------------ sequence helpers
RECURSIVE Cat(_)
Cat(ss) == IF ss = <<>> THEN <<>> ELSE Head(ss) \o Cat(Tail(ss))

StartsWith(s, p) == Len(s) >= Len(p) /\ SubSeq(s, 1, Len(p)) = p
Drop(s, n) == SubSeq(s, n + 1, Len(s))
Occurrences(s, p) == {i \in 1..(Len(s) + 1) : i + Len(p) - 1 <= Len(s) /\ SubSeq(s, i, i + Len(p) - 1) = p}
Contains(s, p) == Occurrences(s, p) # {}
\* index of the first occurrence, 0 if none
FirstAt(s, p) == LET I == Occurrences(s, p) IN IF I = {} THEN 0 ELSE CHOOSE i \in I : \A j \in I : i <= j

RECURSIVE SeqsUpTo(_, _)
SeqsUpTo(S, n) == IF n = 0 THEN {<<>>} ELSE LET R == SeqsUpTo(S, n - 1) IN R \cup {Append(r, e) : r \in {q \in R : Len(q) = n - 1}, e \in S}

\* ------------------------------------------------------------------ the encoder (RFC 7578 over RFC 2046)
(* opts: [bnd    : boundary token, sequence over {"-","b"},
          hcase  : "canon" | "lower" | "upper"   spelling of the part header names,
          ctfirst: BOOLEAN   Content-Type line before Content-Disposition,
          textct : BOOLEAN   text parts carry an (optional) Content-Type: text/plain,
          cte    : BOOLEAN   parts carry the optional Content-Transfer-Encoding header,
          fin    : BOOLEAN   CRLF after the close delimiter]                              *)
HName(h, o) == CASE o.hcase = "canon" -> h
                 [] o.hcase = "lower" -> (CASE h = "Content-Disposition" -> "content-disposition"
                                            [] h = "Content-Type" -> "content-type"
                                            [] OTHER -> "content-transfer-encoding")
                 [] OTHER             -> (CASE h = "Content-Disposition" -> "CONTENT-DISPOSITION"
                                            [] h = "Content-Type" -> "CONTENT-TYPE"
                                            [] OTHER -> "CONTENT-TRANSFER-ENCODING")
HeaderSpellings(h) == {HName(h, [hcase |-> c]) : c \in {"canon", "lower", "upper"}}

DashB(o) == DD \o o.bnd
CDLine(p, o) == <<HName("Content-Disposition", o), ": ", "form-data", "; ", "name=", "Q", p.name, "Q">>
                \o (IF p.kind = "file" THEN <<"; ", "filename=", "Q", p.fname, "Q">> ELSE <<>>) \o CRLF
CTLine(m, o) == <<HName("Content-Type", o), ": ", m>> \o CRLF
CTELine(o)   == <<HName("Content-Transfer-Encoding", o), ": ", "binary">> \o CRLF
PartCT(p, o) == IF p.kind = "file" THEN (IF p.mt = "M0" THEN <<>> ELSE CTLine(p.mt, o))
                ELSE (IF o.textct THEN CTLine("MTXT", o) ELSE <<>>)
PartHeaders(p, o) == (IF o.ctfirst THEN PartCT(p, o) \o CDLine(p, o) ELSE CDLine(p, o) \o PartCT(p, o))
                     \o (IF o.cte THEN CTELine(o) ELSE <<>>)
EncodePart(p, o) == PartHeaders(p, o) \o CRLF \o p.content
Close(o) == DashB(o) \o DD \o (IF o.fin THEN CRLF ELSE <<>>)

EncodeForm(f, o) ==
    IF f = <<>> THEN Close(o)      \* not defined by the RFC (a multipart body has >= 1 part): what browsers send
    ELSE DashB(o) \o CRLF \o EncodePart(f[1], o)
         \o Cat([i \in 1..(Len(f) - 1) |-> CRLF \o DashB(o) \o CRLF \o EncodePart(f[i + 1], o)])
         \o CRLF \o Close(o)

(* Soundness restriction of the property ("contents not containing the delimiter"; DESIGN C10 S):
   no content contains "--boundary", with or without a preceding CRLF.                            *)
FormOK(f, o) == \A i \in 1..Len(f) : ~Contains(f[i].content, DashB(o))

\* ------------------------------------------------------------------ reference decoder (RFC 2046 5.1.1)
Bad == [kind |-> "bad", name |-> "-", fname |-> "-", mt |-> "-", content |-> <<>>]

RECURSIVE HeaderLines(_)
\* s = header lines each ended by CRLF, then an empty line, then the content
HeaderLines(s) == LET k == FirstAt(s, CRLF) IN
    IF k = 0 THEN [ok |-> FALSE, lines |-> <<>>, rest |-> <<>>]
    ELSE IF k = 1 THEN [ok |-> TRUE, lines |-> <<>>, rest |-> Drop(s, 2)]
    ELSE LET r == HeaderLines(Drop(s, k + 1)) IN [ok |-> r.ok, lines |-> <<SubSeq(s, 1, k - 1)>> \o r.lines, rest |-> r.rest]

IsCD(l)  == Len(l) >= 8 /\ l[1] \in HeaderSpellings("Content-Disposition")
            /\ SubSeq(l, 2, 6) = <<": ", "form-data", "; ", "name=", "Q">> /\ l[8] = "Q"
            /\ (Len(l) = 8 \/ (Len(l) = 13 /\ SubSeq(l, 9, 11) = <<"; ", "filename=", "Q">> /\ l[13] = "Q"))
IsCT(l)  == Len(l) = 3 /\ l[1] \in HeaderSpellings("Content-Type") /\ l[2] = ": "
ParsePart(s) == LET h == HeaderLines(s) IN
    IF ~h.ok THEN Bad
    ELSE LET cds == SelectSeq(h.lines, IsCD)
             cts == SelectSeq(h.lines, IsCT) IN
         IF Len(cds) # 1 THEN Bad
         ELSE LET cd == cds[1] IN
              IF Len(cd) = 13
                THEN FilePart(cd[7], cd[12], IF cts = <<>> THEN "M0" ELSE cts[1][3], h.rest)
                ELSE TextPart(cd[7], h.rest)

RECURSIVE PartsAfterBoundary(_, _)
PartsAfterBoundary(rest, o) ==
    IF StartsWith(rest, DD) THEN <<>>                      \* close delimiter; epilogue ignored
    ELSE IF StartsWith(rest, CRLF)
      THEN LET body == Drop(rest, 2)
               k == FirstAt(body, CRLF \o DashB(o)) IN
           IF k = 0 THEN <<Bad>>
           ELSE <<ParsePart(SubSeq(body, 1, k - 1))>> \o PartsAfterBoundary(Drop(body, k - 1 + 2 + Len(DashB(o))), o)
      ELSE <<Bad>>

DecodeForm(w, o) == IF StartsWith(w, DashB(o)) THEN PartsAfterBoundary(Drop(w, Len(DashB(o))), o) ELSE <<Bad>>

RoundTrip(f, o) == DecodeForm(EncodeForm(f, o), o) = f

\* ------------------------------------------------------------------ what the property allows (layer a)
PartsOf(f, n) == SelectSeq(f, LAMBDA p : p.name = n)
IsConv(p) == p.kind = "file" /\ p.fname = "F0" /\ p.content = <<>>     \* the browser's empty file input
\* a part without Content-Type: "absent" (M0) or the RFC default text/plain (MTP) are both faithful
MtSet(m) == IF m = "M0" THEN {"M0", "MTP"} ELSE {m}
FileVals(p) == {[fname |-> p.fname, mt |-> m, content |-> p.content] : m \in MtSet(p.mt)}
RECURSIVE FileSeqVals(_)
FileSeqVals(ps) == IF ps = <<>> THEN {<<>>} ELSE {<<v>> \o r : v \in FileVals(ps[1]), r \in FileSeqVals(Tail(ps))}

Absent     == [t |-> "absent", s |-> <<>>, fs |-> <<>>]
NoneV      == [t |-> "none",   s |-> <<>>, fs |-> <<>>]
StrV(c)    == [t |-> "str",    s |-> c,    fs |-> <<>>]
FileV(v)   == [t |-> "file",   s |-> <<>>, fs |-> <<v>>]
FilesV(vs) == [t |-> "files",  s |-> <<>>, fs |-> vs]

AllFiles(ps) == \A i \in 1..Len(ps) : ps[i].kind = "file"
NonConv(ps)  == SelectSeq(ps, LAMBDA p : ~IsConv(p))

R(v, e) == [vals |-> v, err |-> e]
(* FieldSpec(ps, T, dflt): ps = the parts submitted under the field's name, in order; T = the field's type;
   dflt = the field is #[serde(default)].  vals = the values the field may decode to, err = whether the
   whole decode may (also) be an error because of this field.  vals = {} means: must be an error.       *)
FieldSpec(ps, T, dflt) ==
  CASE T = "none" -> R({Absent}, ps # <<>>)        \* extra parts: ignoring them or refusing the body both fit the text
    [] T \in {"str", "string"} ->
         IF ps = <<>> THEN (IF dflt THEN R({StrV(<<>>)}, FALSE) ELSE R({}, TRUE))
         ELSE IF Len(ps) = 1 /\ ps[1].kind = "text" THEN R({StrV(ps[1].content)}, FALSE)
         ELSE IF Len(ps) = 1 /\ IsConv(ps[1]) /\ dflt THEN R({StrV(<<>>)}, TRUE)
         ELSE R({}, TRUE)
    [] T = "optstr" ->
         IF ps = <<>> THEN R({NoneV}, FALSE)
         ELSE IF Len(ps) = 1 /\ ps[1].kind = "text"
                THEN R({StrV(ps[1].content)} \cup (IF ps[1].content = <<>> THEN {NoneV} ELSE {}), FALSE)
         ELSE IF Len(ps) = 1 /\ IsConv(ps[1]) THEN R({NoneV}, TRUE)
         ELSE R({}, TRUE)
    [] T = "file" ->
         IF Len(ps) = 1 /\ ps[1].kind = "file"
           THEN R({FileV(v) : v \in FileVals(ps[1])}, IsConv(ps[1]))     \* empty input into a required File: empty value or error
           ELSE R({}, TRUE)
    [] T = "optfile" ->
         IF ps = <<>> THEN R({NoneV}, FALSE)
         ELSE IF Len(ps) = 1 /\ ps[1].kind = "file"
                THEN R({FileV(v) : v \in FileVals(ps[1])} \cup (IF IsConv(ps[1]) THEN {NoneV} ELSE {}), FALSE)
         ELSE IF Len(ps) = 1 /\ ps[1].kind = "text" /\ ps[1].content = <<>> THEN R({NoneV}, TRUE)   \* an empty text value for "no file"
         ELSE IF AllFiles(ps) /\ Len(NonConv(ps)) = 1          \* one real file next to empty inputs of the same name
                THEN R({FileV(v) : v \in FileVals(NonConv(ps)[1])}, TRUE)
         ELSE R({}, TRUE)
    [] T = "vecfile" ->
         IF ps = <<>> THEN R({FilesV(<<>>)}, ~dflt)            \* Vec without default: serde's missing-field error fits too
         ELSE IF ~AllFiles(ps) THEN R({}, TRUE)
         ELSE IF NonConv(ps) = ps THEN R({FilesV(vs) : vs \in FileSeqVals(ps)}, FALSE)
         ELSE R({FilesV(vs) : vs \in FileSeqVals(ps) \cup FileSeqVals(NonConv(ps))}, Len(ps) >= 2)
    [] OTHER -> R({}, FALSE)

(* obs: [kind, a, b, inrange, utf8ok, ..]   (a, b: field observations for na, nb) *)
\* a target that refuses unknown fields (`#[serde(deny_unknown_fields)]`, field `deny` of the target): parts under a name the target does not
\* declare do not fit its shape -- the decode must be an error, silently dropping them is not an option any more
Deny(scn) == "deny" \in DOMAIN scn.target /\ scn.target.deny
FieldSpecD(ps, T, dflt, deny) == IF deny /\ T = "none" /\ ps # <<>> THEN R({}, TRUE) ELSE FieldSpec(ps, T, dflt)
SpecA(scn) == FieldSpecD(PartsOf(scn.form, NameA), scn.target.a, scn.target.dflt, Deny(scn))
SpecB(scn) == FieldSpecD(PartsOf(scn.form, NameB), scn.target.b, scn.target.dflt, Deny(scn))
Conforms(scn, obs) ==
  CASE obs.kind = "value" -> /\ obs.a \in SpecA(scn).vals /\ obs.b \in SpecB(scn).vals
                             /\ obs.inrange /\ obs.utf8ok
    [] obs.kind = "error" -> \/ SpecA(scn).err \/ SpecB(scn).err
                             \/ scn.form = <<>>       \* zero parts is not an RFC 2046 body: either outcome fits
    [] OTHER -> FALSE                                 \* panic, abort, hang: never a decode result

\* ------------------------------------------------------------------ classes (for signatures and coverage)
Adjacent(f, n) == LET I == {i \in 1..Len(f) : f[i].name = n} IN \A i, j \in I : \A k \in i..j : k \in I
ShapeClass(f, n) == LET ps == PartsOf(f, n) IN
  CASE Len(ps) = 0 -> "missing"
    [] Len(ps) = 1 -> (IF ps[1].kind = "text" THEN (IF ps[1].content = <<>> THEN "emptytext" ELSE "text")
                       ELSE IF IsConv(ps[1]) THEN "conv"
                       ELSE IF ps[1].content = <<>> THEN "emptyfile"
                       ELSE IF ps[1].fname = "F0" THEN "unnamedfile" ELSE "file")
    [] OTHER -> (IF AllFiles(ps) THEN (IF NonConv(ps) # ps THEN "files+conv"
                                       ELSE IF Adjacent(f, n) THEN "files-adjacent" ELSE "files-split")
                 ELSE IF \A i \in 1..Len(ps) : ps[i].kind = "text" THEN "texts" ELSE "mixed")

\* ------------------------------------------------------------------ layer (b): model of ohkami_lib::serde_multipart
(* Multipart::parse (parse.rs:59-136) on the token wire.  The boundary is whatever the first line is. *)
RECURSIVE OParts(_, _)
OParts(rest, bline) ==
    IF StartsWith(rest, CRLF)
      THEN LET h == HeaderLines(Drop(rest, 2)) IN
           IF ~h.ok THEN <<Bad>>
           ELSE LET k == FirstAt(h.rest, bline) IN            \* read_until(boundary): first "--boundary", CRLF not required
                IF k = 0 \/ k < 3 THEN <<Bad>>                 \* fewer than two bytes before it: MissingCRLF
                ELSE LET cds == SelectSeq(h.lines, IsCD)
                         cts == SelectSeq(h.lines, IsCT)
                         content == SubSeq(h.rest, 1, k - 3)   \* the two bytes before the boundary are dropped unchecked
                         part == IF cds = <<>> THEN TextPart("", content)
                                 ELSE IF Len(cds[Len(cds)]) = 13
                                   THEN FilePart(cds[Len(cds)][7], cds[Len(cds)][12], IF cts = <<>> THEN "M0" ELSE cts[Len(cts)][3], content)
                                   ELSE TextPart(cds[Len(cds)][7], content)
                     IN <<part>> \o OParts(Drop(h.rest, k - 1 + Len(bline)), bline)
      ELSE <<>>                                                \* "--" or anything else ends the loop
OParse(w) == LET k == FirstAt(w, CRLF) IN
             IF k = 0 THEN <<>> ELSE OParts(Drop(w, k - 1), SubSeq(w, 1, k - 1))

(* Multipart::next (parse.rs:27-54): entries as the struct visitor sees them: parts popped from the back,
   a file whose filename and content are empty ends the entry at once with no file, otherwise the files of the
   same name directly before it are joined (and later handed out first-submitted-first).                     *)
RECURSIVE OEntries(_)
OEntries(ps) ==
    IF ps = <<>> THEN <<>>
    ELSE LET n == Len(ps)
             p == ps[n] IN
         IF p.kind = "text" THEN <<[name |-> p.name, kind |-> "text", text |-> p.content, files |-> <<>>]>> \o OEntries(SubSeq(ps, 1, n - 1))
         ELSE IF IsConv(p) THEN <<[name |-> p.name, kind |-> "files", text |-> <<>>, files |-> <<>>]>> \o OEntries(SubSeq(ps, 1, n - 1))
         ELSE LET run == CHOOSE m \in 1..n : /\ \A i \in m..n : ps[i].kind = "file" /\ ps[i].name = p.name
                                             /\ (m = 1 \/ ~(ps[m - 1].kind = "file" /\ ps[m - 1].name = p.name))
                                             /\ \A i \in m..n : TRUE
              IN <<[name |-> p.name, kind |-> "files", text |-> <<>>, files |-> SubSeq(ps, run, n)]>> \o OEntries(SubSeq(ps, 1, run - 1))

OFile(p) == [fname |-> p.fname, mt |-> p.mt, content |-> p.content]
OFiles(ps) == [i \in 1..Len(ps) |-> OFile(ps[i])]
(* one field of the derived struct fed with entry e (parse.rs:153-237); result [k |-> "val", v |-> ..] | "err" | "ub" *)
OField(e, T) ==
  CASE T = "none" -> (IF e.kind = "files" /\ Len(e.files) = 0 THEN [k |-> "ub"]                 \* deserialize_any -> deserialize_map
                      ELSE IF e.kind = "files" /\ Len(e.files) > 1 THEN [k |-> "err"] ELSE [k |-> "val", v |-> Absent])
    [] T \in {"str", "string"} -> (IF e.kind = "text" THEN [k |-> "val", v |-> StrV(e.text)] ELSE [k |-> "err"])
    [] T = "optstr" -> (IF e.kind = "text" THEN [k |-> "val", v |-> IF e.text = <<>> THEN NoneV ELSE StrV(e.text)]
                        ELSE IF Len(e.files) = 0 THEN [k |-> "val", v |-> NoneV] ELSE [k |-> "err"])   \* Some(file) into &str: invalid type
    [] T = "file" -> (IF e.kind = "text" THEN [k |-> "err"]
                      ELSE IF Len(e.files) = 0 THEN [k |-> "ub"]                                \* unwrap_unchecked on None
                      ELSE IF Len(e.files) = 1 THEN [k |-> "val", v |-> FileV(OFile(e.files[1]))] ELSE [k |-> "err"])
    [] T = "optfile" -> (IF e.kind = "text" THEN (IF e.text = <<>> THEN [k |-> "val", v |-> NoneV] ELSE [k |-> "err"])
                         ELSE IF Len(e.files) = 0 THEN [k |-> "val", v |-> NoneV]
                         ELSE IF Len(e.files) = 1 THEN [k |-> "val", v |-> FileV(OFile(e.files[1]))] ELSE [k |-> "err"])
    [] T = "vecfile" -> (IF e.kind = "text" THEN [k |-> "err"] ELSE [k |-> "val", v |-> FilesV(OFiles(e.files))])
    [] OTHER -> [k |-> "err"]

OMissing(T, dflt) ==
  CASE T = "none" -> [k |-> "val", v |-> Absent]
    [] T \in {"optstr", "optfile"} -> [k |-> "val", v |-> NoneV]
    [] dflt /\ T \in {"str", "string"} -> [k |-> "val", v |-> StrV(<<>>)]
    [] dflt /\ T = "vecfile" -> [k |-> "val", v |-> FilesV(<<>>)]
    [] OTHER -> [k |-> "err"]

(* the derived visitor (serde derive): entries in the order `next` yields them (last part first); a key whose
   field is already filled is the duplicate-field error, raised before the value is looked at; the first error
   or undefined step ends the walk.                                                                            *)
Unset == [k |-> "unset"]
RECURSIVE OWalk(_, _, _, _, _)
OWalk(es, i, va, vb, target) ==
  IF i > Len(es)
    THEN LET a == IF va.k = "unset" THEN OMissing(target.a, target.dflt) ELSE va
             b == IF vb.k = "unset" THEN OMissing(target.b, target.dflt) ELSE vb IN
         IF a.k = "err" \/ b.k = "err" THEN [kind |-> "error"]
         ELSE [kind |-> "value", a |-> a.v, b |-> b.v, inrange |-> TRUE, utf8ok |-> TRUE]
    ELSE LET e == es[i]
             isA == e.name = NameA
             T == IF isA THEN target.a ELSE target.b
             cur == IF isA THEN va ELSE vb
             r == OField(e, T) IN
         IF T # "none" /\ cur.k # "unset" THEN [kind |-> "error"]
         ELSE IF r.k = "ub" THEN [kind |-> "ub"]
         ELSE IF r.k = "err" THEN [kind |-> "error"]
         ELSE IF T = "none" THEN OWalk(es, i + 1, va, vb, target)
         ELSE IF isA THEN OWalk(es, i + 1, r, vb, target) ELSE OWalk(es, i + 1, va, r, target)

OhkamiDecode(w, target) ==
  LET ps == OParse(w) IN
  IF \E i \in 1..Len(ps) : ps[i].kind = "bad" THEN [kind |-> "error"]
  ELSE OWalk(OEntries(ps), 1, Unset, Unset, target)

(* Named deviations of the design from the property: the classes of (form, target) on which OhkamiDecode is
   outside Conforms.  MC_Multipart checks that the list is complete within its bounds; each was reproduced on
   the real code (notes/C10.md).                                                                              *)
TypeOf(target, n) == IF n = NameA THEN target.a ELSE target.b
Deviation(f, target) ==
  IF \E n \in FieldNames : /\ \E i \in 1..Len(f) : f[i].name = n /\ IsConv(f[i])
                            /\ TypeOf(target, n) \in {"file", "none"}
     THEN "empty-file-input-unchecked-unwrap"       \* parse.rs:199-203 unwrap_unchecked on an empty Vec
  ELSE IF \E n \in FieldNames : ShapeClass(f, n) = "files-split" /\ TypeOf(target, n) = "vecfile"
     THEN "split-files-duplicate-field"             \* same-name files not adjacent: two entries, serde duplicate field
  ELSE "none"

NonTrivial(f, target) ==
  \/ \E i \in 1..Len(f) : LET c == f[i].content IN
        c # <<>> /\ (c[Len(c)] \in {"CR", "LF", "-", "b"} \/ c[1] \in {"-", "CR", "LF"} \/ \E j \in 1..Len(c) : c[j] \in {"NUL", "HI", "U8"})
  \/ \E n \in FieldNames : ShapeClass(f, n) \in {"conv", "emptyfile", "unnamedfile", "emptytext", "files-adjacent", "files-split", "files+conv", "texts", "mixed"}
  \/ \E n \in FieldNames : FieldSpec(PartsOf(f, n), TypeOf(target, n), target.dflt).vals = {}
=============================================================================
