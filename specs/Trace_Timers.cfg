SPECIFICATION TSpec
CONSTANTS
  PER_REQUEST_DEADLINE = FALSE
  EAGER_CANCEL = TRUE
  MARGIN = 2
  TOL = 100
  JITMAX = 40
CHECK_DEADLOCK FALSE
