-------------------------------- MODULE Conn --------------------------------
(***************************************************************************)
(* One connection: the session loop of ohkami/src/session/mod.rs and the   *)
(* reads of Request::read / read_payload (ohkami/src/request/mod.rs), with *)
(* TCP segmentation as data (properties C05, C06).                         *)
(*                                                                         *)
(* Bytes are abstracted to cells <<k, part, i>>: the i-th cell of the head *)
(* ("H") or body ("B") of the k-th request.  The client sends the          *)
(* concatenation of the requests, cut into segments at arbitrary places;   *)
(* one raw read returns at most one segment (and at most what fits).       *)
(*                                                                         *)
(* Layer (a): Ideal(reqs) -- the responses, a function of the byte stream  *)
(*   only: request k answered with its own body cells, in order, up to the *)
(*   first `Connection: close`.                                            *)
(* Layer (b): one action per step of the code: FirstRead, HeadMore (read   *)
(*   again while the head is incomplete), Parse, PayloadFromBuffer,        *)
(*   PayloadReadExact, HandleSend, and what happens to bytes left in the   *)
(*   buffer (CARRY).                                                       *)
(***************************************************************************)
EXTENDS Naturals, Sequences, FiniteSets, TLC

CONSTANTS BUF,        \* buffer size in cells
          HEADLOOP,   \* read again while the head is incomplete (else: parse the first read whatever it holds)
          CARRY       \* bytes read beyond the end of a request are kept for the next one (else: discarded)

\* reqs: sequence of [h |-> head cells, b |-> body cells, close |-> BOOLEAN, bad |-> BOOLEAN]
\*   bad: the head is refused by the parser after some of its header lines were accepted (error response, the loop goes on)
Cell(k, p, i) == <<k, p, i>>
CellsOf(reqs, k) == [i \in 1..reqs[k].h |-> Cell(k, "H", i)] \o [i \in 1..reqs[k].b |-> Cell(k, "B", i)]
RECURSIVE StreamFrom(_, _)
StreamFrom(reqs, k) == IF k > Len(reqs) THEN <<>> ELSE CellsOf(reqs, k) \o StreamFrom(reqs, k + 1)
Stream(reqs) == StreamFrom(reqs, 1)
BodyOf(reqs, k) == [i \in 1..reqs[k].b |-> Cell(k, "B", i)]

\* cuts: set of positions p (1 <= p < Len(stream)) after which a segment ends
RECURSIVE SegsFrom(_, _, _)
SegsFrom(st, cuts, from) ==
  IF from > Len(st) THEN <<>>
  ELSE LET nxt == IF \E c \in cuts : c >= from THEN CHOOSE c \in cuts : c >= from /\ \A d \in cuts : d >= from => c =< d ELSE Len(st)
       IN <<SubSeq(st, from, nxt)>> \o SegsFrom(st, cuts, nxt + 1)
Segments(reqs, cuts) == SegsFrom(Stream(reqs), cuts, 1)

\* ------------------------------------------------------------------------------------------ layer (a)
\* responses the byte stream denotes: one per request, with its own body, until a request asks to close
RECURSIVE IdealFrom(_, _)
IdealFrom(reqs, k) == IF k > Len(reqs) THEN <<>>
                      ELSE IF reqs[k].bad THEN <<[k |-> k, body |-> <<"error">>]>> \o IdealFrom(reqs, k + 1)   \* answered with an error; the loop goes on
                      ELSE <<[k |-> k, body |-> BodyOf(reqs, k)]>> \o (IF reqs[k].close THEN <<>> ELSE IdealFrom(reqs, k + 1))
Ideal(reqs) == IdealFrom(reqs, 1)
\* position of the last cell of request k in the stream
RECURSIVE EndPos(_, _)
EndPos(reqs, k) == IF k = 0 THEN 0 ELSE EndPos(reqs, k - 1) + reqs[k].h + reqs[k].b
\* two consecutive requests share a segment (the end of request k is not a cut)
Coalesced(reqs, cuts) == \E k \in 1..(Len(reqs) - 1) : EndPos(reqs, k) \notin cuts
\* a head is split over segments
HeadSplit(reqs, cuts) == \E k \in 1..Len(reqs) : \E c \in cuts : c > EndPos(reqs, k - 1) /\ c < EndPos(reqs, k - 1) + reqs[k].h

\* ------------------------------------------------------------------------------------------ layer (b)
VARIABLES reqs, cuts,   \* the scenario
          inbox,        \* segments not yet (completely) read
          buf,          \* cells read by the current Request::read
          pc,           \* "read" | "headmore" | "parse" | "exact" | "handle" | "closed" | "waiting"
          cur,          \* [k, need, payload] of the request being read
          resp,         \* responses sent so far: [k, body] or [k |-> 0, body |-> <<"error">>]
          dropped       \* some bytes were read and discarded
vars == <<reqs, cuts, inbox, buf, pc, cur, resp, dropped>>

NoCur == [k |-> 0, need |-> 0, payload |-> <<>>]
\* take up to n cells from the first segment of the inbox
TakeCells(n) == LET s == Head(inbox) m == IF Len(s) < n THEN Len(s) ELSE n IN
                <<SubSeq(s, 1, m), IF m = Len(s) THEN Tail(inbox) ELSE <<SubSeq(s, m + 1, Len(s))>> \o Tail(inbox)>>

\* a complete head at the start of the buffer: cells <<k,"H",1>> .. <<k,"H",h_k>>
HeadAt(b) == IF b # <<>> /\ b[1][2] = "H" /\ b[1][3] = 1 /\ Len(b) >= reqs[b[1][1]].h THEN b[1][1] ELSE 0

FirstRead == /\ pc = "read"
             /\ IF buf # <<>>                       \* carried-over bytes of the next request
                  THEN pc' = "headmore" /\ UNCHANGED <<inbox, buf>>
                  ELSE IF inbox = <<>> THEN pc' = "waiting" /\ UNCHANGED <<inbox, buf>>
                  ELSE LET t == TakeCells(BUF) IN buf' = t[1] /\ inbox' = t[2] /\ pc' = "headmore"
             /\ UNCHANGED <<reqs, cuts, cur, resp, dropped>>
HeadMore == /\ pc = "headmore"
            /\ IF HeadAt(buf) # 0 \/ ~HEADLOOP \/ (buf # <<>> /\ ~(buf[1][2] = "H" /\ buf[1][3] = 1))
                 THEN pc' = "parse" /\ UNCHANGED <<inbox, buf, resp>>
                 ELSE IF Len(buf) = BUF THEN pc' = "read" /\ resp' = Append(resp, [k |-> 0, body |-> <<"error">>]) /\ buf' = <<>> /\ UNCHANGED inbox
                 ELSE IF inbox = <<>> THEN pc' = "waiting" /\ UNCHANGED <<inbox, buf, resp>>
                 ELSE LET t == TakeCells(BUF - Len(buf)) IN buf' = buf \o t[1] /\ inbox' = t[2] /\ pc' = "headmore" /\ UNCHANGED resp
            /\ UNCHANGED <<reqs, cuts, cur, dropped>>
Parse == /\ pc = "parse"
         /\ LET k == HeadAt(buf) IN
            IF k = 0 THEN \* not a request head: error response (or close); the loop goes on with a cleared buffer
                 /\ resp' = Append(resp, [k |-> 0, body |-> <<"error">>]) /\ buf' = <<>> /\ pc' = "read"
                 /\ dropped' = TRUE /\ UNCHANGED cur
            ELSE IF reqs[k].bad THEN \* refused while reading its header lines: error response; where the request ends is unknown,
                                     \* so everything read with it is discarded and the loop goes on
                 /\ resp' = Append(resp, [k |-> k, body |-> <<"error">>]) /\ pc' = "read"
                 /\ buf' = <<>> /\ dropped' = (dropped \/ Len(buf) > reqs[k].h) /\ UNCHANGED cur
            ELSE LET h == reqs[k].h  b == reqs[k].b  avail == Len(buf) - h IN
                 IF b =< avail
                   THEN \* payload taken from the buffer; what follows it belongs to the next request
                        /\ cur' = [k |-> k, need |-> 0, payload |-> SubSeq(buf, h + 1, h + b)]
                        /\ buf' = (IF CARRY THEN SubSeq(buf, h + b + 1, Len(buf)) ELSE <<>>)
                        /\ dropped' = (dropped \/ (~CARRY /\ Len(buf) > h + b))
                        /\ pc' = "handle" /\ UNCHANGED resp
                   ELSE /\ cur' = [k |-> k, need |-> b - avail, payload |-> SubSeq(buf, h + 1, Len(buf))]
                        /\ buf' = <<>> /\ pc' = "exact" /\ UNCHANGED <<resp, dropped>>
         /\ UNCHANGED <<reqs, cuts, inbox>>
\* read_exact: exactly `need` more bytes, over as many segments as it takes; never reads beyond them
ReadExact == /\ pc = "exact"
             /\ IF inbox = <<>> THEN pc' = "waiting" /\ UNCHANGED <<inbox, cur>>
                ELSE LET t == TakeCells(cur.need) IN
                     /\ inbox' = t[2]
                     /\ cur' = [cur EXCEPT !.need = @ - Len(t[1]), !.payload = @ \o t[1]]
                     /\ pc' = IF cur.need - Len(t[1]) = 0 THEN "handle" ELSE "exact"
             /\ UNCHANGED <<reqs, cuts, buf, resp, dropped>>
HandleSend == /\ pc = "handle"
              /\ resp' = Append(resp, [k |-> cur.k, body |-> cur.payload])
              /\ pc' = IF reqs[cur.k].close THEN "closed" ELSE "read"
              /\ cur' = NoCur
              /\ UNCHANGED <<reqs, cuts, inbox, buf, dropped>>
Step == FirstRead \/ HeadMore \/ Parse \/ ReadExact \/ HandleSend
Quiescent == pc \in {"waiting", "closed"}

\* what the property says about the end state
RespOK == resp = Ideal(reqs)
\* the design satisfies the property except where it discards bytes of a later request read together with an earlier one
Refines == Quiescent => (RespOK \/ (dropped /\ Coalesced(reqs, cuts)))
\* with CARRY the property holds for every segmentation
\* (a refused request may take bytes of the next one with it when they share a segment: outside C06's quantifier)
RefinesExactly == Quiescent => (RespOK \/ (dropped /\ \E k \in DOMAIN reqs : reqs[k].bad))
=============================================================================
