------------------------------ MODULE RouterApp ------------------------------
(***************************************************************************)
(* Applications as users write them (the vocabulary shared by the scenario *)
(* generator, the harness and the trace specs of C01, C04, C14, C15):      *)
(*                                                                         *)
(*  apps : sequence of applications, apps[1] is the one that is served     *)
(*  app  : [fangs |-> <<fang ids>>, items |-> <<item>>]                    *)
(*  item : [t |-> "route", segs, methods |-> <<"GET",..>>, local |-> <<fang ids>>, h |-> id, app |-> 0]    *)
(*       | [t |-> "mount", segs, methods |-> <<>>, local |-> <<>>, h |-> 0, app |-> index of the child]     *)
(*  req  : [method, path |-> <<segments>>, trailing |-> number of trailing slashes]                        *)
(*                                                                         *)
(* and the property-level expectations computed from them.                 *)
(***************************************************************************)
EXTENDS Router

SeqToSet(s) == {s[i] : i \in DOMAIN s}

\* every route of application a (mounted below `prefix`, inside the chain of applications `chain`)
RECURSIVE AppRoutes(_, _, _, _)
AppRoutes(apps, a, prefix, chain) ==
  UNION {IF it.t = "route"
           THEN {[route |-> prefix \o it.segs, methods |-> SeqToSet(it.methods), h |-> it.h, local |-> it.local, chain |-> chain]}
           ELSE AppRoutes(apps, it.app, prefix \o it.segs, Append(chain, it.app))
         : it \in SeqToSet(apps[a].items)}
AllRoutes(apps) == AppRoutes(apps, 1, <<>>, <<1>>)

\* every application with its full mount prefix and chain (outermost first)
RECURSIVE AppMounts(_, _, _, _)
AppMounts(apps, a, prefix, chain) ==
  {[app |-> a, prefix |-> prefix, chain |-> chain]} \cup
  UNION {IF it.t = "mount" THEN AppMounts(apps, it.app, prefix \o it.segs, Append(chain, it.app)) ELSE {}
         : it \in SeqToSet(apps[a].items)}
AllMounts(apps) == AppMounts(apps, 1, <<>>, <<1>>)

EffMethod(m) == IF m = "HEAD" THEN "GET" ELSE m

\* ---------------------------------------------------------------------------------------- C01
\* handler ids (0 = no user handler, 404) the property allows for the request
AllowedHandlers(apps, req) ==
  LET p   == Normalize(req.path, req.trailing)
      all == AllRoutes(apps)
      rm  == {x \in all : EffMethod(req.method) \in x.methods}
      rs  == {x.route : x \in rm}
      hOf(res) == IF res = <<"404">> THEN 0 ELSE (CHOOSE x \in rm : x.route = res[2]).h
      \* the text fixes the preference at each position among the registered alternatives but neither whether a
      \* route registered for other methods only, nor a mount prefix, counts as such an alternative: when the
      \* greedy descent over ALL registered patterns does not end at a route of this method, 404 is accepted too
      pats == {x.route : x \in all} \cup {mt.prefix : mt \in AllMounts(apps)}
      other == Best({x.route : x \in all}, p)
      gall  == Greedy(pats, p, 1)
      shadow == (IF other # <<"404">> /\ other[2] \notin rs THEN {0} ELSE {})
                \cup (IF gall = <<"404">> \/ gall[2] \notin rs THEN {0} ELSE {})
  IN {hOf(Best(rs, p)), hOf(Greedy(rs, p, 1))} \cup shadow
RouteOfHandler(apps, h) == (CHOOSE x \in AllRoutes(apps) : x.h = h)
ExpectedParams(apps, req, h) == ParamsOf(RouteOfHandler(apps, h).route, Normalize(req.path, req.trailing))

\* ---------------------------------------------------------------------------------------- C04
\* applications whose mount prefix covers the request path, outermost first (they form a chain)
Covering(apps, p) == {mt \in AllMounts(apps) : Under(mt.prefix, p)}
DeepestCover(apps, p) == CHOOSE mt \in Covering(apps, p) : \A o \in Covering(apps, p) : Len(o.chain) =< Len(mt.chain)
RECURSIVE FangsOfChain(_, _)
FangsOfChain(apps, chain) == IF chain = <<>> THEN <<>> ELSE apps[Head(chain)].fangs \o FangsOfChain(apps, Tail(chain))
\* fangs entered, outermost first, for a request that ends at handler h (0 = not found)
EnterSeq(apps, req, h) ==
  LET p == Normalize(req.path, req.trailing) IN
  FangsOfChain(apps, DeepestCover(apps, p).chain) \o (IF h = 0 THEN <<>> ELSE RouteOfHandler(apps, h).local)
RECURSIVE RevSeq(_)
RevSeq(s) == IF s = <<>> THEN <<>> ELSE Append(RevSeq(Tail(s)), Head(s))
\* the onion trace: enter f1 .. enter fn, handler, leave fn .. leave f1; a fang that answers early cuts it
Ev(k, f) == <<k, f>>
OnionTrace(apps, req, h, early) ==
  LET es == EnterSeq(apps, req, h)
      cut == IF \E i \in DOMAIN es : es[i] = early THEN CHOOSE i \in DOMAIN es : es[i] = early /\ \A j \in 1..(i - 1) : es[j] # early ELSE 0
  IN IF cut = 0
       THEN [i \in DOMAIN es |-> Ev("enter", es[i])] \o (IF h = 0 THEN <<>> ELSE <<Ev("handler", h)>>) \o [i \in DOMAIN es |-> Ev("leave", RevSeq(es)[i])]
       ELSE [i \in 1..cut |-> Ev("enter", es[i])] \o [i \in 1..(cut - 1) |-> Ev("leave", RevSeq(SubSeq(es, 1, cut - 1))[i])]
=============================================================================
