\* thorough: EVERY day number 0 .. 2932896 (twice, at two seconds of day), every second of five days (epoch, a leap day, a year end, an ordinary day,
\* the last day), every n < 10^6 for each function, boundary lists, more seeded random batches
SPECIFICATION GSpec
CONSTANTS
  LastDay = 2932896
  StepUntil = 0
  TailFrom = 2932896
  MaxN = 0
  LeapRule = "gregorian"
  StartDay = 0
  NumLane = 1
  Batch = 2000
  DaysTo = 2932896
  DayPasses = 2
  YearsFrom = 1970
  YearsTo = 9999
  SecDays = {0, 11016, 19722, 20000, 2932896}
  NumTo = 999999
  RandTs = 100
  RandNum = 50
  WireTo = 1100
  WireBig = {999, 1000, 1001, 4095, 4096, 4097, 9999, 10000, 10001, 65535, 65536, 65537, 99999, 100000, 100001, 999999, 1000000, 1000001, 1048575, 1048576, 1048577, 9999999, 10000000, 10000001, 16777215, 16777216, 16777217}
CHECK_DEADLOCK FALSE
