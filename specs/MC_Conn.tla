------------------------------- MODULE MC_Conn -------------------------------
(* Bounded exhaustive check of the connection mechanism: every sequence of <= MaxReqs requests (heads of 1..2
   cells, bodies of 0..MaxBody cells, Connection: close or not) x every segmentation with <= MaxCuts cuts. *)
EXTENDS Conn

CONSTANTS MaxReqs, MaxBody, MaxCuts
Shapes == {x \in [h : 1..2, b : 0..MaxBody, close : BOOLEAN, bad : BOOLEAN] : x.bad => (x.b = 0 /\ ~x.close)}
ReqSeqs == UNION {[1..n -> Shapes] : n \in 1..MaxReqs}
\* cut sets with at most MaxCuts elements, built constructively
RECURSIVE CutSets(_, _)
CutSets(n, m) == IF m = 0 \/ n = 0 THEN {{}} ELSE CutSets(n - 1, m) \cup {c \cup {n} : c \in CutSets(n - 1, m - 1)}

MCInit == /\ reqs = <<>> /\ cuts = {} /\ inbox = <<>> /\ buf = <<>> /\ pc = "setup-reqs" /\ cur = NoCur /\ resp = <<>> /\ dropped = FALSE
ChooseReqs == /\ pc = "setup-reqs" /\ \E rs \in ReqSeqs : reqs' = rs
              /\ pc' = "setup-cuts" /\ UNCHANGED <<cuts, inbox, buf, cur, resp, dropped>>
ChooseCuts == /\ pc = "setup-cuts" /\ \E cs \in CutSets(Len(Stream(reqs)) - 1, MaxCuts) : (cuts' = cs /\ inbox' = Segments(reqs, cs))
              /\ pc' = "read" /\ UNCHANGED <<reqs, buf, cur, resp, dropped>>
MCNext == ChooseReqs \/ ChooseCuts \/ Step
MCSpec == MCInit /\ [][MCNext]_vars
\* every scenario reaches quiescence (no livelock in the loop): checked as absence of deadlock-free cycles by the bounded depth
=============================================================================
