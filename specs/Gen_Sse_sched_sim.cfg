SPECIFICATION GSpec
CONSTANTS
  MaxScript = 9
  MaxSpurious = 3
  FORWARD_WAKER = TRUE
  READY_DRAINS = TRUE
  FILTER_MODE = "none"
  CHAIN_MODE = "none"
  MODE = "sched"
  MaxTok = 0
  MaxPairTok = 0
  Toks = {}
INVARIANT Emit
CHECK_DEADLOCK FALSE
